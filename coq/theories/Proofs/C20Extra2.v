(* C20, additional theorems (2): the loaded metadata changes ONLY through the metadata calls.
   Every other public operation of the client - whatever the script, whichever way it ends, including the
   retry loops that rewrite the coordinator cache - leaves topic_partitions, hence `known`, exactly as it was.
   Together with C20Extra.C20_mcall_step this gives the quantifier "after every history" of the property its
   meaning at the level of calls: between two metadata calls the set of loaded partitions is constant, so the
   per-state theorems of Props/C20.v speak about the metadata of the last metadata call. *)
From Coq Require Import ZifyBool.
From KV Require Import Base.Prelude Gen.Consts Model.Codecs Model.Requests Model.Responses
                       Model.ClientState Model.Net Model.Client.
From KV Require Import Proofs.BytesFacts Proofs.NetFacts.
From KV Require Import Proofs.C20Facts.

Definition same_topics (s s' : st) : Prop :=
  topic_partitions (cs (cl s')) = topic_partitions (cs (cl s)).

Lemma preorder_same_topics : preorder same_topics.
Proof. split; [intros s; reflexivity|intros s s1 s2 H1 H2; unfold same_topics in *; congruence]. Qed.

Lemma conns_topics s s' : same_but_conns s s' -> same_topics s s'.
Proof. intros (_ & _ & _ & _ & _ & _ & H). unfold same_topics. rewrite H. reflexivity. Qed.
Lemma io_topics s s' : same_but_io s s' -> same_topics s s'.
Proof. intros H. apply conns_topics, same_but_io_conns, H. Qed.
Lemma cl_topics s s' : same_cl s s' -> same_topics s s'.
Proof. unfold same_cl, same_topics. intros ->. reflexivity. Qed.

Ltac kb := apply keeps_bind; [exact preorder_same_topics| |].
Ltac kconns := eapply keeps_weaken; [exact conns_topics|].
Ltac kio := eapply keeps_weaken; [exact io_topics|].

Lemma keeps_get_client_dep {A} (R : st -> st -> Prop) (f : client -> M A) :
  (forall s r s', f (cl s) s = (r, s') -> R s s') -> keeps R (mbind get_client f).
Proof. intros H s r s' E. unfold mbind, get_client in E. apply (H _ _ _ E). Qed.

Lemma set_cs_topics s0 s r s' :
  topic_partitions s0 = topic_partitions (cs (cl s)) -> set_cs s0 s = (r, s') -> same_topics s s'.
Proof. intros H E. unfold set_cs, mbind, get_client, set_client in E. injection E as _ <-. exact H. Qed.

Lemma keeps_next_corr : keeps same_topics next_corr.
Proof. intros s r s' H. rewrite next_corr_run in H. injection H as _ <-. reflexivity. Qed.

Lemma keeps_ordered {V} (reqs : list (bytes * V)) : keeps same_topics (ordered reqs).
Proof.
  intros s r s' H. unfold ordered in H. destruct reqs as [|q qs]; [injection H as _ <-; reflexivity|].
  unfold mbind, pop_hosts, ret in H. destruct (hostq s); injection H as _ <-; reflexivity.
Qed.

Lemma keeps_send_receive {A} (d : dec A) h p : keeps same_topics (send_receive d h p).
Proof. kconns. apply frame_send_receive. Qed.

Lemma keeps_fetch_exchange corr : forall reqs acc, keeps same_topics (fetch_exchange corr reqs acc).
Proof.
  pose proof preorder_same_topics as Hpre.
  induction reqs as [|[h tps] r IH]; intros acc; cbn [fetch_exchange]; [apply keeps_ret; exact Hpre|].
  kb; [apply keeps_get_client; exact Hpre|]. intros c.
  kb; [apply keeps_get_env; exact Hpre|]. intros e.
  kb; [apply keeps_get_fetch_order; exact Hpre|]. intros fo. cbv zeta.
  kb; [kconns; apply frame_get_conn|]. intros _.
  kb; [kio; apply frame_send_request|]. intros _.
  kb; [kio; apply frame_get_response_bytes|]. intros b.
  kb; [apply keeps_lift; exact Hpre|]. intros resp. apply IH.
Qed.

Lemma keeps_offsets_exchange {P V} enc (d : dec (Z * list (bytes * list P))) (conv : P -> V + Z) pid :
  forall reqs m, keeps same_topics (offsets_exchange enc d conv pid reqs m).
Proof.
  pose proof preorder_same_topics as Hpre.
  induction reqs as [|[h tps] r IH]; intros m; cbn [offsets_exchange]; [apply keeps_ret; exact Hpre|].
  kb; [apply keeps_send_receive|]. intros [c rtps].
  kb; [apply keeps_lift; exact Hpre|]. intros m'. apply IH.
Qed.

Lemma keeps_produce_exchange corr acks timeout : forall reqs acc,
  keeps same_topics (produce_exchange corr acks timeout reqs acc).
Proof.
  pose proof preorder_same_topics as Hpre.
  induction reqs as [|[h tps] r IH]; intros acc; cbn [produce_exchange]; [apply keeps_ret; exact Hpre|].
  kb; [apply keeps_get_client; exact Hpre|]. intros c.
  kb; [apply keeps_get_env; exact Hpre|]. intros e. cbv zeta.
  destruct (acks =? 0).
  - kb; [kconns; apply frame_get_conn|]. intros _.
    kb; [kio; apply frame_send_request|]. intros _. apply IH.
  - kb; [apply keeps_send_receive|]. intros [c0 rtps]. apply IH.
Qed.

Lemma keeps_group_lookup_attempt req : keeps same_topics (group_lookup_attempt req).
Proof.
  pose proof preorder_same_topics as Hpre. unfold group_lookup_attempt.
  kb; [eapply keeps_weaken; [exact cl_topics|apply frame_get_conn_any]|]. intros [h|]; [|apply keeps_mpanic; exact Hpre].
  kb; [kio; apply frame_send_request|]. intros _. kio. apply frame_get_response.
Qed.

Lemma set_group_coordinator_topics s group r :
  topic_partitions (snd (set_group_coordinator s group r)) = topic_partitions s.
Proof. unfold set_group_coordinator. destruct (find_node (brokers s) (gc_broker r) 0); reflexivity. Qed.

Lemma keeps_group_lookup_loop group req : forall fuel attempt,
  keeps same_topics (group_lookup_loop fuel group req attempt).
Proof.
  pose proof preorder_same_topics as Hpre.
  induction fuel as [|f IH]; intros attempt; cbn [group_lookup_loop]; [apply keeps_fail; exact Hpre|].
  kb; [apply keeps_group_lookup_attempt|]. intros r.
  destruct (from_protocol (gc_error r)) as [code|].
  - destruct (code =? KC_GroupCoordinatorNotAvailable); [|apply keeps_fail; exact Hpre].
    kb; [apply keeps_get_client; exact Hpre|]. intros c.
    destruct (attempt <? retry_max_attempts (cfg c)); [apply IH|apply keeps_fail; exact Hpre].
  - apply keeps_get_client_dep. intros s res s' H.
    pose proof (set_group_coordinator_topics (cs (cl s)) group r) as Ht.
    destruct (set_group_coordinator (cs (cl s)) group r) as [h s0]. cbn [snd] in Ht.
    bind_inv H u s1 H1 H2.
    + apply (set_cs_topics _ _ _ _ Ht) in H1. injection H2 as _ <-. exact H1.
    + apply (set_cs_topics _ _ _ _ Ht) in H1. exact H1.
    + apply (set_cs_topics _ _ _ _ Ht) in H1. exact H1.
Qed.

Lemma keeps_get_group_coordinator group : keeps same_topics (get_group_coordinator group).
Proof.
  pose proof preorder_same_topics as Hpre. unfold get_group_coordinator.
  kb; [apply keeps_get_client; exact Hpre|]. intros c.
  destruct (group_coordinator (cs c) group) as [h|]; [apply keeps_ret; exact Hpre|].
  kb; [apply keeps_next_corr|]. intros corr.
  apply keeps_with_fuel. intros n. apply keeps_group_lookup_loop.
Qed.

Lemma keeps_commit_loop group req : forall fuel attempt, keeps same_topics (commit_loop fuel group req attempt).
Proof.
  pose proof preorder_same_topics as Hpre.
  induction fuel as [|f IH]; intros attempt; cbn [commit_loop]; [apply keeps_fail; exact Hpre|].
  kb; [apply keeps_get_group_coordinator|]. intros h.
  kb; [apply keeps_send_receive|]. intros [c tps].
  destruct (commit_scan tps) as [|code reset|code]; [apply keeps_ret; exact Hpre| |apply keeps_fail; exact Hpre].
  apply keeps_get_client_dep. intros s r s' H.
  assert (Hfirst : forall s1 rr, (if reset then set_cs (remove_group_coordinator (cs (cl s)) group) else ret tt) s = (rr, s1)
                                 -> same_topics s s1).
  { intros s1 rr E. destruct reset; [apply (set_cs_topics (remove_group_coordinator (cs (cl s)) group) s rr s1 eq_refl) in E; exact E|].
    injection E as _ <-. reflexivity. }
  bind_inv H u s1 H1 H2; try (apply (Hfirst _ _ H1)).
  eapply (proj2 Hpre); [apply (Hfirst _ _ H1)|].
  destruct (attempt <? retry_max_attempts (cfg (cl s))); [apply (IH _ _ _ _ H2)|].
  injection H2 as _ <-. reflexivity.
Qed.

Lemma keeps_group_fetch_loop group req : forall fuel attempt, keeps same_topics (group_fetch_loop fuel group req attempt).
Proof.
  pose proof preorder_same_topics as Hpre.
  induction fuel as [|f IH]; intros attempt; cbn [group_fetch_loop]; [apply keeps_fail; exact Hpre|].
  kb; [apply keeps_get_group_coordinator|]. intros h.
  kb; [apply keeps_send_receive|]. intros [c tps].
  destruct (group_scan tps []) as [[m|[code reset]]|code]; [apply keeps_ret; exact Hpre| |apply keeps_fail; exact Hpre].
  apply keeps_get_client_dep. intros s r s' H.
  assert (Hfirst : forall s1 rr, (if reset then set_cs (remove_group_coordinator (cs (cl s)) group) else ret tt) s = (rr, s1)
                                 -> same_topics s s1).
  { intros s1 rr E. destruct reset; [apply (set_cs_topics (remove_group_coordinator (cs (cl s)) group) s rr s1 eq_refl) in E; exact E|].
    injection E as _ <-. reflexivity. }
  bind_inv H u s1 H1 H2; try (apply (Hfirst _ _ H1)).
  eapply (proj2 Hpre); [apply (Hfirst _ _ H1)|].
  destruct (attempt <? retry_max_attempts (cfg (cl s))); [apply (IH _ _ _ _ H2)|].
  injection H2 as _ <-. reflexivity.
Qed.

(* ---- the public operations ------------------------------------------------------------------------------ *)
Inductive op :=
| OpFetchOffsets (topics : list bytes) (time : Z)
| OpListOffsets (topics : list bytes) (time : Z)
| OpFetchTopicOffsets (topic : bytes) (time : Z)
| OpFetchMessages (input : list fetch_partition)
| OpProduce (acks : Z) (ack_timeout : Z * Z) (msgs : list produce_message)
| OpCommit (group : bytes) (os : list commit_offset)
| OpGroupFetch (group : bytes) (args : list (bytes * Z))
| OpGroupTopic (group topic : bytes).

Definition run_op (o : op) : M unit :=
  match o with
  | OpFetchOffsets topics time => let+ _ := fetch_offsets topics time in ret tt
  | OpListOffsets topics time => let+ _ := list_offsets topics time in ret tt
  | OpFetchTopicOffsets topic time => let+ _ := fetch_topic_offsets topic time in ret tt
  | OpFetchMessages input => let+ _ := fetch_messages input in ret tt
  | OpProduce acks t msgs => let+ _ := produce_messages acks t msgs in ret tt
  | OpCommit group os => commit_offsets group os
  | OpGroupFetch group args => let+ _ := fetch_group_offsets group args in ret tt
  | OpGroupTopic group topic => let+ _ := fetch_group_topic_offset group topic in ret tt
  end.

Lemma keeps_fetch_offsets topics time : keeps same_topics (fetch_offsets topics time).
Proof.
  pose proof preorder_same_topics as Hpre. unfold fetch_offsets.
  kb; [apply keeps_next_corr|]. intros corr. kb; [apply keeps_get_client; exact Hpre|]. intros c.
  kb; [apply keeps_ordered|]. intros reqs. apply keeps_offsets_exchange.
Qed.

Lemma keeps_list_offsets topics time : keeps same_topics (list_offsets topics time).
Proof.
  pose proof preorder_same_topics as Hpre. unfold list_offsets.
  kb; [apply keeps_next_corr|]. intros corr. kb; [apply keeps_get_client; exact Hpre|]. intros c.
  kb; [apply keeps_ordered|]. intros reqs. apply keeps_offsets_exchange.
Qed.

Lemma keeps_fetch_messages input : keeps same_topics (fetch_messages input).
Proof.
  pose proof preorder_same_topics as Hpre. unfold fetch_messages.
  kb; [apply keeps_next_corr|]. intros corr. kb; [apply keeps_get_client; exact Hpre|]. intros c.
  kb; [apply keeps_ordered|]. intros reqs. apply keeps_fetch_exchange.
Qed.

Lemma keeps_produce_messages acks t msgs : keeps same_topics (produce_messages acks t msgs).
Proof.
  pose proof preorder_same_topics as Hpre. unfold produce_messages, internal_produce_messages.
  kb; [apply keeps_lift; exact Hpre|]. intros tm.
  kb; [apply keeps_next_corr|]. intros corr. kb; [apply keeps_get_client; exact Hpre|]. intros c.
  destruct (produce_reqs (cs c) msgs []) as [reqs|]; [|apply keeps_fail; exact Hpre].
  kb; [apply keeps_ordered|]. intros reqs'. apply keeps_produce_exchange.
Qed.

Lemma keeps_commit_offsets group os : keeps same_topics (commit_offsets group os).
Proof.
  pose proof preorder_same_topics as Hpre. unfold commit_offsets.
  kb; [apply keeps_get_client; exact Hpre|]. intros c.
  destruct (offset_storage (cfg c) <? 0); [apply keeps_fail; exact Hpre|].
  kb; [apply keeps_next_corr|]. intros corr.
  destruct (commit_tps (cs c) os []) as [[|tp tps]|]; [apply keeps_ret; exact Hpre| |apply keeps_fail; exact Hpre].
  apply keeps_with_fuel. intros n. apply keeps_commit_loop.
Qed.

Lemma keeps_fetch_group_offsets group args : keeps same_topics (fetch_group_offsets group args).
Proof.
  pose proof preorder_same_topics as Hpre. unfold fetch_group_offsets.
  kb; [apply keeps_get_client; exact Hpre|]. intros c.
  destruct (offset_storage (cfg c) <? 0); [apply keeps_fail; exact Hpre|].
  kb; [apply keeps_next_corr|]. intros corr.
  destruct (group_fetch_tps (cs c) args []) as [tps|]; [|apply keeps_fail; exact Hpre].
  apply keeps_with_fuel. intros n. apply keeps_group_fetch_loop.
Qed.

Lemma keeps_fetch_group_topic_offset group topic : keeps same_topics (fetch_group_topic_offset group topic).
Proof.
  pose proof preorder_same_topics as Hpre. unfold fetch_group_topic_offset.
  kb; [apply keeps_get_client; exact Hpre|]. intros c.
  destruct (offset_storage (cfg c) <? 0); [apply keeps_fail; exact Hpre|].
  kb; [apply keeps_next_corr|]. intros corr.
  destruct (partitions_for (cs c) topic) as [ps|]; [|apply keeps_fail; exact Hpre]. cbv zeta.
  kb; [apply keeps_with_fuel; intros n; apply keeps_group_fetch_loop|]. intros m. apply keeps_ret; exact Hpre.
Qed.

(* No operation other than the metadata calls changes what is loaded: on every script, with every outcome. *)
Theorem C20_only_metadata_calls_change_metadata : forall o x r x',
  run_op o x = (r, x') ->
  topic_partitions (cs (cl x')) = topic_partitions (cs (cl x))
  /\ (forall t p, known (cs (cl x')) t p <-> known (cs (cl x)) t p).
Proof.
  intros o x r x' H.
  assert (Hs : same_topics x x').
  { pose proof preorder_same_topics as Hpre. revert H.
    assert (Hk : keeps same_topics (run_op o)); [|intros H; apply (Hk _ _ _ H)].
    destruct o; cbn [run_op].
    - kb; [apply keeps_fetch_offsets|]. intros _. apply keeps_ret; exact Hpre.
    - kb; [apply keeps_list_offsets|]. intros _. apply keeps_ret; exact Hpre.
    - kb; [|intros _; apply keeps_ret; exact Hpre]. unfold fetch_topic_offsets.
      kb; [apply keeps_fetch_offsets|]. intros m.
      destruct (assoc_bytes topic m) as [[|v vs]|]; [apply keeps_fail|apply keeps_ret|apply keeps_fail]; exact Hpre.
    - kb; [apply keeps_fetch_messages|]. intros _. apply keeps_ret; exact Hpre.
    - kb; [apply keeps_produce_messages|]. intros _. apply keeps_ret; exact Hpre.
    - apply keeps_commit_offsets.
    - kb; [apply keeps_fetch_group_offsets|]. intros _. apply keeps_ret; exact Hpre.
    - kb; [apply keeps_fetch_group_topic_offset|]. intros _. apply keeps_ret; exact Hpre. }
  split; [exact Hs|]. intros t p. unfold known, partitions_for. unfold same_topics in Hs. rewrite Hs. reflexivity.
Qed.

(* non-vacuity: a commit that looks the coordinator up (answer: node 12 at h9:9092, a broker the metadata does
   not list), connects to it and sends the commit, after which the script ends: the coordinator cache, the broker
   list, the correlation counter and the trace all changed - the loaded topics did not *)
Definition x2_gresp : bytes := enc_i32 9 ++ enc_i16 0 ++ enc_i32 12 ++ enc_i16 2 ++ tag "h9" ++ enc_i32 9092.
Definition x2_st : st :=
  {| script := [OWrote 1000; OData (enc_i32 (ulen x2_gresp)); OData x2_gresp; OConn true; OWrote 1000];
     trace := []; anyq := []; hostq := []; fetchq := []; entryq := [];
     cl := {| cfg := c20_cfg 1; cs := c20_state; conns := [tag "h0:9092"] |}; env := c20_env |}.
Example C20_only_metadata_calls_ex :
  let x' := snd (run_op (OpCommit (tag "g") [c20_co (tag "t1") 3 5]) x2_st) in
  fst (run_op (OpCommit (tag "g") [c20_co (tag "t1") 3 5]) x2_st) = Err EOutOfScript
  /\ length (trace x') = 6%nat /\ length (brokers (cs (cl x'))) = 3%nat
  /\ group_coordinators (cs (cl x')) = [(tag "g", 2)] /\ correlation (cs (cl x')) = 9
  /\ topic_partitions (cs (cl x')) = topic_partitions c20_state.
Proof. vm_compute. repeat split; reflexivity. Qed.

Print Assumptions C20_only_metadata_calls_change_metadata.
