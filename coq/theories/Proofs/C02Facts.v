(* C02  "Fetch decoding yields a gap-free run of complete messages from the asked offset"

   Broker side: Spec/MsgSetSpec.v (`ser comp es`, any truncation `firstn k`).
   Client side: Model/Responses.v (`from_slice`).

   What is proved (for both values of `debug_build cz` and of `validate`):
   - C02_plain_prefix      uncompressed sets: ALL complete messages >= req, for every cut k.   FULL
   - C02_wrapper_first/_cut, C02_nested_first, C02_chain (any nesting depth)                 FULL
   - C02_outside_known     every set outside the class `Known` (F13)                           FULL
   - C02_nonempty_*        non-emptiness relative to the FIRST complete batch                  FULL
   - C02_safe_always       for EVERY well-formed set (also the `Known` ones): decoding
                           succeeds and exposes an in-order sublist of the complete messages
                           >= req, byte-identical (no error, no panic, nothing partial)        FULL
   What is false for the model and refuted with concrete witnesses:
   - C02_full_refuted      "gap-free prefix / all of them": a wrapper behind a plain entry
                           makes the decoder drop what it collected (fetch.rs:421-431, F13)
   - C02_nonempty_refuted  "non-empty whenever a complete qualifying message exists": entries
                           behind a head wrapper are never read. *)
From KV Require Import Base.Prelude Base.Crc32 Base.Snappy Gen.Consts
                       Model.Codecs Model.Requests Model.Responses
                       Spec.MsgSetSpec Proofs.BytesFacts Proofs.C02Lemmas.
From KV Require Proofs.SnappyFacts.
From Coq Require Import ZifyBool.

Section C02.
  Variable comp : Z -> bytes -> bytes.

  Ltac fold_qual req :=
    change (fun x : Z * bytes * bytes => req <=? fst (fst x)) with (qual req) in *.

  (* ---- uncompressed sets ------------------------------------------------- *)

  (* ALL complete messages >= req, in log order, byte-identical, for every truncation
     point k; the truncated tail is dropped silently *)
  Theorem C02_plain_prefix : forall cz d validate req es k,
    all_plain es -> wf_entries comp es ->
    from_slice cz (S d) validate req (firstn k (ser comp es))
    = Ok (map msg_of (filter (fun x => req <=? fst (fst x)) (flatten (complete_prefix comp es k)))).
  Proof. intros. fold_qual req. apply from_slice_plain; assumption. Qed.

  (* ---- a compressed batch at the head -------------------------------------- *)

  (* exactly the first batch: a gap-free prefix of the complete messages >= req.
     `rest` is arbitrary (not even well-formedness is needed: it is never read). *)
  Theorem C02_wrapper_first : forall cz d validate req c off inner rest k,
    codec_ok cz comp -> (c = 1 \/ c = 2) -> all_plain inner ->
    wf_entry comp (Wrapper c off inner) ->
    (length (ser_entry comp (Wrapper c off inner)) <= k)%nat ->
    from_slice cz (S (S d)) validate req (firstn k (ser comp (Wrapper c off inner :: rest)))
    = Ok (map msg_of (filter (fun x => req <=? fst (fst x)) (flatten inner))).
  Proof.
    intros cz d validate req c off inner rest k Hc _ Hp Hwf Hk. fold_qual req.
    rewrite from_slice_wrapper_head by assumption.
    rewrite <- (firstn_all (ser comp inner)).
    rewrite from_slice_plain; [|assumption|apply wf_entry_wrapper in Hwf; tauto].
    rewrite complete_prefix_all by lia. reflexivity.
  Qed.

  (* a cut anywhere inside the first batch: nothing, and no error *)
  Theorem C02_wrapper_cut : forall cz d validate req c off inner rest k,
    wf_entry comp (Wrapper c off inner) ->
    (k < length (ser_entry comp (Wrapper c off inner)))%nat ->
    from_slice cz (S d) validate req (firstn k (ser comp (Wrapper c off inner :: rest))) = Ok [].
  Proof. intros. apply from_slice_wrapper_cut; assumption. Qed.

  (* two levels *)
  Theorem C02_nested_first : forall cz d validate req c off c' off' inner' rest' rest k,
    codec_ok cz comp -> all_plain inner' ->
    wf_entry comp (Wrapper c off (Wrapper c' off' inner' :: rest')) ->
    (length (ser_entry comp (Wrapper c off (Wrapper c' off' inner' :: rest'))) <= k)%nat ->
    from_slice cz (S (S (S d))) validate req
               (firstn k (ser comp (Wrapper c off (Wrapper c' off' inner' :: rest') :: rest)))
    = Ok (map msg_of (filter (fun x => req <=? fst (fst x)) (flatten inner'))).
  Proof.
    intros cz d validate req c off c' off' inner' rest' rest k Hc Hp Hwf Hk.
    rewrite from_slice_wrapper_head by assumption.
    apply wf_entry_wrapper in Hwf. destruct Hwf as [_ [_ [_ [_ Hin]]]].
    inversion Hin as [|x l Hw' Hr']; subst.
    rewrite <- (firstn_all (ser comp (Wrapper c' off' inner' :: rest'))).
    apply C02_wrapper_first; try assumption.
    - apply wf_entry_wrapper in Hw'. tauto.
    - rewrite ser_cons, app_length. lia.
  Qed.

  (* any depth: sets reached by following head wrappers down to an uncompressed set *)
  Theorem C02_chain : forall cz fuel validate req es k,
    codec_ok cz comp -> first_chain es -> wf_entries comp es -> (depth es < fuel)%nat ->
    from_slice cz fuel validate req (firstn k (ser comp es))
    = Ok (map msg_of (filter (fun x => req <=? fst (fst x)) (chain_msgs comp es k))).
  Proof. intros. fold_qual req. apply from_slice_chain; assumption. Qed.

  (* the general statement outside the class with the known defect *)
  Theorem C02_outside_known : forall cz fuel validate req es k,
    codec_ok cz comp -> ~ Known es -> wf_entries comp es -> (depth es < fuel)%nat ->
    from_slice cz fuel validate req (firstn k (ser comp es))
    = Ok (map msg_of (filter (fun x => req <=? fst (fst x)) (chain_msgs comp es k)))
    /\ exists t, filter (fun x => req <=? fst (fst x)) (flatten (complete_prefix comp es k))
                 = filter (fun x => req <=? fst (fst x)) (chain_msgs comp es k) ++ t.
  Proof.
    intros cz fuel validate req es k Hc HK Hwf Hd. split.
    - apply C02_chain; try assumption. apply not_Known_first_chain. assumption.
    - destruct (chain_msgs_prefix comp es k) as [t Ht]. rewrite Ht, filter_app. eauto.
  Qed.

  (* ---- non-emptiness ---------------------------------------------------------- *)

  Lemma filter_nonempty {A} (f : A -> bool) l x :
    In x l -> f x = true -> exists y ys, filter f l = y :: ys.
  Proof.
    intros Hin Hf. destruct (filter f l) as [|y ys] eqn:E; [|eauto].
    assert (H : In x (filter f l)) by (apply filter_In; auto). rewrite E in H. destruct H.
  Qed.

  Theorem C02_nonempty_plain : forall cz d validate req es k x,
    all_plain es -> wf_entries comp es ->
    In x (flatten (complete_prefix comp es k)) -> req <= fst (fst x) ->
    exists m ms, from_slice cz (S d) validate req (firstn k (ser comp es)) = Ok (m :: ms).
  Proof.
    intros cz d validate req es k x Hp Hwf Hin Hq.
    rewrite C02_plain_prefix by assumption.
    destruct (filter_nonempty (fun x => req <=? fst (fst x)) _ x Hin) as [y [ys E]]; [lia|].
    rewrite E. cbn [map]. eauto.
  Qed.

  Theorem C02_nonempty_wrapper : forall cz d validate req c off inner rest k x,
    codec_ok cz comp -> all_plain inner -> wf_entry comp (Wrapper c off inner) ->
    (length (ser_entry comp (Wrapper c off inner)) <= k)%nat ->
    In x (flatten inner) -> req <= fst (fst x) ->
    exists m ms,
      from_slice cz (S (S d)) validate req (firstn k (ser comp (Wrapper c off inner :: rest)))
      = Ok (m :: ms).
  Proof.
    intros cz d validate req c off inner rest k x Hc Hp Hwf Hk Hin Hq.
    rewrite C02_wrapper_first; try assumption.
    2:{ apply wf_entry_wrapper in Hwf. tauto. }
    destruct (filter_nonempty (fun x => req <=? fst (fst x)) _ x Hin) as [y [ys E]]; [lia|].
    rewrite E. cbn [map]. eauto.
  Qed.

  (* ---- what holds for EVERY well-formed set ---------------------------------------- *)

  Lemma rev_map_snoc pre (x : Z * bytes * bytes) :
    rev (map msg_of (pre ++ [x])) = msg_of x :: rev (map msg_of pre).
  Proof. rewrite map_app, rev_app_distr. reflexivity. Qed.

  Lemma ms_loop_safe cz validate req d :
    codec_ok cz comp ->
    (forall es k, wf_entries comp es -> (depth es < d)%nat ->
       exists ms, from_slice cz d validate req (firstn k (ser comp es)) = Ok (map msg_of ms)
                  /\ subseq ms (filter (qual req) (flatten (complete_prefix comp es k)))) ->
    forall es k fuel pre,
      wf_entries comp es -> (depth es <= d)%nat ->
      (length (firstn k (ser comp es)) < fuel)%nat ->
      exists ms,
        ms_loop (inner_of cz d validate req) (debug_build cz) validate req fuel
                (firstn k (ser comp es)) (rev (map msg_of pre)) = Ok (map msg_of ms)
        /\ subseq ms (pre ++ filter (qual req) (flatten (complete_prefix comp es k))).
  Proof.
    intros Hc Hrec. induction es as [|e r IH]; intros k fuel pre Hwf Hd Hfuel.
    - exists pre. unfold ser. cbn [flat_map]. rewrite firstn_nil, ms_loop_nil, rev_involutive.
      split; [reflexivity|]. apply subseq_app_r, subseq_refl.
    - inversion Hwf as [|x l Hwe Hwr]; subst.
      destruct fuel as [|f]; [lia|].
      rewrite depth_cons in Hd.
      cbn [complete_prefix].
      destruct (Nat.leb (length (ser_entry comp e)) k) eqn:E.
      + apply Nat.leb_le in E.
        destruct e as [o key v|c o inner].
        * destruct Hwe as [Ho Hf].
          rewrite ser_cons in *. rewrite firstn_app_ge in * by exact E.
          rewrite app_length in Hfuel.
          rewrite (ms_loop_plain_step _ _ _ _ f _ _ o (view_opt key) (view_opt v)
                     (firstn (k - length (ser_entry comp (Plain o key v))) (ser comp r))).
          2:{ apply ser_entry_nonempty. }
          2:{ rewrite ser_entry_plain. apply next_message_complete; try assumption.
              unfold in_i8. lia. }
          rewrite flatten_cons. cbn [flatten_entry app filter].
          change (qual req (o, view_opt key, view_opt v)) with (req <=? o).
          pose proof (ser_entry_length_pos comp (Plain o key v)) as Hpos.
          destruct (req <=? o).
          -- change ({| m_offset := o; m_key := view_opt key; m_value := view_opt v |})
               with (msg_of (o, view_opt key, view_opt v)).
             rewrite <- rev_map_snoc.
             destruct (IH (k - length (ser_entry comp (Plain o key v)))%nat f
                          (pre ++ [(o, view_opt key, view_opt v)])) as [ms [H1 H2]];
               [assumption|lia|lia|].
             exists ms. split; [exact H1|]. rewrite <- app_assoc in H2. exact H2.
          -- apply IH; [assumption|lia|lia].
        * rewrite depth_entry_wrapper in Hd.
          pose proof Hwe as Hwe'. apply wf_entry_wrapper in Hwe'.
          destruct Hwe' as [Hcc [Ho [Hf [Hal Hin]]]].
          rewrite ser_cons, firstn_app_ge by exact E.
          rewrite (ms_loop_wrapper_step _ _ _ _ _ _ _ o c [] (comp c (ser comp inner))
                     (firstn (k - length (ser_entry comp (Wrapper c o inner))) (ser comp r))).
          2:{ apply ser_entry_nonempty. }
          2:{ assumption. }
          2:{ rewrite ser_entry_wrapper.
              rewrite next_message_complete; try assumption; [reflexivity|].
              unfold in_i8. destruct Hcc; lia. }
          rewrite inner_of_comp by assumption.
          destruct (Hrec inner (length (ser comp inner)) Hin) as [ms [H1 H2]]; [lia|].
          rewrite firstn_all in H1. rewrite complete_prefix_all in H2 by lia.
          exists ms. split; [exact H1|].
          rewrite flatten_cons, flatten_entry_wrapper, filter_app.
          apply subseq_app_l, subseq_app_r. exact H2.
      + apply Nat.leb_gt in E. rewrite ms_loop_cut by assumption.
        exists pre. rewrite rev_involutive. split; [reflexivity|].
        apply subseq_app_r, subseq_refl.
  Qed.

  (* Every well-formed set, including those of class `Known`, any truncation point: decoding
     succeeds (no error, no panic, no fuel problem) and exposes an in-order sublist of the
     complete messages at or above the requested offset, each byte-identical to what was stored. *)
  Theorem C02_safe_always : forall cz validate req,
    codec_ok cz comp ->
    forall fuel es k, wf_entries comp es -> (depth es < fuel)%nat ->
    exists ms,
      from_slice cz fuel validate req (firstn k (ser comp es)) = Ok (map msg_of ms)
      /\ subseq ms (filter (fun x => req <=? fst (fst x)) (flatten (complete_prefix comp es k))).
  Proof.
    intros cz validate req Hc. fold_qual req.
    induction fuel as [|d IH]; intros es k Hwf Hd; [lia|].
    rewrite from_slice_S.
    destruct (ms_loop_safe cz validate req d Hc IH es k
                (S (length (firstn k (ser comp es)))) [] Hwf) as [ms [H1 H2]]; [lia|lia|].
    exists ms. split; assumption.
  Qed.

  Lemma subseq_Forall {A} (P : A -> Prop) (a b : list A) : subseq a b -> Forall P b -> Forall P a.
  Proof.
    intros H. induction H; intros HF; [constructor| |].
    - inversion HF; subst. constructor; auto.
    - inversion HF; subst. auto.
  Qed.

  (* corollaries: offsets, order, origin *)
  Theorem C02_in_order_and_bounds : forall cz validate req fuel es k out,
    codec_ok cz comp -> wf_entries comp es -> (depth es < fuel)%nat ->
    from_slice cz fuel validate req (firstn k (ser comp es)) = Ok out ->
    (forall m, In m out -> req <= m_offset m)
    /\ exists ms, out = map msg_of ms /\ subseq ms (flatten es).
  Proof.
    intros cz validate req fuel es k out Hc Hwf Hd Hout.
    destruct (C02_safe_always cz validate req Hc fuel es k Hwf Hd) as [ms [H1 H2]].
    rewrite H1 in Hout. inversion Hout; subst out. clear Hout. split.
    - intros m Hm. apply in_map_iff in Hm. destruct Hm as [x [<- Hx]].
      assert (HF : Forall (fun x => req <= fst (fst x)) ms).
      { eapply subseq_Forall; [exact H2|]. apply Forall_forall. intros y Hy.
        apply filter_In in Hy. destruct Hy as [_ Hy]. lia. }
      rewrite Forall_forall in HF. apply HF. assumption.
    - exists ms. split; [reflexivity|].
      eapply subseq_trans; [exact H2|].
      eapply subseq_trans; [apply subseq_filter|].
      destruct (complete_prefix_is_prefix comp es k) as [t Ht].
      rewrite Ht at 2. rewrite flatten_app. apply subseq_app_r, subseq_refl.
  Qed.

End C02.

(* ====================================================================== *)
(* a concrete compressor satisfying codec_ok                               *)
(* ====================================================================== *)

(* gzip: identity (the decompressor oracle is `Some`); snappy: one xerial chunk of literals *)
Definition wcomp (c : Z) (x : bytes) : bytes :=
  if c =? 2 then xerial_frame [snappy_lit_compress x] else x.

Definition wcz (dbg : bool) : codecs :=
  {| gz_compress := fun x => x; sn_compress := fun x => x;
     gz_decompress := fun x => Some x; debug_build := dbg |}.

Lemma validate_stream_header data : validate_stream (xerial_header ++ data) = Ok data.
Proof.
  unfold xerial_header. rewrite <- !app_assoc. unfold validate_stream.
  rewrite app_length. change (length xerial_magic) with 8%nat.
  destruct (Nat.ltb (8 + length (enc_i32 1 ++ enc_i32 1 ++ data)) 8) eqn:E;
    [apply Nat.ltb_lt in E; lia|].
  rewrite firstn_app_exact by reflexivity. rewrite bytes_eqb_refl. cbn [negb].
  rewrite skipn_app_exact by reflexivity.
  rewrite zread_i32_app by (unfold in_i32; lia). cbn [bind].
  change (negb (1 =? 1)) with false. cbv iota.
  rewrite zread_i32_app by (unfold in_i32; lia). cbn [bind].
  reflexivity.
Qed.

Lemma xerial_loop_chunk f data out mx cs r out' :
  data <> [] -> zread_i32 data = Ok (cs, r) -> 0 < cs -> cs <= Z.of_nat (length r) ->
  uncompress_to (firstn (Z.to_nat cs) r) out = Some out' ->
  xerial_loop (S f) data out mx
  = xerial_loop f (skipn (Z.to_nat cs) r) out'
                (Z.max mx (uncompress_alloc (firstn (Z.to_nat cs) r) out)).
Proof.
  intros Hne Hz H0 H1 Hu. destruct data as [|b data]; [congruence|].
  cbn [xerial_loop]. rewrite Hz.
  destruct (cs <=? 0) eqn:E0; [lia|].
  destruct (Z.of_nat (length r) <? cs) eqn:E1; [lia|].
  cbv zeta. rewrite Hu. reflexivity.
Qed.

Lemma xerial_loop_nil f out mx : xerial_loop f [] out mx = (Ok out, mx).
Proof. destruct f; reflexivity. Qed.

Lemma xerial_single_chunk (C x : bytes) :
  (0 < length C)%nat -> Z.of_nat (length C) <= i32_max -> uncompress_to C [] = Some x ->
  xerial_run (xerial_frame [C]) = (Ok x, Z.max 0 (uncompress_alloc C [])).
Proof.
  intros Hpos Hmax Hu. unfold xerial_run, xerial_frame. cbn [flat_map]. rewrite app_nil_r.
  rewrite validate_stream_header.
  assert (EC : firstn (Z.to_nat (Z.of_nat (length C))) C = C) by (rewrite Nat2Z.id; apply firstn_all).
  assert (ES : skipn (Z.to_nat (Z.of_nat (length C))) C = []) by (rewrite Nat2Z.id; apply skipn_all).
  rewrite app_length, enc_i32_length. cbn [plus].
  rewrite (xerial_loop_chunk _ _ _ _ (Z.of_nat (length C)) C x).
  - rewrite ES, EC. apply xerial_loop_nil.
  - intros H. apply (f_equal (@length byte)) in H. rewrite app_length, enc_i32_length in H.
    cbn [length] in H. lia.
  - apply zread_i32_app. unfold in_i32, i32_max in *. lia.
  - lia.
  - lia.
  - rewrite EC. exact Hu.
Qed.

Lemma varint_enc_length f n : (length (varint_enc f n) <= f)%nat.
Proof.
  revert n. induction f as [|f IH]; intros n; cbn [varint_enc]; [cbn [length]; lia|].
  destruct (n <? 128); cbn [length]; [lia|]. specialize (IH (n / 128)). lia.
Qed.

Lemma lit_chunks_length f : forall src,
  (60 * length (lit_chunks f src) <= 61 * length src + 59)%nat.
Proof.
  induction f as [|f IH]; intros src; [cbn [lit_chunks length]; lia|].
  destruct src as [|b s]; [cbn [lit_chunks length]; lia|].
  remember (b :: s) as src eqn:Es.
  assert (Hne : (1 <= length src)%nat) by (subst src; cbn [length]; lia).
  assert (Hc : lit_chunks (S f) src =
               bZ ((Z.of_nat (length (firstn 60 src)) - 1) * 4)
                  :: firstn 60 src ++ lit_chunks f (skipn 60 src))
    by (subst src; reflexivity).
  rewrite Hc. cbn [length]. rewrite app_length.
  specialize (IH (skipn 60 src)). rewrite skipn_length in IH.
  rewrite firstn_length. lia.
Qed.

Lemma lit_decompress_len x : Z.of_nat (length x) <= u32_max ->
  snappy_decompress_len_Z (snappy_lit_compress x) = Some (Z.of_nat (length x)).
Proof.
  intros Hx. unfold snappy_decompress_len_Z.
  destruct (snappy_lit_compress x) as [|b0 l0] eqn:E.
  { unfold snappy_lit_compress in E. apply app_eq_nil in E. destruct E as [E _].
    apply SnappyFacts.varint_enc_nonempty in E. contradiction. }
  rewrite <- E. unfold snappy_lit_compress, snappy_header.
  rewrite SnappyFacts.varint_roundtrip.
  - rewrite Z.mul_1_r, Z.add_0_l.
    destruct (Z.of_nat (length x) >? u32_max) eqn:E1; [lia|reflexivity].
  - change (2 ^ (7 * Z.of_nat 5)) with 34359738368. unfold u32_max in Hx. lia.
  - lia.
Qed.

(* what the snappy path of the model does on the witness compressor's output: the largest
   allocation request is the decompressed length *)
Lemma wcomp_run x : Z.of_nat (length x) <= 1073741824 ->
  xerial_run (wcomp 2 x) = (Ok x, Z.of_nat (length x)).
Proof.
  intros Hx. unfold wcomp. change (2 =? 2) with true. cbv iota.
  assert (Hu : Z.of_nat (length x) <= u32_max) by (unfold u32_max; lia).
  rewrite (xerial_single_chunk (snappy_lit_compress x) x).
  - f_equal. unfold uncompress_alloc. rewrite lit_decompress_len by exact Hu.
    cbn [length]. destruct (Z.of_nat (length x) >? 0) eqn:E0; lia.
  - unfold snappy_lit_compress. rewrite app_length.
    pose proof (SnappyFacts.varint_enc_nonempty 4 (Z.of_nat (length x))) as Hne.
    destruct (varint_enc 5 (Z.of_nat (length x))); [congruence|cbn [length]; lia].
  - unfold snappy_lit_compress. rewrite app_length.
    pose proof (varint_enc_length 5 (Z.of_nat (length x))) as H5.
    pose proof (lit_chunks_length (length x) x) as HL.
    unfold i32_max. lia.
  - rewrite SnappyFacts.uncompress_to_lit by exact Hu. reflexivity.
Qed.

Theorem wcomp_codec_ok dbg : codec_ok (wcz dbg) wcomp.
Proof.
  split; [intros x; reflexivity|].
  intros x Hx. unfold alloc_limit in *. change (2 ^ 30) with 1073741824 in *. unfold blen in Hx.
  unfold xerial_read_to_end, xerial_max_alloc. rewrite wcomp_run by lia. cbn [fst snd].
  split; [reflexivity|lia].
Qed.

(* Why the snappy clause of codec_ok carries `blen x < alloc_limit` (and wf_entry the matching
   bound on snappy batches): at 2^30 bytes the clause fails for this compressor, and for the same
   reason (the request of the last non-empty chunk is the total decompressed length) for any
   other one, so the unrestricted definition would make every theorem vacuous. *)
Lemma codec_ok_needs_bound : forall x, blen x = alloc_limit ->
  xerial_read_to_end (wcomp 2 x) = Ok x /\ xerial_max_alloc (wcomp 2 x) = alloc_limit.
Proof.
  intros x Hx. unfold alloc_limit in *. change (2 ^ 30) with 1073741824 in *. unfold blen in Hx.
  unfold xerial_read_to_end, xerial_max_alloc. rewrite wcomp_run by lia. cbn [fst snd].
  split; [reflexivity|lia].
Qed.

(* ====================================================================== *)
(* examples (non-vacuity) and refutations                                  *)
(* ====================================================================== *)

Ltac wf_tac :=
  unfold wf_entries; repeat (apply Forall_cons || apply Forall_nil);
  vm_compute; repeat split;
  try (let H := fresh in intros H; discriminate H);
  try (left; reflexivity); try (right; reflexivity).

Ltac plain_tac :=
  let e := fresh in let H := fresh in
  intros e H; cbn [In] in H;
  repeat (destruct H as [H|H]; [subst e; eauto|]); destruct H.

(* three messages: 27 + 29 + 26 = 82 bytes *)
Definition es3 : list entry :=
  [Plain 0 None (Some [x61]); Plain 1 (Some [x6b]) (Some [x62; x62]); Plain 2 None None].

Definition m1 : message := {| m_offset := 1; m_key := [x6b]; m_value := [x62; x62] |}.
Definition m2 : message := {| m_offset := 2; m_key := []; m_value := [] |}.

Example es3_plain : all_plain es3.            Proof. plain_tac. Qed.
Example es3_wf : wf_entries wcomp es3.        Proof. wf_tac. Qed.
Example es3_lengths : map (fun e => length (ser_entry wcomp e)) es3 = [27; 29; 26]%nat.
Proof. vm_compute. reflexivity. Qed.

(* C02_plain_prefix: cut before the first header is complete, inside the first entry,
   exactly between entries, inside the second, inside the last (silently dropped), none *)
Example C02_plain_prefix_ex :
  map (fun k => from_slice (wcz true) 1 true 1 (firstn k (ser wcomp es3)))
      [0; 11; 26; 27; 40; 56; 70; 81; 82; 100]%nat
  = [Ok []; Ok []; Ok []; Ok []; Ok []; Ok [m1]; Ok [m1]; Ok [m1]; Ok [m1; m2]; Ok [m1; m2]].
Proof. vm_compute. reflexivity. Qed.

Example C02_plain_prefix_ex_rhs :
  map (fun k => map msg_of (filter (fun x => 1 <=? fst (fst x))
                                   (flatten (complete_prefix wcomp es3 k))))
      [0; 11; 26; 27; 40; 56; 70; 81; 82; 100]%nat
  = [[]; []; []; []; []; [m1]; [m1]; [m1]; [m1; m2]; [m1; m2]].
Proof. vm_compute. reflexivity. Qed.

(* the key lemma on a concrete entry: all 29 strict prefixes, CRC validation on, debug on *)
Example next_message_strict_prefix_ex :
  forallb (fun k => match next_message true true
                            (firstn k (ser_entry wcomp (Plain 1 (Some [x6b]) (Some [x62; x62])))) with
                    | Err EUnexpectedEOF => true | _ => false end)
          (seq 0 29) = true.
Proof. vm_compute. reflexivity. Qed.

Example next_message_complete_ex :
  next_message true true (ser_message 1 0 (Some [x6b]) (Some [x62; x62]) ++ [xff])
  = Ok (1, (0, [x6b], [x62; x62]), [xff]).
Proof. vm_compute. reflexivity. Qed.

(* a gzip-style batch (identity compression) of es3 followed by a plain message *)
Definition es_gz : list entry := [Wrapper 1 2 es3; Plain 3 None (Some [x63])].
(* the same with the snappy/xerial codec *)
Definition es_sn : list entry := [Wrapper 2 2 es3; Plain 3 None (Some [x63])].
(* gzip around snappy around es3 *)
Definition es_nest : list entry := [Wrapper 1 2 [Wrapper 2 2 es3]; Plain 3 None (Some [x63])].

Example es_gz_wf : wf_entries wcomp es_gz.     Proof. wf_tac. Qed.
Example es_sn_wf : wf_entries wcomp es_sn.     Proof. wf_tac. Qed.
Example es_nest_wf : wf_entries wcomp es_nest. Proof. wf_tac. Qed.
Example es_gz_lengths :
  (length (ser_entry wcomp (Wrapper 1 2 es3)), length (ser_entry wcomp (Wrapper 2 2 es3)),
   length (ser_entry wcomp (Wrapper 1 2 [Wrapper 2 2 es3]))) = (108, 131, 157)%nat.
Proof. vm_compute. reflexivity. Qed.

(* C02_wrapper_first / C02_wrapper_cut: complete batch -> its messages >= 1 (and NOT message 3,
   which is complete and qualifies: the decoder never reads behind the wrapper); cut -> nothing *)
Example C02_wrapper_first_ex :
  map (fun k => from_slice (wcz true) 2 true 1 (firstn k (ser wcomp es_gz))) [108; 120; 135; 200]%nat
  = [Ok [m1; m2]; Ok [m1; m2]; Ok [m1; m2]; Ok [m1; m2]]
  /\ map (fun k => from_slice (wcz true) 2 true 1 (firstn k (ser wcomp es_sn))) [131; 160; 200]%nat
     = [Ok [m1; m2]; Ok [m1; m2]; Ok [m1; m2]].
Proof. vm_compute. split; reflexivity. Qed.

Example C02_wrapper_cut_ex :
  map (fun k => from_slice (wcz true) 2 true 1 (firstn k (ser wcomp es_gz))) [0; 5; 12; 60; 107]%nat
  = [Ok []; Ok []; Ok []; Ok []; Ok []]
  /\ map (fun k => from_slice (wcz true) 2 true 1 (firstn k (ser wcomp es_sn))) [0; 30; 130]%nat
     = [Ok []; Ok []; Ok []].
Proof. vm_compute. split; reflexivity. Qed.

Example C02_nested_first_ex :
  map (fun k => from_slice (wcz true) 3 true 1 (firstn k (ser wcomp es_nest))) [156; 157; 300]%nat
  = [Ok []; Ok [m1; m2]; Ok [m1; m2]].
Proof. vm_compute. split; reflexivity. Qed.

(* first_chain / ~Known / chain_msgs on the nested example *)
Lemma all_plain_not_Known es : all_plain es -> ~ Known es.
Proof.
  intros Hp HK. destruct HK as [e r c o inner Hin|c o inner es Hin HK'].
  - destruct (Hp (Wrapper c o inner)) as [o' [k' [v' E]]]; [right; assumption|discriminate E].
  - destruct (Hp (Wrapper c o inner) Hin) as [o' [k' [v' E]]]. discriminate E.
Qed.

Example es_nest_chain : first_chain es_nest.
Proof. apply FC_wrap, FC_wrap, FC_plain, es3_plain. Qed.

Example es_nest_not_Known : ~ Known es_nest.
Proof.
  intros HK. inversion HK as [e r c o inner Hin|c o inner es Hin HK']; subst.
  - destruct Hin as [E|[]]. discriminate E.
  - destruct Hin as [E|[E|[]]]; [|discriminate E]. inversion E; subst. clear E.
    inversion HK' as [e r c o inner Hin|c o inner es Hin HK'']; subst.
    + destruct Hin.
    + destruct Hin as [E|[]]. inversion E; subst.
      exact (all_plain_not_Known es3 es3_plain HK'').
Qed.

Example C02_outside_known_ex :
  depth es_nest = 2%nat
  /\ chain_msgs wcomp es_nest 200 = [(0, [], [x61]); (1, [x6b], [x62; x62]); (2, [], [])]
  /\ chain_msgs wcomp es_nest 100 = [].
Proof. vm_compute. repeat split; reflexivity. Qed.

(* C02_nonempty_*: the hypotheses can be met *)
Example C02_nonempty_ex :
  In (1, [x6b], [x62; x62]) (flatten (complete_prefix wcomp es3 60)) /\
  In (1, [x6b], [x62; x62]) (flatten es3).
Proof. vm_compute. auto. Qed.

(* ---- the full property is false for the model (F13, fetch.rs:421-431) ---- *)

(* a plain message followed by a (complete, well-formed) compressed batch: when the decoder
   meets the wrapper it RETURNS the decoded inner set and drops message 0, which it had
   already collected.  The exposed list [1] is not a prefix of the complete messages >= req
   = [0; 1]: message 0 is skipped while message 1 is delivered. *)
Definition es_bad : list entry :=
  [Plain 0 None (Some [x61]); Wrapper 1 1 [Plain 1 None (Some [x62])]].

Theorem C02_full_refuted :
  exists cz comp es req,
    codec_ok cz comp /\ wf_entries comp es /\ Known es /\
    from_slice cz 3 true req (ser comp es)
      <> Ok (map msg_of (filter (fun x => req <=? fst (fst x)) (flatten es)))
    /\ from_slice cz 3 true req (ser comp es) = Ok [msg_of (1, [], [x62])]
    /\ filter (fun x => req <=? fst (fst x)) (flatten es) = [(0, [], [x61]); (1, [], [x62])]
    /\ ~ (exists t, filter (fun x => req <=? fst (fst x)) (flatten es) = [(1, [], [x62])] ++ t).
Proof.
  exists (wcz true), wcomp, es_bad, 0.
  split; [apply wcomp_codec_ok|]. split; [wf_tac|].
  split; [eapply Known_late; left; reflexivity|].
  split; [vm_compute; intros H; discriminate H|].
  split; [vm_compute; reflexivity|].
  split; [vm_compute; reflexivity|].
  intros [t Ht]. vm_compute in Ht. discriminate Ht.
Qed.

(* the same defect with the snappy codec, release build, no CRC validation, and the wrapper in
   the middle: messages 0 (before) and 2 (behind) are both lost *)
Example C02_full_refuted_snappy :
  let es := [Plain 0 None (Some [x61]); Wrapper 2 1 [Plain 1 None (Some [x62])];
             Plain 2 None (Some [x63])] in
  wf_entries wcomp es /\
  from_slice (wcz false) 3 false 0 (ser wcomp es) = Ok [msg_of (1, [], [x62])].
Proof. split; [wf_tac|vm_compute; reflexivity]. Qed.

(* Non-emptiness is only relative to the first batch.  Outside `Known` (wrapper at the head),
   with a complete qualifying message right behind the batch, the decoder exposes nothing:
   a consumer asking for offset 1 receives an empty set although message 1 is in the data.
   (A broker answers a fetch with the batch CONTAINING the requested offset, so the first
   batch normally has a qualifying message; it need not after log compaction.) *)
Definition es_stall : list entry :=
  [Wrapper 1 0 [Plain 0 None (Some [x61])]; Plain 1 None (Some [x62])].

Theorem C02_nonempty_refuted :
  exists cz comp es req x,
    codec_ok cz comp /\ wf_entries comp es /\ ~ Known es /\
    In x (flatten es) /\ req <= fst (fst x) /\
    from_slice cz 3 true req (ser comp es) = Ok [].
Proof.
  exists (wcz true), wcomp, es_stall, 1, (1, [], [x62]).
  split; [apply wcomp_codec_ok|]. split; [wf_tac|].
  split.
  { intros HK. inversion HK as [e r c o inner Hin|c o inner es Hin HK']; subst.
    - destruct Hin as [E|[]]. discriminate E.
    - destruct Hin as [E|[E|[]]]; [|discriminate E]. inversion E; subst.
      revert HK'. apply all_plain_not_Known. plain_tac. }
  split; [vm_compute; auto|]. split; [cbn [fst]; lia|].
  vm_compute. reflexivity.
Qed.

(* C02_safe_always / C02_in_order_and_bounds on the `Known` witness: still a sublist, in order *)
Example C02_safe_always_ex :
  depth es_bad = 1%nat /\
  subseq [(1, [], [x62])] (filter (fun x => 0 <=? fst (fst x)) (flatten (complete_prefix wcomp es_bad 100))).
Proof. split; [reflexivity|]. vm_compute. apply ss_skip, ss_take, ss_nil. Qed.

Print Assumptions next_message_strict_prefix.
Print Assumptions next_message_complete.
Print Assumptions C02_plain_prefix.
Print Assumptions C02_wrapper_first.
Print Assumptions C02_wrapper_cut.
Print Assumptions C02_nested_first.
Print Assumptions C02_chain.
Print Assumptions C02_outside_known.
Print Assumptions C02_nonempty_plain.
Print Assumptions C02_nonempty_wrapper.
Print Assumptions C02_safe_always.
Print Assumptions C02_in_order_and_bounds.
Print Assumptions wcomp_codec_ok.
Print Assumptions codec_ok_needs_bound.
Print Assumptions C02_full_refuted.
Print Assumptions C02_nonempty_refuted.
