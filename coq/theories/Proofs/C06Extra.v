(* C06Extra: theorems for clauses of C06 that no theorem of Props/C06.v covers.

   A. bootstrap at the level of the real entry points (fetch_metadata / load_metadata / load_metadata_all),
      for ANY contents of the connection pool (Props/C06.v only speaks about the inner loop
      fetch_metadata_hosts, so a change in front of the loop -- seeded change C06-2 -- leaves it provable):
        C06_fetch_metadata_first, C06_fetch_metadata_none, C06_bootstrap_first_pooled,
        C06_bootstrap_send_fails_next, C06_metadata_only_bootstrap_hosts, C06_load_metadata_only_bootstrap_hosts,
        C06_load_metadata_view, C06_load_metadata_all_view.
   B. the exchanges: every I/O event of fetch_messages / fetch_offsets / list_offsets /
      internal_produce_messages concerns the address find_broker gives for one of the requested partitions
      (Props/C06.v stops at the request maps):
        C06_fetch_messages_to_leaders, C06_fetch_offsets_to_leaders, C06_list_offsets_to_leaders,
        C06_produce_to_leaders.
   C. completeness of the request maps (a partition WITH a leader is in the request for its leader's host)
      and the availability lists of the topics() view:
        C06_fetch_complete, C06_offsets_complete, C06_produce_complete, C06_available_ids.
   D. the pointwise end-to-end reading of one load (no reference to `merge`):
        C06_route_after_load. *)
From Coq Require Import ZifyBool Sorting.Permutation.
From KV Require Import Base.Prelude Gen.Consts Model.Codecs Model.Requests Model.Responses
                       Model.ClientState Model.Net Model.Client.
From KV Require Import Proofs.BytesFacts Proofs.NetFacts Proofs.C06Facts.

(* ================================================================================================ *)
(* A. bootstrap through the real entry points                                                       *)
(* ================================================================================================ *)

(* the state after next_corr: only the correlation counter moved *)
Definition bump (s : st) : st :=
  {| script := script s; trace := trace s; anyq := anyq s; hostq := hostq s; fetchq := fetchq s;
     entryq := entryq s;
     cl := {| cfg := cfg (cl s); cs := snd (next_correlation_id (cs (cl s))); conns := conns (cl s) |};
     env := env s |}.

Lemma next_corr_run s : next_corr s = (Ok (fst (next_correlation_id (cs (cl s)))), bump s).
Proof. reflexivity. Qed.

Lemma fetch_metadata_run topics s :
  fetch_metadata topics s
  = fetch_metadata_hosts (fst (next_correlation_id (cs (cl s)))) topics (hosts (cfg (cl s))) (bump s).
Proof. reflexivity. Qed.

(* the pool may hold connections to any OTHER hosts (brokers, later bootstrap hosts): the metadata
   request still goes to the first bootstrap host that accepts a connection *)
Theorem C06_fetch_metadata_first : forall topics pre h post st0 payload script2,
  hosts (cfg (cl st0)) = pre ++ h :: post ->
  (forall h', In h' pre -> in_pool h' (conns (cl st0)) = false) ->
  in_pool h (conns (cl st0)) = false ->
  enc_metadata_req (fst (next_correlation_id (cs (cl st0)))) (client_id (cfg (cl st0))) topics = Ok payload ->
  script st0 = map (fun _ => OConn false) pre ++ OConn true :: OWrote (ulen (frame payload)) :: script2 ->
  fetch_metadata topics st0
  = get_response dec_metadata_resp h
      (connected (bump st0) h script2
                 (EWrite h (frame payload) :: EConnect h :: rev (map EConnect pre) ++ trace st0)).
Proof.
  intros topics pre h post st0 payload script2 Hh Hpre Hp Henc Hs.
  rewrite fetch_metadata_run, Hh.
  apply (C06_bootstrap_first _ topics pre h post (bump st0) payload script2); assumption.
Qed.

Theorem C06_fetch_metadata_none : forall topics st0 rest,
  (forall h, In h (hosts (cfg (cl st0))) -> in_pool h (conns (cl st0)) = false) ->
  script st0 = map (fun _ => OConn false) (hosts (cfg (cl st0))) ++ rest ->
  fetch_metadata topics st0
  = (Err ENoHostReachable,
     st_with (bump st0) rest (rev (map EConnect (hosts (cfg (cl st0)))) ++ trace st0)).
Proof.
  intros topics st0 rest Hp Hs. rewrite fetch_metadata_run.
  apply (C06_bootstrap_none _ topics (hosts (cfg (cl st0))) (bump st0) rest); assumption.
Qed.

(* the seeded scenario of C06-2: bootstrap hosts [a:1; b:2; c:3]; an earlier load left a pooled connection
   to b:2 (and one to a plain broker k:9); now a:1 accepts: the request goes to a:1 *)
Definition ex_pool_st (sc : list ev_out) : st :=
  {| script := sc; trace := []; anyq := [tag "b:2"]; hostq := []; fetchq := []; entryq := [];
     cl := {| cfg := default_config ex_hs; cs := cstate_new; conns := [tag "b:2"; tag "k:9"] |};
     env := ex_env |}.
Example ex_fetch_metadata_first :
  let '(r, s) := fetch_metadata [] (ex_pool_st [OConn true; OWrote 18; OData (enc_i32 12);
                                                OData (enc_i32 1 ++ enc_i32 0 ++ enc_i32 0)]) in
  r = Ok {| md_corr := 1; md_brokers := []; md_topics := [] |} /\
  rev (trace s) = [EConnect (tag "a:1");
                   EWrite (tag "a:1") (frame (enc_i16 3 ++ enc_i16 0 ++ enc_i32 1 ++ enc_i16 0 ++ enc_i32 0));
                   ERead (tag "a:1") 4; ERead (tag "a:1") 12] /\
  conns (cl s) = [tag "b:2"; tag "k:9"; tag "a:1"].
Proof. vm_compute. repeat split; reflexivity. Qed.
Example ex_fetch_metadata_first_hyps :
  let st0 := ex_pool_st [OConn true; OWrote 18] in
  hosts (cfg (cl st0)) = [] ++ tag "a:1" :: [tag "b:2"; tag "c:3"] /\
  in_pool (tag "a:1") (conns (cl st0)) = false /\ conns (cl st0) <> [] /\
  enc_metadata_req (fst (next_correlation_id (cs (cl st0)))) (client_id (cfg (cl st0))) []
  = Ok (enc_i16 3 ++ enc_i16 0 ++ enc_i32 1 ++ enc_i16 0 ++ enc_i32 0).
Proof. vm_compute. repeat split; discriminate. Qed.

(* ---- the first reachable host is already pooled (every load after the first one) ------------- *)
Lemma pooled_conn h s :
  in_pool h (conns (cl s)) = true -> idle_expired (cfg (cl s)) = false ->
  mtry (get_conn h) s = (Ok (Ok tt), s).
Proof.
  intros Hp Hi. unfold mtry, get_conn. unfold mbind at 1. unfold get_client at 1. rewrite Hp, Hi. reflexivity.
Qed.

Lemma hosts_first_pooled corr topics h post s payload script2 :
  in_pool h (conns (cl s)) = true -> idle_expired (cfg (cl s)) = false ->
  enc_metadata_req corr (client_id (cfg (cl s))) topics = Ok payload ->
  script s = OWrote (ulen (frame payload)) :: script2 ->
  fetch_metadata_hosts corr topics (h :: post) s
  = get_response dec_metadata_resp h (st_with s script2 (EWrite h (frame payload) :: trace s)).
Proof.
  intros Hp Hi Henc Hs. cbn [fetch_metadata_hosts]. unfold mbind at 1. unfold get_client at 1.
  unfold mbind at 1. rewrite (pooled_conn h s Hp Hi). unfold mbind at 1. rewrite Henc.
  assert (Hsend : mtry (send_request h (Ok payload)) s
                  = (Ok (Ok (ulen (frame payload))), st_with s script2 (EWrite h (frame payload) :: trace s))).
  { unfold mtry, send_request. unfold mbind at 1. unfold lift.
    rewrite (send_one h (frame payload) s script2 (frame_nonempty payload) Hs). reflexivity. }
  rewrite Hsend. reflexivity.
Qed.

Theorem C06_bootstrap_first_pooled : forall corr topics pre h post st0 payload script2,
  (forall h', In h' pre -> in_pool h' (conns (cl st0)) = false) ->
  in_pool h (conns (cl st0)) = true -> idle_expired (cfg (cl st0)) = false ->
  enc_metadata_req corr (client_id (cfg (cl st0))) topics = Ok payload ->
  script st0 = map (fun _ => OConn false) pre ++ OWrote (ulen (frame payload)) :: script2 ->
  fetch_metadata_hosts corr topics (pre ++ h :: post) st0
  = get_response dec_metadata_resp h
      (st_with st0 script2 (EWrite h (frame payload) :: rev (map EConnect pre) ++ trace st0)).
Proof.
  induction pre as [|h0 pre IH]; intros h post st0 payload script2 Hpre Hp Hi Henc Hs.
  - cbn [map app rev] in *. apply hosts_first_pooled; assumption.
  - cbn [map app] in Hs. cbn [app].
    rewrite (hosts_step corr topics h0 _ st0 _ (Hpre h0 (or_introl eq_refl)) Hs).
    rewrite (IH h post _ payload script2).
    + cbn [map rev st_with script trace]. rewrite <- app_assoc. reflexivity.
    + intros h' Hin. apply Hpre. right; exact Hin.
    + exact Hp.
    + exact Hi.
    + exact Henc.
    + reflexivity.
Qed.
(* a:1 refuses, b:2 is pooled: no connect to b:2, the request is written to it at once; c:3 untouched *)
Example ex_bootstrap_first_pooled :
  let '(r, s) := fetch_metadata [] (ex_pool_st [OConn false; OWrote 18; OData (enc_i32 12);
                                                OData (enc_i32 1 ++ enc_i32 0 ++ enc_i32 0)]) in
  r = Ok {| md_corr := 1; md_brokers := []; md_topics := [] |} /\
  rev (trace s) = [EConnect (tag "a:1");
                   EWrite (tag "b:2") (frame (enc_i16 3 ++ enc_i16 0 ++ enc_i32 1 ++ enc_i16 0 ++ enc_i32 0));
                   ERead (tag "b:2") 4; ERead (tag "b:2") 12] /\
  in_pool (tag "b:2") (conns (cl (ex_pool_st []))) = true /\ idle_expired (cfg (cl (ex_pool_st []))) = false.
Proof. vm_compute. repeat split; reflexivity. Qed.

(* "can be reached" includes taking the request: a host that accepts the connection but fails the write
   is passed over like one that refuses, and the loop goes on with the next host *)
Theorem C06_bootstrap_send_fails_next : forall corr topics h r st0 payload e rest,
  in_pool h (conns (cl st0)) = false ->
  enc_metadata_req corr (client_id (cfg (cl st0))) topics = Ok payload ->
  script st0 = OConn true :: OWriteFail e :: rest ->
  fetch_metadata_hosts corr topics (h :: r) st0
  = fetch_metadata_hosts corr topics r
      (connected st0 h rest (EWrite h (frame payload) :: EConnect h :: trace st0)).
Proof.
  intros corr topics h r st0 payload e rest Hp Henc Hs.
  cbn [fetch_metadata_hosts]. unfold mbind at 1. unfold get_client at 1.
  unfold mbind at 1. rewrite (conn_ok h st0 _ Hp Hs). unfold mbind at 1. rewrite Henc.
  assert (Hsend : mtry (send_request h (Ok payload)) (connected st0 h (OWriteFail e :: rest) (EConnect h :: trace st0))
                  = (Ok (Err (EIo e)), connected st0 h rest (EWrite h (frame payload) :: EConnect h :: trace st0))).
  { unfold mtry, send_request. unfold mbind at 1. unfold lift. unfold send, mbind at 1, with_fuel.
    cbn [connected script length].
    destruct (frame payload) as [|b buf] eqn:Ef; [exfalso; exact (frame_nonempty payload Ef)|].
    cbn [write_all]. unfold mbind, io. cbn [connected script trace]. reflexivity. }
  rewrite Hsend. reflexivity.
Qed.
Example ex_bootstrap_send_fails_next :
  let '(r, s) := fetch_metadata_hosts 1 [] ex_hs
                   (ex_st ex_hs [OConn true; OWriteFail IoOther; OConn true; OWrote 18; OData (enc_i32 12);
                                 OData (enc_i32 1 ++ enc_i32 0 ++ enc_i32 0)]) in
  r = Ok {| md_corr := 1; md_brokers := []; md_topics := [] |} /\
  map (fun e => match e with EConnect h | EWrite h _ | ERead h _ | EShutdown h => h end) (rev (trace s))
  = [tag "a:1"; tag "a:1"; tag "b:2"; tag "b:2"; tag "b:2"; tag "b:2"].
Proof. vm_compute. repeat split; reflexivity. Qed.

(* ---- whatever the pool, the script and the state: only bootstrap hosts are contacted ------------ *)
Definition ev_host (e : ev_op) : bytes :=
  match e with EConnect h | EWrite h _ | ERead h _ | EShutdown h => h end.
Definition on_hosts (hs : list bytes) (e : ev_op) : Prop := In (ev_host e) hs.

Lemma on_host_hosts h hs e : In h hs -> on_host h e -> on_hosts hs e.
Proof. intros Hin H. unfold on_hosts. destruct e; cbn [on_host ev_host] in *; subst; exact Hin. Qed.

Lemma ops_in_quiet P s s' : script s' = script s -> trace s' = trace s -> ops_in P s s'.
Proof.
  intros Hs Ht. assert (Hseg : seg s s' [] []) by (split; cbn [app rev]; congruence).
  split; [exists [], []; exact Hseg|]. rewrite (seg_performed _ _ _ _ Hseg). constructor.
Qed.

Lemma ops_in_trans P s s1 s2 : ops_in P s s1 -> ops_in P s1 s2 -> ops_in P s s2.
Proof. destruct (preorder_ops_in P) as [_ Ht]. apply Ht. Qed.

Lemma ops_get_conn_hosts hs h : In h hs -> keeps (ops_in (on_hosts hs)) (get_conn h).
Proof.
  intros Hin. apply (keepsR_get_conn _ (preorder_ops_in _) h); intros;
    try (apply keeps_io_ops; exact Hin); apply keeps_set_conns_ops.
Qed.
Lemma ops_send_request_hosts hs h payload : In h hs -> keeps (ops_in (on_hosts hs)) (send_request h payload).
Proof. intros Hin. apply (keepsR_send_request _ (preorder_ops_in _) h); intros; apply keeps_io_ops; exact Hin. Qed.
Lemma ops_get_response_bytes_hosts hs h : In h hs -> keeps (ops_in (on_hosts hs)) (get_response_bytes h).
Proof. intros Hin. apply (keepsR_get_response_bytes _ (preorder_ops_in _) h); intros; apply keeps_io_ops; exact Hin. Qed.
Lemma ops_get_response_hosts {A} (d : dec A) hs h : In h hs -> keeps (ops_in (on_hosts hs)) (get_response d h).
Proof. intros Hin. apply (keepsR_get_response _ (preorder_ops_in _) h); intros; apply keeps_io_ops; exact Hin. Qed.
Lemma ops_send_receive_hosts {A} (d : dec A) hs h payload :
  In h hs -> keeps (ops_in (on_hosts hs)) (send_receive d h payload).
Proof.
  intros Hin. apply (keepsR_send_receive _ (preorder_ops_in _) h); intros;
    try (apply keeps_io_ops; exact Hin); apply keeps_set_conns_ops.
Qed.

Lemma hosts_ops corr topics all : forall hs, incl hs all ->
  keeps (ops_in (on_hosts all)) (fetch_metadata_hosts corr topics hs).
Proof.
  pose proof (preorder_ops_in (on_hosts all)) as HR.
  induction hs as [|h r IH]; intros Hincl; cbn [fetch_metadata_hosts]; [apply keeps_fail; exact HR|].
  assert (Hin : In h all) by (apply Hincl; left; reflexivity).
  assert (Hr : keeps (ops_in (on_hosts all)) (fetch_metadata_hosts corr topics r))
    by (apply IH; intros x Hx; apply Hincl; right; exact Hx).
  apply keeps_bind; [exact HR|apply keeps_get_client; exact HR|]. intros c.
  apply keeps_bind; [exact HR|apply keeps_mtry, ops_get_conn_hosts; exact Hin|]. intros rc.
  destruct rc as [u|e|w]; try exact Hr.
  apply keeps_bind; [exact HR|apply keeps_mtry, ops_send_request_hosts; exact Hin|]. intros rs.
  destruct rs as [z|e|w]; try exact Hr. apply ops_get_response_hosts; exact Hin.
Qed.

Lemma hosts_frame corr topics : forall hs, keeps same_but_conns (fetch_metadata_hosts corr topics hs).
Proof.
  pose proof preorder_same_but_conns as HR.
  induction hs as [|h r IH]; cbn [fetch_metadata_hosts]; [apply keeps_fail; exact HR|].
  apply keeps_bind; [exact HR|apply keeps_get_client; exact HR|]. intros c.
  apply keeps_bind; [exact HR|apply keeps_mtry, frame_get_conn|]. intros rc.
  destruct rc as [u|e|w]; try exact IH.
  apply keeps_bind; [exact HR|apply keeps_mtry|].
  { eapply keeps_weaken; [apply same_but_io_conns|apply frame_send_request]. }
  intros rs. destruct rs as [z|e|w]; try exact IH.
  eapply keeps_weaken; [apply same_but_io_conns|apply frame_get_response].
Qed.

Theorem C06_metadata_only_bootstrap_hosts : forall topics s r s',
  fetch_metadata topics s = (r, s') -> ops_in (on_hosts (hosts (cfg (cl s)))) s s'.
Proof.
  intros topics s r s' H. rewrite fetch_metadata_run in H.
  apply (hosts_ops _ topics (hosts (cfg (cl s))) _ (incl_refl _)) in H.
  eapply ops_in_trans; [|exact H]. apply ops_in_quiet; reflexivity.
Qed.

(* what fetch_metadata leaves of the client state: the bumped correlation id, nothing else *)
Lemma fetch_metadata_cs topics s r s' :
  fetch_metadata topics s = (r, s') ->
  cs (cl s') = snd (next_correlation_id (cs (cl s))) /\ cfg (cl s') = cfg (cl s).
Proof.
  intros H. rewrite fetch_metadata_run in H. apply hosts_frame in H.
  destruct H as (_ & _ & _ & _ & _ & Hcfg & Hcs). split; [exact Hcs|exact Hcfg].
Qed.

(* the part of load_metadata after the response has arrived *)
Definition apply_md (md : metadata_resp) : M unit :=
  let+ c := get_client in
  let+ s' := lift (update_metadata (cs c) md) in
  set_cs s'.

Lemma load_metadata_split topics : load_metadata topics = mbind (fetch_metadata topics) apply_md.
Proof. reflexivity. Qed.

Lemma apply_md_run md s1 r s' : apply_md md s1 = (r, s') ->
  script s' = script s1 /\ trace s' = trace s1 /\ conns (cl s') = conns (cl s1) /\ cfg (cl s') = cfg (cl s1) /\
  (r = Ok tt -> update_metadata (cs (cl s1)) md = Ok (cs (cl s'))).
Proof.
  unfold apply_md. unfold mbind at 1. unfold get_client at 1. unfold mbind at 1. unfold lift at 1.
  destruct (update_metadata (cs (cl s1)) md) as [x|e|w] eqn:E; intros H.
  - unfold set_cs, mbind, get_client, set_client in H. inversion H; subst; cbn [script trace cl conns cfg cs].
    repeat split; reflexivity.
  - inversion H; subst. repeat split; try reflexivity. discriminate.
  - inversion H; subst. repeat split; try reflexivity. discriminate.
Qed.

Theorem C06_load_metadata_only_bootstrap_hosts : forall topics s r s',
  load_metadata topics s = (r, s') -> ops_in (on_hosts (hosts (cfg (cl s)))) s s'.
Proof.
  intros topics s r s' H. rewrite load_metadata_split in H. bind_inv H a s1 H1 H2.
  - eapply ops_in_trans; [eapply C06_metadata_only_bootstrap_hosts; exact H1|].
    destruct (apply_md_run _ _ _ _ H2) as (Hs & Ht & _). apply ops_in_quiet; assumption.
  - eapply C06_metadata_only_bootstrap_hosts; exact H1.
  - eapply C06_metadata_only_bootstrap_hosts; exact H1.
Qed.

(* a plain broker k:9 is pooled and would be the pick of get_conn_any; it is not a bootstrap host and is
   not contacted *)
Example ex_only_bootstrap_hosts :
  let st0 := ex_pool_st [OConn true; OWrote 18; OData (enc_i32 12); OData (enc_i32 1 ++ enc_i32 0 ++ enc_i32 0)] in
  let st0 := {| script := script st0; trace := []; anyq := [tag "k:9"]; hostq := []; fetchq := []; entryq := [];
                cl := cl st0; env := env st0 |} in
  let '(r, s) := load_metadata [] st0 in
  r = Ok tt /\ map ev_host (rev (trace s)) = [tag "a:1"; tag "a:1"; tag "a:1"; tag "a:1"] /\
  in_pool (tag "k:9") (conns (cl st0)) = true /\ in_pool (tag "k:9") (hosts (cfg (cl st0))) = false.
Proof. vm_compute. repeat split; reflexivity. Qed.

(* ---- the view after load_metadata / load_metadata_all is the merge of the response received ------ *)
Lemma inv_bump σ : inv σ -> inv (snd (next_correlation_id σ)).
Proof. intros H. exact H. Qed.

Theorem C06_load_metadata_view : forall topics s s',
  inv (cs (cl s)) -> load_metadata topics s = (Ok tt, s') -> small (cs (cl s')) ->
  exists md s1, fetch_metadata topics s = (Ok md, s1) /\
    abs (cs (cl s')) = merge_code (abs (cs (cl s))) md /\
    (wf_md md -> abs (cs (cl s')) = merge (abs (cs (cl s))) md) /\
    inv (cs (cl s')) /\
    script s' = script s1 /\ trace s' = trace s1 /\ conns (cl s') = conns (cl s1).
Proof.
  intros topics s s' Hinv H Hsmall. rewrite load_metadata_split in H.
  bind_inv H md s1 H1 H2; [|discriminate|discriminate].
  destruct (apply_md_run _ _ _ _ H2) as (Hs & Ht & Hc & _ & Hu). specialize (Hu eq_refl).
  destruct (fetch_metadata_cs _ _ _ _ H1) as [Hcs _]. rewrite Hcs in Hu.
  pose proof (inv_bump _ Hinv) as Hinv1.
  exists md, s1. split; [exact H1|].
  pose proof (C06_refines_code _ _ _ Hinv1 Hsmall Hu) as Hr.
  split; [exact Hr|].
  split; [intros Hwf; exact (C06_refines _ _ _ Hinv1 Hwf Hsmall Hu)|].
  split; [exact (C06_inv_step _ _ _ Hinv1 Hu)|].
  repeat split; assumption.
Qed.

Definition reset_st (s : st) : st := snd (reset_metadata s).

Theorem C06_load_metadata_all_view : forall s s',
  load_metadata_all s = (Ok tt, s') -> small (cs (cl s')) ->
  exists md s1, fetch_metadata [] (reset_st s) = (Ok md, s1) /\
    abs (cs (cl s')) = merge_code empty_view md /\
    (wf_md md -> abs (cs (cl s')) = merge empty_view md) /\
    inv (cs (cl s')) /\
    script (reset_st s) = script s /\ trace (reset_st s) = trace s /\ conns (cl (reset_st s)) = conns (cl s) /\
    script s' = script s1 /\ trace s' = trace s1 /\ conns (cl s') = conns (cl s1).
Proof.
  intros s s' H Hsmall.
  assert (Hl : load_metadata [] (reset_st s) = (Ok tt, s')) by exact H.
  assert (Hinv : inv (cs (cl (reset_st s)))) by (apply C06_inv_clear).
  destruct (C06_load_metadata_view [] (reset_st s) s' Hinv Hl Hsmall)
    as (md & s1 & H1 & Hr & Hw & Hi & Hs & Ht & Hc).
  exists md, s1. split; [exact H1|].
  assert (Habs : abs (cs (cl (reset_st s))) = empty_view) by (apply C06_clear).
  rewrite Habs in Hr, Hw.
  split; [exact Hr|]. split; [exact Hw|]. split; [exact Hi|].
  split; [reflexivity|]. split; [reflexivity|]. split; [reflexivity|].
  split; [exact Hs|]. split; [exact Ht|exact Hc].
Qed.

(* a partial load answered by b:2 (a:1 refuses): broker 2 moves to port 9093, topic b is added, topic a stays *)
Definition ex_md2_bytes : bytes :=
  enc_i32 2 ++ enc_i32 1 ++ (enc_i32 2 ++ enc_i16 2 ++ tag "h2" ++ enc_i32 9093)
  ++ enc_i32 1 ++ (enc_i16 0 ++ enc_i16 1 ++ tag "b" ++ enc_i32 1
                   ++ (enc_i16 0 ++ enc_i32 0 ++ enc_i32 2 ++ enc_i32 1 ++ enc_i32 2 ++ enc_i32 1 ++ enc_i32 2)).
Definition ex_load_st : st :=
  {| script := [OConn false; OConn true; OWrote 21; OData (enc_i32 (ulen ex_md2_bytes)); OData ex_md2_bytes];
     trace := []; anyq := []; hostq := []; fetchq := []; entryq := [];
     cl := {| cfg := default_config ex_hs; cs := ex_s1; conns := [] |}; env := ex_env |}.
Example ex_load_metadata_view :
  let '(r, s) := load_metadata [tag "b"] ex_load_st in
  r = Ok tt /\
  abs (cs (cl s)) = merge (abs ex_s1) ex_md2 /\ abs (cs (cl s)) <> abs ex_s1 /\
  find_broker (cs (cl s)) (tag "a") 1 = Some (tag "h2:9093") /\
  map ev_host (rev (trace s)) = [tag "a:1"; tag "b:2"; tag "b:2"; tag "b:2"; tag "b:2"].
Proof. vm_compute. repeat split; try reflexivity. discriminate. Qed.
Example ex_load_metadata_all_view :
  let '(r, s) := load_metadata_all ex_load_st in
  r = Ok tt /\ abs (cs (cl s)) = merge empty_view ex_md2 /\
  find_broker (cs (cl s)) (tag "a") 1 = None /\ find_broker (cs (cl s)) (tag "b") 0 = Some (tag "h2:9093").
Proof. vm_compute. repeat split; reflexivity. Qed.

(* ================================================================================================ *)
(* B. the exchanges talk to the hosts of the request map, hence to leaders only                     *)
(* ================================================================================================ *)

Lemma ops_in_mono (P Q : ev_op -> Prop) {A} (m : M A) :
  (forall e, P e -> Q e) -> keeps (ops_in P) m -> keeps (ops_in Q) m.
Proof. intros HPQ Hm. eapply keeps_weaken; [|exact Hm]. intros s s'. apply ops_in_weaken. exact HPQ. Qed.

Lemma on_hosts_cons h hs e : on_hosts hs e -> on_hosts (h :: hs) e.
Proof. unfold on_hosts. intros H. right. exact H. Qed.

Lemma offsets_exchange_hosts {P V} enc (d : dec (Z * list (bytes * list P))) (conv : P -> V + Z) pid :
  forall reqs m, keeps (ops_in (on_hosts (map fst reqs))) (offsets_exchange enc d conv pid reqs m).
Proof.
  induction reqs as [|[h tps] r IH]; intros m; cbn [offsets_exchange map fst].
  - apply keeps_ret, preorder_ops_in.
  - pose proof (preorder_ops_in (on_hosts (h :: map fst r))) as HR.
    apply keeps_bind; [exact HR|apply ops_send_receive_hosts; left; reflexivity|]. intros [z rtps].
    apply keeps_bind; [exact HR|apply keeps_lift; exact HR|]. intros m'.
    eapply ops_in_mono; [apply on_hosts_cons|apply IH].
Qed.

Lemma fetch_exchange_hosts corr :
  forall reqs acc, keeps (ops_in (on_hosts (map fst reqs))) (fetch_exchange corr reqs acc).
Proof.
  induction reqs as [|[h tps] r IH]; intros acc; cbn [fetch_exchange map fst].
  - apply keeps_ret, preorder_ops_in.
  - pose proof (preorder_ops_in (on_hosts (h :: map fst r))) as HR.
    assert (Hin : In h (h :: map fst r)) by (left; reflexivity).
    apply keeps_bind; [exact HR|apply keeps_get_client; exact HR|]. intros c.
    apply keeps_bind; [exact HR|apply keeps_get_env; exact HR|]. intros e.
    apply keeps_bind; [exact HR|apply keeps_get_fetch_order; exact HR|]. intros fo. cbv zeta.
    apply keeps_bind; [exact HR|apply ops_get_conn_hosts; exact Hin|]. intros _.
    apply keeps_bind; [exact HR|apply ops_send_request_hosts; exact Hin|]. intros _.
    apply keeps_bind; [exact HR|apply ops_get_response_bytes_hosts; exact Hin|]. intros b.
    apply keeps_bind; [exact HR|apply keeps_lift; exact HR|]. intros resp.
    eapply ops_in_mono; [apply on_hosts_cons|apply IH].
Qed.

Lemma produce_exchange_hosts corr acks timeout :
  forall reqs acc, keeps (ops_in (on_hosts (map fst reqs))) (produce_exchange corr acks timeout reqs acc).
Proof.
  induction reqs as [|[h tps] r IH]; intros acc; cbn [produce_exchange map fst].
  - apply keeps_ret, preorder_ops_in.
  - pose proof (preorder_ops_in (on_hosts (h :: map fst r))) as HR.
    assert (Hin : In h (h :: map fst r)) by (left; reflexivity).
    assert (Hrec : forall acc', keeps (ops_in (on_hosts (h :: map fst r))) (produce_exchange corr acks timeout r acc'))
      by (intros acc'; eapply ops_in_mono; [apply on_hosts_cons|apply IH]).
    apply keeps_bind; [exact HR|apply keeps_get_client; exact HR|]. intros c.
    apply keeps_bind; [exact HR|apply keeps_get_env; exact HR|]. intros e. cbv zeta.
    destruct (acks =? 0).
    + apply keeps_bind; [exact HR|apply ops_get_conn_hosts; exact Hin|]. intros _.
      apply keeps_bind; [exact HR|apply ops_send_request_hosts; exact Hin|]. intros _. apply Hrec.
    + apply keeps_bind; [exact HR|apply ops_send_receive_hosts; exact Hin|]. intros [z rtps]. apply Hrec.
Qed.

(* the HashMap iteration order only permutes the per-host requests *)
Lemma take_key_in {V} k : forall (l : list (bytes * V)) x r, take_key k l = Some (x, r) ->
  forall y, In y (x :: r) -> In y l.
Proof.
  induction l as [|[k' v] l IH]; intros x r H y Hy; cbn [take_key] in H; [discriminate|].
  destruct (bytes_eqb k' k).
  - inversion H; subst. exact Hy.
  - destruct (take_key k l) as [[x' r']|] eqn:E; [|discriminate]. inversion H; subst.
    destruct Hy as [Hy|[Hy|Hy]].
    + right. eapply IH; [reflexivity|left; exact Hy].
    + left. exact Hy.
    + right. eapply IH; [reflexivity|right; exact Hy].
Qed.

Lemma reorder_in {V} : forall order (l : list (bytes * V)) y, In y (reorder order l) -> In y l.
Proof.
  induction order as [|k ks IH]; intros l y H; cbn [reorder] in H; [exact H|].
  destruct (take_key k l) as [[x r]|] eqn:E; [|apply IH; exact H].
  apply (take_key_in k l x r E). destruct H as [H|H]; [left; exact H|right; apply IH; exact H].
Qed.

Lemma ordered_run {V} (reqs : list (bytes * V)) s r s' : ordered reqs s = (r, s') ->
  script s' = script s /\ trace s' = trace s /\ cl s' = cl s /\
  (forall reqs', r = Ok reqs' -> incl (map fst reqs') (map fst reqs)).
Proof.
  unfold ordered. destruct reqs as [|x reqs].
  - intros H. inversion H; subst. repeat split; try reflexivity. intros reqs' E. inversion E; subst. apply incl_refl.
  - unfold mbind, pop_hosts. destruct (hostq s) as [|o q]; intros H; inversion H; subst; cbn [script trace cl];
      (repeat split; try reflexivity); intros reqs' E; inversion E; subst; intros h Hh;
      apply in_map_iff in Hh; destruct Hh as (y & <- & Hy); apply in_map; first [exact Hy | eapply reorder_in; exact Hy].
Qed.

(* the keys of the request maps are leader addresses of requested partitions *)
Lemma fhost_add_keys : forall reqs host topic p off maxb h,
  In h (map fst (fhost_add reqs host topic p off maxb)) -> In h (map fst reqs) \/ h = host.
Proof.
  induction reqs as [|[h0 tps0] r IH]; intros host topic p off maxb h H; cbn [fhost_add] in H.
  - destruct H as [H|[]]. right. symmetry. exact H.
  - destruct (bytes_eqb h0 host); cbn [map fst In] in *.
    + left. exact H.
    + destruct H as [H|H]; [left; left; exact H|]. apply IH in H. tauto.
Qed.
Lemma phost_add_keys : forall reqs host topic p m h,
  In h (map fst (phost_add reqs host topic p m)) -> In h (map fst reqs) \/ h = host.
Proof.
  induction reqs as [|[h0 tps0] r IH]; intros host topic p m h H; cbn [phost_add] in H.
  - destruct H as [H|[]]. right. symmetry. exact H.
  - destruct (bytes_eqb h0 host); cbn [map fst In] in *.
    + left. exact H.
    + destruct H as [H|H]; [left; left; exact H|]. apply IH in H. tauto.
Qed.
Lemma host_add_keys {P} : forall (reqs : list (bytes * list (bytes * list P))) host topic p h,
  In h (map fst (host_add reqs host topic p)) -> In h (map fst reqs) \/ h = host.
Proof.
  induction reqs as [|[h0 tps0] r IH]; intros host topic p h H; cbn [host_add] in H.
  - destruct H as [H|[]]. right. symmetry. exact H.
  - destruct (bytes_eqb h0 host); cbn [map fst In] in *.
    + left. exact H.
    + destruct H as [H|H]; [left; left; exact H|]. apply IH in H. tauto.
Qed.

Definition fetch_leader (σ : cstate) (input : list fetch_partition) (h : bytes) : Prop :=
  exists q, In q input /\ find_broker σ (fq_topic q) (fq_partition q) = Some h.
Definition topic_leader (σ : cstate) (topics : list bytes) (h : bytes) : Prop :=
  exists t p, In t topics /\ find_broker σ t p = Some h.
Definition produce_leader (σ : cstate) (msgs : list produce_message) (h : bytes) : Prop :=
  exists m, In m msgs /\ find_broker σ (pq_topic m) (pq_partition m) = Some h.

Lemma fetch_reqs_keys c input h : In h (map fst (fetch_reqs c input)) -> fetch_leader (cs c) input h.
Proof.
  unfold fetch_reqs.
  assert (G : forall l reqs,
            In h (map fst (fold_left (fun reqs q =>
               match find_broker (cs c) (fq_topic q) (fq_partition q) with
               | None => reqs
               | Some host =>
                   fhost_add reqs host (fq_topic q) (fq_partition q) (fq_offset q)
                             (if 0 <? fq_max_bytes q then fq_max_bytes q
                              else fetch_max_bytes_per_partition (cfg c))
               end) l reqs)) -> In h (map fst reqs) \/ fetch_leader (cs c) l h).
  { induction l as [|q0 l IH]; intros reqs H; cbn [fold_left] in H; [left; exact H|].
    apply IH in H. destruct H as [H|(q & Hq & Hf)]; [|right; exists q; split; [right; exact Hq|exact Hf]].
    destruct (find_broker (cs c) (fq_topic q0) (fq_partition q0)) as [host|] eqn:E; [|left; exact H].
    apply fhost_add_keys in H. destruct H as [H| ->]; [left; exact H|].
    right. exists q0. split; [left; reflexivity|exact E]. }
  intros H. apply G in H. destruct H as [[]|H]. exact H.
Qed.

Lemma produce_reqs_keys s h : forall msgs acc reqs, produce_reqs s msgs acc = Some reqs ->
  In h (map fst reqs) -> In h (map fst acc) \/ produce_leader s msgs h.
Proof.
  induction msgs as [|m msgs IH]; intros acc reqs H Hin; cbn [produce_reqs] in H.
  - inversion H; subst. left. exact Hin.
  - destruct (find_broker s (pq_topic m) (pq_partition m)) as [host|] eqn:E; [|discriminate].
    destruct (IH _ _ H Hin) as [Ha|(m' & Hm & Hf)]; [|right; exists m'; split; [right; exact Hm|exact Hf]].
    apply phost_add_keys in Ha. destruct Ha as [Ha| ->]; [left; exact Ha|].
    right. exists m. split; [left; reflexivity|exact E].
Qed.

Lemma offset_reqs_keys s topics time h : In h (map fst (offset_reqs s topics time)) -> topic_leader s topics h.
Proof.
  unfold offset_reqs.
  assert (G : forall l reqs,
            In h (map fst (fold_left (fun reqs topic =>
               match partitions_for s topic with
               | None => reqs
               | Some ps => fold_left (fun reqs '(id, host) => host_add reqs host topic (id, time))
                                      (leaders_from s ps 0) reqs
               end) l reqs)) -> In h (map fst reqs) \/ topic_leader s l h).
  { induction l as [|t0 l IH]; intros reqs H; cbn [fold_left] in H; [left; exact H|].
    apply IH in H. destruct H as [H|(t & p & Ht & Hf)]; [|right; exists t, p; split; [right; exact Ht|exact Hf]].
    destruct (partitions_for s t0) as [ps|] eqn:Hps; [|left; exact H].
    assert (G2 : forall lf reqs0, (forall id host, In (id, host) lf -> find_broker s t0 id = Some host) ->
               In h (map fst (fold_left (fun reqs '(id, host) => host_add reqs host t0 (id, time)) lf reqs0)) ->
               In h (map fst reqs0) \/ exists id, find_broker s t0 id = Some h).
    { induction lf as [|[id host] lf IHl]; intros reqs0 Hl H0; cbn [fold_left] in H0; [left; exact H0|].
      apply IHl in H0; [|intros id' host' Hi; apply Hl; right; exact Hi].
      destruct H0 as [H0|H0]; [|right; exact H0].
      apply host_add_keys in H0. destruct H0 as [H0| ->]; [left; exact H0|].
      right. exists id. apply Hl. left. reflexivity. }
    apply G2 in H; [|intros id host Hi; eapply leaders_from_find; eassumption].
    destruct H as [H|[id Hf]]; [left; exact H|]. right. exists t0, id. split; [left; reflexivity|exact Hf]. }
  intros H. apply G in H. destruct H as [[]|H]. exact H.
Qed.

Lemma find_broker_bump σ t p : find_broker (snd (next_correlation_id σ)) t p = find_broker σ t p.
Proof. reflexivity. Qed.

(* fetch_messages: every connect / write / read / shutdown concerns the address that find_broker gives
   for one of the requested partitions, whatever the pool, the script and the iteration order hints *)
Theorem C06_fetch_messages_to_leaders : forall input s r s',
  fetch_messages input s = (r, s') ->
  ops_in (fun e => fetch_leader (cs (cl s)) input (ev_host e)) s s'.
Proof.
  intros input s r s' H. unfold fetch_messages in H.
  rewrite (mbind_ok _ _ _ _ _ (next_corr_run s)) in H. unfold mbind at 1 in H. unfold get_client at 1 in H.
  set (P := fun e => fetch_leader (cs (cl s)) input (ev_host e)).
  assert (Hq : ops_in P s (bump s)) by (apply ops_in_quiet; reflexivity).
  assert (Hkeys : forall h, In h (map fst (fetch_reqs (cl (bump s)) input)) -> fetch_leader (cs (cl s)) input h).
  { intros h Hh. apply fetch_reqs_keys in Hh. exact Hh. }
  bind_inv H reqs s1 H1 H2.
  - destruct (ordered_run _ _ _ _ H1) as (Hs & Ht & _ & Hincl). specialize (Hincl reqs eq_refl).
    eapply ops_in_trans; [exact Hq|]. eapply ops_in_trans; [apply ops_in_quiet; eassumption|].
    apply fetch_exchange_hosts in H2. eapply ops_in_weaken; [|exact H2].
    intros e He. apply Hkeys, Hincl, He.
  - destruct (ordered_run _ _ _ _ H1) as (Hs & Ht & _). eapply ops_in_trans; [exact Hq|]. apply ops_in_quiet; assumption.
  - destruct (ordered_run _ _ _ _ H1) as (Hs & Ht & _). eapply ops_in_trans; [exact Hq|]. apply ops_in_quiet; assumption.
Qed.

Lemma offsets_call_to_leaders {P V} (enc : Z -> bytes -> list (bytes * list (Z * Z)) -> res bytes)
      (d : dec (Z * list (bytes * list P))) (conv : P -> V + Z) pid topics time s r s' :
  (let+ corr := next_corr in
   let+ c := get_client in
   let+ reqs := ordered (offset_reqs (cs c) topics time) in
   offsets_exchange (enc corr (client_id (cfg c))) d conv pid reqs []) s = (r, s') ->
  ops_in (fun e => topic_leader (cs (cl s)) topics (ev_host e)) s s'.
Proof.
  intros H.
  rewrite (mbind_ok _ _ _ _ _ (next_corr_run s)) in H. unfold mbind at 1 in H. unfold get_client at 1 in H.
  set (Q := fun e => topic_leader (cs (cl s)) topics (ev_host e)).
  assert (Hq : ops_in Q s (bump s)) by (apply ops_in_quiet; reflexivity).
  assert (Hkeys : forall h, In h (map fst (offset_reqs (cs (cl (bump s))) topics time)) ->
                            topic_leader (cs (cl s)) topics h).
  { intros h Hh. apply offset_reqs_keys in Hh. exact Hh. }
  bind_inv H reqs s1 H1 H2.
  - destruct (ordered_run _ _ _ _ H1) as (Hs & Ht & _ & Hincl). specialize (Hincl reqs eq_refl).
    eapply ops_in_trans; [exact Hq|]. eapply ops_in_trans; [apply ops_in_quiet; eassumption|].
    apply offsets_exchange_hosts in H2. eapply ops_in_weaken; [|exact H2].
    intros e He. apply Hkeys, Hincl, He.
  - destruct (ordered_run _ _ _ _ H1) as (Hs & Ht & _). eapply ops_in_trans; [exact Hq|]. apply ops_in_quiet; assumption.
  - destruct (ordered_run _ _ _ _ H1) as (Hs & Ht & _). eapply ops_in_trans; [exact Hq|]. apply ops_in_quiet; assumption.
Qed.

Theorem C06_fetch_offsets_to_leaders : forall topics time s r s',
  fetch_offsets topics time s = (r, s') ->
  ops_in (fun e => topic_leader (cs (cl s)) topics (ev_host e)) s s'.
Proof. intros topics time s r s' H. exact (offsets_call_to_leaders _ _ _ _ _ _ _ _ _ H). Qed.

Theorem C06_list_offsets_to_leaders : forall topics time s r s',
  list_offsets topics time s = (r, s') ->
  ops_in (fun e => topic_leader (cs (cl s)) topics (ev_host e)) s s'.
Proof. intros topics time s r s' H. exact (offsets_call_to_leaders _ _ _ _ _ _ _ _ _ H). Qed.

Theorem C06_produce_to_leaders : forall acks timeout msgs s r s',
  internal_produce_messages acks timeout msgs s = (r, s') ->
  ops_in (fun e => produce_leader (cs (cl s)) msgs (ev_host e)) s s'.
Proof.
  intros acks timeout msgs s r s' H. unfold internal_produce_messages in H.
  rewrite (mbind_ok _ _ _ _ _ (next_corr_run s)) in H. unfold mbind at 1 in H. unfold get_client at 1 in H.
  set (Q := fun e => produce_leader (cs (cl s)) msgs (ev_host e)).
  assert (Hq : ops_in Q s (bump s)) by (apply ops_in_quiet; reflexivity).
  destruct (produce_reqs (cs (cl (bump s))) msgs []) as [reqs0|] eqn:Ereqs.
  - assert (Hkeys : forall h, In h (map fst reqs0) -> produce_leader (cs (cl s)) msgs h).
    { intros h Hh. destruct (produce_reqs_keys _ h _ _ _ Ereqs Hh) as [[]|Hl]. exact Hl. }
    bind_inv H reqs s1 H1 H2.
    + destruct (ordered_run _ _ _ _ H1) as (Hs & Ht & _ & Hincl). specialize (Hincl reqs eq_refl).
      eapply ops_in_trans; [exact Hq|]. eapply ops_in_trans; [apply ops_in_quiet; eassumption|].
      apply produce_exchange_hosts in H2. eapply ops_in_weaken; [|exact H2].
      intros e He. apply Hkeys, Hincl, He.
    + destruct (ordered_run _ _ _ _ H1) as (Hs & Ht & _). eapply ops_in_trans; [exact Hq|]. apply ops_in_quiet; assumption.
    + destruct (ordered_run _ _ _ _ H1) as (Hs & Ht & _). eapply ops_in_trans; [exact Hq|]. apply ops_in_quiet; assumption.
  - inversion H; subst. exact Hq.
Qed.

(* non-vacuity: state ex_s5 (topic c: partition 0 without leader, partition 1 led by node 1 @ h1:9092),
   the broker accepts the connection, the script ends during the write *)
Definition ex_x_st (σ : cstate) (sc : list ev_out) : st :=
  {| script := sc; trace := []; anyq := []; hostq := []; fetchq := []; entryq := [];
     cl := {| cfg := default_config ex_hs; cs := σ; conns := [] |}; env := ex_env |}.
Example ex_fetch_messages_to_leaders :
  let input := [ {| fq_topic := tag "c"; fq_partition := 0; fq_offset := 5; fq_max_bytes := 100 |};
                 {| fq_topic := tag "c"; fq_partition := 1; fq_offset := 6; fq_max_bytes := 100 |} ] in
  let '(r, s) := fetch_messages input (ex_x_st ex_s5 [OConn true]) in
  map ev_host (rev (trace s)) = [tag "h1:9092"; tag "h1:9092"] /\
  fetch_leader ex_s5 input (tag "h1:9092").
Proof.
  vm_compute. split; [reflexivity|]. eexists. split; [right; left; reflexivity|reflexivity].
Qed.
Example ex_fetch_offsets_to_leaders :
  let '(r, s) := fetch_offsets [tag "a"; tag "b"] (-1) (ex_x_st ex_s2 [OConn true; OWrote 1000; OData []]) in
  map ev_host (rev (trace s)) = [tag "h1:9092"; tag "h1:9092"; tag "h1:9092"] /\
  topic_leader ex_s2 [tag "a"; tag "b"] (tag "h1:9092").
Proof.
  vm_compute. split; [reflexivity|]. exists (tag "a"), 0. split; [left; reflexivity|reflexivity].
Qed.
Example ex_produce_to_leaders :
  let msgs := [ {| pq_topic := tag "c"; pq_partition := 1; pq_key := None; pq_value := Some (tag "v") |} ] in
  let '(r, s) := internal_produce_messages 1 1000 msgs (ex_x_st ex_s5 [OConn true]) in
  map ev_host (rev (trace s)) = [tag "h1:9092"; tag "h1:9092"] /\ produce_leader ex_s5 msgs (tag "h1:9092").
Proof.
  vm_compute. split; [reflexivity|]. eexists. split; [left; reflexivity|reflexivity].
Qed.

(* ================================================================================================ *)
(* C. completeness: a requested partition that HAS a leader is in the request for its leader's host *)
(* ================================================================================================ *)

Lemma fp_insert_new : forall ps p v, exists y, In (p, y) (fp_insert ps p v).
Proof.
  induction ps as [|[q w] r IH]; intros p v; cbn [fp_insert].
  - exists v. left. reflexivity.
  - destruct (q =? p) eqn:E.
    + exists v. left. f_equal. lia.
    + destruct (IH p v) as [y Hy]. exists y. right. exact Hy.
Qed.
Lemma fp_insert_keep : forall ps p v q y, In (q, y) ps -> exists y', In (q, y') (fp_insert ps p v).
Proof.
  induction ps as [|[q0 w] r IH]; intros p v q y H; cbn [fp_insert]; [destruct H|].
  destruct (q0 =? p) eqn:E; destruct H as [H|H].
  - inversion H; subst. exists v. left. reflexivity.
  - exists y. right. exact H.
  - inversion H; subst. exists y. left. reflexivity.
  - destruct (IH p v q y H) as [y' Hy]. exists y'. right. exact Hy.
Qed.
Lemma pp_add_new : forall ps p (m : pmsg), exists y, In (p, y) (pp_add ps p m).
Proof.
  induction ps as [|[q w] r IH]; intros p m; cbn [pp_add].
  - eexists. left. reflexivity.
  - destruct (q =? p) eqn:E.
    + eexists. left. f_equal. lia.
    + destruct (IH p m) as [y Hy]. exists y. right. exact Hy.
Qed.
Lemma pp_add_keep : forall ps p (m : pmsg) q y, In (q, y) ps -> exists y', In (q, y') (pp_add ps p m).
Proof.
  induction ps as [|[q0 w] r IH]; intros p m q y H; cbn [pp_add]; [destruct H|].
  destruct (q0 =? p) eqn:E; destruct H as [H|H].
  - inversion H; subst. eexists. left. reflexivity.
  - exists y. right. exact H.
  - inversion H; subst. exists y. left. reflexivity.
  - destruct (IH p m q y H) as [y' Hy]. exists y'. right. exact Hy.
Qed.

Lemma fetch_add_new : forall tps topic p off maxb, Kin (fetch_add tps topic p off maxb) topic p.
Proof.
  induction tps as [|[t0 ps0] r IH]; intros topic p off maxb; cbn [fetch_add].
  - apply Kin_cons. left. split; [reflexivity|]. eexists. left. reflexivity.
  - destruct (bytes_eqb t0 topic) eqn:E; apply Kin_cons.
    + beq. left. split; [symmetry; exact E|]. apply fp_insert_new.
    + right. apply IH.
Qed.
Lemma fetch_add_keep : forall tps topic p off maxb t q, Kin tps t q -> Kin (fetch_add tps topic p off maxb) t q.
Proof.
  induction tps as [|[t0 ps0] r IH]; intros topic p off maxb t q H; cbn [fetch_add].
  - exfalso. eapply Kin_nil; exact H.
  - apply Kin_cons in H. destruct (bytes_eqb t0 topic) eqn:E; apply Kin_cons.
    + destruct H as [[-> [y Hy]]|H]; [|right; exact H]. left. split; [reflexivity|]. eapply fp_insert_keep; exact Hy.
    + destruct H as [H|H]; [left; exact H|]. right. apply IH. exact H.
Qed.
Lemma produce_add_new : forall tps topic p m, Kin (produce_add tps topic p m) topic p.
Proof.
  induction tps as [|[t0 ps0] r IH]; intros topic p m; cbn [produce_add].
  - apply Kin_cons. left. split; [reflexivity|]. eexists. left. reflexivity.
  - destruct (bytes_eqb t0 topic) eqn:E; apply Kin_cons.
    + beq. left. split; [symmetry; exact E|]. apply pp_add_new.
    + right. apply IH.
Qed.
Lemma produce_add_keep : forall tps topic p m t q, Kin tps t q -> Kin (produce_add tps topic p m) t q.
Proof.
  induction tps as [|[t0 ps0] r IH]; intros topic p m t q H; cbn [produce_add].
  - exfalso. eapply Kin_nil; exact H.
  - apply Kin_cons in H. destruct (bytes_eqb t0 topic) eqn:E; apply Kin_cons.
    + destruct H as [[-> [y Hy]]|H]; [|right; exact H]. left. split; [reflexivity|]. eapply pp_add_keep; exact Hy.
    + destruct H as [H|H]; [left; exact H|]. right. apply IH. exact H.
Qed.
Lemma tp_add_new {P} : forall (tps : list (bytes * list (Z * P))) topic p x, Kin (tp_add tps topic (p, x)) topic p.
Proof.
  induction tps as [|[t0 ps0] r IH]; intros topic p x; cbn [tp_add].
  - apply Kin_cons. left. split; [reflexivity|]. eexists. left. reflexivity.
  - destruct (bytes_eqb t0 topic) eqn:E; apply Kin_cons.
    + beq. left. split; [symmetry; exact E|]. exists x. apply in_or_app. right. left. reflexivity.
    + right. apply IH.
Qed.
Lemma tp_add_keep {P} : forall (tps : list (bytes * list (Z * P))) topic p x t q,
  Kin tps t q -> Kin (tp_add tps topic (p, x)) t q.
Proof.
  induction tps as [|[t0 ps0] r IH]; intros topic p x t q H; cbn [tp_add].
  - exfalso. eapply Kin_nil; exact H.
  - apply Kin_cons in H. destruct (bytes_eqb t0 topic) eqn:E; apply Kin_cons.
    + destruct H as [[-> [y Hy]]|H]; [|right; exact H]. left. split; [reflexivity|].
      exists y. apply in_or_app. left. exact Hy.
    + destruct H as [H|H]; [left; exact H|]. right. apply IH. exact H.
Qed.

Lemma Hin_nil {P} h t q : ~ @Hin P [] h t q.
Proof. intros (tps & [] & _). Qed.

Lemma fhost_add_new : forall reqs host topic p off maxb, Hin (fhost_add reqs host topic p off maxb) host topic p.
Proof.
  induction reqs as [|[h0 tps0] r IH]; intros host topic p off maxb; cbn [fhost_add].
  - apply Hin_cons. left. split; [reflexivity|]. apply fetch_add_new.
  - destruct (bytes_eqb h0 host) eqn:E; apply Hin_cons.
    + beq. left. split; [symmetry; exact E|]. apply fetch_add_new.
    + right. apply IH.
Qed.
Lemma fhost_add_keep : forall reqs host topic p off maxb h t q,
  Hin reqs h t q -> Hin (fhost_add reqs host topic p off maxb) h t q.
Proof.
  induction reqs as [|[h0 tps0] r IH]; intros host topic p off maxb h t q H; cbn [fhost_add].
  - exfalso. eapply Hin_nil; exact H.
  - apply Hin_cons in H. destruct (bytes_eqb h0 host) eqn:E; apply Hin_cons.
    + destruct H as [[-> Hk]|H]; [|right; exact H]. left. split; [reflexivity|]. apply fetch_add_keep. exact Hk.
    + destruct H as [H|H]; [left; exact H|]. right. apply IH. exact H.
Qed.
Lemma phost_add_new : forall reqs host topic p m, Hin (phost_add reqs host topic p m) host topic p.
Proof.
  induction reqs as [|[h0 tps0] r IH]; intros host topic p m; cbn [phost_add].
  - apply Hin_cons. left. split; [reflexivity|]. apply produce_add_new.
  - destruct (bytes_eqb h0 host) eqn:E; apply Hin_cons.
    + beq. left. split; [symmetry; exact E|]. apply produce_add_new.
    + right. apply IH.
Qed.
Lemma phost_add_keep : forall reqs host topic p m h t q,
  Hin reqs h t q -> Hin (phost_add reqs host topic p m) h t q.
Proof.
  induction reqs as [|[h0 tps0] r IH]; intros host topic p m h t q H; cbn [phost_add].
  - exfalso. eapply Hin_nil; exact H.
  - apply Hin_cons in H. destruct (bytes_eqb h0 host) eqn:E; apply Hin_cons.
    + destruct H as [[-> Hk]|H]; [|right; exact H]. left. split; [reflexivity|]. apply produce_add_keep. exact Hk.
    + destruct H as [H|H]; [left; exact H|]. right. apply IH. exact H.
Qed.
Lemma host_add_new {P} : forall (reqs : list (bytes * list (bytes * list (Z * P)))) host topic p x,
  Hin (host_add reqs host topic (p, x)) host topic p.
Proof.
  induction reqs as [|[h0 tps0] r IH]; intros host topic p x; cbn [host_add].
  - apply Hin_cons. left. split; [reflexivity|]. apply tp_add_new.
  - destruct (bytes_eqb h0 host) eqn:E; apply Hin_cons.
    + beq. left. split; [symmetry; exact E|]. apply tp_add_new.
    + right. apply IH.
Qed.
Lemma host_add_keep {P} : forall (reqs : list (bytes * list (bytes * list (Z * P)))) host topic p x h t q,
  Hin reqs h t q -> Hin (host_add reqs host topic (p, x)) h t q.
Proof.
  induction reqs as [|[h0 tps0] r IH]; intros host topic p x h t q H; cbn [host_add].
  - exfalso. eapply Hin_nil; exact H.
  - apply Hin_cons in H. destruct (bytes_eqb h0 host) eqn:E; apply Hin_cons.
    + destruct H as [[-> Hk]|H]; [|right; exact H]. left. split; [reflexivity|]. apply tp_add_keep. exact Hk.
    + destruct H as [H|H]; [left; exact H|]. right. apply IH. exact H.
Qed.

Theorem C06_fetch_complete : forall c input q host,
  In q input -> find_broker (cs c) (fq_topic q) (fq_partition q) = Some host ->
  exists tps ps x, In (host, tps) (fetch_reqs c input) /\ In (fq_topic q, ps) tps /\ In (fq_partition q, x) ps.
Proof.
  intros c input q host Hmem Hf.
  assert (G : Hin (fetch_reqs c input) host (fq_topic q) (fq_partition q)).
  { unfold fetch_reqs. generalize (@nil (bytes * fetch_tps)) as reqs.
    set (step := fun (reqs : list (bytes * fetch_tps)) (q : fetch_partition) => _).
    assert (Keep : forall l reqs, Hin reqs host (fq_topic q) (fq_partition q) ->
                                  Hin (fold_left step l reqs) host (fq_topic q) (fq_partition q)).
    { induction l as [|q0 l IH]; intros reqs H; cbn [fold_left]; [exact H|]. apply IH. unfold step.
      destruct (find_broker (cs c) (fq_topic q0) (fq_partition q0)); [apply fhost_add_keep|]; exact H. }
    induction input as [|q0 input IH]; intros reqs; [destruct Hmem|]. cbn [fold_left].
    destruct Hmem as [->|Hmem]; [|apply IH; exact Hmem].
    apply Keep. unfold step. rewrite Hf. apply fhost_add_new. }
  destruct G as (tps & Ht & ps & x & Hp & Hx). exists tps, ps, x. auto.
Qed.

Theorem C06_produce_complete : forall s msgs reqs m host,
  produce_reqs s msgs [] = Some reqs -> In m msgs -> find_broker s (pq_topic m) (pq_partition m) = Some host ->
  exists tps ps x, In (host, tps) reqs /\ In (pq_topic m, ps) tps /\ In (pq_partition m, x) ps.
Proof.
  intros s msgs reqs m host H Hmem Hf.
  assert (Keep : forall l acc reqs', produce_reqs s l acc = Some reqs' ->
                   Hin acc host (pq_topic m) (pq_partition m) -> Hin reqs' host (pq_topic m) (pq_partition m)).
  { induction l as [|m0 l IH]; intros acc reqs' H0 Ha; cbn [produce_reqs] in H0; [inversion H0; subst; exact Ha|].
    destruct (find_broker s (pq_topic m0) (pq_partition m0)) as [h0|]; [|discriminate].
    eapply IH; [exact H0|]. apply phost_add_keep. exact Ha. }
  assert (G : forall l acc reqs', produce_reqs s l acc = Some reqs' -> In m l ->
                                  Hin reqs' host (pq_topic m) (pq_partition m)).
  { induction l as [|m0 l IH]; intros acc reqs' H0 Hl; [destruct Hl|]. cbn [produce_reqs] in H0.
    destruct (find_broker s (pq_topic m0) (pq_partition m0)) as [h0|] eqn:E0; [|discriminate].
    destruct Hl as [->|Hl]; [|eapply IH; eassumption].
    eapply Keep; [exact H0|]. rewrite Hf in E0. inversion E0; subst. apply phost_add_new. }
  destruct (G _ _ _ H Hmem) as (tps & Ht & ps & x & Hp & Hx). exists tps, ps, x. auto.
Qed.

(* leaders_from lists exactly the partitions find_broker has an address for *)
Lemma leaders_from_complete s : forall r k i bref b,
  nth_error r i = Some bref -> broker_of s bref = Some b ->
  In (k + Z.of_nat i, b_host b) (leaders_from s r k).
Proof.
  induction r as [|bref0 r IH]; intros k i bref b Hn Hb; [destruct i; discriminate|].
  cbn [leaders_from]. destruct i as [|i].
  - cbn [nth_error] in Hn. inversion Hn; subst. rewrite Hb. left. f_equal. lia.
  - cbn [nth_error] in Hn. pose proof (IH (k + 1) i bref b Hn Hb) as Hi.
    replace (k + Z.of_nat (S i)) with (k + 1 + Z.of_nat i) by lia.
    destruct (broker_of s bref0); [right|]; exact Hi.
Qed.

Theorem C06_available_ids : forall s t ps p,
  partitions_for s t = Some ps ->
  (In p (map fst (leaders_from s ps 0)) <-> find_broker s t p <> None) /\
  (forall host, In (p, host) (leaders_from s ps 0) <-> find_broker s t p = Some host).
Proof.
  intros s t ps p Hps.
  assert (Hiff : forall host, In (p, host) (leaders_from s ps 0) <-> find_broker s t p = Some host).
  { intros host. split; [apply leaders_from_find; exact Hps|].
    unfold find_broker, partition_ref. rewrite Hps. intros H.
    destruct (nth_z ps p) as [bref|] eqn:En; [|discriminate].
    destruct (broker_of s bref) as [b|] eqn:Eb; [|discriminate]. cbn [option_map] in H. inversion H; subst.
    unfold nth_z in En. destruct ((p <? 0) || (ulen ps <=? p)) eqn:Er; [discriminate|].
    pose proof (leaders_from_complete s ps 0 (Z.to_nat p) bref b En Eb) as Hi.
    replace (0 + Z.of_nat (Z.to_nat p)) with p in Hi by lia. exact Hi. }
  split; [|exact Hiff]. split.
  - intros H. apply in_map_iff in H. destruct H as ([p' host] & Hp & Hi). cbn [fst] in Hp. subst p'.
    apply Hiff in Hi. congruence.
  - intros H. destruct (find_broker s t p) as [host|] eqn:E; [|congruence].
    apply in_map_iff. exists (p, host). split; [reflexivity|]. apply Hiff. reflexivity.
Qed.
Example ex_available_ids :
  partitions_for ex_s5 (tag "c") = Some [4294967295; 0] /\
  map fst (leaders_from ex_s5 [4294967295; 0] 0) = [1] /\
  find_broker ex_s5 (tag "c") 0 = None /\ find_broker ex_s5 (tag "c") 1 = Some (tag "h1:9092").
Proof. vm_compute. repeat split; reflexivity. Qed.

Theorem C06_offsets_complete : forall s topics time t p host,
  In t topics -> find_broker s t p = Some host ->
  exists tps ps x, In (host, tps) (offset_reqs s topics time) /\ In (t, ps) tps /\ In (p, x) ps.
Proof.
  intros s topics time t p host Hmem Hf.
  assert (G : Hin (offset_reqs s topics time) host t p).
  { unfold offset_reqs. generalize (@nil (bytes * list (bytes * list (Z * Z)))) as reqs.
    set (inner := fun (topic : bytes) (reqs : list (bytes * list (bytes * list (Z * Z)))) '(id, host) =>
                    host_add reqs host topic (id, time)).
    set (step := fun (reqs : list (bytes * list (bytes * list (Z * Z)))) (topic : bytes) =>
                   match partitions_for s topic with
                   | None => reqs
                   | Some ps => fold_left (inner topic) (leaders_from s ps 0) reqs
                   end).
    change (forall reqs, Hin (fold_left step topics reqs) host t p).
    assert (KeepI : forall topic lf reqs, Hin reqs host t p -> Hin (fold_left (inner topic) lf reqs) host t p).
    { induction lf as [|[id h0] lf IH]; intros reqs H; cbn [fold_left]; [exact H|]. apply IH.
      unfold inner. apply host_add_keep. exact H. }
    assert (Keep : forall l reqs, Hin reqs host t p -> Hin (fold_left step l reqs) host t p).
    { induction l as [|t0 l IH]; intros reqs H; cbn [fold_left]; [exact H|]. apply IH. unfold step.
      destruct (partitions_for s t0); [apply KeepI|]; exact H. }
    induction topics as [|t0 topics IH]; intros reqs; [destruct Hmem|]. cbn [fold_left].
    destruct Hmem as [->|Hmem]; [|apply IH; exact Hmem].
    apply Keep. unfold step.
    destruct (partitions_for s t) as [ps|] eqn:Hps;
      [|unfold find_broker in Hf; rewrite Hps in Hf; discriminate].
    destruct (C06_available_ids s t ps p Hps) as [_ Hiff]. apply Hiff in Hf.
    revert reqs. generalize (leaders_from s ps 0) Hf. clear Hiff.
    induction l as [|[id h0] l IHl]; intros Hl reqs; [destruct Hl|]. cbn [fold_left].
    destruct Hl as [Hl|Hl]; [|apply IHl; exact Hl].
    inversion Hl; subst. apply KeepI. unfold inner. apply host_add_new. }
  destruct G as (tps & Ht & ps & x & Hp & Hx). exists tps, ps, x. auto.
Qed.
(* c/1 (leader at h1:9092) is in the request for h1:9092; the leaderless c/0 is in none *)
Example ex_complete :
  let q := {| fq_topic := tag "c"; fq_partition := 1; fq_offset := 6; fq_max_bytes := 100 |} in
  find_broker ex_s5 (fq_topic q) (fq_partition q) = Some (tag "h1:9092") /\
  fetch_reqs {| cfg := default_config []; cs := ex_s5; conns := [] |}
             [ {| fq_topic := tag "c"; fq_partition := 0; fq_offset := 5; fq_max_bytes := 100 |}; q ]
  = [(tag "h1:9092", [(tag "c", [(1, (6, 100))])])] /\
  offset_reqs ex_s5 [tag "c"] (-1) = [(tag "h1:9092", [(tag "c", [(1, -1)])])].
Proof. vm_compute. repeat split; reflexivity. Qed.

(* ================================================================================================ *)
(* D. one load, read pointwise and end to end: where does a request for (t, p) go afterwards?       *)
(* ================================================================================================ *)

(* the address of node l after the load: the LAST broker entry of the response with that id, else the
   address known before *)
Definition host_after (s : cstate) (md : metadata_resp) (l : Z) : option bytes :=
  match last_broker (md_brokers md) l with
  | Some m => Some (host_port (bm_host m) (bm_port m))
  | None => assoc_z l (map bpair (brokers s))
  end.

Lemma nth_leader_vec h pms p :
  nth_z (leader_vec h pms) p
  = if (0 <=? p) && (p <? ulen pms)
    then Some (match listed_leader pms p with Some l => known_leader h l | None => None end)
    else None.
Proof.
  unfold leader_vec. rewrite nth_z_map. unfold nth_z, ulen. rewrite iota_length.
  destruct ((p <? 0) || (Z.of_nat (length pms) <=? p)) eqn:E.
  - replace ((0 <=? p) && (p <? Z.of_nat (length pms))) with false by lia. reflexivity.
  - replace ((0 <=? p) && (p <? Z.of_nat (length pms))) with true by lia.
    rewrite (iota_nth (length pms) 0 (Z.to_nat p)) by lia. cbn [option_map].
    replace (0 + Z.of_nat (Z.to_nat p)) with p by lia. reflexivity.
Qed.

Lemma known_leader_host h l :
  match known_leader h l with Some l' => assoc_z l' h | None => None end = assoc_z l h.
Proof. unfold known_leader, known. destruct (assoc_z l h) eqn:E; [exact E|reflexivity]. Qed.

Theorem C06_route_after_load : forall s md s' t p,
  inv s -> wf_md md -> small s' -> update_metadata s md = Ok s' ->
  find_broker s' t p =
  match last_topic (md_topics md) t with
  | Some tm => if (0 <=? p) && (p <? ulen (tm_partitions tm))
               then match listed_leader (tm_partitions tm) p with
                    | Some l => host_after s md l
                    | None => None
                    end
               else None
  | None => match leader_of (abs s) t p with Some l => host_after s md l | None => None end
  end.
Proof.
  intros s md s' t p Hinv Hwf Hsmall Hu.
  pose proof (C06_inv_step _ _ _ Hinv Hu) as Hinv'.
  rewrite (C06_routing' s' t p Hinv'). rewrite (C06_refines _ _ _ Hinv Hwf Hsmall Hu).
  assert (Hhost : forall l, assoc_z l (a_host (merge (abs s) md)) = host_after s md l).
  { intros l. rewrite C06_merge_host_lookup. reflexivity. }
  unfold route. rewrite C06_merge_topic_lookup.
  destruct (last_topic (md_topics md) t) as [tm|].
  - rewrite nth_leader_vec. destruct ((0 <=? p) && (p <? ulen (tm_partitions tm))); [|reflexivity].
    destruct (listed_leader (tm_partitions tm) p) as [l|]; [|reflexivity].
    rewrite <- Hhost. apply known_leader_host.
  - unfold leader_of. destruct (assoc_bytes t (a_topics (abs s))) as [ps|]; [|reflexivity].
    destruct (nth_z ps p) as [[l|]|]; try reflexivity. apply Hhost.
Qed.
(* ex_s1 --ex_md2--> ex_s2: topic b is listed (b/0 -> node 2, which moved to port 9093); topic a is not
   listed, a/1 stays with node 2 and follows it to the new address; b/1 does not exist *)
Example ex_route_after_load :
  inv ex_s1 /\ wf_md ex_md2 /\ small ex_s2 /\ update_metadata ex_s1 ex_md2 = Ok ex_s2 /\
  find_broker ex_s2 (tag "b") 0 = Some (tag "h2:9093") /\ find_broker ex_s2 (tag "b") 1 = None /\
  find_broker ex_s1 (tag "a") 1 = Some (tag "h2:9092") /\ find_broker ex_s2 (tag "a") 1 = Some (tag "h2:9093") /\
  last_topic (md_topics ex_md2) (tag "a") = None /\ host_after ex_s1 ex_md2 2 = Some (tag "h2:9093").
Proof.
  split; [exact ex_inv_s1|]. split; [exact ex_wf_md2|].
  split; [unfold small; vm_compute; discriminate|]. vm_compute. repeat split; reflexivity.
Qed.

(* the two state-level seeded changes, as consequences: a listed topic is REPLACED (also by nothing), and an
   unlisted topic keeps its leaders by node id whatever happens to the broker list *)
Corollary C06_emptied_topic_unroutable : forall s md s' tm p,
  inv s -> wf_md md -> small s' -> update_metadata s md = Ok s' ->
  last_topic (md_topics md) (tm_topic tm) = Some tm -> tm_partitions tm = [] ->
  find_broker s' (tm_topic tm) p = None.
Proof.
  intros s md s' tm p Hinv Hwf Hsmall Hu Hl He.
  rewrite (C06_route_after_load _ _ _ (tm_topic tm) p Hinv Hwf Hsmall Hu), Hl, He.
  unfold ulen. cbn [length]. replace ((0 <=? p) && (p <? Z.of_nat 0)) with false by lia. reflexivity.
Qed.

Corollary C06_unlisted_topic_keeps_address : forall s md s' t p,
  inv s -> wf_md md -> small s' -> update_metadata s md = Ok s' ->
  last_topic (md_topics md) t = None ->
  (forall l, leader_of (abs s) t p = Some l -> last_broker (md_brokers md) l = None) ->
  find_broker s' t p = find_broker s t p.
Proof.
  intros s md s' t p Hinv Hwf Hsmall Hu Hl Hb.
  rewrite (C06_route_after_load _ _ _ t p Hinv Hwf Hsmall Hu), Hl.
  rewrite (C06_routing' s t p Hinv), route_leader.
  destruct (leader_of (abs s) t p) as [l|]; [|reflexivity].
  unfold host_after. rewrite (Hb l eq_refl). reflexivity.
Qed.
(* the seeded scenarios themselves *)
Definition ex_w1 : metadata_resp :=
  {| md_corr := 1; md_brokers := [ex_bm 10 (tag "g1") 9092; ex_bm 50 (tag "g2") 9876; ex_bm 30 (tag "g3") 9092];
     md_topics := [ex_tm (tag "one") [ex_pm 0 50; ex_pm 1 10; ex_pm 2 30]; ex_tm (tag "two") [ex_pm 0 30]] |}.
Definition ex_w2 : metadata_resp :=    (* broker 10 has left; only topic two is listed *)
  {| md_corr := 2; md_brokers := [ex_bm 50 (tag "g2") 9876; ex_bm 30 (tag "g3") 9092];
     md_topics := [ex_tm (tag "two") [ex_pm 0 50]] |}.
Definition ex_w3 : metadata_resp :=    (* topic one is listed without partitions *)
  {| md_corr := 3; md_brokers := [ex_bm 50 (tag "g2") 9876; ex_bm 30 (tag "g3") 9092];
     md_topics := [ex_tm (tag "one") []] |}.
Example ex_seeded_state_scenarios :
  let s1 := ex_load cstate_new ex_w1 in
  let s2 := ex_load s1 ex_w2 in
  let s3 := ex_load s1 ex_w3 in
  map (find_broker s1 (tag "one")) [0; 1; 2] = [Some (tag "g2:9876"); Some (tag "g1:9092"); Some (tag "g3:9092")] /\
  map (find_broker s2 (tag "one")) [0; 1; 2] = map (find_broker s1 (tag "one")) [0; 1; 2] /\
  last_topic (md_topics ex_w2) (tag "one") = None /\
  map (find_broker s3 (tag "one")) [0; 1; 2] = [None; None; None] /\
  wf_md ex_w2 /\ wf_md ex_w3.
Proof.
  vm_compute. repeat split; try reflexivity; repeat constructor.
Qed.

(* ---- further non-vacuity examples ---------------------------------------------------------------- *)
Example ex_fetch_metadata_none :
  let st0 := {| script := [OConn false; OConn false; OConn false; OConn true]; trace := []; anyq := [tag "k:9"];
                hostq := []; fetchq := []; entryq := [];
                cl := {| cfg := default_config ex_hs; cs := cstate_new; conns := [tag "k:9"] |}; env := ex_env |} in
  fetch_metadata [] st0
  = (Err ENoHostReachable,
     st_with (bump st0) [OConn true] [EConnect (tag "c:3"); EConnect (tag "b:2"); EConnect (tag "a:1")]).
Proof. vm_compute. reflexivity. Qed.
Example ex_list_offsets_to_leaders :
  let '(r, s) := list_offsets [tag "c"] (-1) (ex_x_st ex_s5 [OConn true]) in
  map ev_host (rev (trace s)) = [tag "h1:9092"; tag "h1:9092"] /\ topic_leader ex_s5 [tag "c"] (tag "h1:9092").
Proof. vm_compute. split; [reflexivity|]. exists (tag "c"), 1. split; [left; reflexivity|reflexivity]. Qed.
Example ex_produce_complete :
  let m := {| pq_topic := tag "c"; pq_partition := 1; pq_key := None; pq_value := Some (tag "v") |} in
  find_broker ex_s5 (pq_topic m) (pq_partition m) = Some (tag "h1:9092") /\
  produce_reqs ex_s5 [m] [] = Some [(tag "h1:9092", [(tag "c", [(1, [(None, Some (tag "v"))])])])].
Proof. vm_compute. split; reflexivity. Qed.
(* a host that accepted the request but then fails the READ ends the load with that error: the next bootstrap
   host is not tried (it "could be reached"; the result is not NoHostReachable) *)
Example ex_read_failure_no_failover :
  let '(r, s) := fetch_metadata_hosts 1 [] ex_hs (ex_st ex_hs [OConn true; OWrote 18; OData []; OConn true]) in
  r = Err (EIo IoUnexpectedEof) /\ map ev_host (rev (trace s)) = [tag "a:1"; tag "a:1"; tag "a:1"].
Proof. vm_compute. split; reflexivity. Qed.

(* ================================================================================================ *)
Print Assumptions C06_fetch_metadata_first.
Print Assumptions C06_fetch_metadata_none.
Print Assumptions C06_bootstrap_first_pooled.
Print Assumptions C06_bootstrap_send_fails_next.
Print Assumptions C06_metadata_only_bootstrap_hosts.
Print Assumptions C06_load_metadata_only_bootstrap_hosts.
Print Assumptions C06_load_metadata_view.
Print Assumptions C06_load_metadata_all_view.
Print Assumptions C06_fetch_messages_to_leaders.
Print Assumptions C06_fetch_offsets_to_leaders.
Print Assumptions C06_list_offsets_to_leaders.
Print Assumptions C06_produce_to_leaders.
Print Assumptions C06_fetch_complete.
Print Assumptions C06_produce_complete.
Print Assumptions C06_offsets_complete.
Print Assumptions C06_available_ids.
Print Assumptions C06_route_after_load.
Print Assumptions C06_emptied_topic_unroutable.
Print Assumptions C06_unlisted_topic_keeps_address.
