(* C08, additional theorems, second pass (mutation adequacy, round four).
   Seed C08-4 (load_fetch_states: the lower bound of the in-range guard loses its "+ 1", so a stored offset
   equal to the log start falls back) is mirrored by start_offset; the mirrored change falsifies
   C08_load_roundtrip and C08_restart_resumes (both demand the stored offset c for earliest <= c <= latest,
   bounds included) - confirmed on a scratch copy.  Nothing had to be added for the seed; this file holds
   compositions up to the public entry points:
   A. over ANY history of marks / commits / failed commits / polls from a consumer without pending marks, a
      successful commit_consumed sent - to the group's coordinator, with the version of the configured
      storage - exactly the partitions whose mark differs from the mark at the last successful commit, each
      with mark + 1 (C08_history_commit_exact); with nothing changed nothing is sent (C08_commit_nothing_dirty);
   B. Builder::create: for every subscribed partition the coordinator reported a stored offset c for, the new
      consumer answers last_consumed_message = c - 1 and fetches first at c when earliest <= c <= latest
      (bounds included), at the fallback offset otherwise (C08_create_resumes);
   C. the forward direction of commit: when the coordinator's answer accepts every entry, commit_loop /
      commit_consumed answer Ok and the flags are cleared (C08_commit_loop_accepted, C08_commit_consumed_accepted). *)
From KV Require Import Base.Prelude Gen.ErrorCodes Gen.Consts Model.Codecs Model.Requests Model.Responses
                       Model.ClientState Model.Net Model.Client Model.Consumer.
From KV Require Import Proofs.BytesFacts Proofs.C07Facts Proofs.C19Facts Proofs.C08Facts Proofs.C08Extra.
From KV Require Proofs.C07Extra.   (* only for the scripted cluster of the example C08_create_resumes_ex *)
From Coq Require Import ZifyBool Permutation.
Ltac Zify.zify_post_hook ::= Z.div_mod_to_equations.

(* ================================================================================== *)
(* A. what a successful commit sent, over a history                                   *)
(* ================================================================================== *)

Lemma tk_set_keys_in {V} (key : tpkey) (v : V) : forall m x,
  In x (map fst (tk_set key v m)) -> x = key \/ In x (map fst m).
Proof.
  induction m as [|[k1 v1] m IH]; intros x H; cbn [tk_set map fst In] in *.
  - destruct H as [H|[]]. left. congruence.
  - destruct (tpkey_eqb k1 key) eqn:E; cbn [map fst In] in H.
    + right. exact H.
    + destruct H as [H|H]; [right; left; exact H|]. destruct (IH _ H) as [Hk|Hin]; [left; exact Hk|right; right; exact Hin].
Qed.

Lemma tk_set_keys_nodup {V} (key : tpkey) (v : V) : forall m,
  NoDup (map fst m) -> NoDup (map fst (tk_set key v m)).
Proof.
  induction m as [|[k1 v1] m IH]; intros H; cbn [tk_set map fst].
  - constructor; [intros []|constructor].
  - cbn [map fst] in H. inversion H as [|x xs Hn Hd]; subst.
    destruct (tpkey_eqb k1 key) eqn:E; cbn [map fst]; [constructor; assumption|].
    constructor; [|apply IH; exact Hd]. intros Hin. apply tk_set_keys_in in Hin.
    destruct Hin as [Hk|Hin]; [apply tpkey_eqb_neq in E; congruence|contradiction].
Qed.

Lemma tk_get_some_in {V} (key : tpkey) (v : V) : forall m, tk_get key m = Some v -> In (key, v) m.
Proof.
  induction m as [|[k1 v1] m IH]; intros H; cbn [tk_get] in H; [discriminate|].
  destruct (tpkey_eqb k1 key) eqn:E.
  - apply tpkey_eqb_eq in E. inversion H; subst. left. reflexivity.
  - right. apply IH. exact H.
Qed.

Lemma tk_get_in_nodup {V} (key : tpkey) (v : V) : forall m,
  NoDup (map fst m) -> In (key, v) m -> tk_get key m = Some v.
Proof.
  induction m as [|[k1 v1] m IH]; intros Hnd Hin; [destruct Hin|].
  cbn [map fst] in Hnd. inversion Hnd as [|x xs Hn Hd]; subst. cbn [tk_get].
  destruct Hin as [Hh|Ht].
  - inversion Hh; subst. rewrite tpkey_eqb_refl. reflexivity.
  - destruct (tpkey_eqb k1 key) eqn:E.
    + apply tpkey_eqb_eq in E. subst k1. exfalso. apply Hn. apply in_map_iff. exists (key, v). auto.
    + apply IH; assumption.
Qed.

Lemma map_clear_keys (m : list (tpkey * (Z * bool))) :
  map fst (map (fun '(key, (o, _)) => (key, (o, false))) m) = map fst m.
Proof. induction m as [|[k1 [o d]] m IH]; [reflexivity|]. cbn [map fst]. rewrite IH. reflexivity. Qed.

(* the keys of consumed_offsets stay distinct over any history (it is a HashMap in the Rust code) *)
Lemma reach_nodup b0 k0 b k : reach b0 k0 b k ->
  NoDup (map fst (k_consumed k0)) -> NoDup (map fst (k_consumed k)).
Proof.
  intros Hr. induction Hr as [base k|base k t p off k1 b' k' Hm Hr IH|base k s k1 s1 b' k' Hc Hr IH|base k k1 b' k' Ho Hr IH];
    intros H0.
  - exact H0.
  - apply IH. destruct (consume_spec _ _ _ _ _ Hm) as (r & _ & _ & _ & Hkey).
    destruct (tk_get (r, p) (k_consumed k)) as [[o d]|].
    + destruct (o <? off); [rewrite Hkey; apply tk_set_keys_nodup; exact H0|subst k1; exact H0].
    + rewrite Hkey. apply tk_set_keys_nodup. exact H0.
  - apply IH. destruct (commit_consumed_ok _ _ _ _ Hc) as (Hcc & _). rewrite Hcc, map_clear_keys. exact H0.
  - apply IH. rewrite Ho. exact H0.
Qed.

Lemma dirty_true_entries k key : dirty k key = Some true -> dirty_entries k <> [].
Proof.
  unfold dirty. destruct (tk_get key (k_consumed k)) as [[o d]|] eqn:E; cbn [option_map snd]; [|discriminate].
  intros H. inversion H; subst d. apply tk_get_some_in in E. destruct key as [r p].
  intros Hn. assert (Hin : In (topic_name k r, p, o) (dirty_entries k)).
  { apply dirty_entries_in. exists r. auto. }
  rewrite Hn in Hin. destruct Hin.
Qed.

(* THE statement of the first sentence of C08 at the public entry point.  k0: a consumer without pending
   marks (what Builder::create returns, C08_create_loads); any history of marks (any offsets, also lower
   ones), successful commits, failed commits, polls, seeks leads to k, b being the marks as of the last
   successful commit (as loaded, if there was none).  If commit_consumed k then answers Ok, ONE request
   with the commit version of the configured storage went to the group's coordinator, every entry of it
   was accepted, and its entries are exactly: (topic, partition, mark + 1) for the partitions whose mark
   differs from b. *)
Theorem C08_history_commit_exact : forall k0 b k s k' s',
  NoDup (map fst (k_consumed k0)) ->
  (forall key, dirty k0 key <> Some true) ->
  reach (mark k0) k0 b k ->
  (forall key o, mark k key = Some o -> i64_min <= o < i64_max) ->
  (exists key, mark k key <> b key) ->
  commit_consumed k s = (Ok k', s') ->
  exists tps0 h corr tps s1 s2,
    0 <= offset_storage (cfg (cl s))
    /\ get_group_coordinator (k_group k) s1 = (Ok h, s2)
    /\ send_receive dec_offset_commit_resp h
         (enc_offset_commit_req (fst (next_correlation_id (cs (cl s)))) (client_id (cfg (cl s))) (k_group k)
                                (commit_version (offset_storage (cfg (cl s)))) tps0) s2 = (Ok (corr, tps), s')
    /\ Forall (fun e => e = 0) (commit_codes tps)
    /\ (forall t p c, In (t, (p, c)) (flat_c tps0) <->
                      exists r o, t = topic_name k r /\ mark k (r, p) = Some o /\ b (r, p) <> Some o /\ c = o + 1)
    /\ (forall key, mark k' key = mark k key) /\ (forall key, dirty k' key <> Some true).
Proof.
  intros k0 b k s k' s' Hnd0 Hcl Hr Hrng [key0 Hchg] Hc.
  pose proof (C08_history_dirty_exact _ _ _ Hcl Hr) as Hd.
  pose proof (reach_nodup _ _ _ _ Hr Hnd0) as Hnd.
  assert (Hne : dirty_entries k <> []).
  { apply (dirty_true_entries k key0). apply (proj1 (Hd key0)). exact Hchg. }
  destruct (C08_commit_consumed_ok_accepted _ _ _ _ Hc Hne)
    as (order & os & tps0 & h & corr & tps & s1 & s2 & Hos & Htps & Hst & Hh & Hsr & Hall).
  exists tps0, h, corr, tps, s1, s2.
  split; [exact Hst|]. split; [exact Hh|]. split; [exact Hsr|]. split; [exact Hall|].
  pose proof (C08_reorder_perm order (dirty_entries k)) as Hperm.
  assert (Hrange : Forall (fun e : bytes * Z * Z => i64_min <= snd e < i64_max) (reorder_entries order (dirty_entries k))).
  { apply Forall_forall. intros [[t p] o] Hin. cbn [snd].
    apply (Permutation_in _ Hperm) in Hin. apply dirty_entries_in in Hin. destruct Hin as (r & Hin & _).
    apply (tk_get_in_nodup _ _ _ Hnd) in Hin. apply (Hrng (r, p)). unfold mark. rewrite Hin. reflexivity. }
  rewrite (C08_commit_entries _ _ Hrange) in Hos. inversion Hos as [Hos']. clear Hos.
  pose proof (C08_commit_tps_all _ _ _ Htps) as Hpt.
  destruct (C08_commit_clears_only_on_success _ _ _ _ Hc) as (Hm' & Hd' & _).
  split; [|split; [exact Hm'|]].
  - intros t p c. split.
    + intros Hin. apply (Permutation_in _ Hpt) in Hin. rewrite <- Hos' in Hin. rewrite map_map in Hin.
      apply in_map_iff in Hin. destruct Hin as ([[t1 p1] o1] & E & Hin). cbn [fst snd co_topic co_partition co_offset] in E.
      inversion E; subst t1 p1 c. clear E.
      apply (Permutation_in _ Hperm) in Hin. apply dirty_entries_in in Hin. destruct Hin as (r & Hin & Ht).
      apply (tk_get_in_nodup _ _ _ Hnd) in Hin.
      exists r, o1. split; [exact Ht|].
      assert (Hmk : mark k (r, p) = Some o1) by (unfold mark; rewrite Hin; reflexivity).
      split; [exact Hmk|]. split; [|reflexivity].
      intros Hb. apply (proj1 (proj1 (Hd (r, p)))); [unfold dirty; rewrite Hin; reflexivity|]. congruence.
    + intros (r & o & Ht & Hmk & Hb & Hcc). subst c t.
      apply (Permutation_in _ (Permutation_sym Hpt)). rewrite <- Hos', map_map.
      apply in_map_iff. exists (topic_name k r, p, o). split; [reflexivity|].
      apply (Permutation_in _ (Permutation_sym Hperm)). apply dirty_entries_in. exists r. split; [|reflexivity].
      apply tk_get_some_in.
      assert (Hdt : dirty k (r, p) = Some true) by (apply (proj1 (Hd (r, p))); congruence).
      unfold mark in Hmk. unfold dirty in Hdt.
      destruct (tk_get (r, p) (k_consumed k)) as [[o' d']|]; cbn [option_map fst snd] in *; [|discriminate].
      congruence.
  - intros key. rewrite Hd'. destruct (dirty k key); cbn [option_map]; discriminate.
Qed.

(* non-vacuity: the loaded consumer k0 (a/1: 19, b/0: 31, clean) marks a/1 at 25, then at 7 (lower), then
   commits: exactly a/1 is sent, with 26; b/0, unchanged since it was loaded, is not *)
Definition exb_resp1 : bytes :=
  enc_i32 1 ++ enc_i32 1 ++ enc_i16 1 ++ tag "a" ++ enc_i32 1 ++ enc_i32 1 ++ enc_i16 0.
Definition exb_run1 : st :=
  st_with (ex_st ex_client1) [OConn true; OWrote 1000; OData (enc_i32 (ulen exb_resp1)); OData exb_resp1] [].
Definition exb_k0 : consumer :=
  consumer_with ex_k2 (k_fetch ex_k2) [] [((0, 1), (19, false)); ((1, 0), (31, false))].
Definition exb_k1 : consumer :=
  consumer_with exb_k0 (k_fetch exb_k0) (k_retry exb_k0) [((0, 1), (25, true)); ((1, 0), (31, false))].

Example C08_history_commit_exact_ex :
  consume_message exb_k0 (tag "a") 1 25 = Ok exb_k1
  /\ consume_message exb_k1 (tag "a") 1 7 = Ok exb_k1
  /\ NoDup (map fst (k_consumed exb_k0))
  /\ (forall key, dirty exb_k0 key <> Some true)
  /\ reach (mark exb_k0) exb_k0 (mark exb_k0) exb_k1
  /\ mark exb_k1 (0, 1) <> mark exb_k0 (0, 1)
  /\ consumed_of (fst (commit_consumed exb_k1 exb_run1)) = Ok [((0, 1), (25, false)); ((1, 0), (31, false))]
  /\ match trace (snd (commit_consumed exb_k1 exb_run1)) with
     | [_; _; EWrite h bs; EConnect h'] =>
         Ok bs = match enc_offset_commit_req 1 (tag "me") (tag "g") OFFSET_COMMIT_V1 [(tag "a", [(1, 26)])]
                 with Ok p => Ok (frame p) | Err e => Err e | Panic w => Panic w end
     | _ => False
     end.
Proof.
  assert (H1 : consume_message exb_k0 (tag "a") 1 25 = Ok exb_k1) by (vm_compute; reflexivity).
  assert (H2 : consume_message exb_k1 (tag "a") 1 7 = Ok exb_k1) by (vm_compute; reflexivity).
  split; [exact H1|]. split; [exact H2|].
  split; [repeat constructor; cbn; intuition congruence|].
  split.
  { intros key. unfold dirty, exb_k0, consumer_with. cbn [k_consumed tk_get].
    destruct (tpkey_eqb (0, 1) key); [cbn; discriminate|]. destruct (tpkey_eqb (1, 0) key); cbn; discriminate. }
  split; [exact (reach_mark _ _ _ _ _ _ _ _ H1 (reach_mark _ _ _ _ _ _ _ _ H2 (reach_refl _ _)))|].
  split; [vm_compute; discriminate|]. split; vm_compute; reflexivity.
Qed.

(* nothing changed since the last successful commit: commit_consumed answers Ok without any I/O *)
Theorem C08_commit_nothing_dirty : forall k s,
  k_group k <> [] -> 0 <= offset_storage (cfg (cl s)) -> dirty_entries k = [] ->
  exists k' s', commit_consumed k s = (Ok k', s')
    /\ trace s' = trace s /\ script s' = script s /\ (forall key, mark k' key = mark k key).
Proof.
  intros k s Hg Hst Hde.
  assert (H : exists k' s', commit_consumed k s = (Ok k', s') /\ trace s' = trace s /\ script s' = script s).
  { unfold commit_consumed. destruct (k_group k) as [|g0 g] eqn:Eg; [congruence|]. rewrite Hde.
    cbv beta iota delta [mbind get_env ret lift reorder_entries commit_entries commit_offsets get_client next_corr
                         set_cs set_client commit_tps].
    destruct (offset_storage (cfg (cl s)) <? 0) eqn:E; [lia|].
    destruct (next_correlation_id (cs (cl s))) as [n cs']. cbn [script trace cl].
    eexists. eexists. split; [reflexivity|]. split; reflexivity. }
  destruct H as (k' & s' & H & Ht & Hs). exists k', s'. split; [exact H|]. split; [exact Ht|]. split; [exact Hs|].
  destruct (C08_commit_clears_only_on_success _ _ _ _ H) as (Hm & _). exact Hm.
Qed.

Example C08_commit_nothing_dirty_ex :
  dirty_entries exb_k0 = [] /\ k_group exb_k0 = tag "g" /\ offset_storage (cfg (cl (ex_st ex_client1))) = 1
  /\ consumed_of (fst (commit_consumed exb_k0 (ex_st ex_client1))) = Ok (k_consumed exb_k0)
  /\ trace (snd (commit_consumed exb_k0 (ex_st ex_client1))) = [].
Proof. vm_compute. repeat split. Qed.

(* ================================================================================== *)
(* B. Builder::create: where the re-created consumer resumes                           *)
(* ================================================================================== *)

Lemma group_scan_nodup : forall tps m m',
  NoDup (map fst m) -> group_scan tps m = inl (inl m') -> NoDup (map fst m').
Proof.
  induction tps as [|[t ps] r IH]; intros m m' Hnd H; cbn [group_scan] in H.
  - inversion H; subst. exact Hnd.
  - destruct (group_scan_parts ps []) as [vs|c reset|c]; [|discriminate|discriminate].
    eapply IH; [|exact H]. apply map_insert_nodup. exact Hnd.
Qed.

Lemma group_fetch_loop_nodup : forall fuel group req attempt s m s',
  group_fetch_loop fuel group req attempt s = (Ok m, s') -> NoDup (map fst m).
Proof.
  induction fuel as [|f IH]; intros group req attempt s m s' H; cbn [group_fetch_loop] in H; [discriminate|].
  apply mbind_ok in H. destruct H as (h & s1 & Hh & H).
  apply mbind_ok in H. destruct H as ([corr tps] & s2 & Hsr & H).
  destruct (group_scan tps []) as [[m0|[code reset]]|c] eqn:Eg.
  - unfold ret in H. inversion H; subst. eapply group_scan_nodup; [|exact Eg]. constructor.
  - apply mbind_ok in H. destruct H as (c & s3 & Hc & H).
    apply mbind_ok in H. destruct H as (u & s4 & Hu & H).
    destruct (attempt <? retry_max_attempts (cfg c)); [|discriminate]. eapply IH. exact H.
  - discriminate.
Qed.

(* the table fetch_group_offsets hands out has one entry per topic *)
Lemma fetch_group_offsets_nodup group ps s tpos s' :
  fetch_group_offsets group ps s = (Ok tpos, s') -> NoDup (map fst tpos).
Proof.
  intros H. unfold fetch_group_offsets in H.
  apply mbind_ok in H. destruct H as (c & s1 & _ & H).
  destruct (offset_storage (cfg c) <? 0); [discriminate|].
  apply mbind_ok in H. destruct H as (corr & s2 & _ & H).
  destruct (group_fetch_tps (cs c) ps []) as [tps|]; [|discriminate].
  unfold with_fuel in H. eapply group_fetch_loop_nodup. exact H.
Qed.

Lemma create_inv src calls s k s' :
  consumer_create src calls s = (Ok k, s') ->
  exists subs s1 s2,
    subscriptions_of (cs (cl s1)) (k_assign k) = Ok subs
    /\ load_consumed_offsets (k_group k) (k_assign k) subs s1 = (Ok (k_consumed k), s2)
    /\ load_fetch_states (k_fallback k) (k_assign k) subs (k_consumed k) s2 = (Ok (k_fetch k), s').
Proof.
  intros H. unfold consumer_create in H. cbv zeta in H.
  set (b := fold_left cbuilder_apply calls (cbuilder_new src)) in *.
  destruct (cb_assign b) as [|a0 ar] eqn:Ea; [discriminate|]. rewrite <- Ea in H.
  apply mbind_ok in H. destruct H as (c & sa & _ & H).
  apply mbind_ok in H. destruct H as (wait & sb & _ & H).
  apply mbind_ok in H. destruct H as (u1 & sc & _ & H).
  apply mbind_ok in H. destruct H as (u2 & sd & _ & H).
  apply mbind_ok in H. destruct H as (c1 & se & Hc1 & H). unfold get_client in Hc1. inversion Hc1; subst c1 se.
  apply mbind_ok in H. destruct H as (subs & sf & Hsub & H). unfold lift in Hsub. injection Hsub as Hsub Hsf. subst sf.
  apply mbind_ok in H. destruct H as (consumed & sg & Hlc & H).
  apply mbind_ok in H. destruct H as (fetch & sh & Hlf & H).
  apply mbind_ok in H. destruct H as (c2 & si & Hc2 & H).
  unfold get_client in Hc2. inversion Hc2; subst c2 si. unfold ret in H. inversion H; subst k s'. clear H.
  cbn [k_group k_assign k_consumed k_fetch k_fallback].
  exists subs, sd, sg. split; [exact Hsub|]. split; [exact Hlc|exact Hlf].
Qed.

(* THE statement of the second sentence of C08 at the public entry point.  A consumer with a group is
   created (for the first time or after a crash: nothing of the previous consumer enters).  tpos is what
   the coordinator answered to the one offset-fetch of the creation.  For EVERY subscribed partition (t, p)
   the answer lists with a stored offset c (c <> -1):
   - last_consumed_message answers c - 1;
   - if c lies within what the partition's log holds, earliest <= c <= latest - BOTH bounds included, in
     particular c = earliest (everything consumed so far is gone, nothing else) and c = latest (nothing new) -
     the first fetch of (t, p) is at exactly c, whatever the fallback setting;
   - if it lies outside, the first fetch is at the fallback offset (as if nothing were stored).
   The only premise about the answer: no partition is listed twice under one topic. *)
Theorem C08_create_resumes : forall src calls s k s',
  consumer_create src calls s = (Ok k, s') -> k_group k <> [] ->
  exists subs tpos s1 s2,
    subscriptions_of (cs (cl s1)) (k_assign k) = Ok subs
    /\ fetch_group_offsets (k_group k) (flat_map (fun '(t, ps) => map (fun p => (t, p)) ps) subs) s1 = (Ok tpos, s2)
    /\ NoDup (map fst tpos)
    /\ ((forall t pos, In (t, pos) tpos -> NoDup (map fst pos)) ->
        forall t ps p pos c, In (t, ps) subs -> In p ps -> In (t, pos) tpos -> In (p, c) pos ->
          c <> -1 -> i64_min < c <= i64_max ->
          exists latest earliest s3 r,
            load_partition_offsets (map fst subs) FETCH_OFFSET_LATEST s2 = (Ok latest, s3)
            /\ load_partition_offsets (map fst subs) FETCH_OFFSET_EARLIEST s3 = (Ok earliest, s')
            /\ topic_ref (k_assign k) t = Some r
            /\ last_consumed_message k t p = Some (c - 1)
            /\ (lookup_off earliest t p <= c <= lookup_off latest t p ->
                tk_get (r, p) (k_fetch k) = Some (c, fetch_max_bytes_per_partition (cfg (cl s2))))
            /\ (c < lookup_off earliest t p \/ lookup_off latest t p < c ->
                exists off,
                  start_offset (debug_build (env s2)) (k_fallback k) None
                               (lookup_off earliest t p) (lookup_off latest t p) = Ok off
                  /\ tk_get (r, p) (k_fetch k) = Some (off, fetch_max_bytes_per_partition (cfg (cl s2))))).
Proof.
  intros src calls s k s' H Hg.
  destruct (create_inv _ _ _ _ _ H) as (subs & s1 & s2 & Hsub & Hlc & Hlf).
  destruct (C08_load_consumed_offsets_ok _ _ _ _ _ _ Hg Hlc) as (tpos & Hfgo & Hct).
  exists subs, tpos, s1, s2. split; [exact Hsub|]. split; [exact Hfgo|].
  pose proof (fetch_group_offsets_nodup _ _ _ _ _ Hfgo) as Hnd. split; [exact Hnd|].
  intros Hpn t ps p pos c Hsubs Hp Hin Hpc Hc1 Hrg.
  assert (Hne : k_consumed k <> []).
  { intros Hnil. unfold load_fetch_states in Hlf. rewrite Hnil in Hlf.
    apply mbind_ok in Hlf. destruct Hlf as (c0 & sa & _ & Hlf).
    apply mbind_ok in Hlf. destruct Hlf as (e0 & sb & _ & Hlf). cbv zeta in Hlf.
    apply mbind_ok in Hlf. destruct Hlf as (offsets & sc & _ & Hlf). unfold lift in Hlf. injection Hlf as Hfs _.
    destruct (C07_fallback_states _ _ _ _ _ _ Hfs t ps p Hsubs Hp) as (r & offs & Hr & _).
    rewrite Hnil in Hct.
    destruct (C08_load_topics_lookup _ _ _ _ Hnd Hpn Hct t pos p c r Hin Hpc Hr) as [Hl _].
    specialize (Hl Hc1 Hrg). discriminate. }
  destruct (C08_load_fetch_states_ok _ _ _ _ _ _ _ Hne Hlf) as (latest & earliest & s3 & Hla & Hea & Hrs).
  destruct (C07_range_states _ _ _ _ _ _ _ _ _ _ Hrs t ps p Hsubs Hp) as (r & off & Hr & Hso & Hgf).
  destruct (C08_load_topics_lookup _ _ _ _ Hnd Hpn Hct t pos p c r Hin Hpc Hr) as [Hl _].
  specialize (Hl Hc1 Hrg).
  exists latest, earliest, s3, r. split; [exact Hla|]. split; [exact Hea|]. split; [exact Hr|].
  split; [unfold last_consumed_message; rewrite Hr, Hl; reflexivity|].
  rewrite Hl in Hso. split.
  - intros Hin_range. rewrite C07_start_valid in Hso by assumption. inversion Hso; subst off. exact Hgf.
  - intros Hout. rewrite C07_start_invalid in Hso by assumption. exists off. split; [|exact Hgf].
    rewrite C07_start_none. exact Hso.
Qed.

(* non-vacuity, on the scripted two-broker cluster of C07Extra (group "g", fallback Latest, topic "t";
   (earliest, latest, stored): t:0 = (0, 9, none), t:1 = (12, 20, 12), t:2 = (7, 31, 8)).  t:1 is the
   situation of seeded/C08-4: the stored offset equals the log start and the fallback is Latest - the new
   consumer resumes at 12, not at 20. *)
Example C08_create_resumes_ex : exists k s',
  consumer_create (inr C07Extra.ex_client) C07Extra.ex_calls C07Extra.ex_st2 = (Ok k, s')
  /\ k_group k = C07Extra.xg /\ k_fallback k = FbLatest
  /\ fst (fetch_group_offsets C07Extra.xg [(C07Extra.xt, 0); (C07Extra.xt, 1); (C07Extra.xt, 2)] C07Extra.ex_st2)
     = Ok [(C07Extra.xt, [(0, -1); (1, 12); (2, 8)])]
  /\ last_consumed_message k C07Extra.xt 1 = Some 11 /\ tk_get (0, 1) (k_fetch k) = Some (12, 4096)
  /\ last_consumed_message k C07Extra.xt 2 = Some 7 /\ tk_get (0, 2) (k_fetch k) = Some (8, 4096)
  /\ last_consumed_message k C07Extra.xt 0 = None /\ tk_get (0, 0) (k_fetch k) = Some (9, 4096).
Proof. eexists. eexists. split; [vm_compute; reflexivity|]. vm_compute. repeat split. Qed.

(* ================================================================================== *)
(* C. the forward direction of a commit                                               *)
(* ================================================================================== *)

Lemma mbind_step {A B} (m : M A) (f : A -> M B) s a s1 : m s = (Ok a, s1) -> mbind m f s = f a s1.
Proof. intros H. unfold mbind. rewrite H. reflexivity. Qed.

(* the coordinator is found, the exchange succeeds and the answer carries code 0 for every entry:
   the commit is done, at the first attempt *)
Theorem C08_commit_loop_accepted : forall f group req attempt s h s1 corr tps s2,
  get_group_coordinator group s = (Ok h, s1) ->
  send_receive dec_offset_commit_resp h req s1 = (Ok (corr, tps), s2) ->
  Forall (fun x => x = 0) (commit_codes tps) ->
  commit_loop (S f) group req attempt s = (Ok tt, s2).
Proof.
  intros f group req attempt s h s1 corr tps s2 Hh Hsr Hall.
  cbn [commit_loop]. rewrite (mbind_step _ _ _ _ _ Hh). rewrite (mbind_step _ _ _ _ _ Hsr).
  rewrite (proj2 (C08_scan_ok_iff tps) Hall). reflexivity.
Qed.

(* up to Consumer::commit_consumed: with something to commit, a reachable coordinator and an answer that
   accepts every entry, the commit answers Ok, the marks stay, every dirty flag is cleared.
   (pop_entries / next_corr are total: these two premises only name the order hint and the states.) *)
Theorem C08_commit_consumed_accepted : forall k s order sa corr sb os tps0 h s1 c tps s2,
  k_group k <> [] -> dirty_entries k <> [] ->
  0 <= offset_storage (cfg (cl s)) ->
  pop_entries s = (Ok order, sa) ->
  next_corr sa = (Ok corr, sb) ->
  commit_entries (debug_build (env s)) (reorder_entries order (dirty_entries k)) = Ok os ->
  commit_tps (cs (cl s)) os [] = Some tps0 ->
  get_group_coordinator (k_group k) sb = (Ok h, s1) ->
  send_receive dec_offset_commit_resp h
    (enc_offset_commit_req corr (client_id (cfg (cl s))) (k_group k)
                           (commit_version (offset_storage (cfg (cl s)))) tps0) s1 = (Ok (c, tps), s2) ->
  Forall (fun e => e = 0) (commit_codes tps) ->
  exists k', commit_consumed k s = (Ok k', s2)
    /\ (forall key, mark k' key = mark k key)
    /\ (forall key, dirty k' key <> Some true)
    /\ dirty_entries k' = [] /\ k_fetch k' = k_fetch k /\ k_client k' = cl s2.
Proof.
  intros k s order sa corr sb os tps0 h s1 c tps s2 Hg Hne Hst Hpop Hnc Hos Htps Hh Hsr Hall.
  assert (Hsa : cl sa = cl s /\ env sa = env s).
  { unfold pop_entries in Hpop. destruct (entryq s); inversion Hpop; subst; split; reflexivity. }
  destruct Hsa as [Hcl Henv].
  assert (Hco : commit_offsets (k_group k) os sa = (Ok tt, s2)).
  { unfold commit_offsets. erewrite mbind_step; [|reflexivity]. rewrite Hcl.
    destruct (offset_storage (cfg (cl s)) <? 0) eqn:E; [lia|].
    rewrite (mbind_step _ _ _ _ _ Hnc). rewrite Htps.
    assert (Hos_ne : os <> []).
    { pose proof (C08_reorder_perm order (dirty_entries k)) as Hp.
      destruct (reorder_entries order (dirty_entries k)) as [|e0 es0] eqn:Er.
      - apply Permutation_nil in Hp. congruence.
      - eapply commit_entries_nonempty. exact Hos. }
    assert (Htne : tps0 <> []) by (eapply commit_tps_nonempty; [exact Htps|left; exact Hos_ne]).
    destruct tps0 as [|tp0 tpr] eqn:E0; [congruence|]. rewrite <- E0 in *.
    unfold with_fuel. eapply C08_commit_loop_accepted; eassumption. }
  assert (Hcc : exists k', commit_consumed k s = (Ok k', s2)).
  { unfold commit_consumed. destruct (k_group k) as [|g0 g] eqn:Eg; [congruence|].
    erewrite mbind_step; [|reflexivity].
    assert (Hord : (match dirty_entries k with [] => ret [] | _ :: _ => pop_entries end) s = (Ok order, sa))
      by (destruct (dirty_entries k); [congruence|exact Hpop]).
    rewrite (mbind_step _ _ _ _ _ Hord).
    erewrite mbind_step; [|unfold lift; rewrite Hos; reflexivity].
    rewrite (mbind_step _ _ _ _ _ Hco).
    erewrite mbind_step; [|reflexivity]. eexists. reflexivity. }
  destruct Hcc as [k' Hcc]. exists k'. split; [exact Hcc|].
  destruct (C08_commit_clears_only_on_success _ _ _ _ Hcc) as (Hm & Hd & Hde & Hf & _).
  destruct (commit_consumed_ok _ _ _ _ Hcc) as (_ & _ & _ & _ & _ & _ & _ & Hcl').
  split; [exact Hm|]. split; [|auto].
  intros key. rewrite Hd. destruct (dirty k key); cbn [option_map]; discriminate.
Qed.

(* non-vacuity: the premises of C08_commit_consumed_accepted hold for the consumer with two changed
   partitions of C08Extra and the all-accepting answer; its conclusion there is C08_commit_consumed_ex2 *)
Example C08_commit_consumed_accepted_ex :
  let s := ex_run2 0 0 in
  let sb := snd (next_corr (snd (pop_entries s))) in
  let tps0 := [(tag "a", [(1, 20)]); (tag "b", [(0, 32)])] in
  k_group ex_k2 = tag "g" /\ dirty_entries ex_k2 = [(tag "a", 1, 19); (tag "b", 0, 31)]
  /\ offset_storage (cfg (cl s)) = 1
  /\ fst (pop_entries s) = Ok [] /\ fst (next_corr (snd (pop_entries s))) = Ok 1
  /\ commit_entries (debug_build (env s)) (reorder_entries [] (dirty_entries ex_k2))
     = Ok [{| co_topic := tag "a"; co_partition := 1; co_offset := 20 |};
           {| co_topic := tag "b"; co_partition := 0; co_offset := 32 |}]
  /\ commit_tps (cs (cl s)) [{| co_topic := tag "a"; co_partition := 1; co_offset := 20 |};
                             {| co_topic := tag "b"; co_partition := 0; co_offset := 32 |}] [] = Some tps0
  /\ fst (get_group_coordinator (tag "g") sb) = Ok exh
  /\ fst (send_receive dec_offset_commit_resp exh
            (enc_offset_commit_req 1 (tag "me") (tag "g") (commit_version 1) tps0)
            (snd (get_group_coordinator (tag "g") sb)))
     = Ok (1, [(tag "a", [(1, 0)]); (tag "b", [(0, 0)])])
  /\ commit_codes [(tag "a", [(1, 0)]); (tag "b", [(0, 0)])] = [0; 0].
Proof. vm_compute. repeat split. Qed.

Check C08_history_commit_exact.
Check C08_commit_nothing_dirty.
Check C08_create_resumes.
Check C08_commit_loop_accepted.
Check C08_commit_consumed_accepted.
Print Assumptions C08_history_commit_exact.
Print Assumptions C08_commit_nothing_dirty.
Print Assumptions C08_create_resumes.
Print Assumptions C08_commit_loop_accepted.
Print Assumptions C08_commit_consumed_accepted.
