(* C11, second adequacy pass.  Everything here is about the unchanged model.

   Seed C11-4 (`__commit_offsets` remembers a non-retryable code, keeps scanning, and lets a retryable code
   further down the same response outrank it) is mirrored in the model by `commit_scan_parts` / `commit_scan`
   (Model/Client.v).  It is ALREADY covered: `C11_commit` and `C11_commit_scan_fatal` quantify over an arbitrary
   tail `post` / `tpost` behind the first failing partition, so with post = [(2, 14)] they are false for the
   mirrored change (confirmed in a scratch copy: the negation of the statement of C11_commit is provable there).

   What this file adds, along the dimensions the seed moved in (two failing partitions of different classes in
   ONE answer; the history over several attempts of one call; the public entry points):

   Part A  the scan is decided by the FIRST non-zero code alone, whatever follows it (one statement for fatal
           and retryable codes), and conversely: a fatal / retry verdict only comes from such a first code.
   Part B  commit_loop: the retry step as an equation (what exactly happens between two attempts), the call
           over a HISTORY of retried attempts, "retried only if the first code was 14 or 16".
   Part C  KafkaClient::commit_offsets (public entry): failing call, from the decoded answer to the result.
   Part D  Consumer::commit_consumed: the failure goes through, the consumer (its dirty flags) is only
           replaced after commit_offsets succeeded - hence only after a clean answer.
   Part E  fetch_group_offsets / fetch_group_topic_offset: the same for the group offset fetch loop. *)
From KV Require Import Base.Prelude Gen.ErrorCodes Gen.Consts Model.Codecs Model.Requests Model.Responses
                       Model.ClientState Model.Net Model.Client Model.Producer Model.Consumer.
From KV Require Import Proofs.BytesFacts Spec.RespGrammar Proofs.C11Facts Proofs.C10Facts Proofs.C11Extra.
From Coq Require Import ZifyBool.
Ltac Zify.zify_post_hook ::= Z.div_mod_to_equations.

(* ================================================================================================ *)
(* Part A: the first non-zero code of an OffsetCommitResponse decides                               *)
(* ================================================================================================ *)

(* (t, p, e) is the first entry, in listing order, whose code is not 0 *)
Definition commit_first_code (tps : list (bytes * list (Z * Z))) (t : bytes) (p e : Z) : Prop :=
  exists tpre tpost pre post,
    tps = tpre ++ (t, pre ++ (p, e) :: post) :: tpost /\ codes_zero tpre
    /\ (forall q, In q pre -> snd q = 0) /\ e <> 0.

(* what `__commit_offsets` does with one code *)
Definition commit_class (c : Z) : scan :=
  if c =? KC_GroupLoadInProgress then ScanRetry c false
  else if c =? KC_NotCoordinatorForGroup then ScanRetry c true
  else ScanFatal c.

Lemma commit_scan_parts_first ps : forall pre p e post c,
  ps = pre ++ (p, e) :: post -> (forall q, In q pre -> snd q = 0) -> from_protocol e = Some c ->
  commit_scan_parts ps = commit_class c.
Proof.
  intros pre. revert ps. induction pre as [|[q0 e0] pre IH]; intros ps p e post c -> Hpre He.
  - cbn [commit_scan_parts app]. rewrite He. reflexivity.
  - cbn [commit_scan_parts app]. assert (e0 = 0) as -> by (apply (Hpre (q0, e0)); left; reflexivity).
    rewrite from_protocol_zero. apply (IH _ p e post c eq_refl); [|exact He].
    intros q Hq. apply Hpre. right. exact Hq.
Qed.

(* any topic, any position, ANY entries behind it (healthy, fatal or retryable ones) *)
Theorem C11_commit_scan_first_code : forall tps t p e c,
  commit_first_code tps t p e -> from_protocol e = Some c -> commit_scan tps = commit_class c.
Proof.
  intros tps t p e c [tpre [tpost [pre [post [-> [Hz [Hpre _]]]]]]] He.
  induction tpre as [|[t' ps'] tpre IH].
  - cbn [app commit_scan]. rewrite (commit_scan_parts_first _ pre p e post c eq_refl Hpre He).
    unfold commit_class. destruct (c =? KC_GroupLoadInProgress); [reflexivity|].
    destruct (c =? KC_NotCoordinatorForGroup); reflexivity.
  - cbn [app commit_scan]. rewrite (commit_scan_parts_ok ps').
    + apply IH. intros t0 ps0 q Hin Hq. apply (Hz t0 ps0 q); [right; exact Hin|exact Hq].
    + intros q Hq. apply (Hz t' ps' q); [left; reflexivity|exact Hq].
Qed.

(* the seed's shape, spelled out: a refused partition is fatal although a LATER entry carries 14 / 16, and
   a retryable code is retried although a later entry is refused *)
Corollary C11_commit_scan_fatal_before_retryable : forall tps t p e c,
  commit_first_code tps t p e -> from_protocol e = Some c ->
  c <> KC_GroupLoadInProgress -> c <> KC_NotCoordinatorForGroup -> commit_scan tps = ScanFatal c.
Proof.
  intros tps t p e c H He H1 H2. rewrite (C11_commit_scan_first_code tps t p e c H He). unfold commit_class.
  destruct (c =? KC_GroupLoadInProgress) eqn:E1; [lia|].
  destruct (c =? KC_NotCoordinatorForGroup) eqn:E2; [lia|]. reflexivity.
Qed.

Corollary C11_commit_scan_retryable_first : forall tps t p e,
  commit_first_code tps t p e ->
  (e = 14 -> commit_scan tps = ScanRetry KC_GroupLoadInProgress false) /\
  (e = 16 -> commit_scan tps = ScanRetry KC_NotCoordinatorForGroup true).
Proof.
  intros tps t p e H. split; intros ->.
  - exact (C11_commit_scan_first_code tps t p 14 14 H eq_refl).
  - exact (C11_commit_scan_first_code tps t p 16 16 H eq_refl).
Qed.

(* every answer is either clean or has a first non-zero code *)
Lemma commit_parts_split (ps : list (Z * Z)) :
  (forall q, In q ps -> snd q = 0) \/
  exists pre p e post, ps = pre ++ (p, e) :: post /\ (forall q, In q pre -> snd q = 0) /\ e <> 0.
Proof.
  induction ps as [|[p e] ps IH]; [left; intros q []|].
  destruct (Z.eq_dec e 0) as [->|Hne].
  - destruct IH as [Hz|[pre [p' [e' [post [-> [Hpre He]]]]]]].
    + left. intros q [<-|Hq]; [reflexivity|exact (Hz q Hq)].
    + right. exists ((p, 0) :: pre), p', e', post. split; [reflexivity|]. split; [|exact He].
      intros q [<-|Hq]; [reflexivity|exact (Hpre q Hq)].
  - right. exists [], p, e, ps. split; [reflexivity|]. split; [intros q []|exact Hne].
Qed.

Theorem C11_commit_first_code_total : forall tps,
  codes_zero tps \/ exists t p e, commit_first_code tps t p e.
Proof.
  induction tps as [|[t ps] tps IH]; [left; intros t ps q []|].
  destruct (commit_parts_split ps) as [Hz|[pre [p [e [post [-> [Hpre He]]]]]]].
  - destruct IH as [Hzz|[t' [p [e [tpre [tpost [pre [post [-> [Hz' [Hpre He]]]]]]]]]]].
    + left. intros t0 ps0 q [Heq|Hin] Hq; [inversion Heq; subst; exact (Hz q Hq)|exact (Hzz t0 ps0 q Hin Hq)].
    + right. exists t', p, e, ((t, ps) :: tpre), tpost, pre, post. split; [reflexivity|].
      split; [|split; assumption].
      intros t0 ps0 q [Heq|Hin] Hq; [inversion Heq; subst; exact (Hz q Hq)|exact (Hz' t0 ps0 q Hin Hq)].
  - right. exists t, p, e, [], tps, pre, post. split; [reflexivity|]. split; [intros t0 ps0 q []|].
    split; assumption.
Qed.

(* converse: the verdict "fatal c" only comes from a first non-zero code whose documented kind is c and
   which is not one of the two retryable kinds; the verdict "retry" only from a first code of kind 14 / 16 *)
Theorem C11_commit_scan_fatal_only_if : forall tps c, commit_scan tps = ScanFatal c ->
  exists t p e, commit_first_code tps t p e /\ from_protocol e = Some c
                /\ c <> KC_GroupLoadInProgress /\ c <> KC_NotCoordinatorForGroup.
Proof.
  intros tps c H. destruct (C11_commit_first_code_total tps) as [Hz|[t [p [e Hf]]]].
  - assert (X : commit_scan tps = ScanOk).
    { clear H. induction tps as [|[t ps] tps IH]; [reflexivity|]. cbn [commit_scan].
      rewrite (commit_scan_parts_ok ps); [|intros q Hq; exact (Hz t ps q (or_introl eq_refl) Hq)].
      apply IH. intros t0 ps0 q Hin Hq. exact (Hz t0 ps0 q (or_intror Hin) Hq). }
    rewrite X in H. discriminate.
  - assert (Hne : e <> 0) by (destruct Hf as [? [? [? [? [_ [_ [_ Hne]]]]]]]; exact Hne).
    destruct (from_protocol_nonzero e Hne) as [c' [Hc' _]].
    rewrite (C11_commit_scan_first_code tps t p e c' Hf Hc') in H. unfold commit_class in H.
    destruct (c' =? KC_GroupLoadInProgress) eqn:E1; [discriminate|].
    destruct (c' =? KC_NotCoordinatorForGroup) eqn:E2; [discriminate|].
    inversion H; subst. exists t, p, e. repeat split; [exact Hf|exact Hc'|lia|lia].
Qed.

Theorem C11_commit_scan_retry_only_if : forall tps code reset, commit_scan tps = ScanRetry code reset ->
  exists t p e, commit_first_code tps t p e /\ from_protocol e = Some code
                /\ ((code = KC_GroupLoadInProgress /\ reset = false) \/
                    (code = KC_NotCoordinatorForGroup /\ reset = true)).
Proof.
  intros tps code reset H. destruct (C11_commit_first_code_total tps) as [Hz|[t [p [e Hf]]]].
  - assert (X : commit_scan tps = ScanOk).
    { clear H. induction tps as [|[t ps] tps IH]; [reflexivity|]. cbn [commit_scan].
      rewrite (commit_scan_parts_ok ps); [|intros q Hq; exact (Hz t ps q (or_introl eq_refl) Hq)].
      apply IH. intros t0 ps0 q Hin Hq. exact (Hz t0 ps0 q (or_intror Hin) Hq). }
    rewrite X in H. discriminate.
  - assert (Hne : e <> 0) by (destruct Hf as [? [? [? [? [_ [_ [_ Hne]]]]]]]; exact Hne).
    destruct (from_protocol_nonzero e Hne) as [c' [Hc' _]].
    rewrite (C11_commit_scan_first_code tps t p e c' Hf Hc') in H. unfold commit_class in H.
    destruct (c' =? KC_GroupLoadInProgress) eqn:E1.
    + inversion H; subst. exists t, p, e. split; [exact Hf|]. split; [exact Hc'|]. left. split; [lia|reflexivity].
    + destruct (c' =? KC_NotCoordinatorForGroup) eqn:E2; [|discriminate].
      inversion H; subst. exists t, p, e. split; [exact Hf|]. split; [exact Hc'|]. right. split; [lia|reflexivity].
Qed.

(* non-vacuity: the four answers of the seed's demonstration (t:0, t:1, t:2), the same over two topics,
   and the always-retried "retryable first" shape *)
Example C11_commit_scan_two_failing_ex :
  commit_scan [ ([x74], [ (0, 0); (1, 12); (2, 14) ]) ] = ScanFatal 12
  /\ commit_scan [ ([x74], [ (0, 12); (1, 0); (2, 16) ]) ] = ScanFatal 12
  /\ commit_scan [ ([x74], [ (0, 28); (1, 16); (2, 16) ]) ] = ScanFatal 28
  /\ commit_scan [ ([x74], [ (0, -1); (1, 14); (2, 0) ]) ] = ScanFatal (-1)
  /\ commit_scan [ ([x74], [ (0, 0); (1, 29) ]); ([x75], [ (0, 16) ]) ] = ScanFatal 29
  /\ commit_scan [ ([x74], [ (0, 14); (1, 12); (2, 0) ]) ] = ScanRetry 14 false
  /\ commit_scan [ ([x74], [ (0, 0) ]); ([x75], [ (0, 16); (1, 12) ]) ] = ScanRetry 16 true
  /\ commit_first_code [ ([x74], [ (0, 0); (1, 12); (2, 14) ]) ] [x74] 1 12
  /\ from_protocol 12 = Some 12 /\ 12 <> KC_GroupLoadInProgress /\ 12 <> KC_NotCoordinatorForGroup.
Proof.
  repeat split; try (vm_compute; reflexivity); try (vm_compute; discriminate).
  exists [], [], [(0, 0)], [(2, 14)]. split; [reflexivity|]. split; [intros t ps q []|].
  split; [intros q [<-|[]]; reflexivity|discriminate].
Qed.

(* ================================================================================================ *)
(* Part B: commit_loop - one attempt, the step between attempts, a history of attempts              *)
(* ================================================================================================ *)

(* straight from the decoded answer to the result of the call: the first non-zero code is of a
   non-retryable kind => the call fails with that kind AT ONCE (final state = state after this one
   exchange: nothing is re-sent), whatever else the answer carries *)
Theorem C11_commit_loop_first_fatal : forall f group req attempt s h s1 corr tps s2 t p e c,
  get_group_coordinator group s = (Ok h, s1) ->
  send_receive dec_offset_commit_resp h req s1 = (Ok (corr, tps), s2) ->
  commit_first_code tps t p e -> from_protocol e = Some c ->
  c <> KC_GroupLoadInProgress -> c <> KC_NotCoordinatorForGroup ->
  commit_loop (S f) group req attempt s = (Err (EKafka c), s2).
Proof.
  intros f group req attempt s h s1 corr tps s2 t p e c Hg Hsr Hf He H1 H2.
  apply (C11_commit_call_fails f group req attempt s h s1 corr tps s2 c Hg Hsr).
  exact (C11_commit_scan_fatal_before_retryable tps t p e c Hf He H1 H2).
Qed.

(* the state in which the next attempt starts: NotCoordinatorForGroup forgets the cached coordinator *)
Definition commit_after_retry (reset : bool) (group : bytes) (s2 : st) : st :=
  if reset then snd (set_cs (remove_group_coordinator (cs (cl s2)) group) s2) else s2.

Lemma commit_after_retry_facts reset group s2 :
  cfg (cl (commit_after_retry reset group s2)) = cfg (cl s2)
  /\ script (commit_after_retry reset group s2) = script s2
  /\ trace (commit_after_retry reset group s2) = trace s2
  /\ conns (cl (commit_after_retry reset group s2)) = conns (cl s2)
  /\ cs (cl (commit_after_retry reset group s2))
     = if reset then remove_group_coordinator (cs (cl s2)) group else cs (cl s2).
Proof. destruct reset; repeat split. Qed.

(* "retryable coordinator codes are retried": the whole request is sent again, as attempt + 1, after the
   coordinator has been forgotten (16) or not (14) - nothing else happens in between *)
Theorem C11_commit_retry_step : forall f group req attempt s h s1 corr tps s2 code reset,
  get_group_coordinator group s = (Ok h, s1) ->
  send_receive dec_offset_commit_resp h req s1 = (Ok (corr, tps), s2) ->
  commit_scan tps = ScanRetry code reset -> attempt < retry_max_attempts (cfg (cl s2)) ->
  commit_loop (S f) group req attempt s = commit_loop f group req (attempt + 1) (commit_after_retry reset group s2).
Proof.
  intros f group req attempt s h s1 corr tps s2 code reset Hg Hsr Hscan Hlt.
  cbn [commit_loop]. unfold mbind at 1. rewrite Hg. unfold mbind at 1. rewrite Hsr. rewrite Hscan.
  unfold mbind at 1. unfold get_client at 1. unfold mbind at 1.
  destruct reset.
  - unfold set_cs, mbind, get_client, set_client, commit_after_retry. cbn [cfg cl snd].
    destruct (attempt <? retry_max_attempts (cfg (cl s2))) eqn:E; [reflexivity|lia].
  - unfold ret at 1. unfold commit_after_retry.
    destruct (attempt <? retry_max_attempts (cfg (cl s2))) eqn:E; [reflexivity|lia].
Qed.

(* a history of retried attempts of ONE call: each answer's first non-zero code is 14 or 16 and the
   attempts are not used up; `tpss` lists the answers, the call stands at attempt a' in state s' afterwards *)
Inductive commit_retries (group : bytes) (req : res bytes)
  : Z -> st -> list (list (bytes * list (Z * Z))) -> Z -> st -> Prop :=
| cr_nil : forall a s, commit_retries group req a s [] a s
| cr_cons : forall a s h s1 corr tps s2 t p e rest a' s',
    get_group_coordinator group s = (Ok h, s1) ->
    send_receive dec_offset_commit_resp h req s1 = (Ok (corr, tps), s2) ->
    commit_first_code tps t p e -> e = 14 \/ e = 16 ->
    a < retry_max_attempts (cfg (cl s2)) ->
    commit_retries group req (a + 1) (commit_after_retry (e =? 16) group s2) rest a' s' ->
    commit_retries group req a s (tps :: rest) a' s'.

Lemma commit_retries_attempt group req a s tpss a' s' :
  commit_retries group req a s tpss a' s' -> a' = a + Z.of_nat (length tpss).
Proof.
  intros H. induction H as [|a s h s1 corr tps s2 t p e rest a' s' Hg Hsr Hf He Hlt Hrest IH]; cbn [length]; lia.
Qed.

Theorem C11_commit_history : forall group req a s tpss a' s' f,
  commit_retries group req a s tpss a' s' ->
  commit_loop (length tpss + f) group req a s = commit_loop f group req a' s'.
Proof.
  intros group req a s tpss a' s' f H.
  induction H as [|a s h s1 corr tps s2 t p e rest a' s' Hg Hsr Hf He Hlt _ IH]; [reflexivity|].
  cbn [length Nat.add]. rewrite <- IH.
  apply (C11_commit_retry_step _ group req a s h s1 corr tps s2 e (e =? 16) Hg Hsr); [|exact Hlt].
  destruct (C11_commit_scan_retryable_first tps t p e Hf) as [H14 H16].
  destruct He as [-> | ->]; [exact (H14 eq_refl)|exact (H16 eq_refl)].
Qed.

(* after any number of retried attempts: an answer whose first non-zero code is non-retryable fails the
   call with that kind; a clean answer is the only way to Ok (C11_commit_ok_clean is the converse) *)
Theorem C11_commit_history_fatal : forall group req a s tpss a' s' f h s1 corr tps s2 t p e c,
  commit_retries group req a s tpss a' s' ->
  get_group_coordinator group s' = (Ok h, s1) ->
  send_receive dec_offset_commit_resp h req s1 = (Ok (corr, tps), s2) ->
  commit_first_code tps t p e -> from_protocol e = Some c ->
  c <> KC_GroupLoadInProgress -> c <> KC_NotCoordinatorForGroup ->
  commit_loop (length tpss + S f) group req a s = (Err (EKafka c), s2).
Proof.
  intros group req a s tpss a' s' f h s1 corr tps s2 t p e c Hr Hg Hsr Hf He H1 H2.
  rewrite (C11_commit_history group req a s tpss a' s' (S f) Hr).
  exact (C11_commit_loop_first_fatal f group req a' s' h s1 corr tps s2 t p e c Hg Hsr Hf He H1 H2).
Qed.

Theorem C11_commit_history_ok : forall group req a s tpss a' s' f h s1 corr tps s2,
  commit_retries group req a s tpss a' s' ->
  get_group_coordinator group s' = (Ok h, s1) ->
  send_receive dec_offset_commit_resp h req s1 = (Ok (corr, tps), s2) -> codes_zero tps ->
  commit_loop (length tpss + S f) group req a s = (Ok tt, s2).
Proof.
  intros group req a s tpss a' s' f h s1 corr tps s2 Hr Hg Hsr Hz.
  rewrite (C11_commit_history group req a s tpss a' s' (S f) Hr).
  cbn [commit_loop]. unfold mbind at 1. rewrite Hg. unfold mbind at 1. rewrite Hsr.
  assert (X : commit_scan tps = ScanOk).
  { clear Hsr. induction tps as [|[t ps] tps IH]; [reflexivity|]. cbn [commit_scan].
    rewrite (commit_scan_parts_ok ps); [|intros q Hq; exact (Hz t ps q (or_introl eq_refl) Hq)].
    apply IH. intros t0 ps0 q Hin Hq. exact (Hz t0 ps0 q (or_intror Hin) Hq). }
  rewrite X. reflexivity.
Qed.

(* the retried attempts exhausted: the call fails with the retryable kind of the LAST answer *)
Theorem C11_commit_history_exhausted : forall group req a s tpss a' s' f h s1 corr tps s2 t p e,
  commit_retries group req a s tpss a' s' ->
  get_group_coordinator group s' = (Ok h, s1) ->
  send_receive dec_offset_commit_resp h req s1 = (Ok (corr, tps), s2) ->
  commit_first_code tps t p e -> e = 14 \/ e = 16 -> retry_max_attempts (cfg (cl s2)) <= a' ->
  exists s3, commit_loop (length tpss + S f) group req a s = (Err (EKafka e), s3).
Proof.
  intros group req a s tpss a' s' f h s1 corr tps s2 t p e Hr Hg Hsr Hf He Hmax.
  rewrite (C11_commit_history group req a s tpss a' s' (S f) Hr).
  destruct (C11_commit_scan_retryable_first tps t p e Hf) as [H14 H16].
  destruct He as [-> | ->].
  - exact (C11_commit_call_retry_exhausted f group req a' s' h s1 corr tps s2 _ _ Hg Hsr (H14 eq_refl) Hmax).
  - exact (C11_commit_call_retry_exhausted f group req a' s' h s1 corr tps s2 _ _ Hg Hsr (H16 eq_refl) Hmax).
Qed.

(* converse of the retry: a further request is only ever sent when the first non-zero code of the
   answer was 14 or 16.  Stated on the trace: if the call ends in the state right after the first exchange,
   nothing was re-sent; otherwise the first answer's first code was retryable *)
Theorem C11_commit_resend_only_if : forall f group req attempt s h s1 corr tps s2 r s',
  get_group_coordinator group s = (Ok h, s1) ->
  send_receive dec_offset_commit_resp h req s1 = (Ok (corr, tps), s2) ->
  commit_loop (S f) group req attempt s = (r, s') ->
  (codes_zero tps /\ r = Ok tt /\ s' = s2)
  \/ (exists t p e c, commit_first_code tps t p e /\ from_protocol e = Some c
        /\ c <> KC_GroupLoadInProgress /\ c <> KC_NotCoordinatorForGroup /\ r = Err (EKafka c) /\ s' = s2)
  \/ (exists t p e, commit_first_code tps t p e /\ (e = 14 \/ e = 16)).
Proof.
  intros f group req attempt s h s1 corr tps s2 r s' Hg Hsr H.
  destruct (commit_scan tps) as [|code reset|c] eqn:Hscan.
  - left. split; [exact (C11_commit_scan_ok_zero _ Hscan)|].
    cbn [commit_loop] in H. unfold mbind at 1 in H. rewrite Hg in H. unfold mbind at 1 in H. rewrite Hsr in H.
    rewrite Hscan in H. inversion H. split; reflexivity.
  - right. right. destruct (C11_commit_scan_retry_only_if _ _ _ Hscan) as [t [p [e [Hf [He Hc]]]]].
    exists t, p, e. split; [exact Hf|].
    assert (Hne : e <> 0) by (destruct Hf as [? [? [? [? [_ [_ [_ Hne]]]]]]]; exact Hne).
    rewrite from_protocol_table in He. destruct (e =? 0) eqn:E0; [lia|].
    destruct ((from_protocol_lo <=? e) && (e <=? from_protocol_hi)) eqn:E.
    + inversion He; subst. destruct Hc as [[Hc _]|[Hc _]]; [left|right]; rewrite Hc; reflexivity.
    + inversion He; subst. destruct Hc as [[Hc _]|[Hc _]]; vm_compute in Hc; discriminate.
  - right. left. destruct (C11_commit_scan_fatal_only_if _ _ Hscan) as [t [p [e [Hf [He [H1 H2]]]]]].
    exists t, p, e, c. repeat split; try assumption;
    rewrite (C11_commit_call_fails f group req attempt s h s1 corr tps s2 c Hg Hsr Hscan) in H;
    inversion H; reflexivity.
Qed.

(* ================================================================================================ *)
(* Part C: KafkaClient::commit_offsets (public entry point)                                         *)
(* ================================================================================================ *)

(* the call is the loop, started at attempt 1 on the encoded request *)
Lemma commit_offsets_is_loop group os s corr s0 x otps :
  0 <= offset_storage (cfg (cl s)) ->
  next_corr s = (Ok corr, s0) ->
  commit_tps (cs (cl s)) os [] = Some (x :: otps) ->
  commit_offsets group os s =
  commit_loop (S (length (script s0))) group
    (enc_offset_commit_req corr (client_id (cfg (cl s))) group
                           (commit_version (offset_storage (cfg (cl s)))) (x :: otps)) 1 s0.
Proof.
  intros Hst Hc Ht. unfold commit_offsets. unfold mbind at 1. unfold get_client at 1.
  destruct (offset_storage (cfg (cl s)) <? 0) eqn:E; [lia|].
  unfold mbind at 1. rewrite Hc. rewrite Ht. reflexivity.
Qed.

(* over a history of retried attempts (each consumes script items; the visible hypothesis on the length
   only says that the history is not longer than the script, which holds for every run) *)
Theorem C11_commit_offsets_history_fatal :
  forall group os s corr s0 x otps tpss a' s' h s1 rc tps s2 t p e c,
  0 <= offset_storage (cfg (cl s)) ->
  next_corr s = (Ok corr, s0) ->
  commit_tps (cs (cl s)) os [] = Some (x :: otps) ->
  let req := enc_offset_commit_req corr (client_id (cfg (cl s))) group
                                   (commit_version (offset_storage (cfg (cl s)))) (x :: otps) in
  commit_retries group req 1 s0 tpss a' s' -> (length tpss <= length (script s0))%nat ->
  get_group_coordinator group s' = (Ok h, s1) ->
  send_receive dec_offset_commit_resp h req s1 = (Ok (rc, tps), s2) ->
  commit_first_code tps t p e -> from_protocol e = Some c ->
  c <> KC_GroupLoadInProgress -> c <> KC_NotCoordinatorForGroup ->
  commit_offsets group os s = (Err (EKafka c), s2).
Proof.
  intros group os s corr s0 x otps tpss a' s' h s1 rc tps s2 t p e c Hst Hc Ht req Hr Hlen Hg Hsr Hf He H1 H2.
  rewrite (commit_offsets_is_loop group os s corr s0 x otps Hst Hc Ht). fold req.
  replace (S (length (script s0))) with (length tpss + S (length (script s0) - length tpss))%nat by lia.
  exact (C11_commit_history_fatal group req 1 s0 tpss a' s' _ h s1 rc tps s2 t p e c Hr Hg Hsr Hf He H1 H2).
Qed.

(* the plain case: the first answer already carries the refusal *)
Theorem C11_commit_offsets_fails : forall group os s corr s0 x otps h s1 rc tps s2 t p e c,
  0 <= offset_storage (cfg (cl s)) ->
  next_corr s = (Ok corr, s0) ->
  commit_tps (cs (cl s)) os [] = Some (x :: otps) ->
  get_group_coordinator group s0 = (Ok h, s1) ->
  send_receive dec_offset_commit_resp h
    (enc_offset_commit_req corr (client_id (cfg (cl s))) group
                           (commit_version (offset_storage (cfg (cl s)))) (x :: otps)) s1 = (Ok (rc, tps), s2) ->
  commit_first_code tps t p e -> from_protocol e = Some c ->
  c <> KC_GroupLoadInProgress -> c <> KC_NotCoordinatorForGroup ->
  commit_offsets group os s = (Err (EKafka c), s2).
Proof.
  intros group os s corr s0 x otps h s1 rc tps s2 t p e c Hst Hc Ht Hg Hsr Hf He H1 H2.
  apply (C11_commit_offsets_history_fatal group os s corr s0 x otps [] 1 s0 h s1 rc tps s2 t p e c Hst Hc Ht);
    try assumption; [apply cr_nil|cbn [length]; lia].
Qed.

(* forward direction: retried answers followed by a clean one => Ok *)
Theorem C11_commit_offsets_history_ok : forall group os s corr s0 x otps tpss a' s' h s1 rc tps s2,
  0 <= offset_storage (cfg (cl s)) ->
  next_corr s = (Ok corr, s0) ->
  commit_tps (cs (cl s)) os [] = Some (x :: otps) ->
  let req := enc_offset_commit_req corr (client_id (cfg (cl s))) group
                                   (commit_version (offset_storage (cfg (cl s)))) (x :: otps) in
  commit_retries group req 1 s0 tpss a' s' -> (length tpss <= length (script s0))%nat ->
  get_group_coordinator group s' = (Ok h, s1) ->
  send_receive dec_offset_commit_resp h req s1 = (Ok (rc, tps), s2) -> codes_zero tps ->
  commit_offsets group os s = (Ok tt, s2).
Proof.
  intros group os s corr s0 x otps tpss a' s' h s1 rc tps s2 Hst Hc Ht req Hr Hlen Hg Hsr Hz.
  rewrite (commit_offsets_is_loop group os s corr s0 x otps Hst Hc Ht). fold req.
  replace (S (length (script s0))) with (length tpss + S (length (script s0) - length tpss))%nat by lia.
  exact (C11_commit_history_ok group req 1 s0 tpss a' s' _ h s1 rc tps s2 Hr Hg Hsr Hz).
Qed.

(* ---- non-vacuity of Parts B and C over a scripted network (one broker connection, group "g" cached
   on broker 0, Kafka storage, 2 attempts).  Answers list t:0, t:1, t:2. ------------------------------- *)
Definition xe_resp (e0 e1 e2 : Z) : bytes :=
  print_offset_commit {| wr_corr := 1; wr_topics := Some [ {| wt_name := Some [x74];
      wt_partitions := Some [ {| wcm_partition := 0; wcm_error := e0 |}; {| wcm_partition := 1; wcm_error := e1 |};
                              {| wcm_partition := 2; wcm_error := e2 |} ] |} ] |}.
Definition xe_coord : bytes :=
  print_coordinator {| wc_corr := 2; wc_error := 0; wc_id := 2; wc_host := Some [x62]; wc_port := 9092 |}.
(* result, script items left unread, coordinator cache, pooled connections *)
Definition xe_obs (x : res unit * st) :=
  (fst x, length (script (snd x)), group_coordinators (cs (cl (snd x))), conns (cl (snd x))).

Example C11_commit_offsets_two_failing_ex :
  (* the seed's answers, a healthy answer waiting behind them: the refusal is reported after ONE exchange,
     the healthy answer (3 script items) is never asked for *)
  xe_obs (commit_offsets [x67] xd_os (xd_st [] (ex_script (xe_resp 0 12 14) ++ xd_again (xe_resp 0 0 0))))
  = (Err (EKafka 12), 3%nat, [ ([x67], 0) ], [[x61]])
  /\ xe_obs (commit_offsets [x67] xd_os (xd_st [] (ex_script (xe_resp 12 0 16) ++ xd_again (xe_resp 0 0 0))))
     = (Err (EKafka 12), 3%nat, [ ([x67], 0) ], [[x61]])
  /\ xe_obs (commit_offsets [x67] xd_os (xd_st [] (ex_script (xe_resp 28 16 16) ++ xd_again (xe_resp 0 0 0))))
     = (Err (EKafka 28), 3%nat, [ ([x67], 0) ], [[x61]])
  /\ xe_obs (commit_offsets [x67] xd_os (xd_st [] (ex_script (xe_resp (-1) 14 0) ++ xd_again (xe_resp 0 0 0))))
     = (Err (EKafka (-1)), 3%nat, [ ([x67], 0) ], [[x61]])
  (* retryable first: retried as ever *)
  /\ xe_obs (commit_offsets [x67] xd_os (xd_st [] (ex_script (xe_resp 14 12 0) ++ xd_again (xe_resp 0 0 0))))
     = (Ok tt, 0%nat, [ ([x67], 0) ], [[x61]])
  (* 16 first: the coordinator is looked up again (it moved to broker 1 = "b"), the re-sent request is
     answered with a refusal in front of a 16: reported *)
  /\ xe_obs (commit_offsets [x67] xd_os
               (xd_st [] (ex_script (xe_resp 16 12 0) ++ xd_again xe_coord ++ ex_script (xe_resp 0 28 16))))
     = (Err (EKafka 28), 0%nat, [ ([x67], 1) ], [[x61]; [x62]]).
Proof. vm_compute. repeat split. Qed.

(* the hypotheses of C11_commit_offsets_history_fatal hold on the last run *)
Example C11_commit_offsets_history_hyps :
  let s := xd_st [] (ex_script (xe_resp 16 12 0) ++ xd_again xe_coord ++ ex_script (xe_resp 0 28 16)) in
  exists s0 x otps s' h s1 tps s2,
    0 <= offset_storage (cfg (cl s)) /\ next_corr s = (Ok 1, s0)
    /\ commit_tps (cs (cl s)) xd_os [] = Some (x :: otps)
    /\ commit_retries [x67]
         (enc_offset_commit_req 1 (client_id (cfg (cl s))) [x67] (commit_version (offset_storage (cfg (cl s)))) (x :: otps))
         1 s0 [ [ ([x74], [ (0, 16); (1, 12); (2, 0) ]) ] ] 2 s'
    /\ (1 <= length (script s0))%nat
    /\ get_group_coordinator [x67] s' = (Ok h, s1)
    /\ send_receive dec_offset_commit_resp h
         (enc_offset_commit_req 1 (client_id (cfg (cl s))) [x67] (commit_version (offset_storage (cfg (cl s)))) (x :: otps))
         s1 = (Ok (1, tps), s2)
    /\ commit_first_code tps [x74] 1 28 /\ from_protocol 28 = Some 28.
Proof.
  cbv zeta. do 8 eexists.
  split; [vm_compute; discriminate|].
  split; [vm_compute; reflexivity|].
  split; [vm_compute; reflexivity|].
  split.
  { eapply (cr_cons _ _ _ _ _ _ _ _ _ [x74] 0 16).
    - vm_compute. reflexivity.
    - vm_compute. reflexivity.
    - exists [], [], [], [(1, 12); (2, 0)]. split; [reflexivity|]. split; [intros t ps q []|].
      split; [intros q []|discriminate].
    - right. reflexivity.
    - vm_compute. reflexivity.
    - apply cr_nil. }
  split; [vm_compute; lia|].
  split; [vm_compute; reflexivity|].
  split; [vm_compute; reflexivity|].
  split; [|reflexivity].
  exists [], [], [(0, 0)], [(2, 16)]. split; [reflexivity|]. split; [intros t ps q []|].
  split; [intros q [<-|[]]; reflexivity|discriminate].
Qed.

(* ================================================================================================ *)
(* Part D: Consumer::commit_consumed                                                                *)
(* ================================================================================================ *)

(* the failure of commit_offsets IS the failure of commit_consumed; no consumer is returned, so the caller
   keeps the old one with its dirty flags (nothing is marked as committed) *)
Theorem C11_commit_consumed_fails : forall k s order s1 os e s2,
  k_group k <> [] ->
  (match dirty_entries k with [] => ret [] | _ => pop_entries end) s = (Ok order, s1) ->
  commit_entries (debug_build (env s)) (reorder_entries order (dirty_entries k)) = Ok os ->
  commit_offsets (k_group k) os s1 = (Err e, s2) ->
  commit_consumed k s = (Err e, s2).
Proof.
  intros k s order s1 os e s2 Hg Hpop Hos Hco. unfold commit_consumed.
  destruct (k_group k) as [|b g] eqn:Eg; [exfalso; apply Hg; reflexivity|].
  unfold mbind at 1. unfold get_env at 1. unfold mbind at 1. rewrite Hpop.
  unfold mbind at 1. unfold lift at 1. rewrite Hos. unfold mbind at 1. rewrite Hco. reflexivity.
Qed.

(* never success: the dirty flags are only cleared after commit_offsets returned Ok - which
   (C11_commit_offsets_ok_clean) only happens right after an answer with every code 0 *)
Theorem C11_commit_consumed_ok_only_if : forall k s k' s',
  commit_consumed k s = (Ok k', s') ->
  exists order s1 os,
    (match dirty_entries k with [] => ret [] | _ => pop_entries end) s = (Ok order, s1)
    /\ commit_entries (debug_build (env s)) (reorder_entries order (dirty_entries k)) = Ok os
    /\ commit_offsets (k_group k) os s1 = (Ok tt, s')
    /\ k' = consumer_with (consumer_with_client k (cl s')) (k_fetch k) (k_retry k)
                          (map (fun '(key, (o, _)) => (key, (o, false))) (k_consumed k)).
Proof.
  intros k s k' s' H. unfold commit_consumed in H.
  destruct (k_group k) as [|b g] eqn:Eg; [discriminate|].
  unfold mbind at 1 in H. unfold get_env at 1 in H. unfold mbind at 1 in H.
  destruct ((match dirty_entries k with [] => ret [] | _ => pop_entries end) s) as [[order|e|w] s1] eqn:Hpop;
    try discriminate.
  unfold mbind at 1 in H. unfold lift at 1 in H.
  destruct (commit_entries (debug_build (env s)) (reorder_entries order (dirty_entries k))) as [os|e|w] eqn:Hos;
    try discriminate.
  unfold mbind at 1 in H.
  destruct (commit_offsets (b :: g) os s1) as [[[]|e|w] s2] eqn:Hco; try discriminate.
  unfold mbind, get_client, ret in H. inversion H; subst.
  exists order, s1, os. repeat split; assumption.
Qed.

Theorem C11_commit_consumed_ok_clean : forall k s k' s',
  commit_consumed k s = (Ok k', s') ->
  exists order s1 os,
    (match dirty_entries k with [] => ret [] | _ => pop_entries end) s = (Ok order, s1)
    /\ commit_entries (debug_build (env s)) (reorder_entries order (dirty_entries k)) = Ok os
    /\ (commit_tps (cs (cl s1)) os [] = Some []
        \/ exists corr otps h s1' rc tps,
             commit_tps (cs (cl s1)) os [] = Some otps /\
             send_receive dec_offset_commit_resp h
               (enc_offset_commit_req corr (client_id (cfg (cl s1))) (k_group k)
                                      (commit_version (offset_storage (cfg (cl s1)))) otps) s1' = (Ok (rc, tps), s')
             /\ codes_zero tps).
Proof.
  intros k s k' s' H.
  destruct (C11_commit_consumed_ok_only_if k s k' s' H) as [order [s1 [os [Hpop [Hos [Hco _]]]]]].
  exists order, s1, os. split; [exact Hpop|]. split; [exact Hos|].
  exact (C11_commit_offsets_ok_clean _ _ _ _ Hco).
Qed.

(* non-vacuity of Part D: topic "t", partitions 0 and 1 consumed up to 4 and 5, both dirty *)
Definition xf_consumer : consumer :=
  {| k_client := cl (xd_st [] []); k_group := [x67]; k_fallback := FbLatest; k_retry_limit := 0;
     k_assign := [ ([x74], [0; 1]) ]; k_fetch := [ ((0, 0), (5, 4096)); ((0, 1), (6, 4096)) ]; k_retry := [];
     k_consumed := [ ((0, 0), (4, true)); ((0, 1), (5, true)) ] |}.

Example C11_commit_consumed_ex :
  (* refused partition in front of a retryable code: the call fails with the refusal *)
  fst (commit_consumed xf_consumer (xd_st [] (ex_script (xe_resp 0 12 14) ++ xd_again (xe_resp 0 0 0))))
  = Err (EKafka 12)
  /\ fst (commit_consumed xf_consumer (xd_st [] (ex_script (xe_resp 29 0 16) ++ xd_again (xe_resp 0 0 0))))
     = Err (EKafka 29)
  (* retryable first, then a clean answer: Ok, and only now the dirty flags are cleared *)
  /\ (exists k', fst (commit_consumed xf_consumer (xd_st [] (ex_script (xe_resp 14 12 0) ++ xd_again (xe_resp 0 0 0))))
                 = Ok k' /\ k_consumed k' = [ ((0, 0), (4, false)); ((0, 1), (5, false)) ])
  /\ dirty_entries xf_consumer = [ ([x74], 0, 4); ([x74], 1, 5) ]
  /\ commit_entries false (dirty_entries xf_consumer) = Ok xd_os.
Proof.
  split; [vm_compute; reflexivity|]. split; [vm_compute; reflexivity|].
  split; [eexists; split; vm_compute; reflexivity|]. split; vm_compute; reflexivity.
Qed.

(* ================================================================================================ *)
(* Part E: fetch_group_offsets / fetch_group_topic_offset                                           *)
(* ================================================================================================ *)
Lemma group_scan_parts_retry ps : forall acc pre p post c,
  ps = pre ++ p :: post -> healthy get_offsets pre -> get_offsets p = inr c ->
  group_scan_parts ps acc =
    if c =? KC_GroupLoadInProgress then GRetry c false
    else if c =? KC_NotCoordinatorForGroup then GRetry c true else GFatal c.
Proof.
  intros acc pre. revert ps acc. induction pre as [|q pre IH]; intros ps acc p post c -> Hpre Hp.
  - cbn [app group_scan_parts]. rewrite Hp. reflexivity.
  - cbn [app group_scan_parts]. destruct (Hpre q (or_introl eq_refl)) as [v Hv]. rewrite Hv.
    apply (IH _ _ p post c eq_refl); try assumption. intros q' Hq'. apply Hpre. right. exact Hq'.
Qed.

(* the first entry that does not convert (code other than 0 and the documented 3) decides, whatever
   follows: 14 / 16 => retry (16 also forgets the coordinator), anything else is C11_group_scan_fatal *)
Theorem C11_group_scan_retry : forall tps m tpre t ps tpost pre p post,
  tps = tpre ++ (t, ps) :: tpost -> (forall t' ps', In (t', ps') tpre -> healthy get_offsets ps') ->
  ps = pre ++ p :: post -> healthy get_offsets pre ->
  (ofp_error p = 14 -> group_scan tps m = inl (inr (KC_GroupLoadInProgress, false))) /\
  (ofp_error p = 16 -> group_scan tps m = inl (inr (KC_NotCoordinatorForGroup, true))).
Proof.
  intros tps m tpre. revert tps m. induction tpre as [|[t' ps'] tpre IH];
    intros tps m t ps tpost pre p post -> Htpre Hps Hpre.
  - cbn [app group_scan]. split; intros He.
    + rewrite (group_scan_parts_retry ps [] pre p post 14 Hps Hpre); [reflexivity|].
      unfold get_offsets. rewrite He. reflexivity.
    + rewrite (group_scan_parts_retry ps [] pre p post 16 Hps Hpre); [reflexivity|].
      unfold get_offsets. rewrite He. reflexivity.
  - cbn [app group_scan].
    destruct (group_scan_parts_healthy ps' (Htpre t' ps' (or_introl eq_refl)) []) as [vs Hvs]. rewrite Hvs.
    apply (IH _ _ t ps tpost pre p post eq_refl); try assumption.
    intros t0 ps0 Hin. apply (Htpre t0 ps0). right. exact Hin.
Qed.

Theorem C11_group_fetch_retry_step : forall f group req attempt s h s1 corr tps s2 code reset,
  get_group_coordinator group s = (Ok h, s1) ->
  send_receive dec_offset_fetch_resp h req s1 = (Ok (corr, tps), s2) ->
  group_scan tps [] = inl (inr (code, reset)) -> attempt < retry_max_attempts (cfg (cl s2)) ->
  group_fetch_loop (S f) group req attempt s
  = group_fetch_loop f group req (attempt + 1) (commit_after_retry reset group s2).
Proof.
  intros f group req attempt s h s1 corr tps s2 code reset Hg Hsr Hscan Hlt.
  cbn [group_fetch_loop]. unfold mbind at 1. rewrite Hg. unfold mbind at 1. rewrite Hsr. rewrite Hscan.
  unfold mbind at 1. unfold get_client at 1. unfold mbind at 1.
  destruct reset.
  - unfold set_cs, mbind, get_client, set_client, commit_after_retry. cbn [cfg cl snd].
    destruct (attempt <? retry_max_attempts (cfg (cl s2))) eqn:E; [reflexivity|lia].
  - unfold ret at 1. unfold commit_after_retry.
    destruct (attempt <? retry_max_attempts (cfg (cl s2))) eqn:E; [reflexivity|lia].
Qed.

Theorem C11_group_fetch_retry_exhausted : forall f group req attempt s h s1 corr tps s2 code reset,
  get_group_coordinator group s = (Ok h, s1) ->
  send_receive dec_offset_fetch_resp h req s1 = (Ok (corr, tps), s2) ->
  group_scan tps [] = inl (inr (code, reset)) -> retry_max_attempts (cfg (cl s2)) <= attempt ->
  exists s3, group_fetch_loop (S f) group req attempt s = (Err (EKafka code), s3).
Proof.
  intros f group req attempt s h s1 corr tps s2 code reset Hg Hsr Hscan Hmax.
  cbn [group_fetch_loop]. unfold mbind at 1. rewrite Hg. unfold mbind at 1. rewrite Hsr. rewrite Hscan.
  unfold mbind at 1. unfold get_client at 1. unfold mbind at 1.
  destruct reset.
  - unfold set_cs, mbind, get_client, set_client. cbn [cfg cl].
    destruct (attempt <? retry_max_attempts (cfg (cl s2))) eqn:E; [lia|]. eexists. reflexivity.
  - unfold ret at 1. destruct (attempt <? retry_max_attempts (cfg (cl s2))) eqn:E; [lia|]. eexists. reflexivity.
Qed.

(* KafkaClient::fetch_group_offsets (public entry): from the decoded answer to the failed call *)
Theorem C11_fetch_group_offsets_fails :
  forall group ps s corr s0 otps h s1 rc tps s2 tpre t ps' tpost pre p post c,
  0 <= offset_storage (cfg (cl s)) ->
  next_corr s = (Ok corr, s0) ->
  group_fetch_tps (cs (cl s)) ps [] = Some otps ->
  get_group_coordinator group s0 = (Ok h, s1) ->
  send_receive dec_offset_fetch_resp h
    (enc_offset_fetch_req corr (client_id (cfg (cl s))) group
                          (fetch_version (offset_storage (cfg (cl s)))) otps) s1 = (Ok (rc, tps), s2) ->
  tps = tpre ++ (t, ps') :: tpost -> (forall t' ps'', In (t', ps'') tpre -> healthy get_offsets ps'') ->
  ps' = pre ++ p :: post -> healthy get_offsets pre ->
  from_protocol (ofp_error p) = Some c -> c <> KC_UnknownTopicOrPartition ->
  c <> KC_GroupLoadInProgress -> c <> KC_NotCoordinatorForGroup ->
  fetch_group_offsets group ps s = (Err (EKafka c), s2).
Proof.
  intros group ps s corr s0 otps h s1 rc tps s2 tpre t ps' tpost pre p post c
         Hst Hc Ht Hg Hsr Htps Htpre Hps Hpre He H3 H1 H2.
  unfold fetch_group_offsets. unfold mbind at 1. unfold get_client at 1.
  destruct (offset_storage (cfg (cl s)) <? 0) eqn:E; [lia|].
  unfold mbind at 1. rewrite Hc. rewrite Ht. unfold with_fuel.
  apply (C11_group_fetch_call_fails _ group _ 1 s0 h s1 rc tps s2 c Hg Hsr).
  exact (C11_group_scan_fatal tps [] tpre t ps' tpost pre p post c Htps Htpre Hps Hpre He H3 H1 H2).
Qed.

(* KafkaClient::fetch_group_topic_offset (public entry, no theorem so far): fails alike, and hands out
   offsets only right after an answer in which every entry has code 0 or the documented 3 *)
Theorem C11_fetch_group_topic_offset_fails :
  forall group topic s corr s0 parts h s1 rc tps s2 tpre t ps' tpost pre p post c,
  0 <= offset_storage (cfg (cl s)) ->
  next_corr s = (Ok corr, s0) ->
  partitions_for (cs (cl s)) topic = Some parts ->
  get_group_coordinator group s0 = (Ok h, s1) ->
  send_receive dec_offset_fetch_resp h
    (enc_offset_fetch_req corr (client_id (cfg (cl s))) group (fetch_version (offset_storage (cfg (cl s))))
       (fold_left (fun acc id => tp_add acc topic id) (iota_z (length parts) 0) [])) s1 = (Ok (rc, tps), s2) ->
  tps = tpre ++ (t, ps') :: tpost -> (forall t' ps'', In (t', ps'') tpre -> healthy get_offsets ps'') ->
  ps' = pre ++ p :: post -> healthy get_offsets pre ->
  from_protocol (ofp_error p) = Some c -> c <> KC_UnknownTopicOrPartition ->
  c <> KC_GroupLoadInProgress -> c <> KC_NotCoordinatorForGroup ->
  fetch_group_topic_offset group topic s = (Err (EKafka c), s2).
Proof.
  intros group topic s corr s0 parts h s1 rc tps s2 tpre t ps' tpost pre p post c
         Hst Hc Hp Hg Hsr Htps Htpre Hps Hpre He H3 H1 H2.
  unfold fetch_group_topic_offset. unfold mbind at 1. unfold get_client at 1.
  destruct (offset_storage (cfg (cl s)) <? 0) eqn:E; [lia|].
  unfold mbind at 1. rewrite Hc. rewrite Hp. unfold mbind at 1. unfold with_fuel.
  rewrite (C11_group_fetch_call_fails _ group _ 1 s0 h s1 rc tps s2 c Hg Hsr
             (C11_group_scan_fatal tps [] tpre t ps' tpost pre p post c Htps Htpre Hps Hpre He H3 H1 H2)).
  reflexivity.
Qed.

Theorem C11_fetch_group_topic_offset_ok_clean : forall group topic s vs s',
  fetch_group_topic_offset group topic s = (Ok vs, s') ->
  exists h req s1 rc tps m,
    send_receive dec_offset_fetch_resp h req s1 = (Ok (rc, tps), s') /\ group_scan tps [] = inl (inl m)
    /\ vs = match assoc_bytes topic m with Some v => v | None => [] end
    /\ forall t ps p, In (t, ps) tps -> In p ps -> ofp_acceptable p.
Proof.
  intros group topic s vs s' H. unfold fetch_group_topic_offset in H. unfold mbind at 1 in H.
  unfold get_client at 1 in H. destruct (offset_storage (cfg (cl s)) <? 0); [discriminate|].
  unfold mbind at 1 in H. destruct (next_corr s) as [[corr|e|w] s0] eqn:Hc; try discriminate.
  destruct (partitions_for (cs (cl s)) topic) as [parts|] eqn:Hp; try discriminate.
  unfold mbind at 1 in H. unfold with_fuel in H.
  match type of H with context [group_fetch_loop ?f ?g ?r ?a s0] =>
    destruct (group_fetch_loop f g r a s0) as [[m|e|w] s2] eqn:Hl; try discriminate;
    destruct (C11_group_fetch_ok_clean _ _ _ _ _ _ _ Hl) as [h [s1 [rc [tps [Hsr [Hscan Hacc]]]]]];
    unfold ret in H; inversion H; subst; exists h, r, s1, rc, tps, m
  end.
  repeat split; assumption.
Qed.

Example C11_group_fetch_entry_ex :
  (* fetch_group_topic_offset for "t" (4 partitions): refusal, unmapped code, documented exception *)
  fst (fetch_group_topic_offset [x67] [x74] (xd_st [] (ex_script (xd_fetch_resp 30)))) = Err (EKafka 30)
  /\ fst (fetch_group_topic_offset [x67] [x74] (xd_st [] (ex_script (xd_fetch_resp 99)))) = Err (EKafka (-1))
  /\ fst (fetch_group_topic_offset [x67] [x74] (xd_st [] (ex_script (xd_fetch_resp 3)))) = Ok [ (0, 5); (1, -1) ]
  (* retried, then refused *)
  /\ fst (fetch_group_topic_offset [x67] [x74] (xd_st [] (ex_script (xd_fetch_resp 14) ++ xd_again (xd_fetch_resp 12))))
     = Err (EKafka 12)
  /\ fst (fetch_group_offsets [x67] [ ([x74], 0); ([x74], 1) ] (xd_st [] (ex_script (xd_fetch_resp 16) ++ xd_again xe_coord
            ++ ex_script (xd_fetch_resp 22)))) = Err (EKafka 22).
Proof. vm_compute. repeat split. Qed.

(* ================================================================================================ *)
Check C11_commit_scan_first_code.
Check C11_commit_scan_fatal_before_retryable.
Check C11_commit_scan_retryable_first.
Check C11_commit_first_code_total.
Check C11_commit_scan_fatal_only_if.
Check C11_commit_scan_retry_only_if.
Check C11_commit_loop_first_fatal.
Check C11_commit_retry_step.
Check C11_commit_history.
Check C11_commit_history_fatal.
Check C11_commit_history_ok.
Check C11_commit_history_exhausted.
Check C11_commit_resend_only_if.
Check C11_commit_offsets_history_fatal.
Check C11_commit_offsets_fails.
Check C11_commit_offsets_history_ok.
Check C11_commit_consumed_fails.
Check C11_commit_consumed_ok_only_if.
Check C11_commit_consumed_ok_clean.
Check C11_group_scan_retry.
Check C11_group_fetch_retry_step.
Check C11_group_fetch_retry_exhausted.
Check C11_fetch_group_offsets_fails.
Check C11_fetch_group_topic_offset_fails.
Check C11_fetch_group_topic_offset_ok_clean.

Print Assumptions C11_commit_scan_first_code.
Print Assumptions C11_commit_scan_fatal_before_retryable.
Print Assumptions C11_commit_scan_retryable_first.
Print Assumptions C11_commit_first_code_total.
Print Assumptions C11_commit_scan_fatal_only_if.
Print Assumptions C11_commit_scan_retry_only_if.
Print Assumptions C11_commit_loop_first_fatal.
Print Assumptions C11_commit_retry_step.
Print Assumptions C11_commit_history.
Print Assumptions C11_commit_history_fatal.
Print Assumptions C11_commit_history_ok.
Print Assumptions C11_commit_history_exhausted.
Print Assumptions C11_commit_resend_only_if.
Print Assumptions C11_commit_offsets_history_fatal.
Print Assumptions C11_commit_offsets_fails.
Print Assumptions C11_commit_offsets_history_ok.
Print Assumptions C11_commit_consumed_fails.
Print Assumptions C11_commit_consumed_ok_only_if.
Print Assumptions C11_commit_consumed_ok_clean.
Print Assumptions C11_group_scan_retry.
Print Assumptions C11_group_fetch_retry_step.
Print Assumptions C11_group_fetch_retry_exhausted.
Print Assumptions C11_fetch_group_offsets_fails.
Print Assumptions C11_fetch_group_topic_offset_fails.
Print Assumptions C11_fetch_group_topic_offset_ok_clean.
