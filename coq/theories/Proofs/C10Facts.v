(* C10: every well-formed response is decoded to exactly the content the broker sent.
   The broker side is Spec/RespGrammar.v (printers written from the protocol guide);
   the client side is Model/Codecs.v + Model/Responses.v (decoders) and the merge
   layer of Model/Client.v. *)
From KV Require Import Base.Prelude Gen.ErrorCodes Gen.Consts Model.Codecs Model.Requests Model.Responses
                       Model.ClientState Model.Net Model.Client.
From KV Require Import Proofs.BytesFacts Spec.RespGrammar.
From KV Require Base.Utf8.
From Coq Require Import ZifyBool.
Ltac Zify.zify_post_hook ::= Z.div_mod_to_equations.

(* ================================================================================== *)
(* 1. primitives                                                                      *)
(* ================================================================================== *)

Lemma cread_app n a b : length a = n -> cread n (a ++ b) = Ok (a, b).
Proof.
  intros H. rewrite cread_unfold. rewrite app_length, H.
  destruct (Nat.ltb (n + length b) n) eqn:E; [apply Nat.ltb_lt in E; lia|].
  rewrite firstn_app_exact, skipn_app_exact by exact H. reflexivity.
Qed.

Lemma dec_i16_print z r : in_i16 z -> dec_i16 (p_i16 z ++ r) = Ok (z, r).
Proof.
  intros H. unfold dec_i16, p_i16. rewrite cread_app by apply be_enc_length. cbn [bind].
  change (be_enc 2 z) with (enc_i16 z). rewrite dec_enc_i16 by exact H. reflexivity.
Qed.
Lemma dec_i32_print z r : in_i32 z -> dec_i32 (p_i32 z ++ r) = Ok (z, r).
Proof.
  intros H. unfold dec_i32, p_i32. rewrite cread_app by apply be_enc_length. cbn [bind].
  change (be_enc 4 z) with (enc_i32 z). rewrite dec_enc_i32 by exact H. reflexivity.
Qed.
Lemma dec_i64_print z r : in_i64 z -> dec_i64 (p_i64 z ++ r) = Ok (z, r).
Proof.
  intros H. unfold dec_i64, p_i64. rewrite cread_app by apply be_enc_length. cbn [bind].
  change (be_enc 8 z) with (enc_i64 z). rewrite dec_enc_i64 by exact H. reflexivity.
Qed.

Lemma p_i16_length z : length (p_i16 z) = 2%nat. Proof. apply be_enc_length. Qed.
Lemma p_i32_length z : length (p_i32 z) = 4%nat. Proof. apply be_enc_length. Qed.
Lemma p_i64_length z : length (p_i64 z) = 8%nat. Proof. apply be_enc_length. Qed.

(* null strings and null arrays are seen as empty *)
Definition view_str (s : option bytes) : bytes := match s with Some b => b | None => [] end.
Definition view_arr {A B} (v : A -> B) (xs : option (list A)) : list B :=
  match xs with Some l => map v l | None => [] end.

Lemma dec_string_print s r : wf_string s -> dec_string (p_string s ++ r) = Ok (view_str s, r).
Proof.
  intros H. unfold dec_string. destruct s as [b|]; cbn [p_string view_str wf_string] in *.
  - destruct H as [Hu Hl]. rewrite <- app_assoc. rewrite dec_i16_print by (unfold in_i16; lia).
    cbn [bind]. destruct (Z.of_nat (length b) <=? 0) eqn:E.
    + destruct b as [|x b]; [reflexivity|]. cbn [length] in E. lia.
    + cbv zeta. rewrite Nat2Z.id. rewrite firstn_app_exact, skipn_app_exact by reflexivity.
      rewrite Nat.eqb_refl, Hu. reflexivity.
  - rewrite dec_i16_print by (unfold in_i16; lia). reflexivity.
Qed.

(* ================================================================================== *)
(* 2. arrays: one generic lemma                                                       *)
(* ================================================================================== *)

Lemma dec_many_unfold {A} (d : dec A) fuel count bs :
  dec_many d (S fuel) count bs =
    if count <=? 0 then Ok ([], bs)
    else let* '(x, r) := d bs in
         let* '(xs, r') := dec_many d fuel (count - 1) r in Ok (x :: xs, r').
Proof. reflexivity. Qed.

Lemma dec_many_zero {A} (d : dec A) fuel bs : dec_many d fuel 0 bs = Ok ([], bs).
Proof. destruct fuel; reflexivity. Qed.

Lemma p_seq_length {A} (p : A -> bytes) (wf : A -> Prop) :
  (forall a, wf a -> (1 <= length (p a))%nat) ->
  forall xs, Forall wf xs -> (length xs <= length (p_seq p xs))%nat.
Proof.
  intros p_pos xs. induction 1 as [|x xs Hx _ IH]; cbn [p_seq length]; [lia|].
  rewrite app_length. specialize (p_pos x Hx). lia.
Qed.

Section Arrays.
  Context {A B : Type} (d : dec B) (p : A -> bytes) (v : A -> B) (wf : A -> Prop).
  (* the element decoder inverts the element printer in front of any suffix ... *)
  Hypothesis d_p : forall a rest, wf a -> d (p a ++ rest) = Ok (v a, rest).
  (* ... and the printer emits at least one byte *)
  Hypothesis p_pos : forall a, wf a -> (1 <= length (p a))%nat.

  Lemma dec_many_print xs : Forall wf xs -> forall fuel rest, (length xs <= fuel)%nat ->
    dec_many d fuel (Z.of_nat (length xs)) (p_seq p xs ++ rest) = Ok (map v xs, rest).
  Proof.
    induction 1 as [|x xs Hx _ IH]; intros fuel rest Hf.
    - cbn [length p_seq map app]. apply dec_many_zero.
    - cbn [length] in Hf. destruct fuel as [|fuel]; [lia|].
      rewrite dec_many_unfold. cbn [length p_seq map].
      destruct (Z.of_nat (S (length xs)) <=? 0) eqn:E; [lia|].
      rewrite <- app_assoc, d_p by exact Hx. cbn [bind].
      replace (Z.of_nat (S (length xs)) - 1) with (Z.of_nat (length xs)) by lia.
      rewrite IH by lia. reflexivity.
  Qed.

  Lemma dec_vec_print sz xs rest : wf_array wf xs ->
    dec_vec sz d (p_array p xs ++ rest) = Ok (view_arr v xs, rest).
  Proof.
    intros H. unfold dec_vec. destruct xs as [l|]; cbn [p_array view_arr wf_array] in *.
    - destruct H as [Hall Hlen]. rewrite <- app_assoc. rewrite dec_i32_print by (unfold in_i32; lia).
      cbn [bind]. destruct (Z.of_nat (length l) <=? 0) eqn:E.
      + destruct l as [|x l]; [reflexivity|]. cbn [length] in E. lia.
      + apply dec_many_print; [exact Hall|]. rewrite app_length. pose proof (p_seq_length p wf p_pos l Hall). lia.
    - rewrite dec_i32_print by (unfold in_i32; lia). reflexivity.
  Qed.
End Arrays.

Lemma wf_array_imp {A} (P Q : A -> Prop) xs : (forall a, P a -> Q a) -> wf_array P xs -> wf_array Q xs.
Proof.
  intros H. destruct xs as [l|]; cbn [wf_array]; [|trivial]. intros [Ha Hl]. split; [|exact Hl].
  eapply Forall_impl; [exact H|exact Ha].
Qed.

(* arrays of plain integers *)
Lemma dec_vec_i32_print sz xs rest : wf_array in_i32 xs ->
  dec_vec sz dec_i32 (p_array p_i32 xs ++ rest) = Ok (view_arr (fun z => z) xs, rest).
Proof.
  apply (dec_vec_print dec_i32 p_i32 (fun z => z) in_i32).
  - intros a r H. apply dec_i32_print. exact H.
  - intros a _. rewrite p_i32_length. lia.
Qed.
Lemma dec_vec_i64_print sz xs rest : wf_array in_i64 xs ->
  dec_vec sz dec_i64 (p_array p_i64 xs ++ rest) = Ok (view_arr (fun z => z) xs, rest).
Proof.
  apply (dec_vec_print dec_i64 p_i64 (fun z => z) in_i64).
  - intros a r H. apply dec_i64_print. exact H.
  - intros a _. rewrite p_i64_length. lia.
Qed.
Definition view_ints (xs : option (list Z)) : list Z := match xs with Some l => l | None => [] end.
Lemma view_arr_id xs : view_arr (fun z : Z => z) xs = view_ints xs.
Proof. destruct xs as [l|]; [apply map_id|reflexivity]. Qed.

Lemma p_string_length s : (2 <= length (p_string s))%nat.
Proof. destruct s as [b|]; cbn [p_string]; [rewrite app_length|]; rewrite p_i16_length; lia. Qed.

(* one decoding step: re-associate, invert the leading printer, continue *)
Ltac dstep :=
  rewrite <- ?app_assoc;
  first [ rewrite dec_i16_print by assumption
        | rewrite dec_i32_print by assumption
        | rewrite dec_i64_print by assumption
        | rewrite dec_string_print by assumption
        | rewrite dec_vec_i32_print by assumption
        | rewrite dec_vec_i64_print by assumption ];
  cbn [bind].

(* ================================================================================== *)
(* 3. Metadata v0                                                                     *)
(* ================================================================================== *)

Definition view_broker (b : w_broker) : broker_md :=
  {| bm_node := wb_node b; bm_host := view_str (wb_host b); bm_port := wb_port b |}.
Definition view_partition_md (p : w_partition_md) : partition_md :=
  {| pm_error := wpm_error p; pm_id := wpm_id p; pm_leader := wpm_leader p;
     pm_replicas := view_ints (wpm_replicas p); pm_isr := view_ints (wpm_isr p) |}.
Definition view_topic_md (t : w_topic_md) : topic_md :=
  {| tm_error := wtm_error t; tm_topic := view_str (wtm_name t);
     tm_partitions := view_arr view_partition_md (wtm_partitions t) |}.
Definition view_metadata (m : w_metadata) : metadata_resp :=
  {| md_corr := wm_corr m; md_brokers := view_arr view_broker (wm_brokers m);
     md_topics := view_arr view_topic_md (wm_topics m) |}.

Lemma dec_broker_print b rest : wf_broker b -> dec_broker_md (print_broker b ++ rest) = Ok (view_broker b, rest).
Proof.
  intros (H1 & H2 & H3). unfold dec_broker_md, print_broker. do 3 dstep. reflexivity.
Qed.
Lemma print_broker_pos b : (1 <= length (print_broker b))%nat.
Proof. unfold print_broker. rewrite app_length, p_i32_length. lia. Qed.

Lemma dec_partition_md_print p rest : wf_partition_md p ->
  dec_partition_md (print_partition_md p ++ rest) = Ok (view_partition_md p, rest).
Proof.
  intros (H1 & H2 & H3 & H4 & H5). unfold dec_partition_md, print_partition_md. do 5 dstep.
  rewrite !view_arr_id. reflexivity.
Qed.
Lemma print_partition_md_pos p : (1 <= length (print_partition_md p))%nat.
Proof. unfold print_partition_md. rewrite app_length, p_i16_length. lia. Qed.

Lemma dec_topic_md_print t rest : wf_topic_md t ->
  dec_topic_md (print_topic_md t ++ rest) = Ok (view_topic_md t, rest).
Proof.
  intros (H1 & H2 & H3). unfold dec_topic_md, print_topic_md. do 2 dstep.
  rewrite (dec_vec_print dec_partition_md print_partition_md view_partition_md wf_partition_md);
    [reflexivity| |intros; apply print_partition_md_pos|exact H3].
  intros; apply dec_partition_md_print; assumption.
Qed.
Lemma print_topic_md_pos t : (1 <= length (print_topic_md t))%nat.
Proof. unfold print_topic_md. rewrite app_length, p_i16_length. lia. Qed.

Theorem C10_metadata_decode : forall r rest, wf_metadata r ->
  dec_metadata_resp (print_metadata r ++ rest) = Ok (view_metadata r, rest).
Proof.
  intros r rest (H1 & H2 & H3). unfold dec_metadata_resp, dec_corr, print_metadata. dstep.
  rewrite (dec_vec_print dec_broker_md print_broker view_broker wf_broker);
    [|intros; apply dec_broker_print; assumption|intros; apply print_broker_pos|exact H2].
  cbn [bind].
  rewrite (dec_vec_print dec_topic_md print_topic_md view_topic_md wf_topic_md);
    [reflexivity|intros; apply dec_topic_md_print; assumption|intros; apply print_topic_md_pos|exact H3].
Qed.

(* a metadata response with 2 brokers (one with a null host), 2 topics, one of them
   with a multi-byte UTF-8 name ("é€" = c3 a9 e2 82 ac), a null replica list *)
Definition ex_metadata : w_metadata :=
  {| wm_corr := 42;
     wm_brokers := Some [ {| wb_node := 1; wb_host := Some [x68; x31]; wb_port := 9092 |};
                          {| wb_node := 2; wb_host := None; wb_port := 9093 |} ];
     wm_topics := Some [ {| wtm_error := 0; wtm_name := Some [xc3; xa9; xe2; x82; xac];
                            wtm_partitions := Some [ {| wpm_error := 0; wpm_id := 0; wpm_leader := 1;
                                                        wpm_replicas := Some [1; 2]; wpm_isr := Some [1] |};
                                                     {| wpm_error := 9; wpm_id := 1; wpm_leader := -1;
                                                        wpm_replicas := None; wpm_isr := Some [] |} ] |};
                         {| wtm_error := 3; wtm_name := Some [x74]; wtm_partitions := None |} ] |}.

Ltac wf_compute :=
  repeat first [ split | apply Forall_cons | apply Forall_nil | reflexivity | exact I
               | (vm_compute; discriminate) | (vm_compute; reflexivity) ].

Example ex_metadata_wf : wf_metadata ex_metadata.
Proof. unfold ex_metadata, wf_metadata, wf_array, wf_broker, wf_topic_md, wf_partition_md, wf_string, wf_array,
         in_i16, in_i32; cbn [wm_corr wm_brokers wm_topics]. wf_compute. Qed.

Example ex_metadata_decode :
  dec_metadata_resp (print_metadata ex_metadata ++ [x01; x02]) =
  Ok ({| md_corr := 42;
         md_brokers := [ {| bm_node := 1; bm_host := [x68; x31]; bm_port := 9092 |};
                         {| bm_node := 2; bm_host := []; bm_port := 9093 |} ];
         md_topics := [ {| tm_error := 0; tm_topic := [xc3; xa9; xe2; x82; xac];
                           tm_partitions := [ {| pm_error := 0; pm_id := 0; pm_leader := 1;
                                                 pm_replicas := [1; 2]; pm_isr := [1] |};
                                              {| pm_error := 9; pm_id := 1; pm_leader := -1;
                                                 pm_replicas := []; pm_isr := [] |} ] |};
                        {| tm_error := 3; tm_topic := [x74]; tm_partitions := [] |} ] |}, [x01; x02]).
Proof. vm_compute. reflexivity. Qed.

(* ================================================================================== *)
(* 4. CorrelationId [TopicName [P]] responses                                         *)
(* ================================================================================== *)

Definition view_topic {P Q} (vp : P -> Q) (t : w_topic P) : bytes * list Q :=
  (view_str (wt_name t), view_arr vp (wt_partitions t)).
Definition view_topics_resp {P Q} (vp : P -> Q) (r : w_topics_resp P) : Z * list (bytes * list Q) :=
  (wr_corr r, view_arr (view_topic vp) (wr_topics r)).

Section Tps.
  Context {P Q : Type} (dp : dec Q) (pp : P -> bytes) (vp : P -> Q) (wfp : P -> Prop).
  Hypothesis dp_pp : forall a rest, wfp a -> dp (pp a ++ rest) = Ok (vp a, rest).
  Hypothesis pp_pos : forall a, wfp a -> (1 <= length (pp a))%nat.

  Lemma dec_tps_print psz ts rest : wf_array (wf_topic wfp) ts ->
    dec_tps psz dp (p_array (print_topic pp) ts ++ rest) = Ok (view_arr (view_topic vp) ts, rest).
  Proof.
    intros H. unfold dec_tps.
    apply (dec_vec_print _ (print_topic pp) (view_topic vp) (wf_topic wfp)); [| |exact H].
    - intros t r (Hn & Hps). unfold print_topic, view_topic. dstep.
      rewrite (dec_vec_print dp pp vp wfp); [reflexivity|exact dp_pp|exact pp_pos|exact Hps].
    - intros t _. unfold print_topic. rewrite app_length. pose proof (p_string_length (wt_name t)). lia.
  Qed.

  Lemma dec_topics_resp_print psz r rest : wf_topics_resp wfp r ->
    (let* '(c, r0) := dec_corr (print_topics_resp pp r ++ rest) in
     let* '(tps, r1) := dec_tps psz dp r0 in Ok ((c, tps), r1))
    = Ok (view_topics_resp vp r, rest).
  Proof.
    intros (Hc & Hts). unfold dec_corr, print_topics_resp, view_topics_resp. dstep.
    rewrite dec_tps_print by exact Hts. reflexivity.
  Qed.
End Tps.

(* ---- Offsets v0 -------------------------------------------------------------------- *)
Definition view_offsets_part (p : w_offsets_part) : part_offset_resp :=
  {| por_partition := wo_partition p; por_error := wo_error p; por_offsets := view_ints (wo_offsets p) |}.
Definition view_offsets := view_topics_resp view_offsets_part.

Lemma dec_offsets_part_print p rest : wf_offsets_part p ->
  dec_part_offset_resp (print_offsets_part p ++ rest) = Ok (view_offsets_part p, rest).
Proof.
  intros (H1 & H2 & H3). unfold dec_part_offset_resp, print_offsets_part. do 3 dstep.
  rewrite view_arr_id. reflexivity.
Qed.

Theorem C10_offsets_decode : forall r rest, wf_offsets r ->
  dec_offset_resp (print_offsets r ++ rest) = Ok (view_offsets r, rest).
Proof.
  intros r rest H. unfold dec_offset_resp, print_offsets, view_offsets.
  apply (dec_topics_resp_print dec_part_offset_resp print_offsets_part view_offsets_part wf_offsets_part);
    [intros; apply dec_offsets_part_print; assumption| |exact H].
  intros a _. unfold print_offsets_part. rewrite app_length, p_i32_length. lia.
Qed.

(* ---- ListOffsets v1 ------------------------------------------------------------------ *)
Definition view_list_offsets_part (p : w_list_offsets_part) : list_offset_part :=
  {| lop_partition := wl_partition p; lop_error := wl_error p;
     lop_timestamp := wl_timestamp p; lop_offset := wl_offset p |}.
Definition view_list_offsets := view_topics_resp view_list_offsets_part.

Lemma dec_list_offsets_part_print p rest : wf_list_offsets_part p ->
  dec_list_offset_part (print_list_offsets_part p ++ rest) = Ok (view_list_offsets_part p, rest).
Proof.
  intros (H1 & H2 & H3 & H4). unfold dec_list_offset_part, print_list_offsets_part. do 4 dstep. reflexivity.
Qed.

Theorem C10_list_offsets_decode : forall r rest, wf_list_offsets r ->
  dec_list_offsets_resp (print_list_offsets r ++ rest) = Ok (view_list_offsets r, rest).
Proof.
  intros r rest H. unfold dec_list_offsets_resp, print_list_offsets, view_list_offsets.
  apply (dec_topics_resp_print dec_list_offset_part print_list_offsets_part view_list_offsets_part
                               wf_list_offsets_part);
    [intros; apply dec_list_offsets_part_print; assumption| |exact H].
  intros a _. unfold print_list_offsets_part. rewrite app_length, p_i32_length. lia.
Qed.

(* ---- Produce v0 -------------------------------------------------------------------------- *)
Definition view_produce_part (p : w_produce_part) : produce_part :=
  {| pp_partition := wpr_partition p; pp_error := wpr_error p; pp_offset := wpr_offset p |}.
Definition view_produce := view_topics_resp view_produce_part.

Lemma dec_produce_part_print p rest : wf_produce_part p ->
  dec_produce_part (print_produce_part p ++ rest) = Ok (view_produce_part p, rest).
Proof.
  intros (H1 & H2 & H3). unfold dec_produce_part, print_produce_part. do 3 dstep. reflexivity.
Qed.

Theorem C10_produce_decode : forall r rest, wf_produce r ->
  dec_produce_resp (print_produce r ++ rest) = Ok (view_produce r, rest).
Proof.
  intros r rest H. unfold dec_produce_resp, print_produce, view_produce.
  apply (dec_topics_resp_print dec_produce_part print_produce_part view_produce_part wf_produce_part);
    [intros; apply dec_produce_part_print; assumption| |exact H].
  intros a _. unfold print_produce_part. rewrite app_length, p_i32_length. lia.
Qed.

(* ---- GroupCoordinator v0 -------------------------------------------------------------------- *)
Definition view_coordinator (c : w_coordinator) : coordinator_resp :=
  {| gc_corr := wc_corr c; gc_error := wc_error c; gc_broker := wc_id c;
     gc_host := view_str (wc_host c); gc_port := wc_port c |}.

Theorem C10_coordinator_decode : forall r rest, wf_coordinator r ->
  dec_coordinator_resp (print_coordinator r ++ rest) = Ok (view_coordinator r, rest).
Proof.
  intros r rest (H1 & H2 & H3 & H4 & H5). unfold dec_coordinator_resp, dec_corr, print_coordinator.
  do 5 dstep. reflexivity.
Qed.

(* ---- OffsetFetch v0 / v1 ------------------------------------------------------------------------ *)
Definition view_offset_fetch_part (p : w_offset_fetch_part) : offset_fetch_part :=
  {| ofp_partition := wof_partition p; ofp_offset := wof_offset p;
     ofp_metadata := view_str (wof_metadata p); ofp_error := wof_error p |}.
Definition view_offset_fetch := view_topics_resp view_offset_fetch_part.

Lemma dec_offset_fetch_part_print p rest : wf_offset_fetch_part p ->
  dec_offset_fetch_part (print_offset_fetch_part p ++ rest) = Ok (view_offset_fetch_part p, rest).
Proof.
  intros (H1 & H2 & H3 & H4). unfold dec_offset_fetch_part, print_offset_fetch_part. do 4 dstep. reflexivity.
Qed.

Theorem C10_offset_fetch_decode : forall r rest, wf_offset_fetch r ->
  dec_offset_fetch_resp (print_offset_fetch r ++ rest) = Ok (view_offset_fetch r, rest).
Proof.
  intros r rest H. unfold dec_offset_fetch_resp, print_offset_fetch, view_offset_fetch.
  apply (dec_topics_resp_print dec_offset_fetch_part print_offset_fetch_part view_offset_fetch_part
                               wf_offset_fetch_part);
    [intros; apply dec_offset_fetch_part_print; assumption| |exact H].
  intros a _. unfold print_offset_fetch_part. rewrite app_length, p_i32_length. lia.
Qed.

(* ---- OffsetCommit ------------------------------------------------------------------------------------ *)
Definition view_offset_commit_part (p : w_offset_commit_part) : Z * Z := (wcm_partition p, wcm_error p).
Definition view_offset_commit := view_topics_resp view_offset_commit_part.

Lemma dec_offset_commit_part_print p rest : wf_offset_commit_part p ->
  dec_offset_commit_part (print_offset_commit_part p ++ rest) = Ok (view_offset_commit_part p, rest).
Proof.
  intros (H1 & H2). unfold dec_offset_commit_part, print_offset_commit_part. do 2 dstep. reflexivity.
Qed.

Theorem C10_offset_commit_decode : forall r rest, wf_offset_commit r ->
  dec_offset_commit_resp (print_offset_commit r ++ rest) = Ok (view_offset_commit r, rest).
Proof.
  intros r rest H. unfold dec_offset_commit_resp, print_offset_commit, view_offset_commit.
  apply (dec_topics_resp_print dec_offset_commit_part print_offset_commit_part view_offset_commit_part
                               wf_offset_commit_part);
    [intros; apply dec_offset_commit_part_print; assumption| |exact H].
  intros a _. unfold print_offset_commit_part. rewrite app_length, p_i32_length. lia.
Qed.

(* ---- non-vacuity: one concrete response per API, with null strings / null arrays ---- *)
Definition ex_name : option bytes := Some [x74; xc3; xa9].        (* "té" *)

Definition ex_offsets : w_topics_resp w_offsets_part :=
  {| wr_corr := 5;
     wr_topics := Some [ {| wt_name := ex_name;
                            wt_partitions := Some [ {| wo_partition := 0; wo_error := 0; wo_offsets := Some [100; 0] |};
                                                    {| wo_partition := 1; wo_error := 3; wo_offsets := None |} ] |};
                         {| wt_name := None; wt_partitions := None |} ] |}.
Example ex_offsets_wf : wf_offsets ex_offsets.
Proof. unfold wf_offsets, wf_topics_resp, ex_offsets, wf_array, wf_topic, wf_offsets_part, wf_string, wf_array,
         in_i16, in_i32, in_i64; cbn [wr_corr wr_topics]. wf_compute. Qed.
Example ex_offsets_decode :
  dec_offset_resp (print_offsets ex_offsets ++ [xaa]) =
  Ok ((5, [ ([x74; xc3; xa9], [ {| por_partition := 0; por_error := 0; por_offsets := [100; 0] |};
                                {| por_partition := 1; por_error := 3; por_offsets := [] |} ]);
            ([], []) ]), [xaa]).
Proof. vm_compute. reflexivity. Qed.

Definition ex_list_offsets : w_topics_resp w_list_offsets_part :=
  {| wr_corr := -1;
     wr_topics := Some [ {| wt_name := ex_name;
                            wt_partitions := Some [ {| wl_partition := 0; wl_error := 0; wl_timestamp := -1;
                                                       wl_offset := 9223372036854775807 |};
                                                    {| wl_partition := 2; wl_error := 0; wl_timestamp := 1500000000000;
                                                       wl_offset := 7 |} ] |} ] |}.
Example ex_list_offsets_wf : wf_list_offsets ex_list_offsets.
Proof. unfold wf_list_offsets, wf_topics_resp, ex_list_offsets, wf_array, wf_topic, wf_list_offsets_part, wf_string,
         wf_array, in_i16, in_i32, in_i64; cbn [wr_corr wr_topics]. wf_compute. Qed.
Example ex_list_offsets_decode :
  dec_list_offsets_resp (print_list_offsets ex_list_offsets) =
  Ok ((-1, [ ([x74; xc3; xa9],
              [ {| lop_partition := 0; lop_error := 0; lop_timestamp := -1; lop_offset := 9223372036854775807 |};
                {| lop_partition := 2; lop_error := 0; lop_timestamp := 1500000000000; lop_offset := 7 |} ]) ]), []).
Proof. vm_compute. reflexivity. Qed.

Definition ex_produce : w_topics_resp w_produce_part :=
  {| wr_corr := 9;
     wr_topics := Some [ {| wt_name := ex_name;
                            wt_partitions := Some [ {| wpr_partition := 0; wpr_error := 0; wpr_offset := 12 |};
                                                    {| wpr_partition := 1; wpr_error := 6; wpr_offset := -1 |} ] |};
                         {| wt_name := Some [x75]; wt_partitions := Some [] |} ] |}.
Example ex_produce_wf : wf_produce ex_produce.
Proof. unfold wf_produce, wf_topics_resp, ex_produce, wf_array, wf_topic, wf_produce_part, wf_string, wf_array,
         in_i16, in_i32, in_i64; cbn [wr_corr wr_topics]. wf_compute. Qed.
Example ex_produce_decode :
  dec_produce_resp (print_produce ex_produce ++ [x00]) =
  Ok ((9, [ ([x74; xc3; xa9], [ {| pp_partition := 0; pp_error := 0; pp_offset := 12 |};
                                {| pp_partition := 1; pp_error := 6; pp_offset := -1 |} ]);
            ([x75], []) ]), [x00]).
Proof. vm_compute. reflexivity. Qed.

Definition ex_coordinator : w_coordinator :=
  {| wc_corr := 3; wc_error := 15; wc_id := -1; wc_host := None; wc_port := -1 |}.
Example ex_coordinator_wf : wf_coordinator ex_coordinator.
Proof. unfold wf_coordinator, ex_coordinator, wf_string, in_i16, in_i32; cbn [wc_corr wc_error wc_id wc_host wc_port].
       wf_compute. Qed.
Example ex_coordinator_decode :
  dec_coordinator_resp (print_coordinator ex_coordinator ++ [x01]) =
  Ok ({| gc_corr := 3; gc_error := 15; gc_broker := -1; gc_host := []; gc_port := -1 |}, [x01]).
Proof. vm_compute. reflexivity. Qed.

Definition ex_offset_fetch : w_topics_resp w_offset_fetch_part :=
  {| wr_corr := 11;
     wr_topics := Some [ {| wt_name := ex_name;
                            wt_partitions := Some [ {| wof_partition := 0; wof_offset := 41; wof_metadata := Some [x6d];
                                                       wof_error := 0 |};
                                                    {| wof_partition := 1; wof_offset := -1; wof_metadata := None;
                                                       wof_error := 3 |} ] |} ] |}.
Example ex_offset_fetch_wf : wf_offset_fetch ex_offset_fetch.
Proof. unfold wf_offset_fetch, wf_topics_resp, ex_offset_fetch, wf_array, wf_topic, wf_offset_fetch_part, wf_string,
         wf_array, in_i16, in_i32, in_i64; cbn [wr_corr wr_topics]. wf_compute. Qed.
Example ex_offset_fetch_decode :
  dec_offset_fetch_resp (print_offset_fetch ex_offset_fetch) =
  Ok ((11, [ ([x74; xc3; xa9],
              [ {| ofp_partition := 0; ofp_offset := 41; ofp_metadata := [x6d]; ofp_error := 0 |};
                {| ofp_partition := 1; ofp_offset := -1; ofp_metadata := []; ofp_error := 3 |} ]) ]), []).
Proof. vm_compute. reflexivity. Qed.

Definition ex_offset_commit : w_topics_resp w_offset_commit_part :=
  {| wr_corr := 12;
     wr_topics := Some [ {| wt_name := ex_name;
                            wt_partitions := Some [ {| wcm_partition := 0; wcm_error := 0 |};
                                                    {| wcm_partition := 1; wcm_error := 16 |} ] |};
                         {| wt_name := Some []; wt_partitions := None |} ] |}.
Example ex_offset_commit_wf : wf_offset_commit ex_offset_commit.
Proof. unfold wf_offset_commit, wf_topics_resp, ex_offset_commit, wf_array, wf_topic, wf_offset_commit_part, wf_string,
         wf_array, in_i16, in_i32; cbn [wr_corr wr_topics]. wf_compute. Qed.
Example ex_offset_commit_decode :
  dec_offset_commit_resp (print_offset_commit ex_offset_commit ++ [xff]) =
  Ok ((12, [ ([x74; xc3; xa9], [ (0, 0); (1, 16) ]); ([], []) ]), [xff]).
Proof. vm_compute. reflexivity. Qed.

(* ================================================================================== *)
(* 5. the per-partition conversions                                                   *)
(* ================================================================================== *)

Lemma from_protocol_none_iff e : from_protocol e = None <-> e = 0.
Proof.
  unfold from_protocol. destruct (e =? 0) eqn:E.
  - split; [lia|reflexivity].
  - destruct ((from_protocol_lo <=? e) && (e <=? from_protocol_hi)); split; intros H; try discriminate; lia.
Qed.

Corollary C10_to_offset_ok : forall p o os, wo_error p = 0 -> wo_offsets p = Some (o :: os) ->
  to_offset (view_offsets_part p) = inl (wo_partition p, o).
Proof.
  intros p o os He Ho. unfold to_offset, view_offsets_part. cbn [por_error por_partition por_offsets].
  rewrite He, Ho. reflexivity.
Qed.
(* an empty or null offset list is reported as offset -1 (PartitionOffsetResponse::to_offset) *)
Corollary C10_to_offset_ok_empty : forall p, wo_error p = 0 -> view_ints (wo_offsets p) = [] ->
  to_offset (view_offsets_part p) = inl (wo_partition p, -1).
Proof.
  intros p He Ho. unfold to_offset, view_offsets_part. cbn [por_error por_partition por_offsets].
  rewrite He, Ho. reflexivity.
Qed.
Corollary C10_lop_to_offset_ok : forall p, wl_error p = 0 ->
  lop_to_offset (view_list_offsets_part p) = inl (wl_partition p, wl_offset p, wl_timestamp p).
Proof.
  intros p He. unfold lop_to_offset, view_list_offsets_part.
  cbn [lop_error lop_partition lop_offset lop_timestamp]. rewrite He. reflexivity.
Qed.
Corollary C10_produce_confirm_ok : forall p, wpr_error p = 0 ->
  produce_confirm (view_produce_part p) = (wpr_partition p, inl (wpr_offset p)).
Proof.
  intros p He. unfold produce_confirm, view_produce_part. cbn [pp_error pp_partition pp_offset].
  rewrite He. reflexivity.
Qed.
Corollary C10_get_offsets_ok : forall p, wof_error p = 0 ->
  get_offsets (view_offset_fetch_part p) = inl (wof_partition p, wof_offset p).
Proof.
  intros p He. unfold get_offsets, view_offset_fetch_part. cbn [ofp_error ofp_partition ofp_offset].
  rewrite He. reflexivity.
Qed.
(* conversely the conversions succeed only for error = 0, with the single exception
   get_offsets makes for code 3 ("nothing committed yet": offset -1) *)
Lemma to_offset_inl_iff p : (exists v, to_offset (view_offsets_part p) = inl v) <-> wo_error p = 0.
Proof.
  unfold to_offset, view_offsets_part. cbn [por_error por_partition por_offsets]. split.
  - intros [v H]. apply from_protocol_none_iff. destruct (from_protocol (wo_error p)); [discriminate|reflexivity].
  - intros H. apply from_protocol_none_iff in H. rewrite H. eexists; reflexivity.
Qed.
Lemma lop_to_offset_inl_iff p : (exists v, lop_to_offset (view_list_offsets_part p) = inl v) <-> wl_error p = 0.
Proof.
  unfold lop_to_offset, view_list_offsets_part. cbn [lop_error]. split.
  - intros [v H]. apply from_protocol_none_iff. destruct (from_protocol (wl_error p)); [discriminate|reflexivity].
  - intros H. apply from_protocol_none_iff in H. rewrite H. eexists; reflexivity.
Qed.
Example C10_get_offsets_code3 :
  get_offsets (view_offset_fetch_part {| wof_partition := 4; wof_offset := 77; wof_metadata := None; wof_error := 3 |})
  = inl (4, -1).
Proof. vm_compute. reflexivity. Qed.
Example C10_conversions_ex :
  to_offset (view_offsets_part {| wo_partition := 2; wo_error := 0; wo_offsets := Some [100; 0] |}) = inl (2, 100)
  /\ lop_to_offset (view_list_offsets_part {| wl_partition := 2; wl_error := 0; wl_timestamp := 5; wl_offset := 9 |})
     = inl (2, 9, 5)
  /\ produce_confirm (view_produce_part {| wpr_partition := 2; wpr_error := 0; wpr_offset := 9 |}) = (2, inl 9)
  /\ get_offsets (view_offset_fetch_part {| wof_partition := 2; wof_offset := 9; wof_metadata := None; wof_error := 0 |})
     = inl (2, 9).
Proof. vm_compute. repeat split. Qed.

(* ================================================================================== *)
(* 6. the merge layer of Model/Client.v                                               *)
(* ================================================================================== *)

Lemma bytes_eqb_spec a b : reflect (a = b) (bytes_eqb a b).
Proof.
  destruct (bytes_eqb a b) eqn:E; constructor; [apply bytes_eqb_eq|apply bytes_eqb_neq]; exact E.
Qed.

(* the values a result map holds for topic t (absent = none) *)
Definition lookup {V} (t : bytes) (m : list (bytes * list V)) : list V :=
  match assoc_bytes t m with Some vs => vs | None => [] end.

Lemma lookup_nil {V} t : @lookup V t [] = [].
Proof. reflexivity. Qed.
Lemma lookup_cons {V} t k (v : list V) m : lookup t ((k, v) :: m) = if bytes_eqb k t then v else lookup t m.
Proof. unfold lookup. cbn [assoc_bytes]. destruct (bytes_eqb k t); reflexivity. Qed.

(* the partitions of one response topic that convert, in order *)
Definition conv_vals {P V} (conv : P -> V + Z) (ps : list P) : list V :=
  flat_map (fun p => match conv p with inl v => [v] | inr _ => [] end) ps.
(* what the occurrences of topic t in a response contribute, in order *)
Definition occ {P V} (conv : P -> V + Z) (t : bytes) (tps : list (bytes * list P)) : list V :=
  flat_map (fun tp => if bytes_eqb (fst tp) t then conv_vals conv (snd tp) else []) tps.
(* "every partition converts" *)
Definition all_conv {P V} (conv : P -> V + Z) (tps : list (bytes * list P)) : Prop :=
  forall t ps p, In (t, ps) tps -> In p ps -> exists v, conv p = inl v.

Lemma conv_vals_cons {P V} (conv : P -> V + Z) p ps v : conv p = inl v -> conv_vals conv (p :: ps) = v :: conv_vals conv ps.
Proof. intros H. unfold conv_vals. cbn [flat_map]. rewrite H. reflexivity. Qed.

(* when every partition converts, conv_vals is the pointwise image: same length, same order *)
Lemma conv_vals_all_ok {P V} (conv : P -> V + Z) ps :
  (forall p, In p ps -> exists v, conv p = inl v) ->
  Forall2 (fun p v => conv p = inl v) ps (conv_vals conv ps).
Proof.
  induction ps as [|p ps IH]; intros H; [constructor|].
  destruct (H p (or_introl eq_refl)) as [v Hv]. rewrite (conv_vals_cons conv p ps v Hv).
  constructor; [exact Hv|]. apply IH. intros q Hq. apply H. right. exact Hq.
Qed.

Lemma occ_cons {P V} (conv : P -> V + Z) t t' ps tps :
  occ conv t ((t', ps) :: tps) = (if bytes_eqb t' t then conv_vals conv ps else []) ++ occ conv t tps.
Proof. reflexivity. Qed.
Lemma occ_app {P V} (conv : P -> V + Z) t a b : occ conv t (a ++ b) = occ conv t a ++ occ conv t b.
Proof. unfold occ. apply flat_map_app. Qed.

Lemma all_conv_cons {P V} (conv : P -> V + Z) t ps tps :
  all_conv conv ((t, ps) :: tps) -> (forall p, In p ps -> exists v, conv p = inl v) /\ all_conv conv tps.
Proof.
  intros H. split.
  - intros p Hp. apply (H t ps p); [left; reflexivity|exact Hp].
  - intros t0 ps0 p Hin Hp. apply (H t0 ps0 p); [right; exact Hin|exact Hp].
Qed.
Lemma all_conv_app {P V} (conv : P -> V + Z) a b : all_conv conv (a ++ b) -> all_conv conv a /\ all_conv conv b.
Proof.
  intros H. split; intros t ps p Hin Hp; apply (H t ps p); try exact Hp; apply in_or_app; [left|right]; exact Hin.
Qed.

Lemma collect_ok {P V} (conv : P -> V + Z) pid ps : (forall p, In p ps -> exists v, conv p = inl v) ->
  forall acc, collect conv pid ps acc = inl (acc ++ conv_vals conv ps).
Proof.
  induction ps as [|p ps IH]; intros H acc.
  - cbn [collect]. unfold conv_vals. cbn [flat_map]. rewrite app_nil_r. reflexivity.
  - destruct (H p (or_introl eq_refl)) as [v Hv]. cbn [collect]. rewrite Hv.
    rewrite IH by (intros q Hq; apply H; right; exact Hq).
    rewrite (conv_vals_cons conv p ps v Hv), <- app_assoc. reflexivity.
Qed.

(* entry(t).or_insert(vec![]).extend(vs): appended to t's values, every other topic untouched *)
Lemma lookup_res_push {V} (m : list (bytes * list V)) t vs t0 :
  lookup t0 (res_push m t vs) = if bytes_eqb t t0 then lookup t0 m ++ vs else lookup t0 m.
Proof.
  induction m as [|[t' vs'] m IH].
  - cbn [res_push]. rewrite lookup_cons, lookup_nil. destruct (bytes_eqb t t0); reflexivity.
  - cbn [res_push]. destruct (bytes_eqb_spec t' t) as [->|Hne].
    + rewrite !lookup_cons. destruct (bytes_eqb t t0); reflexivity.
    + rewrite !lookup_cons, IH. destruct (bytes_eqb_spec t' t0) as [->|Hne0]; [|reflexivity].
      destruct (bytes_eqb_spec t t0) as [->|_]; [contradiction|reflexivity].
Qed.

Theorem C10_merge_all : forall {P V} (conv : P -> V + Z) (pid : P -> Z) tps m,
  all_conv conv tps ->
  exists m', merge_topics conv pid tps m = Ok m' /\
             forall t, lookup t m' = lookup t m ++ occ conv t tps.
Proof.
  intros P V conv pid tps. induction tps as [|[t ps] tps IH]; intros m H.
  - exists m. split; [reflexivity|]. intros t. unfold occ. cbn [flat_map]. rewrite app_nil_r. reflexivity.
  - apply all_conv_cons in H. destruct H as [Hps Htps].
    cbn [merge_topics]. rewrite (collect_ok conv pid ps Hps []). cbn [app].
    destruct (IH (res_push m t (conv_vals conv ps)) Htps) as [m' [Hm' Hl]].
    exists m'. split; [exact Hm'|]. intros t0. rewrite Hl, lookup_res_push, occ_cons.
    destruct (bytes_eqb t t0); [rewrite <- app_assoc|]; reflexivity.
Qed.

(* successive merges (one per broker answering) are one merge of the concatenation *)
Lemma merge_topics_app {P V} (conv : P -> V + Z) pid a b m :
  merge_topics conv pid (a ++ b) m = let* m' := merge_topics conv pid a m in merge_topics conv pid b m'.
Proof.
  revert m. induction a as [|[t ps] a IH]; intros m; [reflexivity|].
  cbn [app merge_topics]. destruct (collect conv pid ps []) as [vs|[p c]]; [apply IH|reflexivity].
Qed.

Fixpoint merge_responses {P V} (conv : P -> V + Z) (pid : P -> Z) (resps : list (list (bytes * list P)))
         (m : list (bytes * list V)) : res (list (bytes * list V)) :=
  match resps with
  | [] => Ok m
  | r :: rs => let* m' := merge_topics conv pid r m in merge_responses conv pid rs m'
  end.

Lemma merge_responses_concat {P V} (conv : P -> V + Z) pid resps m :
  merge_responses conv pid resps m = merge_topics conv pid (concat resps) m.
Proof.
  revert m. induction resps as [|r rs IH]; intros m; [reflexivity|].
  cbn [merge_responses concat]. rewrite merge_topics_app.
  destruct (merge_topics conv pid r m); cbn [bind]; [apply IH|reflexivity|reflexivity].
Qed.

Theorem C10_merge_brokers : forall {P V} (conv : P -> V + Z) (pid : P -> Z) resps m,
  all_conv conv (concat resps) ->
  exists m', merge_responses conv pid resps m = Ok m' /\
             forall t, lookup t m' = lookup t m ++ flat_map (occ conv t) resps.
Proof.
  intros P V conv pid resps m H. rewrite merge_responses_concat.
  destruct (C10_merge_all conv pid (concat resps) m H) as [m' [Hm' Hl]].
  exists m'. split; [exact Hm'|]. intros t. rewrite Hl. f_equal.
  clear. induction resps as [|r rs IH]; [reflexivity|]. cbn [concat flat_map]. rewrite occ_app, IH. reflexivity.
Qed.

(* the same through offsets_exchange itself: whatever the successive send_receive
   calls return, the final map holds, per topic, all their converted partitions in order *)
Inductive exchanges {P} (enc : list (bytes * list (Z * Z)) -> res bytes) (d : dec (Z * list (bytes * list P)))
  : list (bytes * list (bytes * list (Z * Z))) -> st -> list (list (bytes * list P)) -> st -> Prop :=
| exch_nil s : exchanges enc d [] s [] s
| exch_cons h tps reqs s c rtps s1 resps s2 :
    send_receive d h (enc tps) s = (Ok (c, rtps), s1) ->
    exchanges enc d reqs s1 resps s2 ->
    exchanges enc d ((h, tps) :: reqs) s (rtps :: resps) s2.

Theorem C10_offsets_exchange_all : forall {P V} enc (d : dec (Z * list (bytes * list P)))
    (conv : P -> V + Z) (pid : P -> Z) reqs s resps s',
  exchanges enc d reqs s resps s' ->
  all_conv conv (concat resps) ->
  forall m, exists m', offsets_exchange enc d conv pid reqs m s = (Ok m', s') /\
                       forall t, lookup t m' = lookup t m ++ flat_map (occ conv t) resps.
Proof.
  intros P V enc d conv pid reqs s resps s' Hex. induction Hex as [s|h tps reqs s c rtps s1 resps s2 Hsr _ IH];
    intros Hall m.
  - exists m. split; [reflexivity|]. intros t. cbn [flat_map]. rewrite app_nil_r. reflexivity.
  - cbn [concat] in Hall. apply all_conv_app in Hall. destruct Hall as [Hr Hrs].
    destruct (C10_merge_all conv pid rtps m Hr) as [m1 [Hm1 Hl1]].
    destruct (IH Hrs m1) as [m' [Hm' Hl]].
    exists m'. split.
    + cbn [offsets_exchange]. unfold mbind at 1. rewrite Hsr. unfold mbind at 1. unfold lift at 1.
      rewrite Hm1. exact Hm'.
    + intros t. rewrite Hl, Hl1. cbn [flat_map]. rewrite <- app_assoc. reflexivity.
Qed.

(* non-vacuity: two responses (two brokers), topic "t" in both and twice in the first *)
Definition ex_lop (p o ts : Z) : list_offset_part :=
  {| lop_partition := p; lop_error := 0; lop_timestamp := ts; lop_offset := o |}.
Definition ex_resps : list (list (bytes * list list_offset_part)) :=
  [ [ ([x74], [ex_lop 0 10 1; ex_lop 1 11 1]); ([x75], [ex_lop 0 20 2]); ([x74], [ex_lop 2 12 1]) ];
    [ ([x74], [ex_lop 3 13 1]); ([x76], []) ] ].
Example ex_resps_all_conv : all_conv lop_to_offset (concat ex_resps).
Proof.
  intros t ps p Hin Hp. cbn [ex_resps concat app] in Hin.
  repeat (destruct Hin as [Hin|Hin]; [inversion Hin; subst; clear Hin;
            repeat (destruct Hp as [Hp|Hp]; [subst p; eexists; reflexivity|]); destruct Hp|]).
  destruct Hin.
Qed.
Example ex_merge_brokers :
  merge_responses lop_to_offset lop_partition ex_resps [] =
  Ok [ ([x74], [(0, 10, 1); (1, 11, 1); (2, 12, 1); (3, 13, 1)]); ([x75], [(0, 20, 2)]); ([x76], []) ].
Proof. vm_compute. reflexivity. Qed.

Example ex_merge_all :
  merge_topics lop_to_offset lop_partition (concat ex_resps) [ ([x75], [ (5, 5, 5) ]) ] =
  Ok [ ([x75], [(5, 5, 5); (0, 20, 2)]); ([x74], [(0, 10, 1); (1, 11, 1); (2, 12, 1); (3, 13, 1)]); ([x76], []) ].
Proof. vm_compute. reflexivity. Qed.

(* ---- group_scan: HashMap::insert, a later entry for the same topic replaces the earlier ---- *)

Lemma group_scan_parts_ok ps : (forall p, In p ps -> exists v, get_offsets p = inl v) ->
  forall acc, group_scan_parts ps acc = GOk (acc ++ conv_vals get_offsets ps).
Proof.
  induction ps as [|p ps IH]; intros H acc.
  - cbn [group_scan_parts]. unfold conv_vals. cbn [flat_map]. rewrite app_nil_r. reflexivity.
  - destruct (H p (or_introl eq_refl)) as [v Hv]. cbn [group_scan_parts]. rewrite Hv.
    rewrite IH by (intros q Hq; apply H; right; exact Hq).
    rewrite (conv_vals_cons get_offsets p ps v Hv), <- app_assoc. reflexivity.
Qed.

Lemma lookup_map_insert {V} (m : list (bytes * list V)) k v t0 :
  lookup t0 (map_insert m k v) = if bytes_eqb k t0 then v else lookup t0 m.
Proof.
  induction m as [|[k' v'] m IH].
  - cbn [map_insert]. rewrite lookup_cons, lookup_nil. reflexivity.
  - cbn [map_insert]. destruct (bytes_eqb_spec k' k) as [->|Hne].
    + rewrite !lookup_cons. destruct (bytes_eqb k t0); reflexivity.
    + rewrite !lookup_cons, IH. destruct (bytes_eqb_spec k' t0) as [->|Hne0]; [|reflexivity].
      destruct (bytes_eqb_spec k t0) as [->|_]; [contradiction|reflexivity].
Qed.

(* what really happens, without any hypothesis on the topic names: the LAST occurrence wins *)
Fixpoint last_vals {P V} (conv : P -> V + Z) (t : bytes) (tps : list (bytes * list P)) (cur : list V) : list V :=
  match tps with
  | [] => cur
  | (t', ps) :: r => last_vals conv t r (if bytes_eqb t' t then conv_vals conv ps else cur)
  end.

Theorem C10_group_scan_last : forall tps m, all_conv get_offsets tps ->
  exists m', group_scan tps m = inl (inl m') /\
             forall t, lookup t m' = last_vals get_offsets t tps (lookup t m).
Proof.
  induction tps as [|[t ps] tps IH]; intros m H.
  - exists m. split; reflexivity.
  - apply all_conv_cons in H. destruct H as [Hps Htps].
    cbn [group_scan]. rewrite (group_scan_parts_ok ps Hps []). cbn [app].
    destruct (IH (map_insert m t (conv_vals get_offsets ps)) Htps) as [m' [Hm' Hl]].
    exists m'. split; [exact Hm'|]. intros t0. rewrite Hl, lookup_map_insert. reflexivity.
Qed.

Lemma assoc_bytes_notin {V} t (l : list (bytes * V)) : ~ In t (map fst l) -> assoc_bytes t l = None.
Proof.
  induction l as [|[k v] l IH]; intros H; [reflexivity|]. cbn [assoc_bytes].
  destruct (bytes_eqb_spec k t) as [->|Hne]; [exfalso; apply H; left; reflexivity|].
  apply IH. intros Hin. apply H. right. exact Hin.
Qed.

Lemma occ_notin {P V} (conv : P -> V + Z) t tps : ~ In t (map fst tps) -> occ conv t tps = [].
Proof.
  induction tps as [|[k ps] tps IH]; intros H; [reflexivity|]. rewrite occ_cons.
  destruct (bytes_eqb_spec k t) as [->|Hne]; [exfalso; apply H; left; reflexivity|].
  apply IH. intros Hin. apply H. right. exact Hin.
Qed.

Lemma last_vals_notin {P V} (conv : P -> V + Z) t tps cur : ~ In t (map fst tps) -> last_vals conv t tps cur = cur.
Proof.
  revert cur. induction tps as [|[k ps] tps IH]; intros cur H; [reflexivity|]. cbn [last_vals].
  destruct (bytes_eqb_spec k t) as [->|Hne]; [exfalso; apply H; left; reflexivity|].
  apply IH. intros Hin. apply H. right. exact Hin.
Qed.

(* with distinct topic names the last occurrence is the only one *)
Lemma last_vals_nodup {P V} (conv : P -> V + Z) t tps : NoDup (map fst tps) ->
  forall cur, last_vals conv t tps cur = if existsb (fun tp => bytes_eqb (fst tp) t) tps then occ conv t tps else cur.
Proof.
  induction tps as [|[k ps] tps IH]; intros Hnd cur; [reflexivity|].
  cbn [map fst] in Hnd. apply NoDup_cons_iff in Hnd. destruct Hnd as [Hk Hnd].
  cbn [last_vals existsb fst]. rewrite occ_cons.
  destruct (bytes_eqb_spec k t) as [->|Hne]; cbn [orb].
  - rewrite last_vals_notin by exact Hk. rewrite occ_notin by exact Hk. rewrite app_nil_r. reflexivity.
  - rewrite IH by exact Hnd. reflexivity.
Qed.

(* the statement analogous to C10_merge_all; it needs (a) topic names distinct within the
   response and (b) no values for these topics in the map already: insert REPLACES.
   group_fetch_loop always starts from the empty map, which gives (b). *)
Theorem C10_group_scan_all : forall tps m,
  all_conv get_offsets tps ->
  NoDup (map fst tps) ->
  (forall t, In t (map fst tps) -> lookup t m = []) ->
  exists m', group_scan tps m = inl (inl m') /\
             forall t, lookup t m' = lookup t m ++ occ get_offsets t tps.
Proof.
  intros tps m Hall Hnd Hm. destruct (C10_group_scan_last tps m Hall) as [m' [Hm' Hl]].
  exists m'. split; [exact Hm'|]. intros t. rewrite Hl, last_vals_nodup by exact Hnd.
  destruct (existsb (fun tp => bytes_eqb (fst tp) t) tps) eqn:E.
  - apply existsb_exists in E. destruct E as [[k ps] [Hin Hk]]. cbn [fst] in Hk.
    apply bytes_eqb_eq in Hk. subst k. rewrite Hm; [reflexivity|].
    apply in_map_iff. exists (t, ps). split; [reflexivity|exact Hin].
  - rewrite occ_notin; [rewrite app_nil_r; reflexivity|].
    intros Hin. apply in_map_iff in Hin. destruct Hin as [[k ps] [Hk Hin]]. cbn [fst] in Hk. subst k.
    assert (Hex : existsb (fun tp => bytes_eqb (fst tp) t) tps = true).
    { apply existsb_exists. exists (t, ps). split; [exact Hin|]. cbn [fst]. apply bytes_eqb_refl. }
    rewrite Hex in E. discriminate.
Qed.

Corollary C10_group_scan_all_empty : forall tps,
  all_conv get_offsets tps -> NoDup (map fst tps) ->
  exists m', group_scan tps [] = inl (inl m') /\ forall t, lookup t m' = occ get_offsets t tps.
Proof.
  intros tps Hall Hnd. destruct (C10_group_scan_all tps [] Hall Hnd (fun _ _ => eq_refl)) as [m' [Hm' Hl]].
  exists m'. split; [exact Hm'|]. intros t. rewrite Hl. reflexivity.
Qed.

(* without "topic names distinct" the earlier entry is lost: a well-formed OffsetFetch
   response naming topic "t" twice (partition 0, then partition 1) *)
Definition ex_dup_offset_fetch : w_topics_resp w_offset_fetch_part :=
  {| wr_corr := 1;
     wr_topics := Some [ {| wt_name := Some [x74];
                            wt_partitions := Some [ {| wof_partition := 0; wof_offset := 10; wof_metadata := None;
                                                       wof_error := 0 |} ] |};
                         {| wt_name := Some [x74];
                            wt_partitions := Some [ {| wof_partition := 1; wof_offset := 20; wof_metadata := None;
                                                       wof_error := 0 |} ] |} ] |}.
Example ex_dup_offset_fetch_wf : wf_offset_fetch ex_dup_offset_fetch.
Proof. unfold wf_offset_fetch, wf_topics_resp, ex_dup_offset_fetch, wf_array, wf_topic, wf_offset_fetch_part, wf_string,
         wf_array, in_i16, in_i32, in_i64; cbn [wr_corr wr_topics]. wf_compute. Qed.

Theorem C10_group_scan_all_refuted :
  exists r tps m' t,
    wf_offset_fetch r /\
    dec_offset_fetch_resp (print_offset_fetch r) = Ok ((wr_corr r, tps), []) /\
    all_conv get_offsets tps /\
    group_scan tps [] = inl (inl m') /\
    lookup t m' <> lookup t [] ++ occ get_offsets t tps.
Proof.
  exists ex_dup_offset_fetch.
  exists [ ([x74], [ {| ofp_partition := 0; ofp_offset := 10; ofp_metadata := []; ofp_error := 0 |} ]);
           ([x74], [ {| ofp_partition := 1; ofp_offset := 20; ofp_metadata := []; ofp_error := 0 |} ]) ].
  exists [ ([x74], [ (1, 20) ]) ]. exists [x74].
  split; [exact ex_dup_offset_fetch_wf|]. split; [vm_compute; reflexivity|]. split; [|split].
  - intros t ps p Hin Hp.
    repeat (destruct Hin as [Hin|Hin]; [inversion Hin; subst; clear Hin;
              repeat (destruct Hp as [Hp|Hp]; [subst p; eexists; reflexivity|]); destruct Hp|]).
    destruct Hin.
  - vm_compute. reflexivity.
  - vm_compute. intros H. discriminate H.
Qed.

(* the same two entries through merge_topics keep both partitions *)
Example ex_dup_merge_keeps_both :
  merge_topics get_offsets ofp_partition
    [ ([x74], [ {| ofp_partition := 0; ofp_offset := 10; ofp_metadata := []; ofp_error := 0 |} ]);
      ([x74], [ {| ofp_partition := 1; ofp_offset := 20; ofp_metadata := []; ofp_error := 0 |} ]) ] []
  = Ok [ ([x74], [ (0, 10); (1, 20) ]) ].
Proof. vm_compute. reflexivity. Qed.

(* non-vacuity of C10_group_scan_all *)
Example ex_group_scan_all :
  let tps := [ ([x74], [ {| ofp_partition := 0; ofp_offset := 10; ofp_metadata := []; ofp_error := 0 |};
                         {| ofp_partition := 1; ofp_offset := 0; ofp_metadata := []; ofp_error := 3 |} ]);
               ([x75], [ {| ofp_partition := 0; ofp_offset := 5; ofp_metadata := []; ofp_error := 0 |} ]) ] in
  all_conv get_offsets tps /\ NoDup (map fst tps) /\
  group_scan tps [] = inl (inl [ ([x74], [ (0, 10); (1, -1) ]); ([x75], [ (0, 5) ]) ]).
Proof.
  cbv zeta. split; [|split].
  - intros t ps p Hin Hp.
    repeat (destruct Hin as [Hin|Hin]; [inversion Hin; subst; clear Hin;
              repeat (destruct Hp as [Hp|Hp]; [subst p; eexists; reflexivity|]); destruct Hp|]).
    destruct Hin.
  - cbn [map fst]. repeat constructor; cbn [In]; intros H; repeat (destruct H as [H|H]; [discriminate H|]); exact H.
  - vm_compute. reflexivity.
Qed.

(* ---- produce_exchange: no merging at all, the confirmations of each response are
        appended topic by topic, partition by partition ---- *)
Definition confirms_of (rtps : list (bytes * list produce_part)) : list confirm :=
  map (fun '(t, ps) => (t, map produce_confirm ps)) rtps.

Lemma produce_exchange_step corr acks timeout h tps r acc : acks <> 0 ->
  produce_exchange corr acks timeout ((h, tps) :: r) acc =
  (let+ c := get_client in
   let+ e := get_env in
   let+ '(_, rtps) := send_receive dec_produce_resp h
                        (enc_produce_req e corr (client_id (cfg c)) acks timeout (compression (cfg c)) tps) in
   produce_exchange corr acks timeout r (acc ++ confirms_of rtps)).
Proof.
  intros H. cbn [produce_exchange]. destruct (acks =? 0) eqn:E; [lia|]. reflexivity.
Qed.

Definition view_list {A} (xs : option (list A)) : list A := match xs with Some l => l | None => [] end.

(* for a printed produce response without error codes: per topic, per partition, exactly
   (partition, Ok offset), in the order printed *)
Theorem C10_produce_confirms : forall ts,
  (forall t p, In t (view_list ts) -> In p (view_list (wt_partitions t)) -> wpr_error p = 0) ->
  confirms_of (view_arr (view_topic view_produce_part) ts) =
  view_arr (fun t => (view_str (wt_name t),
                      view_arr (fun p => (wpr_partition p, @inl Z Z (wpr_offset p))) (wt_partitions t))) ts.
Proof.
  intros ts H. destruct ts as [l|]; [|reflexivity]. cbn [view_arr view_list] in *.
  unfold confirms_of. rewrite map_map. apply map_ext_in. intros t Ht. unfold view_topic. f_equal.
  specialize (H t). destruct (wt_partitions t) as [ps|]; [|reflexivity]. cbn [view_arr view_list] in *.
  rewrite map_map. apply map_ext_in. intros p Hp. apply C10_produce_confirm_ok. apply H; assumption.
Qed.

Example ex_produce_confirms :
  confirms_of (snd (view_produce ex_produce)) = [ ([x74; xc3; xa9], [ (0, inl 12); (1, inr 6) ]); ([x75], []) ].
Proof. vm_compute. reflexivity. Qed.

(* ================================================================================== *)
(* 7. Fetch v0: the pass-through part (message sets empty)                            *)
(* ================================================================================== *)

Lemma zread_i16_print z r : in_i16 z -> zread_i16 (p_i16 z ++ r) = Ok (z, r).
Proof. exact (zread_i16_app z r). Qed.
Lemma zread_i32_print z r : in_i32 z -> zread_i32 (p_i32 z ++ r) = Ok (z, r).
Proof. exact (zread_i32_app z r). Qed.
Lemma zread_i64_print z r : in_i64 z -> zread_i64 (p_i64 z ++ r) = Ok (z, r).
Proof. exact (zread_i64_app z r). Qed.

Lemma zread_str_print s r : wf_string s -> zread_str (p_string s ++ r) = Ok (view_str s, r).
Proof.
  intros H. unfold zread_str. destruct s as [b|]; cbn [p_string view_str wf_string] in *.
  - destruct H as [Hu Hl]. rewrite <- app_assoc. rewrite zread_i16_print by (unfold in_i16; lia).
    cbn [bind]. destruct (Z.of_nat (length b) <=? 0) eqn:E.
    + destruct b as [|x b]; [reflexivity|]. cbn [length] in E. lia.
    + rewrite Nat2Z.id. rewrite zread_app by reflexivity. cbn [bind]. rewrite Hu. reflexivity.
  - rewrite zread_i16_print by (unfold in_i16; lia). reflexivity.
Qed.

Lemma zread_many_eq {A} (d : dec A) fuel : forall count bs, zread_many d fuel count bs = dec_many d fuel count bs.
Proof.
  induction fuel as [|fuel IH]; intros count bs; [reflexivity|].
  cbn [zread_many dec_many]. destruct (count <=? 0); [reflexivity|].
  destruct (d bs) as [[x r]|e|w]; cbn [bind]; [|reflexivity|reflexivity]. rewrite IH. reflexivity.
Qed.

Section ZArrays.
  Context {A B : Type} (d : dec B) (p : A -> bytes) (v : A -> B) (wf : A -> Prop).
  Hypothesis d_p : forall a rest, wf a -> d (p a ++ rest) = Ok (v a, rest).
  Hypothesis p_pos : forall a, wf a -> (1 <= length (p a))%nat.

  Lemma zread_array_print sz xs rest : wf_array wf xs ->
    zread_array sz d (p_array p xs ++ rest) = Ok (view_arr v xs, rest).
  Proof.
    intros H. unfold zread_array, zread_array_len. destruct xs as [l|]; cbn [p_array view_arr wf_array] in *.
    - destruct H as [Hall Hlen]. rewrite <- app_assoc. rewrite zread_i32_print by (unfold in_i32; lia).
      cbn [bind]. destruct (Z.of_nat (length l) <? 0) eqn:E; [lia|].
      rewrite zread_many_eq. apply (dec_many_print d p v wf d_p p_pos); [exact Hall|].
      rewrite app_length. pose proof (p_seq_length p wf p_pos l Hall). lia.
    - rewrite zread_i32_print by (unfold in_i32; lia). cbn [bind].
      change (-1 <? 0) with true. cbv iota. rewrite zread_many_eq. apply dec_many_zero.
  Qed.
End ZArrays.

Lemma zread_bytes_empty r : zread_bytes (p_i32 0 ++ r) = Ok ([], r).
Proof. rewrite zread_bytes_unfold. rewrite zread_i32_print by (unfold in_i32; lia). reflexivity. Qed.

(* the forced hypothesis: decoding depth at least 1 (with depth 0 even an empty set is refused; the code starts at MAX_COMPRESSION_DEPTH) *)
Lemma from_slice_nil cz d validate req : from_slice cz (S d) validate req [] = Ok [].
Proof. reflexivity. Qed.
Example from_slice_depth0 : forall cz validate req, from_slice cz 0 validate req [] = Err EUnsupportedCompression.
Proof. reflexivity. Qed.

Definition wf_fetch_part_nomsgs (p : w_fetch_part) : Prop := wf_fetch_part p /\ wfe_message_set p = [].
Definition wf_fetch_nomsgs := wf_topics_resp wf_fetch_part_nomsgs.

Lemma wf_fetch_nomsgs_wf r : wf_fetch_nomsgs r -> wf_fetch r.
Proof.
  intros (Hc & Hts). split; [exact Hc|]. eapply wf_array_imp; [|exact Hts].
  intros t (Hn & Hps). split; [exact Hn|]. eapply wf_array_imp; [|exact Hps]. intros p Hp. apply Hp.
Qed.

Definition view_fetch_part (p : w_fetch_part) : fetch_part :=
  {| fp_partition := wfe_partition p;
     fp_data := match from_protocol (wfe_error p) with
                | Some c => inr c
                | None => inl (wfe_highwater p, [])
                end |}.
Definition view_fetch_topic (t : w_topic w_fetch_part) : fetch_topic :=
  {| ft_topic := view_str (wt_name t); ft_partitions := view_arr view_fetch_part (wt_partitions t) |}.
Definition view_fetch (r : w_topics_resp w_fetch_part) : fetch_resp :=
  {| fr_corr := wr_corr r; fr_topics := view_arr view_fetch_topic (wr_topics r) |}.

Lemma C10_read_partition : forall cz d validate preqs p rest, wf_fetch_part_nomsgs p ->
  read_partition cz (S d) validate preqs (print_fetch_part p ++ rest) = Ok (view_fetch_part p, rest).
Proof.
  intros cz d validate preqs p rest ((H1 & H2 & H3 & H4) & Hms).
  unfold read_partition, print_fetch_part. rewrite Hms. cbn [length Z.of_nat].
  rewrite <- !app_assoc. cbn [app].
  rewrite zread_i32_print by exact H1. cbn [bind].
  rewrite zread_i16_print by exact H2. cbn [bind].
  rewrite zread_i64_print by exact H3. cbn [bind].
  rewrite zread_bytes_empty. cbn [bind].
  rewrite from_slice_nil. cbn [bind]. reflexivity.
Qed.

Lemma print_fetch_part_pos p : (1 <= length (print_fetch_part p))%nat.
Proof. unfold print_fetch_part. rewrite app_length, p_i32_length. lia. Qed.

Lemma C10_read_topic : forall cz d validate reqs t rest, wf_topic wf_fetch_part_nomsgs t ->
  read_topic cz (S d) validate reqs (print_topic print_fetch_part t ++ rest) = Ok (view_fetch_topic t, rest).
Proof.
  intros cz d validate reqs t rest (Hn & Hps). unfold read_topic, print_topic.
  rewrite <- app_assoc. rewrite zread_str_print by exact Hn. cbn [bind].
  rewrite (zread_array_print _ print_fetch_part view_fetch_part wf_fetch_part_nomsgs);
    [reflexivity| |intros; apply print_fetch_part_pos|exact Hps].
  intros a r Ha. apply C10_read_partition. exact Ha.
Qed.

(* any number of topics and partitions; whatever follows the response is ignored *)
Theorem C10_fetch_passthrough : forall cz d validate reqs r rest, wf_fetch_nomsgs r ->
  fetch_from_vec cz (S d) validate reqs (print_fetch r ++ rest) = Ok (view_fetch r).
Proof.
  intros cz d validate reqs r rest (Hc & Hts). unfold fetch_from_vec, print_fetch, print_topics_resp.
  rewrite <- app_assoc. rewrite zread_i32_print by exact Hc. cbn [bind].
  rewrite (zread_array_print _ (print_topic print_fetch_part) view_fetch_topic (wf_topic wf_fetch_part_nomsgs));
    [reflexivity| | |exact Hts].
  - intros a r0 Ha. apply C10_read_topic. exact Ha.
  - intros t _. unfold print_topic. rewrite app_length. pose proof (p_string_length (wt_name t)). lia.
Qed.

(* read off the decoded response: names, partition ids, codes, high-watermarks *)
Corollary C10_fetch_topic_names : forall r,
  map ft_topic (fr_topics (view_fetch r)) = view_arr (fun t => view_str (wt_name t)) (wr_topics r).
Proof.
  intros r. unfold view_fetch. cbn [fr_topics]. destruct (wr_topics r) as [l|]; [|reflexivity].
  cbn [view_arr]. rewrite map_map. reflexivity.
Qed.
Corollary C10_fetch_partitions : forall t,
  map (fun p => (fp_partition p, fp_data p)) (ft_partitions (view_fetch_topic t)) =
  view_arr (fun p => (wfe_partition p,
                      match from_protocol (wfe_error p) with
                      | Some c => inr c
                      | None => inl (wfe_highwater p, [])
                      end)) (wt_partitions t).
Proof.
  intros t. unfold view_fetch_topic. cbn [ft_partitions]. destruct (wt_partitions t) as [l|]; [|reflexivity].
  cbn [view_arr]. rewrite map_map. reflexivity.
Qed.
Corollary C10_fetch_part_ok : forall p, wfe_error p = 0 ->
  fp_data (view_fetch_part p) = inl (wfe_highwater p, []).
Proof. intros p H. unfold view_fetch_part. cbn [fp_data]. rewrite H. reflexivity. Qed.
Corollary C10_fetch_part_err : forall p, wfe_error p <> 0 ->
  exists c, fp_data (view_fetch_part p) = inr c /\ from_protocol (wfe_error p) = Some c.
Proof.
  intros p H. unfold view_fetch_part. cbn [fp_data].
  destruct (from_protocol (wfe_error p)) as [c|] eqn:E; [exists c; split; reflexivity|].
  apply from_protocol_none_iff in E. contradiction.
Qed.

Definition ex_fetch : w_topics_resp w_fetch_part :=
  {| wr_corr := 21;
     wr_topics := Some [ {| wt_name := ex_name;
                            wt_partitions := Some [ {| wfe_partition := 0; wfe_error := 0; wfe_highwater := 1000;
                                                       wfe_message_set := [] |};
                                                    {| wfe_partition := 1; wfe_error := 1; wfe_highwater := -1;
                                                       wfe_message_set := [] |} ] |};
                         {| wt_name := Some [x75];
                            wt_partitions := Some [ {| wfe_partition := 7; wfe_error := 0; wfe_highwater := 3;
                                                       wfe_message_set := [] |} ] |};
                         {| wt_name := None; wt_partitions := None |} ] |}.
Example ex_fetch_wf : wf_fetch_nomsgs ex_fetch.
Proof. unfold wf_fetch_nomsgs, wf_topics_resp, ex_fetch, wf_array, wf_topic, wf_fetch_part_nomsgs, wf_fetch_part,
         wf_string, wf_array, in_i16, in_i32, in_i64; cbn [wr_corr wr_topics]. wf_compute. Qed.
Definition ex_codecs : codecs :=
  {| gz_compress := fun b => b; sn_compress := fun b => b; gz_decompress := fun b => Some b; debug_build := true |}.
Example ex_fetch_decode :
  fetch_from_vec ex_codecs 1 true [] (print_fetch ex_fetch ++ [x09]) =
  Ok {| fr_corr := 21;
        fr_topics := [ {| ft_topic := [x74; xc3; xa9];
                          ft_partitions := [ {| fp_partition := 0; fp_data := inl (1000, []) |};
                                             {| fp_partition := 1; fp_data := inr 1 |} ] |};
                       {| ft_topic := [x75]; ft_partitions := [ {| fp_partition := 7; fp_data := inl (3, []) |} ] |};
                       {| ft_topic := []; ft_partitions := [] |} ] |}.
Proof. vm_compute. reflexivity. Qed.

(* ================================================================================== *)
(* 8. decode, then convert, then merge: printed content to result map                 *)
(* ================================================================================== *)

Lemma conv_vals_map_ok {W P V} (conv : P -> V + Z) (view : W -> P) (f : W -> V) ws :
  (forall w, In w ws -> conv (view w) = inl (f w)) -> conv_vals conv (map view ws) = map f ws.
Proof.
  induction ws as [|w ws IH]; intros H; [reflexivity|]. cbn [map].
  rewrite (conv_vals_cons conv (view w) (map view ws) (f w)) by (apply H; left; reflexivity).
  rewrite IH by (intros q Hq; apply H; right; exact Hq). reflexivity.
Qed.

Lemma flat_map_ext_in' {A B} (f g : A -> list B) l : (forall a, In a l -> f a = g a) -> flat_map f l = flat_map g l.
Proof.
  induction l as [|a l IH]; intros H; [reflexivity|]. cbn [flat_map].
  rewrite (H a (or_introl eq_refl)), IH by (intros b Hb; apply H; right; exact Hb). reflexivity.
Qed.

(* what topic t receives from a printed [TopicName [P]] body when partition p yields f p *)
Definition printed_vals {P V} (f : P -> V) (t : bytes) (ts : option (list (w_topic P))) : list V :=
  flat_map (fun wt => if bytes_eqb (view_str (wt_name wt)) t then map f (view_list (wt_partitions wt)) else [])
           (view_list ts).

Lemma merge_view_all {P Q V} (vp : P -> Q) (conv : Q -> V + Z) (pid : Q -> Z) (f : P -> V)
      (ts : option (list (w_topic P))) m :
  (forall t p, In t (view_list ts) -> In p (view_list (wt_partitions t)) -> conv (vp p) = inl (f p)) ->
  exists m', merge_topics conv pid (view_arr (view_topic vp) ts) m = Ok m' /\
             forall t, lookup t m' = lookup t m ++ printed_vals f t ts.
Proof.
  intros H.
  assert (Hall : all_conv conv (view_arr (view_topic vp) ts)).
  { intros t qs q Hin Hq. destruct ts as [l|]; [|destruct Hin]. cbn [view_arr view_list] in *.
    apply in_map_iff in Hin. destruct Hin as [wt [Hwt Hin]]. unfold view_topic in Hwt. inversion Hwt; subst; clear Hwt.
    specialize (H wt). destruct (wt_partitions wt) as [ps|]; [|destruct Hq]. cbn [view_arr view_list] in *.
    apply in_map_iff in Hq. destruct Hq as [p [Hp Hq]]. subst q. exists (f p). apply H; assumption. }
  destruct (C10_merge_all conv pid _ m Hall) as [m' [Hm' Hl]]. exists m'. split; [exact Hm'|].
  intros t. rewrite Hl. f_equal. unfold printed_vals. destruct ts as [l|]; [|reflexivity].
  cbn [view_arr view_list] in *. unfold occ. rewrite flat_map_concat_map, map_map, <- flat_map_concat_map.
  apply flat_map_ext_in'. intros wt Hwt. unfold view_topic. cbn [fst snd].
  destruct (bytes_eqb (view_str (wt_name wt)) t); [|reflexivity].
  specialize (H wt). destruct (wt_partitions wt) as [ps|]; [|reflexivity]. cbn [view_arr view_list] in *.
  apply conv_vals_map_ok. intros p Hp. apply H; assumption.
Qed.

(* ListOffsets: every printed (partition, offset, timestamp) with error 0 reaches its topic *)
Theorem C10_list_offsets_end_to_end : forall r rest m, wf_list_offsets r ->
  (forall t p, In t (view_list (wr_topics r)) -> In p (view_list (wt_partitions t)) -> wl_error p = 0) ->
  exists tps m',
    dec_list_offsets_resp (print_list_offsets r ++ rest) = Ok ((wr_corr r, tps), rest) /\
    merge_topics lop_to_offset lop_partition tps m = Ok m' /\
    forall t, lookup t m' =
              lookup t m ++ printed_vals (fun p => (wl_partition p, wl_offset p, wl_timestamp p)) t (wr_topics r).
Proof.
  intros r rest m Hwf He. exists (view_arr (view_topic view_list_offsets_part) (wr_topics r)).
  destruct (merge_view_all view_list_offsets_part lop_to_offset lop_partition
              (fun p => (wl_partition p, wl_offset p, wl_timestamp p)) (wr_topics r) m) as [m' [Hm' Hl]].
  { intros t p Ht Hp. apply C10_lop_to_offset_ok. apply (He t p Ht Hp). }
  exists m'. split; [|split; [exact Hm'|exact Hl]].
  rewrite (C10_list_offsets_decode r rest Hwf). reflexivity.
Qed.

(* Offsets v0: (partition, first offset of the list, or -1 when the list is empty/null) *)
Theorem C10_offsets_end_to_end : forall r rest m, wf_offsets r ->
  (forall t p, In t (view_list (wr_topics r)) -> In p (view_list (wt_partitions t)) -> wo_error p = 0) ->
  exists tps m',
    dec_offset_resp (print_offsets r ++ rest) = Ok ((wr_corr r, tps), rest) /\
    merge_topics to_offset por_partition tps m = Ok m' /\
    forall t, lookup t m' =
              lookup t m ++ printed_vals (fun p => (wo_partition p, hd (-1) (view_ints (wo_offsets p)))) t (wr_topics r).
Proof.
  intros r rest m Hwf He. exists (view_arr (view_topic view_offsets_part) (wr_topics r)).
  destruct (merge_view_all view_offsets_part to_offset por_partition
              (fun p => (wo_partition p, hd (-1) (view_ints (wo_offsets p)))) (wr_topics r) m) as [m' [Hm' Hl]].
  { intros t p Ht Hp. unfold to_offset, view_offsets_part. cbn [por_error por_partition por_offsets].
    rewrite (He t p Ht Hp). change (from_protocol 0) with (@None Z). cbv iota.
    destruct (view_ints (wo_offsets p)); reflexivity. }
  exists m'. split; [|split; [exact Hm'|exact Hl]].
  rewrite (C10_offsets_decode r rest Hwf). reflexivity.
Qed.

Example ex_list_offsets_end_to_end :
  (forall t p, In t (view_list (wr_topics ex_list_offsets)) -> In p (view_list (wt_partitions t)) -> wl_error p = 0)
  /\ (let* '(_, tps, _) := dec_list_offsets_resp (print_list_offsets ex_list_offsets) in
      merge_topics lop_to_offset lop_partition tps [ ([x74; xc3; xa9], [ (9, 9, 9) ]) ])
     = Ok [ ([x74; xc3; xa9], [ (9, 9, 9); (0, 9223372036854775807, -1); (2, 7, 1500000000000) ]) ].
Proof.
  split; [|vm_compute; reflexivity].
  intros t p Ht Hp. cbn [ex_list_offsets wr_topics view_list] in Ht.
  repeat (destruct Ht as [Ht|Ht]; [subst t; cbn [wt_partitions view_list] in Hp;
            repeat (destruct Hp as [Hp|Hp]; [subst p; reflexivity|]); destruct Hp|]).
  destruct Ht.
Qed.

(* ---- non-vacuity of C10_offsets_exchange_all: two brokers answer over a scripted network ---- *)
Definition ex_resp_b : w_topics_resp w_list_offsets_part :=
  {| wr_corr := 1;
     wr_topics := Some [ {| wt_name := ex_name;
                            wt_partitions := Some [ {| wl_partition := 1; wl_error := 0; wl_timestamp := 4;
                                                       wl_offset := 8 |} ] |} ] |}.
Definition ex_script (payload : bytes) : list ev_out :=
  [OConn true; OWrote 1000; OData (p_i32 (Z.of_nat (length payload))); OData payload].
Definition ex_st : st :=
  {| script := ex_script (print_list_offsets ex_list_offsets) ++ ex_script (print_list_offsets ex_resp_b);
     trace := []; anyq := []; hostq := []; fetchq := []; entryq := [];
     cl := client_new [[x61]; [x62]]; env := ex_codecs |}.
Definition ex_reqs : list (bytes * list (bytes * list (Z * Z))) :=
  [ ([x61], [ ([x74; xc3; xa9], [ (0, -1); (2, -1) ]) ]); ([x62], [ ([x74; xc3; xa9], [ (1, -1) ]) ]) ].

Example ex_exchanges : exists s',
  exchanges (enc_list_offsets_req 1 []) dec_list_offsets_resp ex_reqs ex_st
            [ snd (view_list_offsets ex_list_offsets); snd (view_list_offsets ex_resp_b) ] s'.
Proof.
  eexists. unfold ex_reqs.
  eapply exch_cons; [vm_compute; reflexivity|].
  eapply exch_cons; [vm_compute; reflexivity|].
  apply exch_nil.
Qed.
Example ex_offsets_exchange :
  fst (offsets_exchange (enc_list_offsets_req 1 []) dec_list_offsets_resp lop_to_offset lop_partition
                        ex_reqs [] ex_st)
  = Ok [ ([x74; xc3; xa9], [ (0, 9223372036854775807, -1); (2, 7, 1500000000000); (1, 8, 4) ]) ].
Proof. vm_compute. reflexivity. Qed.

(* ================================================================================== *)
Print Assumptions C10_metadata_decode.
Print Assumptions C10_offsets_decode.
Print Assumptions C10_list_offsets_decode.
Print Assumptions C10_produce_decode.
Print Assumptions C10_coordinator_decode.
Print Assumptions C10_offset_fetch_decode.
Print Assumptions C10_offset_commit_decode.
Print Assumptions C10_to_offset_ok.
Print Assumptions C10_lop_to_offset_ok.
Print Assumptions C10_produce_confirm_ok.
Print Assumptions C10_get_offsets_ok.
Print Assumptions C10_merge_all.
Print Assumptions C10_merge_brokers.
Print Assumptions C10_offsets_exchange_all.
Print Assumptions C10_group_scan_last.
Print Assumptions C10_group_scan_all.
Print Assumptions C10_group_scan_all_refuted.
Print Assumptions C10_produce_confirms.
Print Assumptions C10_fetch_passthrough.
Print Assumptions C10_list_offsets_end_to_end.
Print Assumptions C10_offsets_end_to_end.
