(* C18 extra, third pass (seeded changes C18-5 "hand back the slack of the inflate buffers" and
   C18-6 "deliver all the compressed batches of a fetched message set").

   C18-6 (from_slice goes on behind a compressed wrapper; the set of each further batch supersedes
   the one that owned the earlier batch's inflated vector) changes `Responses.ms_loop`.  It is
   COVERED: mirrored in a scratch copy, the negations of C18_views_subslices_of_owned_buffer and
   of C18_result_is_plain_decoding_of_owned_buffer were proved on two sibling snappy batches
   (`ex_sib` below): the changed decoder returns the messages of both batches, the result owns one
   inflated vector, and neither vector holds the keys of both.  C18_chain_messages_and_level
   (value part: first batch only) is falsified by the same input.

   C18-5 (`data.shrink_to_fit()` between parsing the inflated vector and parking it in the set)
   has NO counterpart in the model: the model's buffers are values (lists of bytes) without a
   capacity or an address, and `shrink_to_fit` does not change the contents.  The mirrored change
   is the identity; no statement about the model can tell it.  The nearest expressible statements
   say that the buffer the result owns is, byte for byte and in full, the vector the decompressor
   returned for the value of a wrapper read from the buffer one level up - nothing is done to it
   between inflating and owning - and, forward, that it is the very message set the broker
   compressed.  Neither was in Props/C18.v (which fixes the LEVEL of the buffer and proves that
   the messages are entries of `view_buffer`'s buffer, but never says WHAT that buffer holds:
   a `from_vec` that kept, say, a truncated or re-encoded copy in both places would pass).

   A. C18_owned_buffer_is_inflated_vector   ALL inputs: `view_buffer = Ok (l, buf)` -> there are l
                                            wrappers, each read at a position of the previous
                                            buffer, each buffer the COMPLETE output of the
                                            decompressor for that wrapper's value; buf is the last
   B. C18_buffer_is_chain_buffer            forward, head chains (any `rest` behind a wrapper, any
                                            cut k): the buffer is `chain_buffer` = the serialised
                                            innermost set the broker compressed (or the reply
                                            bytes themselves at level 0)
      C18_wrapper_buffer_is_sent_set        one batch at the head, ARBITRARY bytes behind it
                                            (further batches included): level 1, buffer = the set
                                            that was compressed
      C18_chain_result_in_sent_buffer       all clauses together for head chains: the messages
                                            (first chain only), the level, the owner, the buffer
                                            contents, every message an entry / key and value
                                            sub-slices of that buffer *)
From KV Require Import Base.Prelude Base.Crc32 Base.Snappy Gen.Consts
                       Model.Codecs Model.Requests Model.Responses Model.Ownership
                       Spec.MsgSetSpec Proofs.BytesFacts Proofs.C02Lemmas Proofs.C02Facts
                       Proofs.C18Facts Proofs.C18Extra.
From Coq Require Import ZifyBool.

(* ====================================================================== *)
(* A. all inputs: the owned buffer is the decompressor's output, untouched  *)
(* ====================================================================== *)

(* `data` is what the decompressor selected by codec `c` returns for the wrapper value `v`
   (gzip: the oracle of Model/Codecs; snappy: xerial_read_to_end, below the allocation limit) *)
Definition inflated (cz : codecs) (c : Z) (v data : bytes) : Prop :=
  (c = COMPRESSION_GZIP /\ gz_decompress cz v = Some data) \/
  (c = COMPRESSION_SNAPPY /\ xerial_max_alloc v < alloc_limit /\ xerial_read_to_end v = Ok data).

(* buf is reached from b by following l compressed wrappers: each wrapper is a message read at a
   position of the current buffer, the next buffer is the whole inflated value of that wrapper *)
Inductive inflate_chain (cz : codecs) (validate : bool) : nat -> bytes -> bytes -> Prop :=
| IC_here b : inflate_chain cz validate O b b
| IC_step l b pre suf off attr k v r data buf :
    b = pre ++ suf ->
    next_message (debug_build cz) validate suf = Ok (off, (attr, k, v), r) ->
    inflated cz (Z.land attr 7) v data ->
    inflate_chain cz validate l data buf ->
    inflate_chain cz validate (S l) b buf.

Lemma buffer_loop_chain cz validate innerB :
  (forall c v l buf, (c =? COMPRESSION_GZIP) || (c =? COMPRESSION_SNAPPY) = true ->
     innerB c v = Ok (l, buf) ->
     exists l' data, l = S l' /\ inflated cz c v data /\ inflate_chain cz validate l' data buf) ->
  forall fuel whole pre bs l buf, whole = pre ++ bs ->
    buffer_loop innerB (debug_build cz) validate fuel whole bs = Ok (l, buf) ->
    inflate_chain cz validate l whole buf.
Proof.
  intros Hin. induction fuel as [|f IH]; intros whole pre bs l buf Hw H.
  - destruct bs as [|b bs]; [|discriminate H].
    cbn [buffer_loop] in H. inversion H; subst. constructor.
  - destruct bs as [|b bs].
    { cbn [buffer_loop] in H. inversion H; subst. constructor. }
    cbn [buffer_loop] in H.
    destruct (next_message (debug_build cz) validate (b :: bs)) as [[[off [[attr k] v]] r]|e|w] eqn:En.
    + destruct (Z.land attr 7 =? COMPRESSION_NONE) eqn:Ec.
      * destruct (C18_rest_is_suffix _ _ _ _ _ _ En) as [used [Hu _]].
        apply (IH whole (pre ++ used) r); [rewrite <- app_assoc, <- Hu; exact Hw|exact H].
      * destruct ((Z.land attr 7 =? COMPRESSION_GZIP) || (Z.land attr 7 =? COMPRESSION_SNAPPY)) eqn:Eo;
          [|discriminate H].
        destruct (Hin _ _ _ _ Eo H) as [l' [data [-> [Hi Hc]]]].
        eapply IC_step; [exact Hw|exact En|exact Hi|exact Hc].
    + destruct e; try discriminate H. inversion H; subst. constructor.
    + discriminate H.
Qed.

(* MAIN A (nearest expressible statement to seeded change C18-5).  ALL inputs (any bytes, any
   depth bound, both build modes, CRC validation on or off): the buffer of level l that the
   returned set owns - the one every returned message is an entry of, C18_views_in_owned_buffer -
   is reached from the input by exactly l inflations, and at each step it is the COMPLETE,
   UNCHANGED output of the decompressor for the value of a wrapper read at a position of the
   previous buffer.  No byte is added, dropped or rewritten between `uncompress` /
   `read_to_end` and `Cow::Owned(data)`. *)
Theorem C18_owned_buffer_is_inflated_vector : forall cz depth validate bs l buf,
  view_buffer cz depth validate bs = Ok (l, buf) -> inflate_chain cz validate l bs buf.
Proof.
  intros cz depth validate. induction depth as [|d IH]; intros bs l buf H; [discriminate H|].
  rewrite view_buffer_S in H.
  apply (buffer_loop_chain cz validate (buffer_inner_of (view_buffer cz d validate) cz))
    with (fuel := S (length bs)) (pre := @nil byte) (bs := bs); [|reflexivity|exact H].
  intros c v l0 buf0 Eo Hi. unfold buffer_inner_of, deeper in Hi.
  destruct (c =? COMPRESSION_GZIP) eqn:Eg.
  - destruct (gz_decompress cz v) as [data|] eqn:Ed; [|discriminate Hi].
    destruct (view_buffer cz d validate data) as [[l1 b1]|e|w] eqn:Ev; cbn [bind fst snd] in Hi;
      try discriminate Hi.
    inversion Hi; subst l0 buf0. exists l1, data. split; [reflexivity|].
    split; [left; split; [lia|exact Ed]|apply IH; exact Ev].
  - cbn [orb] in Eo.
    destruct (alloc_limit <=? xerial_max_alloc v) eqn:Ea; [discriminate Hi|].
    destruct (xerial_read_to_end v) as [data|e|w] eqn:Ex; cbn [bind] in Hi; try discriminate Hi.
    destruct (view_buffer cz d validate data) as [[l1 b1]|e|w] eqn:Ev; cbn [bind fst snd] in Hi;
      try discriminate Hi.
    inversion Hi; subst l0 buf0. exists l1, data. split; [reflexivity|].
    split; [right; split; [lia|split; [lia|exact Ex]]|apply IH; exact Ev].
Qed.

(* with the decoder: whenever decoding succeeds, every returned message is an uncompressed entry
   of a buffer that is such an untouched inflate chain away from the input, and the returned set
   owns that buffer *)
Corollary C18_views_in_inflated_vector : forall cz depth validate req bs ms,
  from_slice cz depth validate req bs = Ok ms ->
  exists l buf,
    inflate_chain cz validate l bs buf
    /\ owner_level cz depth validate bs = Ok (if Nat.eqb l 0 then None else Some l)
    /\ Forall (entry_at (debug_build cz) validate buf) ms
    /\ Forall (fun m => subslice (m_key m) buf /\ subslice (m_value m) buf) ms.
Proof.
  intros cz depth validate req bs ms H.
  destruct (C18_views_in_owned_buffer _ _ _ _ _ _ H) as [l [buf [H1 [_ [H3 [_ H5]]]]]].
  exists l, buf. split; [eapply C18_owned_buffer_is_inflated_vector; exact H1|].
  split; [exact H3|]. split; [exact H5|].
  eapply Forall_impl; [|exact H5]. intros m. apply entry_at_subslices.
Qed.

(* a chain of length 0 goes nowhere, a longer one starts with a wrapper of the first buffer:
   inversion principles that make the relation usable (and show it is not trivially true) *)
Lemma inflate_chain_0 cz validate b buf : inflate_chain cz validate 0 b buf -> buf = b.
Proof. intros H. inversion H; reflexivity. Qed.

Lemma inflate_chain_S cz validate l b buf :
  inflate_chain cz validate (S l) b buf ->
  exists pre suf off attr k v r data,
    b = pre ++ suf /\ next_message (debug_build cz) validate suf = Ok (off, (attr, k, v), r) /\
    inflated cz (Z.land attr 7) v data /\ inflate_chain cz validate l data buf.
Proof. intros H. inversion H; subst. do 8 eexists. eauto. Qed.

(* ====================================================================== *)
(* B. forward: the owned buffer is the set the broker compressed            *)
(* ====================================================================== *)

Lemma view_buffer_level0 cz depth validate bs :
  view_level cz depth validate bs = Ok O -> view_buffer cz depth validate bs = Ok (O, bs).
Proof.
  intros HL.
  destruct (proj2 (C18_level_defined cz depth validate 0 bs)) as [ms Hms]; [eauto|].
  destruct (C18_views_in_owned_buffer _ _ _ _ _ _ Hms) as [l [buf [H1 [H2 [_ [H4 _]]]]]].
  rewrite HL in H2. inversion H2; subst l. rewrite (H4 eq_refl) in H1. exact H1.
Qed.

Lemma buffer_loop_wrapper_step inner dbg validate f whole bs off c k v r :
  bs <> [] -> c = 1 \/ c = 2 ->
  next_message dbg validate bs = Ok (off, (c, k, v), r) ->
  buffer_loop inner dbg validate (S f) whole bs = inner c v.
Proof.
  intros Hne Hc H. destruct bs as [|b bs]; [congruence|].
  cbn [buffer_loop]. rewrite H. destruct Hc as [-> | ->]; reflexivity.
Qed.

Section ChainBuffer.
  Variable comp : Z -> bytes -> bytes.

  (* the serialised innermost set reached by following head wrappers: what the producer handed to
     the compressor of the last wrapper followed *)
  Fixpoint chain_entry_buffer (e : entry) : bytes :=
    match e with
    | Plain _ _ _ => []
    | Wrapper _ _ inner =>
        match inner with
        | (Wrapper _ _ _ as x) :: _ => chain_entry_buffer x
        | _ => ser comp inner
        end
    end.

  (* a complete head wrapper: that innermost set; otherwise the (cut) reply bytes themselves *)
  Definition chain_buffer (es : list entry) (k : nat) : bytes :=
    match es with
    | (Wrapper _ _ _ as x) :: _ =>
        if Nat.leb (length (ser_entry comp x)) k then chain_entry_buffer x else firstn k (ser comp es)
    | _ => firstn k (ser comp es)
    end.

  Lemma chain_buffer_plain es k : all_plain es -> chain_buffer es k = firstn k (ser comp es).
  Proof.
    intros H. destruct es as [|e r]; [reflexivity|].
    apply all_plain_cons in H. destruct H as [[o [key [v ->]]] _]. reflexivity.
  Qed.

  Lemma chain_entry_buffer_wrapper c o inner :
    chain_entry_buffer (Wrapper c o inner) = chain_buffer inner (length (ser comp inner)).
  Proof.
    destruct inner as [|[o' k' v'|c' o' inner'] r].
    - unfold chain_buffer. rewrite firstn_all. reflexivity.
    - unfold chain_buffer. rewrite firstn_all. reflexivity.
    - unfold chain_buffer.
      destruct (Nat.leb (length (ser_entry comp (Wrapper c' o' inner')))
                        (length (ser comp (Wrapper c' o' inner' :: r)))) eqn:E; [reflexivity|].
      apply Nat.leb_gt in E. rewrite ser_cons, app_length in E. lia.
  Qed.

  Lemma buffer_inner_of_comp cz rec c x :
    codec_ok cz comp -> c = 1 \/ c = 2 -> (c = 2 -> blen x < alloc_limit) ->
    buffer_inner_of rec cz c (comp c x) = deeper (rec x).
  Proof.
    intros [Hgz Hsn] [-> | ->] Hx; unfold buffer_inner_of.
    - change (1 =? COMPRESSION_GZIP) with true. cbv iota. rewrite Hgz. reflexivity.
    - change (2 =? COMPRESSION_GZIP) with false. cbv iota.
      destruct (Hsn x (Hx eq_refl)) as [H1 H2].
      destruct (alloc_limit <=? xerial_max_alloc (comp 2 x)) eqn:E; [lia|].
      rewrite H1. reflexivity.
  Qed.

  (* a complete wrapper at the head: the buffer of the inner set, one level deeper; `rest` is
     never looked at *)
  Lemma view_buffer_wrapper_head cz d validate c off inner (rest : bytes) k :
    codec_ok cz comp -> wf_entry comp (Wrapper c off inner) ->
    (length (ser_entry comp (Wrapper c off inner)) <= k)%nat ->
    view_buffer cz (S d) validate (firstn k (ser_entry comp (Wrapper c off inner) ++ rest))
    = deeper (view_buffer cz d validate (ser comp inner)).
  Proof.
    intros Hc Hwf Hk. pose proof Hwf as Hwf'. apply wf_entry_wrapper in Hwf'.
    destruct Hwf' as [Hcc [Ho [Hf [Hal Hin]]]].
    rewrite view_buffer_S, firstn_app_ge by exact Hk.
    rewrite (buffer_loop_wrapper_step _ _ _ _ _ _ off c [] (comp c (ser comp inner))
               (firstn (k - length (ser_entry comp (Wrapper c off inner))) rest)).
    - apply buffer_inner_of_comp; assumption.
    - apply ser_entry_nonempty.
    - assumption.
    - rewrite ser_entry_wrapper.
      rewrite next_message_complete; try assumption; [reflexivity|].
      unfold in_i8. destruct Hcc; lia.
  Qed.

  (* One compressed batch of plain messages at the head of a partition's message set, followed
     by ARBITRARY bytes (further compressed batches, plain messages, garbage; never read): the
     result owns exactly one buffer, of level 1, and that buffer is byte for byte the message set
     the producer compressed. *)
  Theorem C18_wrapper_buffer_is_sent_set : forall cz d validate c off inner (rest : bytes) k,
    codec_ok cz comp -> all_plain inner -> wf_entry comp (Wrapper c off inner) ->
    (length (ser_entry comp (Wrapper c off inner)) <= k)%nat ->
    view_buffer cz (S (S d)) validate (firstn k (ser_entry comp (Wrapper c off inner) ++ rest))
    = Ok (1%nat, ser comp inner)
    /\ owner_level cz (S (S d)) validate (firstn k (ser_entry comp (Wrapper c off inner) ++ rest))
       = Ok (Some 1%nat).
  Proof.
    intros cz d validate c off inner rest k Hc Hp Hwf Hk.
    assert (HB : view_buffer cz (S (S d)) validate (firstn k (ser_entry comp (Wrapper c off inner) ++ rest))
                 = Ok (1%nat, ser comp inner)).
    { rewrite view_buffer_wrapper_head by assumption.
      rewrite (view_buffer_level0 cz (S d) validate (ser comp inner)); [reflexivity|].
      rewrite <- (firstn_all (ser comp inner)).
      apply C18_plain_views_in_response; [assumption|].
      apply wf_entry_wrapper in Hwf. tauto. }
    split; [exact HB|].
    rewrite C18_owner_is_view_level, C18_view_buffer_level, HB. reflexivity.
  Qed.

  (* MAIN B.  Head chains (every wrapper followed is the first entry of its set; anything may
     stand behind it, in particular further compressed batches), every cut k of the reply: the
     buffer the exposed messages point into has level `chain_level` and its contents are
     `chain_buffer`: the reply bytes themselves (level 0) or the serialised innermost set, i.e.
     exactly what the broker's producer compressed. *)
  Theorem C18_buffer_is_chain_buffer : forall cz validate,
    codec_ok cz comp ->
    forall fuel es k, first_chain es -> wf_entries comp es -> (depth es < fuel)%nat ->
    view_buffer cz fuel validate (firstn k (ser comp es)) = Ok (chain_level comp es k, chain_buffer es k).
  Proof.
    intros cz validate Hc. induction fuel as [|d IH]; intros es k Hfc Hwf Hd; [lia|].
    destruct Hfc as [es Hp|c o inner rest Hin].
    - rewrite (chain_level_plain comp), chain_buffer_plain by assumption.
      apply view_buffer_level0. apply C18_plain_views_in_response; assumption.
    - inversion Hwf as [|x l Hwe Hwr]; subst.
      rewrite depth_cons, depth_entry_wrapper in Hd.
      unfold chain_level, chain_buffer.
      destruct (Nat.leb (length (ser_entry comp (Wrapper c o inner))) k) eqn:E.
      + apply Nat.leb_le in E. rewrite ser_cons, view_buffer_wrapper_head by assumption.
        rewrite (chain_entry_level_wrapper comp), chain_entry_buffer_wrapper.
        rewrite <- (firstn_all (ser comp inner)) at 1.
        rewrite IH; [reflexivity|assumption| |lia].
        apply wf_entry_wrapper in Hwe. tauto.
      + apply Nat.leb_gt in E. apply view_buffer_level0. apply view_level_wrapper_cut; assumption.
  Qed.

  (* all clauses together for head chains: WHICH messages (those of the first chain only - never
     those of a sibling batch), in WHICH buffer (level, owner, contents), and that every message
     is an entry of that buffer with key and value sub-slices of it *)
  Theorem C18_chain_result_in_sent_buffer : forall cz validate req,
    codec_ok cz comp ->
    forall fuel es k, first_chain es -> wf_entries comp es -> (depth es < fuel)%nat ->
    from_slice cz fuel validate req (firstn k (ser comp es))
      = Ok (map msg_of (filter (fun x => req <=? fst (fst x)) (chain_msgs comp es k)))
    /\ view_buffer cz fuel validate (firstn k (ser comp es)) = Ok (chain_level comp es k, chain_buffer es k)
    /\ owner_level cz fuel validate (firstn k (ser comp es))
       = Ok (if Nat.eqb (chain_level comp es k) 0 then None else Some (chain_level comp es k))
    /\ Forall (entry_at (debug_build cz) validate (chain_buffer es k))
              (map msg_of (filter (fun x => req <=? fst (fst x)) (chain_msgs comp es k)))
    /\ Forall (fun m => subslice (m_key m) (chain_buffer es k) /\ subslice (m_value m) (chain_buffer es k))
              (map msg_of (filter (fun x => req <=? fst (fst x)) (chain_msgs comp es k))).
  Proof.
    intros cz validate req Hc fuel es k Hfc Hwf Hd.
    pose proof (C02_chain comp cz fuel validate req es k Hc Hfc Hwf Hd) as HM.
    pose proof (C18_buffer_is_chain_buffer cz validate Hc fuel es k Hfc Hwf Hd) as HB.
    destruct (C18_views_in_owned_buffer _ _ _ _ _ _ HM) as [l [buf [H1 [_ [H3 [_ H5]]]]]].
    rewrite HB in H1. inversion H1; subst l buf.
    split; [exact HM|]. split; [exact HB|]. split; [exact H3|]. split; [exact H5|].
    eapply Forall_impl; [|exact H5]. intros m. apply entry_at_subslices.
  Qed.

End ChainBuffer.

(* ====================================================================== *)
(* examples (non-vacuity)                                                   *)
(* ====================================================================== *)

(* two sibling snappy batches in ONE message set, single level of compression: the layout seeded
   change C18-6 needs.  b1 = ("k0" -> "a") at offset 0, b2 = ("q1" -> "b") at offset 1 *)
Definition ex_b1 : list entry := [Plain 0 (Some [x6b; x30]) (Some [x61])].
Definition ex_b2 : list entry := [Plain 1 (Some [x71; x31]) (Some [x62])].
Definition ex_sib : list entry := [Wrapper 2 0 ex_b1; Wrapper 2 1 ex_b2].
Definition ex_ma : message := {| m_offset := 0; m_key := [x6b; x30]; m_value := [x61] |}.
Definition ex_mb : message := {| m_offset := 1; m_key := [x71; x31]; m_value := [x62] |}.

Example ex_sib_wf : wf_entries wcomp ex_sib. Proof. wf_tac. Qed.
Example ex_sib_chain : first_chain ex_sib.
Proof. apply FC_wrap, FC_plain. intros e [<-|[]]. eauto. Qed.
Example ex_b1_plain : all_plain ex_b1.
Proof. intros e [<-|[]]. eauto. Qed.

(* the unchanged model: the first batch only, one buffer of level 1 = the set that was compressed.
   (With the seeded change C18-6 mirrored, `from_slice` returns [ex_ma; ex_mb] here while the
   returned set owns ONE inflated vector; "q1" is not in the first, "k0" not in the second.) *)
Example C18_chain_result_in_sent_buffer_ex :
  from_slice (wcz true) 3 true 0 (ser wcomp ex_sib) = Ok [ex_ma]
  /\ view_buffer (wcz true) 3 true (ser wcomp ex_sib) = Ok (1%nat, ser wcomp ex_b1)
  /\ owner_level (wcz true) 3 true (ser wcomp ex_sib) = Ok (Some 1%nat)
  /\ chain_buffer wcomp ex_sib (length (ser wcomp ex_sib)) = ser wcomp ex_b1
  /\ chain_level wcomp ex_sib (length (ser wcomp ex_sib)) = 1%nat
  /\ map msg_of (chain_msgs wcomp ex_sib (length (ser wcomp ex_sib))) = [ex_ma]
  /\ (depth ex_sib < 3)%nat.
Proof. vm_compute. repeat split; try reflexivity; lia. Qed.

Example ex_sib_no_common_buffer :
  ~ subslice (m_key ex_mb) (ser wcomp ex_b1) /\ ~ subslice (m_key ex_ma) (ser wcomp ex_b2).
Proof.
  split; intros [pre [post H]].
  - assert (Hin : In x71 (ser wcomp ex_b1)).
    { rewrite H. apply in_or_app. right. left. reflexivity. }
    vm_compute in Hin. repeat (destruct Hin as [Hin|Hin]; [discriminate Hin|]). exact Hin.
  - assert (Hin : In x6b (ser wcomp ex_b2)).
    { rewrite H. apply in_or_app. right. left. reflexivity. }
    vm_compute in Hin. repeat (destruct Hin as [Hin|Hin]; [discriminate Hin|]). exact Hin.
Qed.

(* C18_wrapper_buffer_is_sent_set: hypotheses on the first batch, the second batch is `rest` *)
Example C18_wrapper_buffer_is_sent_set_ex :
  wf_entry wcomp (Wrapper 2 0 ex_b1)
  /\ (length (ser_entry wcomp (Wrapper 2 0 ex_b1)) <= 200)%nat
  /\ view_buffer (wcz false) 2 true
       (firstn 200 (ser_entry wcomp (Wrapper 2 0 ex_b1) ++ ser wcomp [Wrapper 2 1 ex_b2]))
     = Ok (1%nat, ser wcomp ex_b1).
Proof.
  split; [|split].
  - pose proof ex_sib_wf as H. inversion H; assumption.
  - vm_compute. lia.
  - vm_compute. reflexivity.
Qed.

(* C18_buffer_is_chain_buffer on the nested example: gzip around snappy around es3, then a plain
   message; complete (level 2, the innermost set) and cut inside the wrapper (level 0, the cut
   reply itself) *)
Example C18_buffer_is_chain_buffer_ex :
  first_chain es_nest /\ wf_entries wcomp es_nest /\ (depth es_nest < 3)%nat
  /\ view_buffer (wcz true) 3 true (firstn 200 (ser wcomp es_nest)) = Ok (2%nat, ser wcomp es3)
  /\ chain_buffer wcomp es_nest 200 = ser wcomp es3 /\ chain_level wcomp es_nest 200 = 2%nat
  /\ view_buffer (wcz true) 3 true (firstn 100 (ser wcomp es_nest)) = Ok (0%nat, firstn 100 (ser wcomp es_nest))
  /\ chain_buffer wcomp es_nest 100 = firstn 100 (ser wcomp es_nest).
Proof.
  split; [exact es_nest_chain|]. split; [exact es_nest_wf|].
  vm_compute. repeat split; try reflexivity; lia.
Qed.

(* C18_owned_buffer_is_inflated_vector on the same input, spelled out: the gzip wrapper is read
   at position 0 of the reply, its value inflates to the middle vector; the snappy wrapper is
   read at position 0 of the middle vector, its value inflates to ser es3, the owned buffer *)
Example C18_owned_buffer_is_inflated_vector_ex :
  view_buffer (wcz true) 3 true (ser wcomp es_nest) = Ok (2%nat, ser wcomp es3)
  /\ inflate_chain (wcz true) true 2 (ser wcomp es_nest) (ser wcomp es3)
  /\ inflated (wcz true) 2 (wcomp 2 (ser wcomp es3)) (ser wcomp es3)
  /\ inflated (wcz true) 1 (wcomp 1 (ser wcomp [Wrapper 2 2 es3])) (ser wcomp [Wrapper 2 2 es3]).
Proof.
  assert (H : view_buffer (wcz true) 3 true (ser wcomp es_nest) = Ok (2%nat, ser wcomp es3))
    by (vm_compute; reflexivity).
  split; [exact H|]. split; [apply (C18_owned_buffer_is_inflated_vector _ _ _ _ _ _ H)|].
  split.
  - right. split; [reflexivity|]. split; [vm_compute; reflexivity|vm_compute; reflexivity].
  - left. split; reflexivity.
Qed.

(* the relation has content: a chain of length 1 out of an uncompressed set does not exist
   (no position of ser es3 holds a compressed wrapper) *)
Example inflate_chain_not_trivial :
  forall buf, ~ inflate_chain (wcz true) true 1 (firstn 27 (ser wcomp es3)) buf.
Proof.
  intros buf H. apply inflate_chain_S in H.
  destruct H as [pre [suf [off [attr [k [v [r [data [Hb [Hn [Hi _]]]]]]]]]]].
  assert (Hs : suf = skipn (length pre) (firstn 27 (ser wcomp es3))).
  { rewrite Hb, skipn_app, skipn_all, Nat.sub_diag. reflexivity. }
  assert (Hl : (length pre <= 27)%nat).
  { assert (E27 : length (firstn 27 (ser wcomp es3)) = 27%nat) by (vm_compute; reflexivity).
    rewrite Hb, app_length in E27. lia. }
  remember (length pre) as n eqn:En. clear En Hb pre.
  assert (Hc : Z.land attr 7 = 1 \/ Z.land attr 7 = 2).
  { destruct Hi as [[Hi _]|[Hi _]]; [left|right]; exact Hi. }
  subst suf.
  do 28 (destruct n as [|n];
         [vm_compute in Hn; try discriminate Hn; inversion Hn; subst attr; vm_compute in Hc;
          destruct Hc as [Hc|Hc]; discriminate Hc|]).
  lia.
Qed.

Print Assumptions C18_owned_buffer_is_inflated_vector.
Print Assumptions C18_views_in_inflated_vector.
Print Assumptions C18_wrapper_buffer_is_sent_set.
Print Assumptions C18_buffer_is_chain_buffer.
Print Assumptions C18_chain_result_in_sent_buffer.
