(* C02, additional theorems about the nesting bound of compressed message sets
   (fetch.rs: MAX_COMPRESSION_DEPTH = 8, `MessageSet::from_slice(raw, req_offset, validate_crc, depth)`
   refuses with Error::UnsupportedCompression at depth == 0 and recurses with depth - 1 at a gzip /
   snappy wrapper; model: Responses.from_slice, Client.decode_depth = Gen.Consts.MAX_COMPRESSION_DEPTH).

   The older theorems of Props/C02.v carry the hypothesis (depth es < fuel) and say nothing about
   the other side.  Here:
   (1) the other side, exactly.  What decides is not `depth es` (the deepest nesting anywhere in the
       set) but the number of wrappers the decoder actually FOLLOWS: `chain_level comp es k` for a
       head-chain set (C18Facts), `dec_level` for an arbitrary well-formed set.
         C02_chain_total     head-chain sets, every cut k, every fuel: the exact result when the chain
                             fits (chain_level < fuel), Err EUnsupportedCompression when it does not
         C02_chain_refused / C02_chain_fits / C02_chain_refused_iff / C02_chain_refused_complete
         C02_decoder_total   the same for EVERY well-formed set (class `Known` included) with
                             dec_level / dec_view (extends C02_decoder_exact to every fuel)
         C02_depth_hypothesis_not_sharp   (depth es < fuel) is sufficient, not necessary (witness)
   (2) with decode_depth = MAX_COMPRESSION_DEPTH = 8:
         C02_fetch_upto7_end_to_end, C02_fetch_messages_upto7   nesting <= 7: exactly as before
         C02_response_refused          a response one of whose partitions is refused (the others
                                       decode or are refused too): fetch_from_vec = Err e, nothing exposed
         C02_fetch_from_vec_refused_at_8, C02_fetch_messages_refused_at_8
                                       a conforming partition whose chain is >= 8 deep: the whole
                                       fetch fails with Err EUnsupportedCompression
   Everything is about the unchanged model. *)
From KV Require Import Base.Prelude Base.Crc32 Base.Snappy Gen.ErrorCodes Gen.Consts
                       Model.Codecs Model.Requests Model.Responses
                       Model.ClientState Model.Net Model.Client
                       Spec.MsgSetSpec Spec.RespGrammar
                       Proofs.BytesFacts Proofs.C10Facts Proofs.C02Lemmas Proofs.C02Facts
                       Proofs.C02Extra Proofs.C02ExtraB Proofs.C02ExtraC Proofs.C18Facts.
From Coq Require Import ZifyBool.

(* ====================================================================== *)
(* (1) the other side of the depth hypothesis                              *)
(* ====================================================================== *)

Lemma ltb_SS a b : Nat.ltb (S a) (S b) = Nat.ltb a b.
Proof. reflexivity. Qed.

Lemma ltb_0_S b : Nat.ltb 0 (S b) = true.
Proof. reflexivity. Qed.

Lemma ltb_n_0 a : Nat.ltb a 0 = false.
Proof. apply Nat.ltb_ge. lia. Qed.

(* the number of head wrappers never exceeds the nesting depth *)
Lemma chain_entry_level_le_depth : forall e, (chain_entry_level e <= depth_entry e)%nat.
Proof.
  apply entry_ind'.
  - intros o k v. cbn [chain_entry_level depth_entry]. lia.
  - intros c o inner HF. rewrite depth_entry_wrapper. cbn [chain_entry_level].
    destruct inner as [|[o' k' v'|c' o' inner'] r]; try lia.
    inversion HF as [|x l Hx Hl]; subst. rewrite depth_cons. lia.
Qed.

Section Refused.
  Variable comp : Z -> bytes -> bytes.

  Lemma C02_chain_level_le_depth es k : (chain_level comp es k <= depth es)%nat.
  Proof.
    destruct es as [|[o' k' v'|c' o' inner'] r]; cbn [chain_level]; try lia.
    unfold chain_level.
    destruct (Nat.leb (length (ser_entry comp (Wrapper c' o' inner'))) k); [|lia].
    rewrite depth_cons. pose proof (chain_entry_level_le_depth (Wrapper c' o' inner')). lia.
  Qed.

  (* MessageSet::from_slice on EVERY well-formed head-chain set (wrappers, if any, at index 0 of
     the set they belong to: the class outside finding F13), cut at ANY byte k, with ANY remaining
     depth `fuel` (the Rust argument `depth`), any requested offset, both CRC settings, both build
     profiles.  `chain_level comp es k` is the number of wrappers followed: 0 when the first entry is
     plain or its wrapper is cut by k, else 1 + the level of the wrapper's inner set.
       chain fits  (chain_level < fuel): the messages of the innermost set reached, filtered;
       it does not (fuel <= chain_level): Err EUnsupportedCompression - nothing else can happen.
     No hypothesis relating `depth es` and fuel. *)
  Theorem C02_chain_total : forall cz validate req,
    codec_ok cz comp ->
    forall fuel es k, first_chain es -> wf_entries comp es ->
    from_slice cz fuel validate req (firstn k (ser comp es))
    = if Nat.ltb (chain_level comp es k) fuel
      then Ok (map msg_of (filter (fun x => req <=? fst (fst x)) (chain_msgs comp es k)))
      else Err EUnsupportedCompression.
  Proof.
    intros cz validate req Hc.
    change (fun x : Z * bytes * bytes => req <=? fst (fst x)) with (qual req).
    induction fuel as [|d IH]; intros es k Hfc Hwf.
    - rewrite ltb_n_0. reflexivity.
    - destruct Hfc as [es Hp|c o inner rest Hin].
      + rewrite (chain_level_plain comp) by assumption. rewrite ltb_0_S.
        rewrite (chain_msgs_plain comp) by assumption. apply from_slice_plain; assumption.
      + inversion Hwf as [|x l Hwe Hwr]; subst.
        unfold chain_level, chain_msgs.
        destruct (Nat.leb (length (ser_entry comp (Wrapper c o inner))) k) eqn:E.
        * apply Nat.leb_le in E. rewrite from_slice_wrapper_head by assumption.
          rewrite (chain_entry_level_wrapper comp), (chain_entry_wrapper comp), ltb_SS.
          rewrite <- (firstn_all (ser comp inner)) at 1.
          apply IH; [assumption|]. apply wf_entry_wrapper in Hwe. tauto.
        * apply Nat.leb_gt in E. rewrite from_slice_wrapper_cut by assumption.
          rewrite ltb_0_S. reflexivity.
  Qed.

  (* the other side of (depth es < fuel): a chain at least `fuel` deep is refused *)
  Theorem C02_chain_refused : forall cz validate req fuel es k,
    codec_ok cz comp -> first_chain es -> wf_entries comp es ->
    (fuel <= chain_level comp es k)%nat ->
    from_slice cz fuel validate req (firstn k (ser comp es)) = Err EUnsupportedCompression.
  Proof.
    intros cz validate req fuel es k Hc Hfc Hwf Hl.
    rewrite (C02_chain_total cz validate req Hc fuel es k Hfc Hwf).
    rewrite (proj2 (Nat.ltb_ge _ _) Hl). reflexivity.
  Qed.

  (* C02_chain with the weaker (and sharp) hypothesis: only the chain has to fit *)
  Theorem C02_chain_fits : forall cz validate req fuel es k,
    codec_ok cz comp -> first_chain es -> wf_entries comp es ->
    (chain_level comp es k < fuel)%nat ->
    from_slice cz fuel validate req (firstn k (ser comp es))
    = Ok (map msg_of (filter (fun x => req <=? fst (fst x)) (chain_msgs comp es k))).
  Proof.
    intros cz validate req fuel es k Hc Hfc Hwf Hl.
    rewrite (C02_chain_total cz validate req Hc fuel es k Hfc Hwf).
    rewrite (proj2 (Nat.ltb_lt _ _) Hl). reflexivity.
  Qed.

  Theorem C02_chain_refused_iff : forall cz validate req fuel es k,
    codec_ok cz comp -> first_chain es -> wf_entries comp es ->
    (from_slice cz fuel validate req (firstn k (ser comp es)) = Err EUnsupportedCompression
     <-> (fuel <= chain_level comp es k)%nat).
  Proof.
    intros cz validate req fuel es k Hc Hfc Hwf.
    rewrite (C02_chain_total cz validate req Hc fuel es k Hfc Hwf).
    destruct (Nat.ltb (chain_level comp es k) fuel) eqn:E.
    - apply Nat.ltb_lt in E. split; [intros H; discriminate H|lia].
    - apply Nat.ltb_ge in E. split; [intros _; exact E|reflexivity].
  Qed.

  (* complete sets, and sets cut anywhere behind the head wrapper (k >= its length; whatever
     follows it - `rest`, however deep - plays no role): refused as soon as the wrapper's own chain
     (`chain_entry_level`, counting the wrapper itself) reaches the bound *)
  Theorem C02_chain_refused_complete : forall cz validate req fuel c o inner rest k,
    codec_ok cz comp -> first_chain inner -> wf_entries comp (Wrapper c o inner :: rest) ->
    (length (ser_entry comp (Wrapper c o inner)) <= k)%nat ->
    (fuel <= chain_entry_level (Wrapper c o inner))%nat ->
    from_slice cz fuel validate req (firstn k (ser comp (Wrapper c o inner :: rest)))
    = Err EUnsupportedCompression
    /\ from_slice cz fuel validate req (ser comp (Wrapper c o inner :: rest))
       = Err EUnsupportedCompression.
  Proof.
    intros cz validate req fuel c o inner rest k Hc Hfc Hwf Hk Hl.
    assert (G : forall k', (length (ser_entry comp (Wrapper c o inner)) <= k')%nat ->
                from_slice cz fuel validate req (firstn k' (ser comp (Wrapper c o inner :: rest)))
                = Err EUnsupportedCompression).
    { intros k' Hk'. apply C02_chain_refused; try assumption; [apply FC_wrap; assumption|].
      unfold chain_level. rewrite (proj2 (Nat.leb_le _ _) Hk'). exact Hl. }
    split; [apply G; exact Hk|].
    rewrite <- (firstn_all (ser comp (Wrapper c o inner :: rest))). apply G.
    rewrite ser_cons, app_length. lia.
  Qed.

  (* ---- every well-formed set (class `Known` included) ----------------------------------------- *)

  (* the number of wrappers the decoder follows on the first k bytes of `ser comp es`: the FIRST
     wrapper among the entries lying completely within the k bytes decides (as in `dec_view`);
     `n` bounds the recursion of the definition only (n > depth es: see C02_dec_level_fuel) *)
  Fixpoint dec_level (n : nat) (es : list entry) (k : nat) : nat :=
    match n with
    | O => O
    | S n' =>
        match first_wrapper (complete_prefix comp es k) with
        | None => O
        | Some (_, _, inner) => S (dec_level n' inner (length (ser comp inner)))
        end
    end.

  Lemma C02_dec_level_fuel : forall n m es k,
    wf_entries comp es -> (depth es < n)%nat -> (depth es < m)%nat ->
    dec_level n es k = dec_level m es k.
  Proof.
    induction n as [|n IH]; intros m es k Hwf Hn Hm; [lia|].
    destruct m as [|m]; [lia|]. cbn [dec_level].
    destruct (first_wrapper (complete_prefix comp es k)) as [[[c o] inner]|] eqn:E; [|reflexivity].
    destruct (first_wrapper_prefix_facts comp es k c o inner Hwf E) as [Hwi Hd].
    f_equal. apply IH; [assumption|lia|lia].
  Qed.

  Lemma C02_dec_level_le_depth : forall n es k,
    wf_entries comp es -> (dec_level n es k <= depth es)%nat.
  Proof.
    induction n as [|n IH]; intros es k Hwf; cbn [dec_level]; [lia|].
    destruct (first_wrapper (complete_prefix comp es k)) as [[[c o] inner]|] eqn:E; [|lia].
    destruct (first_wrapper_prefix_facts comp es k c o inner Hwf E) as [Hwi Hd].
    specialize (IH inner (length (ser comp inner)) Hwi). lia.
  Qed.

  (* MessageSet::from_slice on EVERY well-formed set a broker may serve, every cut, every remaining
     depth: C02_decoder_exact without its hypothesis (depth es < fuel), and with the other side. *)
  Theorem C02_decoder_total : forall cz validate req,
    codec_ok cz comp ->
    forall fuel es k, wf_entries comp es ->
    from_slice cz fuel validate req (firstn k (ser comp es))
    = if Nat.ltb (dec_level (S (depth es)) es k) fuel
      then Ok (map msg_of (filter (fun x => req <=? fst (fst x)) (dec_view comp (S (depth es)) es k)))
      else Err EUnsupportedCompression.
  Proof.
    intros cz validate req Hc.
    change (fun x : Z * bytes * bytes => req <=? fst (fst x)) with (qual req).
    induction fuel as [|d IH]; intros es k Hwf.
    - rewrite ltb_n_0. reflexivity.
    - rewrite from_slice_S, (ms_loop_exact comp cz validate req d Hc) by (try assumption; lia).
      cbn [dec_level dec_view].
      destruct (first_wrapper (complete_prefix comp es k)) as [[[c o] inner]|] eqn:E;
        [|rewrite ltb_0_S; reflexivity].
      destruct (first_wrapper_prefix_facts comp es k c o inner Hwf E) as [Hwi Hdi].
      rewrite ltb_SS.
      rewrite <- (firstn_all (ser comp inner)) at 1.
      rewrite (IH inner (length (ser comp inner)) Hwi).
      rewrite (C02_dec_level_fuel (depth es) (S (depth inner)) inner _ Hwi) by lia.
      rewrite (C02_dec_view_fuel comp (depth es) (S (depth inner)) inner _ Hwi) by lia.
      reflexivity.
  Qed.

  Corollary C02_decoder_refused_iff : forall cz validate req fuel es k,
    codec_ok cz comp -> wf_entries comp es ->
    (from_slice cz fuel validate req (firstn k (ser comp es)) = Err EUnsupportedCompression
     <-> (fuel <= dec_level (S (depth es)) es k)%nat).
  Proof.
    intros cz validate req fuel es k Hc Hwf.
    rewrite (C02_decoder_total cz validate req Hc fuel es k Hwf).
    destruct (Nat.ltb (dec_level (S (depth es)) es k) fuel) eqn:E.
    - apply Nat.ltb_lt in E. split; [intros H; discriminate H|lia].
    - apply Nat.ltb_ge in E. split; [intros _; exact E|reflexivity].
  Qed.

  (* on head-chain sets the two counters agree *)
  Lemma C02_dec_level_chain : forall es k,
    first_chain es -> wf_entries comp es ->
    dec_level (S (depth es)) es k = chain_level comp es k.
  Proof.
    intros es k Hfc Hwf.
    remember (S (depth es)) as n eqn:En.
    assert (Hn : (depth es < n)%nat) by lia. clear En.
    revert es k Hfc Hwf Hn. induction n as [|n IH]; intros es k Hfc Hwf Hn; [lia|].
    cbn [dec_level].
    destruct Hfc as [es Hp|c o inner rest Hin].
    - rewrite (chain_level_plain comp) by assumption.
      assert (Hpp : all_plain (complete_prefix comp es k)).
      { intros e He. apply Hp. eapply In_complete_prefix. exact He. }
      apply first_wrapper_None_plain in Hpp. rewrite Hpp. reflexivity.
    - inversion Hwf as [|x l Hwe Hwr]; subst.
      rewrite depth_cons, depth_entry_wrapper in Hn.
      unfold chain_level. cbn [complete_prefix].
      destruct (Nat.leb (length (ser_entry comp (Wrapper c o inner))) k) eqn:E.
      + cbn [first_wrapper]. rewrite (chain_entry_level_wrapper comp). f_equal.
        apply IH; [assumption| |lia]. apply wf_entry_wrapper in Hwe. tauto.
      + reflexivity.
  Qed.
End Refused.

(* ---- non-vacuity: identity gzip / single-chunk snappy (wcomp, wcz) --------------------------- *)

(* n gzip wrappers around a set *)
Fixpoint nestw (n : nat) (es : list entry) : list entry :=
  match n with O => es | S m => [Wrapper 1 2 (nestw m es)] end.

Lemma nestw_chain n es : first_chain es -> first_chain (nestw n es).
Proof. intros H. induction n as [|n IH]; [exact H|]. cbn [nestw]. apply FC_wrap. exact IH. Qed.

(* 8 wrappers (7 gzip, the innermost snappy) around es3, then a plain message *)
Definition es_deep8 : list entry := nestw 7 [Wrapper 2 2 es3] ++ [Plain 3 None (Some [x63])].
(* 7 wrappers around es3, then a plain message *)
Definition es_deep7 : list entry := nestw 6 [Wrapper 2 2 es3] ++ [Plain 3 None (Some [x63])].

Example es_deep8_wf : wf_entries wcomp es_deep8. Proof. wf_tac. Qed.
Example es_deep7_wf : wf_entries wcomp es_deep7. Proof. wf_tac. Qed.
Example es_deep8_chain : first_chain es_deep8.
Proof. repeat apply FC_wrap. apply FC_plain, es3_plain. Qed.
Example es_deep7_chain : first_chain es_deep7.
Proof. repeat apply FC_wrap. apply FC_plain, es3_plain. Qed.

Example C02_chain_total_ex :
  length (ser wcomp es_deep8) = 340%nat /\ length (ser wcomp es_deep7) = 314%nat /\
  depth es_deep8 = 8%nat /\ depth es_deep7 = 7%nat /\
  (* the level as a function of the cut: the head wrapper of es_deep8 is 313 bytes long *)
  map (chain_level wcomp es_deep8) [0; 312; 313; 340]%nat = [0; 0; 8; 8]%nat /\
  map (chain_level wcomp es_deep7) [0; 286; 287; 314]%nat = [0; 0; 7; 7]%nat /\
  (* 8 wrappers, depth argument 8 (MAX_COMPRESSION_DEPTH): refused - complete and cut behind the chain *)
  from_slice (wcz true) 8 true 1 (ser wcomp es_deep8) = Err EUnsupportedCompression /\
  from_slice (wcz true) 8 true 1 (firstn 313 (ser wcomp es_deep8)) = Err EUnsupportedCompression /\
  (* cut inside the head wrapper: nothing is followed, nothing is refused *)
  from_slice (wcz true) 8 true 1 (firstn 312 (ser wcomp es_deep8)) = Ok [] /\
  (* one level more would do *)
  from_slice (wcz true) 9 true 1 (ser wcomp es_deep8) = Ok [m1; m2] /\
  (* 7 wrappers: as before *)
  from_slice (wcz true) 8 true 1 (ser wcomp es_deep7) = Ok [m1; m2] /\
  from_slice (wcz false) 7 true 1 (ser wcomp es_deep7) = Err EUnsupportedCompression.
Proof. vm_compute. repeat split; reflexivity. Qed.

Example C02_chain_refused_complete_ex :
  exists inner rest, es_deep8 = Wrapper 1 2 inner :: rest /\ first_chain inner /\
    (length (ser_entry wcomp (Wrapper 1 2 inner)) <= 313)%nat /\
    (8 <= chain_entry_level (Wrapper 1 2 inner))%nat.
Proof.
  eexists. eexists. split; [reflexivity|].
  split; [repeat apply FC_wrap; apply FC_plain, es3_plain|].
  vm_compute. split; lia.
Qed.

(* (depth es < fuel) is sufficient but not necessary: the deep batch sits BEHIND the head wrapper,
   where the decoder never looks; depth 3 >= fuel 2, yet the set decodes (chain level 1) *)
Definition es_deep_tail : list entry := [Wrapper 1 2 es3; Wrapper 1 5 [Wrapper 2 5 [Wrapper 1 5 es3]]].

Theorem C02_depth_hypothesis_not_sharp :
  exists cz comp es fuel,
    codec_ok cz comp /\ first_chain es /\ wf_entries comp es /\
    (fuel <= depth es)%nat /\ chain_level comp es (length (ser comp es)) = 1%nat /\
    dec_level comp (S (depth es)) es (length (ser comp es)) = 1%nat /\
    from_slice cz fuel true 1 (ser comp es) = Ok [m1; m2].
Proof.
  exists (wcz true), wcomp, es_deep_tail, 2%nat.
  split; [apply wcomp_codec_ok|].
  split; [apply FC_wrap, FC_plain, es3_plain|].
  split; [wf_tac|].
  vm_compute. repeat split; lia.
Qed.

(* C02_decoder_total on sets of the class `Known`: es_mix (C02ExtraC) follows 2 wrappers *)
Example C02_decoder_total_ex :
  wf_entries wcomp es_mix /\ depth es_mix = 2%nat /\
  dec_level wcomp 3 es_mix (length (ser wcomp es_mix)) = 2%nat /\
  dec_level wcomp 3 es_mix 40 = 0%nat /\
  from_slice (wcz false) 2 true 3 (ser wcomp es_mix) = Err EUnsupportedCompression /\
  from_slice (wcz false) 1 true 0 (firstn 40 (ser wcomp es_mix)) = Ok [msg_of (0, [], [x61])] /\
  from_slice (wcz false) 3 true 3 (ser wcomp es_mix) = Ok [msg_of (3, [], [x64])].
Proof. split; [wf_tac|]. vm_compute. repeat split; reflexivity. Qed.

(* ====================================================================== *)
(* (2) decode_depth = MAX_COMPRESSION_DEPTH = 8 at the level of the fetch   *)
(* ====================================================================== *)

Lemma decode_depth_8 : decode_depth = 8%nat.
Proof. reflexivity. Qed.

(* ---- up to 7 wrappers: exactly as before ---------------------------------------------------- *)

(* C02_fetch_end_to_end at the depth the client uses: every conforming set nested at most 7 deep *)
Theorem C02_fetch_upto7_end_to_end : forall comp cz validate adds r rest,
  codec_ok cz comp -> wf_fetch r ->
  (forall t p, In t (view_list (wr_topics r)) -> In p (view_list (wt_partitions t)) ->
     exists es k, wfe_message_set p = firstn k (ser comp es) /\ wf_entries comp es /\ (depth es <= 7)%nat) ->
  fetch_from_vec cz decode_depth validate (build_reqs adds) (print_fetch r ++ rest)
  = Ok (view_fresp cz decode_depth validate (build_reqs adds) r)
  /\ forall i j t p es k,
       nth_error (view_list (wr_topics r)) i = Some t ->
       nth_error (view_list (wt_partitions t)) j = Some p ->
       wfe_error p = 0 ->
       wfe_message_set p = firstn k (ser comp es) -> wf_entries comp es -> (depth es <= 7)%nat ->
       exists ft fp ms,
         nth_error (fr_topics (view_fresp cz decode_depth validate (build_reqs adds) r)) i = Some ft /\
         ft_topic ft = view_str (wt_name t) /\
         nth_error (ft_partitions ft) j = Some fp /\
         fp_partition fp = wfe_partition p /\
         fp_data fp = inl (wfe_highwater p, map msg_of ms) /\
         subseq ms (filter (fun x => asked adds (view_str (wt_name t)) (wfe_partition p) 0 <=? fst (fst x))
                           (flatten (complete_prefix comp es k))) /\
         (~ Known es ->
          ms = filter (fun x => asked adds (view_str (wt_name t)) (wfe_partition p) 0 <=? fst (fst x))
                      (chain_msgs comp es k)).
Proof.
  intros comp cz validate adds r rest Hc Hwf Hsets.
  assert (Hsets' : forall t p, In t (view_list (wr_topics r)) -> In p (view_list (wt_partitions t)) ->
            exists es k, wfe_message_set p = firstn k (ser comp es) /\ wf_entries comp es
                         /\ (depth es < decode_depth)%nat).
  { intros t p Ht Hp. destruct (Hsets t p Ht Hp) as [es [k [H1 [H2 H3]]]].
    exists es, k. rewrite decode_depth_8. repeat split; [exact H1|exact H2|lia]. }
  destruct (C02_fetch_end_to_end comp cz decode_depth validate adds r rest Hc Hwf Hsets') as [G1 G2].
  split; [exact G1|].
  intros i j t p es k Ht Hp He E Hwe Hd. apply (G2 i j t p es k Ht Hp He E Hwe).
  rewrite decode_depth_8. lia.
Qed.

(* the exposed messages do not depend on the bound as long as the nesting stays below it: the
   response view computed with depth 8 is the one computed with any larger bound (nothing is
   observable of MAX_COMPRESSION_DEPTH on sets nested at most 7 deep) *)
Theorem C02_upto7_bound_unobservable : forall comp cz validate req es k d,
  codec_ok cz comp -> wf_entries comp es -> (depth es <= 7)%nat -> (8 <= d)%nat ->
  from_slice cz decode_depth validate req (firstn k (ser comp es))
  = from_slice cz d validate req (firstn k (ser comp es)).
Proof.
  intros comp cz validate req es k d Hc Hwf Hd H8.
  rewrite (C02_decoder_exact_depth comp cz validate req Hc decode_depth es k Hwf)
    by (rewrite decode_depth_8; lia).
  rewrite (C02_decoder_exact_depth comp cz validate req Hc d es k Hwf) by lia.
  reflexivity.
Qed.

(* ---- arrays one of whose elements is refused ---------------------------------------------------- *)

Section BadArrays.
  Context {A B : Type} (d : bytes -> res (B * bytes)) (p : A -> bytes) (v : A -> B)
          (good bad : A -> Prop) (e : err).
  Hypothesis d_good : forall a rest, good a -> d (p a ++ rest) = Ok (v a, rest).
  Hypothesis d_bad : forall a rest, bad a -> d (p a ++ rest) = Err e.
  Hypothesis p_pos : forall a, (1 <= length (p a))%nat.

  Lemma zread_many_bad xs : Forall (fun a => good a \/ bad a) xs -> Exists bad xs ->
    forall fuel rest, (length xs <= fuel)%nat ->
    zread_many d fuel (Z.of_nat (length xs)) (p_seq p xs ++ rest) = Err e.
  Proof.
    induction 1 as [|x xs Hx _ IH]; intros Hex fuel rest Hf; [inversion Hex|].
    cbn [length] in Hf. destruct fuel as [|fuel]; [lia|].
    cbn [zread_many length p_seq].
    destruct (Z.of_nat (S (length xs)) <=? 0) eqn:E; [lia|].
    rewrite <- app_assoc.
    inversion Hex as [y l Hb|y l Hb]; subst.
    - rewrite d_bad by exact Hb. reflexivity.
    - destruct Hx as [Hg|Hb'].
      + rewrite d_good by exact Hg. cbn [bind].
        replace (Z.of_nat (S (length xs)) - 1) with (Z.of_nat (length xs)) by lia.
        rewrite IH by (try assumption; lia). reflexivity.
      + rewrite d_bad by exact Hb'. reflexivity.
  Qed.

  Lemma zread_array_bad sz l rest :
    Forall (fun a => good a \/ bad a) l -> Exists bad l -> Z.of_nat (length l) < 2 ^ 31 ->
    zread_array sz d (p_array p (Some l) ++ rest) = Err e.
  Proof.
    intros Hall Hex Hlen. unfold zread_array, zread_array_len. cbn [p_array].
    rewrite <- app_assoc. rewrite zread_i32_print by (unfold in_i32; lia). cbn [bind].
    destruct (Z.of_nat (length l) <? 0) eqn:E; [lia|].
    apply zread_many_bad; [exact Hall|exact Hex|].
    rewrite app_length.
    pose proof (p_seq_length p (fun _ => True) (fun a _ => p_pos a) l) as HL.
    assert (HT : Forall (fun _ : A => True) l) by (apply Forall_forall; trivial).
    specialize (HL HT). lia.
  Qed.
End BadArrays.

(* over a finite list: every element is fine or refused => all are fine, or one is refused *)
Lemma all_or_exists {A} (P Q : A -> Prop) (l : list A) :
  (forall a, In a l -> P a \/ Q a) -> (forall a, In a l -> P a) \/ Exists Q l.
Proof.
  induction l as [|x l IH]; intros H; [left; intros a []|].
  destruct (H x (or_introl eq_refl)) as [Hp|Hq]; [|right; apply Exists_cons_hd; exact Hq].
  destruct IH as [Hall|Hex]; [intros a Ha; apply H; right; exact Ha| |right; apply Exists_cons_tl; exact Hex].
  left. intros a [<-|Ha]; [exact Hp|apply Hall; exact Ha].
Qed.

Definition part_refused cz d validate reqs (tname : bytes) (e : err) (p : w_fetch_part) : Prop :=
  wf_fetch_part p /\ exposed cz d validate reqs tname p = Err e.

Lemma read_partition_refused cz d validate reqs tname e p rest :
  part_refused cz d validate reqs tname e p ->
  read_partition cz d validate (assoc_bytes tname reqs) (print_fetch_part p ++ rest) = Err e.
Proof.
  intros [(H1 & H2 & H3 & H4) Hms]. change (2 ^ 31) with 2147483648 in H4.
  unfold read_partition, print_fetch_part. rewrite <- !app_assoc.
  rewrite zread_i32_print by exact H1. cbn [bind]. cbv zeta.
  rewrite zread_i16_print by exact H2. cbn [bind].
  rewrite zread_i64_print by exact H3. cbn [bind].
  rewrite (app_assoc (p_i32 _) (wfe_message_set p) rest).
  change (p_i32 (Z.of_nat (length (wfe_message_set p))) ++ wfe_message_set p)
    with (ser_opt (Some (wfe_message_set p))).
  rewrite zread_bytes_ser_opt by (cbn [view_opt]; unfold blen, i32_max; lia).
  cbn [bind view_opt].
  unfold exposed, req_lookup in *. rewrite Hms. reflexivity.
Qed.

Lemma print_fetch_part_len p : (1 <= length (print_fetch_part p))%nat.
Proof. unfold print_fetch_part. rewrite app_length, p_i32_length. lia. Qed.

Lemma print_topic_len (t : w_topic w_fetch_part) : (1 <= length (print_topic print_fetch_part t))%nat.
Proof. unfold print_topic. rewrite app_length. pose proof (p_string_length (wt_name t)). lia. Qed.

(* a topic one of whose partitions is refused, the others decode or are refused as well *)
Definition topic_refused cz d validate reqs (e : err) (t : w_topic w_fetch_part) : Prop :=
  wf_string (wt_name t) /\
  exists l, wt_partitions t = Some l /\ Z.of_nat (length l) < 2 ^ 31 /\
    Forall (fun p => part_decodes cz d validate reqs (view_str (wt_name t)) p
                     \/ part_refused cz d validate reqs (view_str (wt_name t)) e p) l /\
    Exists (part_refused cz d validate reqs (view_str (wt_name t)) e) l.

Lemma read_topic_refused cz d validate reqs e t rest :
  topic_refused cz d validate reqs e t ->
  read_topic cz d validate reqs (print_topic print_fetch_part t ++ rest) = Err e.
Proof.
  intros (Hn & l & El & Hlen & Hall & Hex). unfold read_topic, print_topic.
  rewrite <- app_assoc. rewrite zread_str_print by exact Hn. cbn [bind]. rewrite El.
  rewrite (zread_array_bad _ print_fetch_part
             (view_part cz d validate reqs (view_str (wt_name t)))
             (part_decodes cz d validate reqs (view_str (wt_name t)))
             (part_refused cz d validate reqs (view_str (wt_name t)) e) e);
    [reflexivity| | |apply print_fetch_part_len|exact Hall|exact Hex|exact Hlen].
  - intros a r Ha. apply read_partition_print. exact Ha.
  - intros a r Ha. apply read_partition_refused. exact Ha.
Qed.

(* Response::from_vec on a well-formed frame (any number of topics / partitions): if every message
   set either decodes or is refused with the error e (each with the offset requested for ITS
   topic/partition), and at least one is refused, the WHOLE response is Err e: no topic, no
   partition, no message of the sets that did decode is exposed. *)
Theorem C02_response_refused : forall cz d validate reqs r rest e,
  wf_fetch r ->
  (forall t p, In t (view_list (wr_topics r)) -> In p (view_list (wt_partitions t)) ->
     (exists ms, exposed cz d validate reqs (view_str (wt_name t)) p = Ok ms)
     \/ exposed cz d validate reqs (view_str (wt_name t)) p = Err e) ->
  (exists t p, In t (view_list (wr_topics r)) /\ In p (view_list (wt_partitions t)) /\
               exposed cz d validate reqs (view_str (wt_name t)) p = Err e) ->
  fetch_from_vec cz d validate reqs (print_fetch r ++ rest) = Err e.
Proof.
  intros cz d validate reqs r rest e (Hc & Hts) Hdec (t0 & p0 & Ht0 & Hp0 & He0).
  destruct (wr_topics r) as [ts|] eqn:Ets; [|destruct Ht0].
  cbn [view_list wf_array] in *. destruct Hts as [Hts Htlen].
  rewrite Forall_forall in Hts.
  (* classify the topics *)
  assert (Hcls : forall t, In t ts ->
            topic_decodes cz d validate reqs t \/ topic_refused cz d validate reqs e t).
  { intros t Ht. destruct (Hts t Ht) as (Hn & Hps).
    destruct (wt_partitions t) as [l|] eqn:El.
    - cbn [wf_array] in Hps. destruct Hps as [Hpl Hplen]. rewrite Forall_forall in Hpl.
      assert (Hp' : forall p, In p l ->
                part_decodes cz d validate reqs (view_str (wt_name t)) p
                \/ part_refused cz d validate reqs (view_str (wt_name t)) e p).
      { intros p Hp. specialize (Hdec t p Ht). rewrite El in Hdec. cbn [view_list] in Hdec.
        destruct (Hdec Hp) as [Hok|Herr].
        - left. split; [apply Hpl; exact Hp|exact Hok].
        - right. split; [apply Hpl; exact Hp|exact Herr]. }
      destruct (all_or_exists _ _ l Hp') as [Hall|Hex].
      + left. split; [exact Hn|]. rewrite El. cbn [wf_array]. split; [|exact Hplen].
        apply Forall_forall. exact Hall.
      + right. split; [exact Hn|]. exists l. split; [exact El|]. split; [exact Hplen|].
        split; [apply Forall_forall; exact Hp'|exact Hex].
    - left. split; [exact Hn|]. rewrite El. exact I. }
  assert (Hex : Exists (topic_refused cz d validate reqs e) ts).
  { destruct (all_or_exists _ _ ts Hcls) as [Hall|Hex]; [|exact Hex]. exfalso.
    destruct (Hall t0 Ht0) as (_ & Hps).
    destruct (wt_partitions t0) as [l|]; [|destruct Hp0]. cbn [wf_array view_list] in *.
    destruct Hps as [Hpl _]. rewrite Forall_forall in Hpl.
    destruct (Hpl p0 Hp0) as [_ [ms Hms]]. rewrite Hms in He0. discriminate He0. }
  unfold fetch_from_vec, print_fetch, print_topics_resp. rewrite Ets.
  rewrite <- app_assoc. rewrite zread_i32_print by exact Hc. cbn [bind].
  rewrite (zread_array_bad _ (print_topic print_fetch_part) (view_ftopic cz d validate reqs)
             (topic_decodes cz d validate reqs) (topic_refused cz d validate reqs e) e);
    [reflexivity| | |apply print_topic_len|apply Forall_forall; exact Hcls|exact Hex|exact Htlen].
  - intros a r0 Ha. apply read_topic_print. exact Ha.
  - intros a r0 Ha. apply read_topic_refused. exact Ha.
Qed.

(* ---- 8 wrappers: the fetch fails ------------------------------------------------------------------ *)

(* Every partition carries a conforming set cut at any byte (ANY nesting, class `Known` included);
   in at least one of them the decoder would have to follow 8 or more wrappers.  Then decoding the
   response with the client's depth MAX_COMPRESSION_DEPTH = 8 fails with UnsupportedCompression:
   nothing is exposed, also not from the partitions whose sets are fine. *)
Theorem C02_fetch_from_vec_refused_at_8_any : forall comp cz validate reqs r rest,
  codec_ok cz comp -> wf_fetch r ->
  (forall t p, In t (view_list (wr_topics r)) -> In p (view_list (wt_partitions t)) ->
     exists es k, wfe_message_set p = firstn k (ser comp es) /\ wf_entries comp es) ->
  (exists t p es k, In t (view_list (wr_topics r)) /\ In p (view_list (wt_partitions t)) /\
     wfe_message_set p = firstn k (ser comp es) /\ wf_entries comp es /\
     (8 <= dec_level comp (S (depth es)) es k)%nat) ->
  fetch_from_vec cz decode_depth validate reqs (print_fetch r ++ rest) = Err EUnsupportedCompression.
Proof.
  intros comp cz validate reqs r rest Hc Hwf Hsets (t0 & p0 & es0 & k0 & Ht0 & Hp0 & E0 & Hw0 & Hl0).
  apply C02_response_refused; [exact Hwf| |].
  - intros t p Ht Hp. destruct (Hsets t p Ht Hp) as [es [k [E Hwe]]].
    unfold exposed. rewrite E.
    rewrite (C02_decoder_total comp cz validate _ Hc decode_depth es k Hwe).
    destruct (Nat.ltb (dec_level comp (S (depth es)) es k) decode_depth); [left; eauto|right; reflexivity].
  - exists t0, p0. split; [exact Ht0|]. split; [exact Hp0|]. unfold exposed. rewrite E0.
    apply (C02_decoder_refused_iff comp cz validate _ decode_depth es0 k0 Hc Hw0).
    rewrite decode_depth_8. exact Hl0.
Qed.

(* the same for a head-chain set (outside F13) whose chain is 8 or more wrappers deep, the request
   built by FetchRequest::add in any order *)
Theorem C02_fetch_from_vec_refused_at_8 : forall comp cz validate adds r rest,
  codec_ok cz comp -> wf_fetch r ->
  (forall t p, In t (view_list (wr_topics r)) -> In p (view_list (wt_partitions t)) ->
     exists es k, wfe_message_set p = firstn k (ser comp es) /\ wf_entries comp es) ->
  (exists t p es k, In t (view_list (wr_topics r)) /\ In p (view_list (wt_partitions t)) /\
     wfe_message_set p = firstn k (ser comp es) /\ wf_entries comp es /\ first_chain es /\
     (8 <= chain_level comp es k)%nat) ->
  fetch_from_vec cz decode_depth validate (build_reqs adds) (print_fetch r ++ rest)
  = Err EUnsupportedCompression.
Proof.
  intros comp cz validate adds r rest Hc Hwf Hsets (t0 & p0 & es0 & k0 & Ht0 & Hp0 & E0 & Hw0 & Hf0 & Hl0).
  apply (C02_fetch_from_vec_refused_at_8_any comp); try assumption.
  exists t0, p0, es0, k0. repeat (split; [assumption|]).
  rewrite (C02_dec_level_chain comp es0 k0 Hf0 Hw0). exact Hl0.
Qed.

(* the sharp side of "up to 7": what has to stay below the bound is the number of wrappers the decoder
   FOLLOWS in each partition (dec_level), not the nesting depth of the set; together with
   C02_fetch_from_vec_refused_at_8_any: a response of conforming sets decodes iff every partition
   follows at most 7 wrappers, and otherwise fails with UnsupportedCompression *)
Theorem C02_fetch_from_vec_followed_upto7 : forall comp cz validate reqs r rest,
  codec_ok cz comp -> wf_fetch r ->
  (forall t p, In t (view_list (wr_topics r)) -> In p (view_list (wt_partitions t)) ->
     exists es k, wfe_message_set p = firstn k (ser comp es) /\ wf_entries comp es /\
                  (dec_level comp (S (depth es)) es k <= 7)%nat) ->
  fetch_from_vec cz decode_depth validate reqs (print_fetch r ++ rest)
  = Ok (view_fresp cz decode_depth validate reqs r).
Proof.
  intros comp cz validate reqs r rest Hc Hwf Hsets.
  apply C02_response; [exact Hwf|]. intros t p Ht Hp.
  destruct (Hsets t p Ht Hp) as [es [k [E [Hwe Hl]]]]. unfold exposed. rewrite E.
  rewrite (C02_decoder_total comp cz validate _ Hc decode_depth es k Hwe).
  rewrite decode_depth_8. rewrite (proj2 (Nat.ltb_lt _ _)) by lia. eauto.
Qed.

(* ---- through KafkaClient::fetch_messages ------------------------------------------------------------ *)

(* one round of the loop, the stream delivering ONE frame with ANY payload b: the round's outcome
   is Response::from_vec of b, decoded with depth MAX_COMPRESSION_DEPTH *)
Lemma fetch_round_io corr h tps s p b tail :
  in_pool h (conns (cl s)) = true -> idle_expired (cfg (cl s)) = false ->
  enc_fetch_req corr (client_id (cfg (cl s))) (fetch_max_wait_time (cfg (cl s))) (fetch_min_bytes (cfg (cl s)))
                (match assoc_bytes h (fetchq s) with Some o => order_fetch o tps | None => tps end) = Ok p ->
  ulen b <= i32_max ->
  script s = OWrote (ulen (frame p)) :: OData (p_i32 (ulen b)) :: map OData (chunk_list (length b) b) ++ tail ->
  exists s',
    fetch_round corr h tps s
    = (fetch_from_vec (env s) decode_depth (fetch_crc_validation (cfg (cl s))) tps b, s')
    /\ script s' = tail /\ only_io s s'.
Proof.
  intros Hpool Hidle Henc Hmax Hs.
  unfold fetch_round.
  unfold mbind at 1, get_client. unfold mbind at 1, get_env. unfold mbind at 1, get_fetch_order.
  cbv zeta. unfold mbind at 1. rewrite (get_conn_pooled h s Hpool Hidle).
  unfold mbind at 1. rewrite Henc.
  destruct (send_request_one_write h p s _ Hs) as [s1 [W1 [W2 W3]]]. rewrite W1.
  unfold mbind at 1.
  destruct (get_response_bytes_delivered h b s1 tail Hmax W2) as [s2 [R1 [R2 R3]]].
  rewrite R1. unfold lift.
  exists s2. split; [reflexivity|]. split; [exact R2|eapply only_io_trans; eassumption].
Qed.

(* the whole call, every partition asked for led by one broker h, ANY payload *)
Lemma fetch_messages_one_broker_io input s h p b tail :
  input <> [] ->
  (forall q, In q input -> find_broker (cs (cl s)) (fq_topic q) (fq_partition q) = Some h) ->
  in_pool h (conns (cl s)) = true -> idle_expired (cfg (cl s)) = false ->
  let corr := fst (next_correlation_id (cs (cl s))) in
  let adds := map (ask_mb (cfg (cl s))) input in
  enc_fetch_req corr (client_id (cfg (cl s))) (fetch_max_wait_time (cfg (cl s))) (fetch_min_bytes (cfg (cl s)))
                (match assoc_bytes h (fetchq s) with
                 | Some o => order_fetch o (build_reqs adds) | None => build_reqs adds end) = Ok p ->
  ulen b <= i32_max ->
  script s = OWrote (ulen (frame p)) :: OData (p_i32 (ulen b)) :: map OData (chunk_list (length b) b) ++ tail ->
  exists s',
    fetch_messages input s
    = (match fetch_from_vec (env s) decode_depth (fetch_crc_validation (cfg (cl s))) (build_reqs adds) b with
       | Ok resp => Ok [resp] | Err e => Err e | Panic w => Panic w end, s')
    /\ script s' = tail.
Proof.
  intros Hne Hall Hpool Hidle corr adds Henc Hmax Hs.
  unfold fetch_messages, next_corr.
  unfold mbind at 1. unfold mbind at 1, get_client at 1.
  destruct (next_correlation_id (cs (cl s))) as [n cs'] eqn:En.
  assert (Ecs : cs' = snd (next_correlation_id (cs (cl s)))) by (try rewrite En; reflexivity).
  assert (En' : n = corr) by (unfold corr; try rewrite En; reflexivity).
  unfold set_cs, mbind at 1, get_client at 1, set_client, ret. cbn [cl cfg cs conns].
  unfold mbind at 1. cbn [cl].
  set (c0 := {| cfg := cfg (cl s); cs := cs'; conns := conns (cl s) |}).
  assert (Er : fetch_reqs c0 input = [(h, build_reqs adds)]).
  { apply (fetch_reqs_one_broker c0 h input Hne). intros q Hq.
    unfold c0. cbn [cs]. rewrite Ecs. exact (Hall q Hq). }
  unfold mbind at 1, get_client at 1. cbn [cl]. rewrite Er. unfold ordered, mbind at 1, pop_hosts. cbn [hostq].
  assert (G : forall s1, script s1 = script s -> fetchq s1 = fetchq s -> env s1 = env s -> cl s1 = c0 ->
              exists s', fetch_exchange n [(h, build_reqs adds)] [] s1
                         = (match fetch_from_vec (env s) decode_depth (fetch_crc_validation (cfg (cl s)))
                                                 (build_reqs adds) b with
                            | Ok resp => Ok [resp] | Err e => Err e | Panic w => Panic w end, s')
                         /\ script s' = tail).
  { intros s1 G1 G2 G3 G4.
    destruct (fetch_round_io n h (build_reqs adds) s1 p b tail) as [s' [F1 [F2 _]]].
    - rewrite G4. exact Hpool.
    - rewrite G4. exact Hidle.
    - rewrite G4, G2, En'. exact Henc.
    - exact Hmax.
    - rewrite G1. exact Hs.
    - exists s'. split; [|exact F2].
      rewrite fetch_exchange_round. unfold mbind. rewrite F1. rewrite G3, G4.
      change (cfg c0) with (cfg (cl s)).
      destruct (fetch_from_vec (env s) decode_depth (fetch_crc_validation (cfg (cl s))) (build_reqs adds) b);
        reflexivity. }
  destruct (hostq s) as [|o hq]; unfold mbind, ret; cbn [hostq]; rewrite ?reorder_single; apply G; reflexivity.
Qed.

(* KafkaClient::fetch_messages(input), all partitions led by broker h whose pooled connection takes
   the request and delivers one frame holding a well-formed fetch response of conforming sets, one
   of which (a head-chain set) is nested 8 or more wrappers deep: the call returns
   Err UnsupportedCompression - no response, no message - having consumed exactly that frame. *)
Theorem C02_fetch_messages_refused_at_8 : forall comp input s h p r extra tail,
  input <> [] ->
  (forall q, In q input -> find_broker (cs (cl s)) (fq_topic q) (fq_partition q) = Some h) ->
  in_pool h (conns (cl s)) = true -> idle_expired (cfg (cl s)) = false ->
  let corr := fst (next_correlation_id (cs (cl s))) in
  let adds := map (ask_mb (cfg (cl s))) input in
  enc_fetch_req corr (client_id (cfg (cl s))) (fetch_max_wait_time (cfg (cl s))) (fetch_min_bytes (cfg (cl s)))
                (match assoc_bytes h (fetchq s) with
                 | Some o => order_fetch o (build_reqs adds) | None => build_reqs adds end) = Ok p ->
  ulen (print_fetch r ++ extra) <= i32_max ->
  script s = OWrote (ulen (frame p)) :: OData (p_i32 (ulen (print_fetch r ++ extra)))
             :: map OData (chunk_list (length (print_fetch r ++ extra)) (print_fetch r ++ extra)) ++ tail ->
  codec_ok (env s) comp -> wf_fetch r ->
  (forall t q, In t (view_list (wr_topics r)) -> In q (view_list (wt_partitions t)) ->
     exists es k, wfe_message_set q = firstn k (ser comp es) /\ wf_entries comp es) ->
  (exists t q es k, In t (view_list (wr_topics r)) /\ In q (view_list (wt_partitions t)) /\
     wfe_message_set q = firstn k (ser comp es) /\ wf_entries comp es /\ first_chain es /\
     (8 <= chain_level comp es k)%nat) ->
  exists s', fetch_messages input s = (Err EUnsupportedCompression, s') /\ script s' = tail.
Proof.
  intros comp input s h p r extra tail Hne Hall Hpool Hidle corr adds Henc Hmax Hs Hc Hwf Hsets Hbad.
  destruct (fetch_messages_one_broker_io input s h p (print_fetch r ++ extra) tail
              Hne Hall Hpool Hidle Henc Hmax Hs) as [s' [F1 F2]].
  exists s'. split; [|exact F2]. rewrite F1.
  fold adds.
  rewrite (C02_fetch_from_vec_refused_at_8 comp (env s) _ adds r extra Hc Hwf Hsets Hbad).
  reflexivity.
Qed.

(* and with every set nested at most 7 deep: C02_fetch_messages_one_broker applies as it stands *)
Theorem C02_fetch_messages_upto7 : forall comp input s h p r extra tail,
  input <> [] ->
  (forall q, In q input -> find_broker (cs (cl s)) (fq_topic q) (fq_partition q) = Some h) ->
  in_pool h (conns (cl s)) = true -> idle_expired (cfg (cl s)) = false ->
  let corr := fst (next_correlation_id (cs (cl s))) in
  let adds := map (ask_mb (cfg (cl s))) input in
  enc_fetch_req corr (client_id (cfg (cl s))) (fetch_max_wait_time (cfg (cl s))) (fetch_min_bytes (cfg (cl s)))
                (match assoc_bytes h (fetchq s) with
                 | Some o => order_fetch o (build_reqs adds) | None => build_reqs adds end) = Ok p ->
  ulen (print_fetch r ++ extra) <= i32_max ->
  script s = OWrote (ulen (frame p)) :: OData (p_i32 (ulen (print_fetch r ++ extra)))
             :: map OData (chunk_list (length (print_fetch r ++ extra)) (print_fetch r ++ extra)) ++ tail ->
  codec_ok (env s) comp -> wf_fetch r ->
  (forall t q, In t (view_list (wr_topics r)) -> In q (view_list (wt_partitions t)) ->
     exists es k, wfe_message_set q = firstn k (ser comp es) /\ wf_entries comp es /\ (depth es <= 7)%nat) ->
  exists s', fetch_messages input s
             = (Ok [view_fresp (env s) decode_depth (fetch_crc_validation (cfg (cl s))) (build_reqs adds) r], s')
             /\ script s' = tail.
Proof.
  intros comp input s h p r extra tail Hne Hall Hpool Hidle corr adds Henc Hmax Hs Hc Hwf Hsets.
  assert (Hsets' : forall t q, In t (view_list (wr_topics r)) -> In q (view_list (wt_partitions t)) ->
            exists es k, wfe_message_set q = firstn k (ser comp es) /\ wf_entries comp es
                         /\ (depth es < decode_depth)%nat).
  { intros t q Ht Hq. destruct (Hsets t q Ht Hq) as [es [k [H1 [H2 H3]]]].
    exists es, k. rewrite decode_depth_8. repeat split; [exact H1|exact H2|lia]. }
  exact (proj1 (C02_fetch_messages_one_broker comp input s h p r extra tail
                  Hne Hall Hpool Hidle Henc Hmax Hs Hc Hwf Hsets')).
Qed.

(* ---- non-vacuity: the layout of C02Extra.ex_resp with partition 2 carrying `deep` --------------- *)
Definition exd_resp (deep : list entry) : w_topics_resp w_fetch_part :=
  {| wr_corr := 7;
     wr_topics := Some [ {| wt_name := Some [x74];
                            wt_partitions := Some [ {| wfe_partition := 0; wfe_error := 0; wfe_highwater := 3;
                                                       wfe_message_set := firstn 82 (ser wcomp es3) |};
                                                    {| wfe_partition := 2; wfe_error := 0; wfe_highwater := 4;
                                                       wfe_message_set := firstn 400 (ser wcomp deep) |};
                                                    {| wfe_partition := 1; wfe_error := 0; wfe_highwater := 9;
                                                       wfe_message_set := firstn 130 (ser wcomp es_sn) |} ] |};
                         {| wt_name := None; wt_partitions := None |} ] |}.

Example exd_resp8_wf : wf_fetch (exd_resp es_deep8).
Proof. unfold wf_fetch, wf_topics_resp, exd_resp, wf_array, wf_topic, wf_fetch_part,
         wf_string, wf_array, in_i16, in_i32, in_i64; cbn [wr_corr wr_topics]. wf_compute. Qed.
Example exd_resp7_wf : wf_fetch (exd_resp es_deep7).
Proof. unfold wf_fetch, wf_topics_resp, exd_resp, wf_array, wf_topic, wf_fetch_part,
         wf_string, wf_array, in_i16, in_i32, in_i64; cbn [wr_corr wr_topics]. wf_compute. Qed.

Example exd_resp8_sets : forall t p,
  In t (view_list (wr_topics (exd_resp es_deep8))) -> In p (view_list (wt_partitions t)) ->
  exists es k, wfe_message_set p = firstn k (ser wcomp es) /\ wf_entries wcomp es.
Proof.
  intros t p Ht Hp. cbn [exd_resp wr_topics view_list In] in Ht.
  destruct Ht as [<-|[<-|[]]]; cbn [wt_partitions view_list In] in Hp; [|destruct Hp].
  destruct Hp as [<-|[<-|[<-|[]]]]; cbn [wfe_message_set].
  - exists es3, 82%nat. split; [reflexivity|apply es3_wf].
  - exists es_deep8, 400%nat. split; [reflexivity|apply es_deep8_wf].
  - exists es_sn, 130%nat. split; [reflexivity|apply es_sn_wf].
Qed.

Example exd_resp8_bad :
  exists t p es k, In t (view_list (wr_topics (exd_resp es_deep8))) /\ In p (view_list (wt_partitions t)) /\
    wfe_message_set p = firstn k (ser wcomp es) /\ wf_entries wcomp es /\ first_chain es /\
    (8 <= chain_level wcomp es k)%nat.
Proof.
  eexists. exists {| wfe_partition := 2; wfe_error := 0; wfe_highwater := 4;
                     wfe_message_set := firstn 400 (ser wcomp es_deep8) |}, es_deep8, 400%nat.
  split; [left; reflexivity|]. split; [right; left; reflexivity|]. split; [reflexivity|].
  split; [apply es_deep8_wf|]. split; [apply es_deep8_chain|]. vm_compute. lia.
Qed.

Example exd_resp7_sets : forall t p,
  In t (view_list (wr_topics (exd_resp es_deep7))) -> In p (view_list (wt_partitions t)) ->
  exists es k, wfe_message_set p = firstn k (ser wcomp es) /\ wf_entries wcomp es /\ (depth es <= 7)%nat.
Proof.
  intros t p Ht Hp. cbn [exd_resp wr_topics view_list In] in Ht.
  destruct Ht as [<-|[<-|[]]]; cbn [wt_partitions view_list In] in Hp; [|destruct Hp].
  destruct Hp as [<-|[<-|[<-|[]]]]; cbn [wfe_message_set].
  - exists es3, 82%nat. split; [reflexivity|]. split; [apply es3_wf|vm_compute; lia].
  - exists es_deep7, 400%nat. split; [reflexivity|]. split; [apply es_deep7_wf|vm_compute; lia].
  - exists es_sn, 130%nat. split; [reflexivity|]. split; [apply es_sn_wf|vm_compute; lia].
Qed.

(* computed: 8 wrappers in partition 2 -> the whole response is refused (partitions 0 and 1 are fine
   and are lost with it); 7 wrappers -> partition 2 asked @2 gives [m2], everything else as in
   C02_fetch_end_to_end_ex; with one level more in the decoder the 8-deep response would decode *)
Example C02_fetch_from_vec_refused_at_8_ex :
  fetch_from_vec (wcz true) decode_depth true (build_reqs ex_adds) (print_fetch (exd_resp es_deep8) ++ [x09])
  = Err EUnsupportedCompression
  /\ fetch_from_vec (wcz true) decode_depth true (build_reqs ex_adds) (print_fetch (exd_resp es_deep7) ++ [x09])
     = Ok {| fr_corr := 7;
             fr_topics := [ {| ft_topic := [x74];
                               ft_partitions := [ {| fp_partition := 0; fp_data := inl (3, [m1; m2]) |};
                                                  {| fp_partition := 2; fp_data := inl (4, [m2]) |};
                                                  {| fp_partition := 1; fp_data := inl (9, []) |} ] |};
                            {| ft_topic := []; ft_partitions := [] |} ] |}
  /\ fetch_from_vec (wcz true) 9 true (build_reqs ex_adds) (print_fetch (exd_resp es_deep8) ++ [x09])
     = fetch_from_vec (wcz true) decode_depth true (build_reqs ex_adds) (print_fetch (exd_resp es_deep7) ++ [x09]).
Proof. vm_compute. repeat split; reflexivity. Qed.

(* the client of C02ExtraB (broker b1 pooled, input order 0, 2, 1), the stream delivering `r` *)
Definition exd_st (r : w_topics_resp w_fetch_part) : st :=
  {| script := OWrote (ulen (frame exb_p)) :: OData (p_i32 (ulen (print_fetch r ++ [])))
               :: map OData (chunk_list (length (print_fetch r ++ [])) (print_fetch r ++ [])) ++ [OData [x09]];
     trace := []; anyq := []; hostq := []; fetchq := []; entryq := [];
     cl := exb_client; env := wcz true |}.

Example C02_fetch_messages_refused_at_8_hyps : forall r, ulen (print_fetch r ++ []) <= i32_max ->
  exb_input <> []
  /\ (forall q, In q exb_input -> find_broker (cs (cl (exd_st r))) (fq_topic q) (fq_partition q) = Some exb_h)
  /\ in_pool exb_h (conns (cl (exd_st r))) = true /\ idle_expired (cfg (cl (exd_st r))) = false
  /\ enc_fetch_req (fst (next_correlation_id (cs (cl (exd_st r))))) (client_id (cfg (cl (exd_st r))))
                   (fetch_max_wait_time (cfg (cl (exd_st r)))) (fetch_min_bytes (cfg (cl (exd_st r))))
                   (match assoc_bytes exb_h (fetchq (exd_st r)) with
                    | Some o => order_fetch o (build_reqs exb_adds) | None => build_reqs exb_adds end) = Ok exb_p
  /\ script (exd_st r) = OWrote (ulen (frame exb_p)) :: OData (p_i32 (ulen (print_fetch r ++ [])))
                         :: map OData (chunk_list (length (print_fetch r ++ [])) (print_fetch r ++ []))
                            ++ [OData [x09]]
  /\ codec_ok (env (exd_st r)) wcomp.
Proof.
  intros r _.
  split; [discriminate|].
  split; [intros q [<-|[<-|[<-|[]]]]; vm_compute; reflexivity|].
  split; [vm_compute; reflexivity|]. split; [vm_compute; reflexivity|].
  split; [vm_compute; reflexivity|].
  split; [reflexivity|apply wcomp_codec_ok].
Qed.

Example C02_fetch_messages_refused_at_8_ex :
  ulen (print_fetch (exd_resp es_deep8) ++ []) = 627
  /\ fst (fetch_messages exb_input (exd_st (exd_resp es_deep8))) = Err EUnsupportedCompression
  /\ script (snd (fetch_messages exb_input (exd_st (exd_resp es_deep8)))) = [OData [x09]]
  /\ fst (fetch_messages exb_input (exd_st (exd_resp es_deep7)))
     = Ok [ {| fr_corr := 7;
               fr_topics := [ {| ft_topic := [x74];
                                 ft_partitions := [ {| fp_partition := 0; fp_data := inl (3, [m1; m2]) |};
                                                    {| fp_partition := 2; fp_data := inl (4, [m2]) |};
                                                    {| fp_partition := 1; fp_data := inl (9, []) |} ] |};
                              {| ft_topic := []; ft_partitions := [] |} ] |} ]
  /\ script (snd (fetch_messages exb_input (exd_st (exd_resp es_deep7)))) = [OData [x09]].
Proof. vm_compute. repeat split; reflexivity. Qed.

Check C02_chain_level_le_depth.
Check C02_chain_total.
Check C02_chain_refused.
Check C02_chain_fits.
Check C02_chain_refused_iff.
Check C02_chain_refused_complete.
Check C02_dec_level_fuel.
Check C02_dec_level_le_depth.
Check C02_decoder_total.
Check C02_decoder_refused_iff.
Check C02_dec_level_chain.
Check C02_depth_hypothesis_not_sharp.
Check C02_fetch_upto7_end_to_end.
Check C02_upto7_bound_unobservable.
Check C02_response_refused.
Check C02_fetch_from_vec_refused_at_8_any.
Check C02_fetch_from_vec_refused_at_8.
Check C02_fetch_from_vec_followed_upto7.
Check C02_fetch_messages_refused_at_8.
Check C02_fetch_messages_upto7.

Print Assumptions C02_chain_level_le_depth.
Print Assumptions C02_chain_total.
Print Assumptions C02_chain_refused.
Print Assumptions C02_chain_fits.
Print Assumptions C02_chain_refused_iff.
Print Assumptions C02_chain_refused_complete.
Print Assumptions C02_dec_level_fuel.
Print Assumptions C02_dec_level_le_depth.
Print Assumptions C02_decoder_total.
Print Assumptions C02_decoder_refused_iff.
Print Assumptions C02_dec_level_chain.
Print Assumptions C02_depth_hypothesis_not_sharp.
Print Assumptions C02_fetch_upto7_end_to_end.
Print Assumptions C02_upto7_bound_unobservable.
Print Assumptions C02_response_refused.
Print Assumptions C02_fetch_from_vec_refused_at_8_any.
Print Assumptions C02_fetch_from_vec_refused_at_8.
Print Assumptions C02_fetch_from_vec_followed_upto7.
Print Assumptions C02_fetch_messages_refused_at_8.
Print Assumptions C02_fetch_messages_upto7.
