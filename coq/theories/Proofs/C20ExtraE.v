(* C20, additional theorems (E): the RESULT of a produce that is refused locally, the producer's loop as the client's
   loop, and histories in which data calls and metadata calls alternate.

   Fourth adequacy pass.  Seed C20-7 (`internal_produce_messages` classifies its local refusal: `LeaderNotAvailable`
   when `state.contains_topic(topic)`, `UnknownTopicOrPartition` otherwise - so an ABSENT partition of a KNOWN topic
   is reported with the retriable code) is already covered by Props/C20.v.  Checked in a scratch copy
   (/tmp/pw/C20/mut7) with the mirrored change made at both places where the model has the refusal
   (Model.Client.internal_produce_messages and Model.Producer.producer_send_all, which models the same Rust
   function being fed lazily by Producer::send_all): the code of the first message without a leader decides,
   `if contains_topic s topic then LeaderNotAvailable else UnknownTopicOrPartition`.
     - C20_produce_call_local_fail stops compiling, and its NEGATION
         ~ (forall acks timeout msgs x, (exists m, In m msgs /\ find_broker (cs (cl x)) (pq_topic m) (pq_partition m) = None)
              -> internal_produce_messages acks timeout msgs x = (Err (EKafka KC_UnknownTopicOrPartition), bump_corr x))
       is proved on the mutant (scratch/Neg7.v) with the witness msgs = [t1:0; t1:4], x = c20_st 1 (t1 has four
       partitions): the mutant returns Err (EKafka 5) = LeaderNotAvailable.  Likewise the negation of C20_produce_call.
       By computation on the mutant: t1:4, t1:-1, empty:0 (zero-partition topic) give code 5, nope:0 gives code 3.
     - the producer theorems C20_producer_send_local_fail / C20_producer_send_all_local_fail are falsified as well:
       producer_send c20_producer (t1:4) and producer_send_all [t2:1; t2:2] return code 5 on the mutant although the
       records are `unplaceable`.
   One sub-case of the seed's README was NOT pinned at the producer level: a record the partitioner could not place
   (partition stays negative: zero-partition topic, or a topic the producer's own table does not list) is not
   `unplaceable` in the sense of C20ExtraC, so the error CODE of that refusal was fixed by no producer theorem (it was
   by the client theorem only through an unproved identification of the two loops).  Part 2 closes that.

   Part 1  the three situations in which find_broker has no answer, spelt out (C20_absent_cases); the converse of
           C20_produce_local_fail (C20_produce_fail_iff); the seed's sentence itself - topic loaded, partition id
           outside the loaded range, anywhere in the list - for internal_produce_messages and for the public
           produce_messages (C20_produce_call_absent_partition, C20_produce_messages_local_fail).
   Part 2  Producer::send_all IS the client's produce of the partitioned records: `placed` are the messages the
           partitioner yields; the producer's grouping loop equals produce_reqs over them (C20_send_all_as_produce),
           fails exactly when one of them has no leader (C20_send_all_fail_iff); the whole call as an equation
           (C20_producer_send_all_call) and as internal_produce_messages of the placed messages, up to the counter
           (C20_producer_send_all_as_produce).  Hence every local refusal of send_all / send carries
           UnknownTopicOrPartition, whatever made the partition unresolvable (C20_producer_send_all_fail_exact,
           C20_producer_send_fail_exact), in particular a record that could not be placed (C20_producer_send_unplaced).
           Forward: a producer made from the same metadata places an unkeyed record of a loaded topic with a live
           partition on a loaded partition with a leader, so it is not refused (C20_fresh_producer_unkeyed_placed,
           C20_fresh_producer_send_goes_out).
   Part 3  histories in which metadata calls, client operations and producer calls alternate (`hcall`): what is loaded
           afterwards is the replay of the METADATA calls alone (C20_mixed_history); after such a history every public
           call that names an entry absent from the replayed metadata is refused locally with UnknownTopicOrPartition,
           and what any operation writes names replayed entries only (C20_mixed_history_calls).
           A refusal leaves nothing behind but the correlation id: the same call is refused again, also after any
           number of other data calls in between (C20_refused_again).

   Not done: Builder::create of both front ends with a host list; consumer creation from an existing client;
   Consumer::poll / commit_consumed as members of `hcall` (needs "keeps topic_partitions" for the consumer calls);
   the keyed analogue of C20_fresh_producer_unkeyed_placed (hash mod num_all is a LOADED partition, which may have no
   leader; needs num_all <= 2^31 for the i32 cast - not attempted). *)
From Coq Require Import ZifyBool Sorting.Permutation.
From KV Require Import Base.Prelude Gen.Consts Model.Codecs Model.Requests Model.Responses
                       Model.ClientState Model.Net Model.Client Model.Producer Model.Consumer.
From KV Require Import Proofs.BytesFacts Proofs.NetFacts.
From KV Require Import Proofs.C20Facts Proofs.C20Extra Proofs.C20Extra2 Proofs.C20ExtraB Proofs.C20ExtraC.

(* ================================================================================================== *)
(* Part 1: the local refusal of produce and its result                                                  *)
(* ================================================================================================== *)
(* "absent from the currently loaded metadata": the topic is not loaded, or it is and the id is negative or
   beyond the loaded partitions (any id when the topic is loaded with zero partitions) *)
Theorem C20_absent_cases : forall s t p,
  ~ known s t p <->
  partitions_for s t = None
  \/ exists ps, partitions_for s t = Some ps /\ (p < 0 \/ Z.of_nat (length ps) <= p).
Proof.
  intros s t p. unfold known. split.
  - intros H. destruct (partitions_for s t) as [ps|] eqn:E; [|left; reflexivity].
    right. exists ps. split; [reflexivity|].
    destruct (Z_lt_dec p 0) as [Hn|Hn]; [left; exact Hn|].
    destruct (Z_le_dec (Z.of_nat (length ps)) p) as [Hm|Hm]; [right; exact Hm|].
    exfalso. apply H. exists ps. split; [reflexivity|lia].
  - intros [H|[ps [H1 H2]]] [ps' [H3 H4]].
    + rewrite H in H3. discriminate.
    + rewrite H1 in H3. injection H3 as <-. lia.
Qed.

Example C20_absent_cases_ex :
  ~ known c20_state (tag "nope") 0 /\ ~ known c20_state (tag "t1") 4 /\ ~ known c20_state (tag "t1") (-1)
  /\ ~ known c20_state (tag "empty") 0 /\ partitions_for c20_state (tag "empty") = Some [].
Proof. rewrite !not_known_iff. vm_compute. repeat split; reflexivity. Qed.

(* the converse of C20_produce_local_fail: the request list is refused ONLY IF some message has no leader *)
Theorem C20_produce_fail_iff : forall s msgs,
  produce_reqs s msgs [] = None <->
  exists m, In m msgs /\ find_broker s (pq_topic m) (pq_partition m) = None.
Proof. intros s msgs. apply produce_reqs_None_iff. Qed.

(* ... i.e. an entry absent from the metadata, or a loaded partition whose leader does not resolve *)
Corollary C20_produce_fail_reasons : forall s msgs,
  produce_reqs s msgs [] = None <->
  exists m, In m msgs /\
    (~ known s (pq_topic m) (pq_partition m)
     \/ exists ps bref, partitions_for s (pq_topic m) = Some ps /\ nth_z ps (pq_partition m) = Some bref
                        /\ broker_of s bref = None).
Proof.
  intros s msgs. rewrite C20_produce_fail_iff. split; intros [m [H1 H2]]; exists m; (split; [exact H1|]);
    apply find_broker_None_iff; exact H2.
Qed.

Example C20_produce_fail_iff_ex :
  produce_reqs c20_state c20_batch [] <> None
  /\ (forall m, In m c20_batch -> find_broker c20_state (pq_topic m) (pq_partition m) <> None)
  /\ produce_reqs c20_state c20_bad_batch [] = None.
Proof.
  split; [vm_compute; discriminate|]. split; [|vm_compute; reflexivity].
  intros m Hin Hn. assert (H : produce_reqs c20_state c20_batch [] = None).
  { apply C20_produce_fail_iff. exists m. split; assumption. }
  vm_compute in H. discriminate H.
Qed.

(* The sentence of seed C20-7.  The topic IS loaded, the partition id is NOT (negative, or >= the number of loaded
   partitions - any id for a topic loaded with zero partitions), the message stands anywhere in the list: the call
   fails locally, only the correlation id moved, and the result is UnknownTopicOrPartition - not any other code. *)
Theorem C20_produce_call_absent_partition : forall acks timeout msgs x m ps,
  In m msgs -> partitions_for (cs (cl x)) (pq_topic m) = Some ps ->
  (pq_partition m < 0 \/ Z.of_nat (length ps) <= pq_partition m) ->
  internal_produce_messages acks timeout msgs x = (Err (EKafka KC_UnknownTopicOrPartition), bump_corr x).
Proof.
  intros acks timeout msgs x m ps Hin Hps Hout. apply C20_produce_call_local_fail.
  exists m. split; [exact Hin|]. apply unknown_find_broker_None. apply C20_absent_cases.
  right. exists ps. split; assumption.
Qed.

(* the public call: KafkaClient::produce_messages (the ack timeout is converted first) *)
Theorem C20_produce_messages_local_fail : forall acks d t msgs x,
  to_millis_i32 d = Ok t ->
  (exists m, In m msgs /\ find_broker (cs (cl x)) (pq_topic m) (pq_partition m) = None) ->
  produce_messages acks d msgs x = (Err (EKafka KC_UnknownTopicOrPartition), bump_corr x).
Proof.
  intros acks d t msgs x Hd H. unfold produce_messages, mbind, lift. rewrite Hd.
  apply C20_produce_call_local_fail. exact H.
Qed.

Theorem C20_produce_messages_call : forall acks d msgs x,
  produce_messages acks d msgs x
  = match to_millis_i32 d with
    | Ok t => internal_produce_messages acks t msgs x
    | Err e => (Err e, x)
    | Panic w => (Panic w, x)
    end.
Proof. intros acks d msgs x. unfold produce_messages, mbind, lift. destruct (to_millis_i32 d); reflexivity. Qed.

Example C20_produce_call_absent_partition_ex :
  let bad t p := [c20_pm (tag "t1") 0 None (Some (tag "a")); c20_pm t p None (Some (tag "z"))] in
  partitions_for (cs (cl (c20_st 1))) (tag "t1") = Some [0; UNKNOWN_BROKER_INDEX; 1; 0]
  /\ partitions_for (cs (cl (c20_st 1))) (tag "empty") = Some []
  /\ to_millis_i32 (1, 0) = Ok 1000
  /\ produce_messages 1 (1, 0) (bad (tag "t1") 4) (c20_st 1)
     = (Err (EKafka KC_UnknownTopicOrPartition), bump_corr (c20_st 1))
  /\ produce_messages 1 (1, 0) (bad (tag "t1") (-1)) (c20_st 1)
     = (Err (EKafka KC_UnknownTopicOrPartition), bump_corr (c20_st 1))
  /\ produce_messages 1 (1, 0) (bad (tag "t1") 2147483647) (c20_st 1)
     = (Err (EKafka KC_UnknownTopicOrPartition), bump_corr (c20_st 1))
  /\ produce_messages 1 (1, 0) (bad (tag "empty") 0) (c20_st 1)
     = (Err (EKafka KC_UnknownTopicOrPartition), bump_corr (c20_st 1))
  /\ KC_UnknownTopicOrPartition = 3.
Proof. vm_compute. repeat split; reflexivity. Qed.

(* ================================================================================================== *)
(* Part 2: Producer::send_all is the client's produce of the partitioned records                        *)
(* ================================================================================================== *)
(* the messages the partitioner makes of the records (the round-robin counter is threaded through) *)
Fixpoint placed (parts : list (bytes * pparts)) (cntr : Z) (recs : list record) : list produce_message :=
  match recs with
  | [] => []
  | r :: rest =>
      let pc := partition parts cntr (r_topic r) (r_partition r) (to_option (r_key r)) in
      {| pq_topic := r_topic r; pq_partition := fst pc; pq_key := to_option (r_key r);
         pq_value := to_option (r_value r) |} :: placed parts (snd pc) rest
  end.

(* the partitioner never touches the topic, the key, the value, nor an explicit (non-negative) partition *)
Theorem C20_placed_spec : forall parts recs cntr,
  Forall2 (fun r m => pq_topic m = r_topic r /\ pq_key m = to_option (r_key r)
                      /\ pq_value m = to_option (r_value r)
                      /\ (0 <= r_partition r -> pq_partition m = r_partition r))
          recs (placed parts cntr recs).
Proof.
  intros parts. induction recs as [|r rest IH]; intros cntr; cbn [placed]; constructor; [|apply IH].
  cbn [pq_topic pq_key pq_value pq_partition]. repeat split. intros Hp. unfold partition.
  destruct (0 <=? r_partition r) eqn:E; [reflexivity|lia].
Qed.

Theorem C20_send_all_as_produce : forall s parts recs cntr acc,
  fst (send_all_reqs s parts cntr recs acc) = produce_reqs s (placed parts cntr recs) acc.
Proof.
  intros s parts. induction recs as [|r rest IH]; intros cntr acc; cbn [send_all_reqs placed produce_reqs];
    [reflexivity|].
  destruct (partition parts cntr (r_topic r) (r_partition r) (to_option (r_key r))) as [p c1].
  cbn [fst snd pq_topic pq_partition pq_key pq_value].
  destruct (find_broker s (r_topic r) p) as [host|]; [apply IH|reflexivity].
Qed.

(* exact: the producer's loop refuses IF AND ONLY IF one of the placed messages has no leader *)
Theorem C20_send_all_fail_iff : forall s parts cntr recs,
  fst (send_all_reqs s parts cntr recs []) = None <->
  exists m, In m (placed parts cntr recs) /\ find_broker s (pq_topic m) (pq_partition m) = None.
Proof. intros s parts cntr recs. rewrite C20_send_all_as_produce. apply C20_produce_fail_iff. Qed.

Example C20_send_all_as_produce_ex :
  let recs := [c20_rec (tag "t2") (-1) (tag "v"); c20_rec (tag "t1") (-1) (tag "w"); c20_rec (tag "t1") 2 (tag "u")] in
  placed (p_parts c20_producer) 0 recs
  = [c20_pm (tag "t2") 0 None (Some (tag "v")); c20_pm (tag "t1") 2 None (Some (tag "w"));
     c20_pm (tag "t1") 2 None (Some (tag "u"))]
  /\ fst (send_all_reqs c20_state (p_parts c20_producer) 0 recs []) <> None
  /\ placed (p_parts c20_producer) 0 [c20_rec (tag "empty") (-1) (tag "v")] = [c20_pm (tag "empty") (-1) None (Some (tag "v"))]
  /\ fst (send_all_reqs c20_state (p_parts c20_producer) 0 [c20_rec (tag "empty") (-1) (tag "v")] []) = None.
Proof. vm_compute. repeat split; try reflexivity; discriminate. Qed.

Lemma send_all_reqs_ext s s' parts : (forall t p, find_broker s t p = find_broker s' t p) ->
  forall recs cntr acc, send_all_reqs s parts cntr recs acc = send_all_reqs s' parts cntr recs acc.
Proof.
  intros H. induction recs as [|r rest IH]; intros cntr acc; cbn [send_all_reqs]; [reflexivity|].
  destruct (partition parts cntr (r_topic r) (r_partition r) (to_option (r_key r))) as [p c1].
  rewrite H. destruct (find_broker s' (r_topic r) p); [apply IH|reflexivity].
Qed.

(* the whole call Producer::send_all, as an equation: refused locally with UnknownTopicOrPartition (the only thing
   that moved is the correlation id), or exactly one exchange of the request list built from the loaded metadata *)
Theorem C20_producer_send_all_call : forall p recs x,
  producer_send_all p recs x
  = match send_all_reqs (cs (cl x)) (p_parts p) (p_cntr p) recs [] with
    | (None, _) => (Err (EKafka KC_UnknownTopicOrPartition), bump_corr x)
    | (Some reqs, c') =>
        (let+ reqs' := ordered reqs in
         let+ cf := produce_exchange (fst (next_correlation_id (cs (cl x)))) (p_acks p) (p_ack_timeout p) reqs' [] in
         ret (cf, producer_set_cntr p c')) (bump_corr x)
    end.
Proof.
  intros p recs x. unfold producer_send_all.
  rewrite (mbind_run _ _ _ _ _ (next_corr_run x)).
  rewrite (mbind_run _ _ _ _ _ (get_client_run (bump_corr x))).
  change (cs (cl (bump_corr x))) with (snd (next_correlation_id (cs (cl x)))).
  rewrite (send_all_reqs_ext _ (cs (cl x)) (p_parts p) (find_broker_next_corr (cs (cl x)))).
  destruct (send_all_reqs (cs (cl x)) (p_parts p) (p_cntr p) recs []) as [[reqs|] c']; reflexivity.
Qed.

(* ... and as the client's internal_produce_messages of the placed messages: same final state, same result up to
   the producer value that is handed back (the counter after the partitioner ran over all records).  So every
   statement of Props/C20.v about internal_produce_messages is a statement about Producer::send_all. *)
Theorem C20_producer_send_all_as_produce : forall p recs x,
  producer_send_all p recs x
  = let '(r, x') := internal_produce_messages (p_acks p) (p_ack_timeout p) (placed (p_parts p) (p_cntr p) recs) x in
    (match r with
     | Ok cf => Ok (cf, producer_set_cntr p (cntr_after p (cl x) recs))
     | Err e => Err e
     | Panic w => Panic w
     end, x').
Proof.
  intros p recs x. rewrite C20_producer_send_all_call, C20_produce_call.
  rewrite <- (C20_send_all_as_produce (cs (cl x)) (p_parts p) recs (p_cntr p) []). unfold cntr_after.
  destruct (send_all_reqs (cs (cl x)) (p_parts p) (p_cntr p) recs []) as [[reqs|] c']; cbn [fst snd];
    [|reflexivity].
  unfold mbind. destruct (ordered reqs (bump_corr x)) as [[reqs'|e|w] y1]; [|reflexivity|reflexivity].
  destruct (produce_exchange (fst (next_correlation_id (cs (cl x)))) (p_acks p) (p_ack_timeout p) reqs' [] y1)
    as [[cf|e|w] y2]; reflexivity.
Qed.

(* every local refusal of send_all, for whatever reason the chosen partition does not resolve *)
Theorem C20_producer_send_all_fail_exact : forall p recs x,
  (exists m, In m (placed (p_parts p) (p_cntr p) recs)
             /\ find_broker (cs (cl x)) (pq_topic m) (pq_partition m) = None) ->
  producer_send_all p recs x = (Err (EKafka KC_UnknownTopicOrPartition), bump_corr x).
Proof.
  intros p recs x H. rewrite C20_producer_send_all_call.
  apply C20_send_all_fail_iff in H.
  destruct (send_all_reqs (cs (cl x)) (p_parts p) (p_cntr p) recs []) as [[reqs|] c']; cbn [fst] in H;
    [discriminate H|reflexivity].
Qed.

(* conversely - there is no other local refusal: if every placed message has a leader, the call IS the exchange of a
   request list every entry of which is addressed to the current leader of a loaded partition *)
Theorem C20_producer_send_all_goes_out : forall p recs x,
  (forall m, In m (placed (p_parts p) (p_cntr p) recs) ->
             find_broker (cs (cl x)) (pq_topic m) (pq_partition m) <> None) ->
  exists reqs c',
    send_all_reqs (cs (cl x)) (p_parts p) (p_cntr p) recs [] = (Some reqs, c')
    /\ producer_send_all p recs x
       = (let+ reqs' := ordered reqs in
          let+ cf := produce_exchange (fst (next_correlation_id (cs (cl x)))) (p_acks p) (p_ack_timeout p) reqs' [] in
          ret (cf, producer_set_cntr p c')) (bump_corr x)
    /\ (forall host tps t ps q ms, In (host, tps) reqs -> In (t, ps) tps -> In (q, ms) ps ->
          find_broker (cs (cl x)) t q = Some host /\ known (cs (cl x)) t q).
Proof.
  intros p recs x H. rewrite C20_producer_send_all_call.
  destruct (send_all_reqs (cs (cl x)) (p_parts p) (p_cntr p) recs []) as [[reqs|] c'] eqn:E.
  - exists reqs, c'. split; [reflexivity|]. split; [reflexivity|].
    intros host tps t ps q ms H1 H2 H3.
    destruct (C20_send_all_known _ _ _ _ _ _ E host tps t ps q ms H1 H2 H3) as (Ha & Hb & _). split; assumption.
  - exfalso. assert (Hn : fst (send_all_reqs (cs (cl x)) (p_parts p) (p_cntr p) recs []) = None)
      by (rewrite E; reflexivity).
    apply C20_send_all_fail_iff in Hn. destruct Hn as [m [Hin Hm]]. apply (H m Hin Hm).
Qed.

(* Producer::send *)
Theorem C20_producer_send_fail_exact : forall p r x,
  find_broker (cs (cl x)) (r_topic r)
              (fst (partition (p_parts p) (p_cntr p) (r_topic r) (r_partition r) (to_option (r_key r)))) = None ->
  producer_send p r x = (Err (EKafka KC_UnknownTopicOrPartition), bump_corr x).
Proof.
  intros p r x H. unfold producer_send.
  assert (Hs : producer_send_all p [r] x = (Err (EKafka KC_UnknownTopicOrPartition), bump_corr x)).
  { apply C20_producer_send_all_fail_exact. eexists. split; [left; reflexivity|]. exact H. }
  unfold mbind at 1. rewrite Hs. reflexivity.
Qed.

(* a negative id never resolves *)
Lemma find_broker_negative s t q : q < 0 -> find_broker s t q = None.
Proof.
  intros Hq. apply unknown_find_broker_None. intros [ps [_ H]]. lia.
Qed.

(* the sub-case of seed C20-7 that `unplaceable` does not reach: a record WITHOUT an explicit partition that the
   partitioner leaves where it was - the producer's table does not list the topic, or lists it without any
   available partition (unkeyed record), or with zero partitions (keyed record) - whether or not the CLIENT has the
   topic loaded: refused locally with UnknownTopicOrPartition *)
Theorem C20_producer_send_unplaced : forall p r x,
  r_partition r < 0 ->
  match assoc_bytes (r_topic r) (p_parts p) with
  | None => True
  | Some ps => match to_option (r_key r) with
               | Some _ => num_all ps = 0
               | None => available_ids ps = []
               end
  end ->
  producer_send p r x = (Err (EKafka KC_UnknownTopicOrPartition), bump_corr x)
  /\ producer_send_all p [r] x = (Err (EKafka KC_UnknownTopicOrPartition), bump_corr x).
Proof.
  intros p r x Hneg Hparts.
  assert (Hq : fst (partition (p_parts p) (p_cntr p) (r_topic r) (r_partition r) (to_option (r_key r))) < 0).
  { unfold partition. destruct (0 <=? r_partition r) eqn:E; [lia|].
    destruct (assoc_bytes (r_topic r) (p_parts p)) as [ps|]; [|exact Hneg].
    destruct (to_option (r_key r)) as [k|].
    - rewrite Hparts. cbn [Z.eqb fst]. exact Hneg.
    - rewrite Hparts. exact Hneg. }
  split.
  - apply C20_producer_send_fail_exact. apply find_broker_negative. exact Hq.
  - apply C20_producer_send_all_fail_exact. eexists. split; [left; reflexivity|].
    cbn [pq_topic pq_partition]. apply find_broker_negative. exact Hq.
Qed.

(* "empty" is loaded (with zero partitions) in the client and listed in the producer's table: not `unplaceable`,
   not an unknown topic - and still UnknownTopicOrPartition.  A producer whose table is older than the client's
   metadata ("t1" missing from it) behaves the same for t1. *)
Example C20_producer_send_unplaced_ex :
  let x := c20_st 1 in
  let stale := {| p_client := c20_client 1; p_parts := [(tag "t2", {| available_ids := [0; 1]; num_all := 2 |})];
                  p_cntr := 5; p_ack_timeout := 1000; p_acks := 1 |} in
  partitions_for (cs (cl x)) (tag "empty") = Some []
  /\ assoc_bytes (tag "empty") (p_parts c20_producer) = Some {| available_ids := []; num_all := 0 |}
  /\ producer_send c20_producer (c20_rec (tag "empty") (-1) (tag "v")) x
     = (Err (EKafka KC_UnknownTopicOrPartition), bump_corr x)
  /\ producer_send c20_producer {| r_topic := tag "empty"; r_partition := -1; r_key := tag "k"; r_value := tag "v" |} x
     = (Err (EKafka KC_UnknownTopicOrPartition), bump_corr x)
  /\ assoc_bytes (tag "t1") (p_parts stale) = None
  /\ producer_send stale (c20_rec (tag "t1") (-1) (tag "v")) x
     = (Err (EKafka KC_UnknownTopicOrPartition), bump_corr x)
  /\ producer_send_all stale [c20_rec (tag "t2") (-1) (tag "v"); c20_rec (tag "t2") 2 (tag "v")] x
     = (Err (EKafka KC_UnknownTopicOrPartition), bump_corr x).
Proof. vm_compute. repeat split; reflexivity. Qed.

(* ---- forward: a producer whose table was made from the SAME metadata (State::new at creation) ---------- *)
Lemma assoc_producer_state s t :
  assoc_bytes t (producer_state s)
  = option_map (fun ps => {| available_ids := map fst (leaders_from s ps 0); num_all := ulen ps |})
               (partitions_for s t).
Proof.
  unfold producer_state, partitions_for. induction (topic_partitions s) as [|[t' ps] r IH]; [reflexivity|].
  cbn [map assoc_bytes]. destruct (bytes_eqb t' t); [reflexivity|exact IH].
Qed.

(* An unkeyed record without an explicit partition, for a topic that is loaded and has at least one partition with
   a leader: the partitioner of a producer made from the same metadata chooses a loaded partition WITH a leader -
   whatever the round-robin counter - so the record is not refused locally. *)
Theorem C20_fresh_producer_unkeyed_placed : forall s cntr t p ps,
  p < 0 -> partitions_for s t = Some ps -> leaders_from s ps 0 <> [] ->
  exists h, find_broker s t (fst (partition (producer_state s) cntr t p None)) = Some h
            /\ known s t (fst (partition (producer_state s) cntr t p None)).
Proof.
  intros s cntr t p ps Hp Hps Hav. unfold partition.
  destruct (0 <=? p) eqn:E; [lia|]. rewrite assoc_producer_state, Hps. cbn [option_map available_ids].
  destruct (map fst (leaders_from s ps 0)) as [|a av] eqn:Eav.
  - destruct (leaders_from s ps 0); [exfalso; apply Hav; reflexivity|discriminate Eav].
  - cbn [fst]. set (q := nth (Z.to_nat (cntr mod ulen (a :: av))) (a :: av) a).
    assert (Hin : In q (map fst (leaders_from s ps 0))).
    { rewrite Eav. apply nth_In. unfold ulen. cbn [length].
      pose proof (Z.mod_pos_bound cntr (Z.of_nat (S (length av))) ltac:(lia)) as Hb. lia. }
    apply in_map_iff in Hin. destruct Hin as [[q' h] [Hq Hin]]. cbn [fst] in Hq. subst q'.
    exists h. pose proof (leaders_from_find_broker s t ps q h Hps Hin) as Hf.
    split; [exact Hf|]. apply find_broker_known in Hf. exact Hf.
Qed.

Corollary C20_fresh_producer_send_goes_out : forall p r x ps,
  p_parts p = producer_state (cs (cl x)) ->
  r_partition r < 0 -> r_key r = [] ->
  partitions_for (cs (cl x)) (r_topic r) = Some ps -> leaders_from (cs (cl x)) ps 0 <> [] ->
  exists reqs c', send_all_reqs (cs (cl x)) (p_parts p) (p_cntr p) [r] [] = (Some reqs, c')
    /\ producer_send_all p [r] x
       = (let+ reqs' := ordered reqs in
          let+ cf := produce_exchange (fst (next_correlation_id (cs (cl x)))) (p_acks p) (p_ack_timeout p) reqs' [] in
          ret (cf, producer_set_cntr p c')) (bump_corr x).
Proof.
  intros p r x ps Hparts Hneg Hkey Hps Hav.
  destruct (C20_producer_send_all_goes_out p [r] x) as (reqs & c' & H1 & H2 & _).
  - intros m [<-|[]]. cbn [placed pq_topic pq_partition]. rewrite Hparts, Hkey. cbn [to_option].
    destruct (C20_fresh_producer_unkeyed_placed (cs (cl x)) (p_cntr p) (r_topic r) (r_partition r) ps Hneg Hps Hav)
      as [h [Hf _]]. rewrite Hf. discriminate.
  - exists reqs, c'. split; assumption.
Qed.

Example C20_fresh_producer_ex :
  p_parts c20_producer = producer_state (cs (cl (c20_st 1)))
  /\ leaders_from c20_state [0; UNKNOWN_BROKER_INDEX; 1; 0] 0 = [(0, tag "h0:9092"); (2, tag "h1:9092"); (3, tag "h0:9092")]
  /\ map (fun c => fst (partition (producer_state c20_state) c (tag "t1") (-1) None)) [0; 1; 2; 3; 4294967295]
     = [0; 2; 3; 0; 0]
  /\ leaders_from c20_state [] 0 = [].
Proof. vm_compute. repeat split; reflexivity. Qed.

Example C20_producer_send_all_as_produce_ex :
  let x := c20_st 1 in
  let recs := [c20_rec (tag "t2") (-1) (tag "v"); c20_rec (tag "t1") (-1) (tag "w")] in
  fst (producer_send_all c20_producer recs x) = Err EOutOfScript
  /\ fst (internal_produce_messages 1 1000 (placed (p_parts c20_producer) 0 recs) x) = Err EOutOfScript
  /\ snd (producer_send_all c20_producer recs x)
     = snd (internal_produce_messages 1 1000 (placed (p_parts c20_producer) 0 recs) x)
  /\ length (performed x (snd (producer_send_all c20_producer recs x))) = 3%nat.
Proof. vm_compute. repeat split; reflexivity. Qed.

(* ================================================================================================== *)
(* Part 3: histories in which metadata calls and data calls alternate                                   *)
(* ================================================================================================== *)
Lemma keeps_producer_send_all p recs : keeps same_topics (producer_send_all p recs).
Proof.
  pose proof preorder_same_topics as Hpre. unfold producer_send_all.
  kb; [apply keeps_next_corr|]. intros corr. kb; [apply keeps_get_client; exact Hpre|]. intros c.
  destruct (send_all_reqs (cs c) (p_parts p) (p_cntr p) recs []) as [[reqs|] c1].
  - kb; [apply keeps_ordered|]. intros reqs'.
    kb; [apply keeps_produce_exchange|]. intros cf. apply keeps_ret; exact Hpre.
  - intros s r s' H. injection H as _ <-. apply (proj1 Hpre).
Qed.

Lemma keeps_producer_send p r : keeps same_topics (producer_send p r).
Proof.
  pose proof preorder_same_topics as Hpre. unfold producer_send.
  kb; [apply keeps_producer_send_all|]. intros [cf p'].
  destruct (p_acks p =? 0); [apply keeps_ret; exact Hpre|].
  destruct cf as [|[t0 pcs] [|c2 cf']]; try (apply keeps_mpanic; exact Hpre).
  destruct pcs as [|[q0 [v|code]] [|pc2 pcs']]; try (apply keeps_mpanic; exact Hpre).
  - apply keeps_ret; exact Hpre.
  - apply keeps_fail; exact Hpre.
Qed.

(* a call of the history: a metadata call, any other public client operation, or a producer call *)
Inductive hcall :=
| HMeta (c : mcall)
| HOp (o : op)
| HSendAll (p : producer) (recs : list record)
| HSend (p : producer) (r : record).

(* results are ignored, as an application carrying on after errors would *)
Definition run_hcall (c : hcall) (x : st) : st :=
  match c with
  | HMeta c => snd (run_mcall c x)
  | HOp o => snd (run_op o x)
  | HSendAll p recs => snd (producer_send_all p recs x)
  | HSend p r => snd (producer_send p r x)
  end.

Fixpoint run_hcalls (cs0 : list hcall) (x : st) : st :=
  match cs0 with [] => x | c :: r => run_hcalls r (run_hcall c x) end.

(* which pieces of metadata history a call can contribute: only the metadata calls contribute any *)
Definition hcall_ops (c : hcall) (ops : list (option metadata_resp)) : Prop :=
  match c with HMeta c => mcall_ops c ops | _ => ops = [] end.

Lemma loaded_count_same_topics x x' t :
  same_topics x x' -> loaded_count (cs (cl x')) t = loaded_count (cs (cl x)) t.
Proof. unfold same_topics, loaded_count, partitions_for. intros ->. reflexivity. Qed.

Lemma hcall_step c x :
  exists ops, hcall_ops c ops /\
    forall t, loaded_count (cs (cl (run_hcall c x))) t = spec_count ops (loaded_count (cs (cl x))) t.
Proof.
  destruct c as [c|o|p recs|p r]; cbn [run_hcall hcall_ops].
  - destruct (run_mcall c x) as [res x1] eqn:E. cbn [snd].
    destruct (C20_mcall_step c x res x1 E) as [ops [H1 Hshape]]. exists ops. split; [|exact H1].
    destruct c as [topics| |]; cbn [mcall_ops].
    + destruct Hshape as [[_ [md ->]]|[_ ->]]; [right; exists md; reflexivity|left; reflexivity].
    + destruct Hshape as [[_ [md ->]]|[_ ->]]; [right; exists md; reflexivity|left; reflexivity].
    + destruct Hshape as [_ ->]. reflexivity.
  - exists []. split; [reflexivity|]. intros t. destruct (run_op o x) as [res x1] eqn:E. cbn [snd].
    destruct (C20_only_metadata_calls_change_metadata o x res x1 E) as [Ht _].
    apply loaded_count_same_topics. exact Ht.
  - exists []. split; [reflexivity|]. intros t. destruct (producer_send_all p recs x) as [res x1] eqn:E. cbn [snd].
    apply loaded_count_same_topics. apply (keeps_producer_send_all p recs _ _ _ E).
  - exists []. split; [reflexivity|]. intros t. destruct (producer_send p r x) as [res x1] eqn:E. cbn [snd].
    apply loaded_count_same_topics. apply (keeps_producer_send p r _ _ _ E).
Qed.

(* After EVERY history in which metadata calls, client operations and producer calls alternate - any scripts, any
   outcomes, results ignored - what is loaded is the replay of the pieces contributed by the METADATA calls alone:
   per topic, the partition count listed by the latest successful load naming it, unless a reset (or a
   load_metadata_all) came after it.  No data call ever makes a partition known or forgets one. *)
Theorem C20_mixed_history : forall calls x,
  exists opss, Forall2 hcall_ops calls opss
    /\ (forall t, loaded_count (cs (cl (run_hcalls calls x))) t
                  = spec_count (concat opss) (loaded_count (cs (cl x))) t)
    /\ (forall t p, known (cs (cl (run_hcalls calls x))) t p
                    <-> in_count (spec_count (concat opss) (loaded_count (cs (cl x))) t) p).
Proof.
  assert (Hmain : forall calls x, exists opss, Forall2 hcall_ops calls opss /\ forall t,
            loaded_count (cs (cl (run_hcalls calls x))) t = spec_count (concat opss) (loaded_count (cs (cl x))) t).
  { induction calls as [|c r IH]; intros x; cbn [run_hcalls].
    - exists []. split; [constructor|]. intros t. reflexivity.
    - destruct (hcall_step c x) as [ops1 [Hshape H1]]. destruct (IH (run_hcall c x)) as [opss [Hf H2]].
      exists (ops1 :: opss). split; [constructor; assumption|].
      intros t. cbn [concat]. rewrite H2, spec_count_app. apply spec_count_ext. exact H1. }
  intros calls x. destruct (Hmain calls x) as [opss [Hf H]]. exists opss. split; [exact Hf|]. split; [exact H|].
  intros t p. rewrite C20_known_count, H. reflexivity.
Qed.

(* only the metadata calls of a history matter: its data calls contribute the empty piece *)
Lemma hcall_ops_data calls opss :
  Forall2 hcall_ops calls opss ->
  Forall2 (fun c ops => match c with HMeta _ => True | _ => ops = [] end) calls opss.
Proof.
  induction 1 as [|c ops calls opss H _ IH]; constructor; [|exact IH].
  destruct c; [exact I|exact H|exact H|exact H].
Qed.

(* The property over histories, at the level of whole public calls.  x is the state after the history, `loaded` the
   replayed metadata.  (1) produce - client and producer -, commit and group-offset fetch naming an entry that is
   not loaded are refused locally with UnknownTopicOrPartition, nothing but the correlation id moves; (2) the
   single-topic lookups for a topic that is not loaded answer UnknownTopicOrPartition; (3) whatever operation comes
   next, what it writes names loaded entries only. *)
Theorem C20_mixed_history_calls : forall calls x0,
  exists opss, Forall2 hcall_ops calls opss /\
    let x := run_hcalls calls x0 in
    let count := spec_count (concat opss) (loaded_count (cs (cl x0))) in
    let loaded := fun t p => in_count (count t) p in
    (forall acks timeout msgs,
        (exists m, In m msgs /\ ~ loaded (pq_topic m) (pq_partition m)) ->
        internal_produce_messages acks timeout msgs x = (Err (EKafka KC_UnknownTopicOrPartition), bump_corr x))
    /\ (forall p recs,
        (exists m, In m (placed (p_parts p) (p_cntr p) recs) /\ ~ loaded (pq_topic m) (pq_partition m)) ->
        producer_send_all p recs x = (Err (EKafka KC_UnknownTopicOrPartition), bump_corr x))
    /\ (forall group os, 0 <= offset_storage (cfg (cl x)) ->
        (exists o, In o os /\ ~ loaded (co_topic o) (co_partition o)) ->
        commit_offsets group os x = (Err (EKafka KC_UnknownTopicOrPartition), bump_corr x))
    /\ (forall group args, 0 <= offset_storage (cfg (cl x)) ->
        (exists t p, In (t, p) args /\ ~ loaded t p) ->
        fetch_group_offsets group args x = (Err (EKafka KC_UnknownTopicOrPartition), bump_corr x))
    /\ (forall topic time, count topic = None ->
        fetch_topic_offsets topic time x = (Err (EKafka KC_UnknownTopicOrPartition), bump_corr x))
    /\ (forall group topic, 0 <= offset_storage (cfg (cl x)) -> count topic = None ->
        fetch_group_topic_offset group topic x = (Err (EKafka KC_UnknownTopicOrPartition), bump_corr x))
    /\ (forall o r x', run_op o x = (r, x') -> wire_ok loaded (performed x x'))
    /\ (forall o r x', run_fop o x = (r, x') -> wire_ok loaded (performed x x')).
Proof.
  intros calls x0. destruct (C20_mixed_history calls x0) as (opss & HF & Hc & Hk).
  exists opss. split; [exact HF|]. cbv zeta.
  assert (Hnone : forall topic, spec_count (concat opss) (loaded_count (cs (cl x0))) topic = None ->
                                partitions_for (cs (cl (run_hcalls calls x0))) topic = None).
  { intros topic H. rewrite <- Hc in H. unfold loaded_count in H.
    destruct (partitions_for (cs (cl (run_hcalls calls x0))) topic); [discriminate H|reflexivity]. }
  split; [|split; [|split; [|split; [|split; [|split; [|split]]]]]].
  - intros acks timeout msgs [m [H1 H2]]. apply C20_produce_call_local_fail. exists m. split; [exact H1|].
    apply unknown_find_broker_None. intros Hkn. apply H2. apply Hk. exact Hkn.
  - intros p recs [m [H1 H2]]. apply C20_producer_send_all_fail_exact. exists m. split; [exact H1|].
    apply unknown_find_broker_None. intros Hkn. apply H2. apply Hk. exact Hkn.
  - intros group os Hst [o [H1 H2]]. apply C20_commit_call_local_fail; [exact Hst|]. exists o. split; [exact H1|].
    intros Hkn. apply H2. apply Hk. exact Hkn.
  - intros group args Hst (t & p & H1 & H2). apply C20_group_fetch_call_local_fail; [exact Hst|].
    exists t, p. split; [exact H1|]. intros Hkn. apply H2. apply Hk. exact Hkn.
  - intros topic time H. apply C20_topic_offsets_unknown. apply Hnone. exact H.
  - intros group topic Hst H. pose proof (C20_group_topic group topic _ Hst) as Hg.
    rewrite (Hnone topic H) in Hg. exact Hg.
  - intros o r x' H. destruct (C20_wire_names_only_known o _ r x' H) as [_ Hall].
    eapply sends_mono; [|exact Hall]. intros q Hq.
    eapply data_request_mono; [|exact Hq]. intros t p Hp. apply Hk. exact Hp.
  - intros o r x' H. destruct (C20_front_wire_names_only_known o _ r x' H) as [_ Hall].
    eapply sends_mono; [|exact Hall]. intros q Hq.
    eapply data_request_mono; [|exact Hq]. intros t p Hp. apply Hk. exact Hp.
Qed.

(* What a refusal leaves behind.  A produce refused because of an entry that is ABSENT from the metadata is refused
   again, with the same code, after ANY number of client operations and producer calls (none of them a metadata
   call) - on any scripts, whatever those calls did.  Only an explicit load can change the answer. *)
Definition data_call (c : hcall) : Prop := match c with HMeta _ => False | _ => True end.

Theorem C20_refused_again : forall calls x acks timeout msgs,
  Forall data_call calls ->
  (exists m, In m msgs /\ ~ known (cs (cl x)) (pq_topic m) (pq_partition m)) ->
  internal_produce_messages acks timeout msgs x = (Err (EKafka KC_UnknownTopicOrPartition), bump_corr x)
  /\ let y := run_hcalls calls (snd (internal_produce_messages acks timeout msgs x)) in
     internal_produce_messages acks timeout msgs y = (Err (EKafka KC_UnknownTopicOrPartition), bump_corr y)
     /\ (forall t p, known (cs (cl y)) t p <-> known (cs (cl x)) t p).
Proof.
  intros calls x acks timeout msgs Hdata [m [H1 H2]].
  assert (Hfirst : internal_produce_messages acks timeout msgs x
                   = (Err (EKafka KC_UnknownTopicOrPartition), bump_corr x)).
  { apply C20_produce_call_local_fail. exists m. split; [exact H1|]. apply unknown_find_broker_None. exact H2. }
  split; [exact Hfirst|]. rewrite Hfirst. cbn [snd]. cbv zeta.
  destruct (C20_mixed_history calls (bump_corr x)) as (opss & HF & Hc & Hk).
  assert (Hnil : concat opss = []).
  { clear Hc Hk. induction HF as [|c ops calls' opss' H _ IH]; [reflexivity|].
    inversion Hdata as [|c0 l0 Hd Hrest]; subst. cbn [concat].
    destruct c; [destruct Hd| | |]; cbn [hcall_ops] in H; subst ops; apply IH; exact Hrest. }
  rewrite Hnil in Hk. cbn [spec_count fold_left] in Hk.
  assert (Hsame : forall t p, known (cs (cl (run_hcalls calls (bump_corr x)))) t p <-> known (cs (cl x)) t p).
  { intros t p. rewrite Hk. symmetry. exact (C20_known_count (cs (cl x)) t p). }
  split; [|exact Hsame].
  apply C20_produce_call_local_fail. exists m. split; [exact H1|]. apply unknown_find_broker_None.
  intros Hkn. apply H2. apply Hsame. exact Hkn.
Qed.

(* ---- examples --------------------------------------------------------------------------------------- *)
(* x_st_ok: the client knows t1, t2, "empty"; the script answers ONE metadata request (topic t, one partition).
   History: a produce to t:0 (refused: t is not loaded yet), the named load of t (succeeds), a producer call
   (refused).  Afterwards t:0 is loaded, t:1 is not: a produce to t:1 is refused with UnknownTopicOrPartition. *)
Definition c20_hist : list hcall :=
  [ HOp (OpProduce 1 (1, 0) [c20_pm (tag "t") 0 None (Some (tag "a"))]);
    HMeta (MLoad [tag "t"]);
    HSend c20_producer (c20_rec (tag "nope") (-1) (tag "v")) ].

Example C20_mixed_history_ex :
  let x := run_hcalls c20_hist x_st_ok in
  find_broker (cs (cl x_st_ok)) (tag "t") 0 = None
  /\ map fst (topic_partitions (cs (cl x))) = [tag "t1"; tag "t2"; tag "empty"; tag "t"]
  /\ Forall2 hcall_ops c20_hist [[]; [Some x_md1]; []]
  /\ spec_count (concat [[]; [Some x_md1]; []]) (loaded_count (cs (cl x_st_ok))) (tag "t") = Some 1%nat
  /\ find_broker (cs (cl x)) (tag "t") 0 = Some (tag "h1:9092")
  /\ internal_produce_messages 1 1000 [c20_pm (tag "t") 1 None (Some (tag "a"))] x
     = (Err (EKafka KC_UnknownTopicOrPartition), bump_corr x)
  /\ correlation (cs (cl x)) = 10.
Proof.
  cbv zeta. split; [vm_compute; reflexivity|]. split; [vm_compute; reflexivity|]. split.
  - constructor; [reflexivity|]. constructor; [right; exists x_md1; reflexivity|].
    constructor; [reflexivity|constructor].
  - vm_compute. repeat split; reflexivity.
Qed.

Example C20_refused_again_ex :
  let msgs := [c20_pm (tag "t1") 0 None (Some (tag "a")); c20_pm (tag "t1") 4 None (Some (tag "z"))] in
  let calls := [ HOp (OpFetchOffsets [tag "t1"; tag "nope"] (-1));
                 HSendAll c20_producer [c20_rec (tag "t2") (-1) (tag "v")] ] in
  Forall data_call calls
  /\ (exists m, In m msgs /\ ~ known (cs (cl (c20_st 1))) (pq_topic m) (pq_partition m))
  /\ fst (internal_produce_messages 1 1000 msgs
            (run_hcalls calls (snd (internal_produce_messages 1 1000 msgs (c20_st 1)))))
     = Err (EKafka KC_UnknownTopicOrPartition)
  /\ trace (run_hcalls calls (snd (internal_produce_messages 1 1000 msgs (c20_st 1)))) <> trace (c20_st 1).
Proof.
  cbv zeta. split; [repeat constructor|]. split.
  - exists (c20_pm (tag "t1") 4 None (Some (tag "z"))). split; [right; left; reflexivity|].
    apply not_known_iff. vm_compute. reflexivity.
  - split; [vm_compute; reflexivity|vm_compute; discriminate].
Qed.

Check C20_absent_cases.
Check C20_produce_fail_iff.
Check C20_produce_fail_reasons.
Check C20_produce_call_absent_partition.
Check C20_produce_messages_local_fail.
Check C20_produce_messages_call.
Check C20_placed_spec.
Check C20_send_all_as_produce.
Check C20_send_all_fail_iff.
Check C20_producer_send_all_call.
Check C20_producer_send_all_as_produce.
Check C20_producer_send_all_fail_exact.
Check C20_producer_send_all_goes_out.
Check C20_producer_send_fail_exact.
Check C20_producer_send_unplaced.
Check C20_fresh_producer_unkeyed_placed.
Check C20_fresh_producer_send_goes_out.
Check C20_mixed_history.
Check C20_mixed_history_calls.
Check C20_refused_again.

Print Assumptions C20_absent_cases.
Print Assumptions C20_produce_fail_iff.
Print Assumptions C20_produce_fail_reasons.
Print Assumptions C20_produce_call_absent_partition.
Print Assumptions C20_produce_messages_local_fail.
Print Assumptions C20_produce_messages_call.
Print Assumptions C20_placed_spec.
Print Assumptions C20_send_all_as_produce.
Print Assumptions C20_send_all_fail_iff.
Print Assumptions C20_producer_send_all_call.
Print Assumptions C20_producer_send_all_as_produce.
Print Assumptions C20_producer_send_all_fail_exact.
Print Assumptions C20_producer_send_all_goes_out.
Print Assumptions C20_producer_send_fail_exact.
Print Assumptions C20_producer_send_unplaced.
Print Assumptions C20_fresh_producer_unkeyed_placed.
Print Assumptions C20_fresh_producer_send_goes_out.
Print Assumptions C20_mixed_history.
Print Assumptions C20_mixed_history_calls.
Print Assumptions C20_refused_again.
