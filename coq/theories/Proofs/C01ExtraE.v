(* C01, additional theorems, fourth pass (seed C01-7).  New file; nothing existing is edited.

   MUTATION CHECK (scratch copy /tmp/pw/C01/mut7; the real model untouched).
   C01-7 (protocol/fetch.rs MessageSet::from_slice: every message is pushed, and after the loop the first
   (req_offset - first_offset) messages are drained instead of testing `offset >= req_offset` per message) mirrored in
   Responses.ms_loop (unconditional push; both `Ok (rev acc)` exits go through
   `cut_head req l := match l with m :: _ => if m_offset m <? req then skipn (min (req - m_offset m) (length l)) l else l`):
   - Proofs/C01Facts.v compiles unchanged (the ten statements of the first generation do not look into message sets);
     Proofs/C02Lemmas.v stops at ms_loop_nil, Proofs/C01Extra.v at ms_loop_lower_bound;
   - the NEGATION of C01_response_delivers_log (Props/C01.v, from C01ExtraB.v) is proved on the mutated model
     (Scratch/Refute7.v, "Closed under the global context"): one topic, one partition, a cleaned gzip batch with inner
     offsets 5 6 8 9 12 (wrapper offset 12) followed by a plain message 13, asked from 9 - codec_ok, wf_fetch and logs_ok
     hold, `expected` is [9; 12], the mutated decoder hands out [12] only.  With it C01_exchange_delivers_log,
     C01_fetch_delivers_log and C01_poll_delivers_log fall (they carry the same conclusion);
   - the NEGATION of C01_from_slice_lower_bound (and so of C01_decoded_from_requested_offset) is proved there as well,
     but only with offsets out of order (0, 5, 1 asked from 2 hands out 1); with increasing offsets the mutant cuts
     too much, never too little, so the lower-bound family (C01_poll_from_fetch_offsets, C01_seek_then_poll,
     C01_no_redelivery_next_poll) does NOT notice the realistic case.
   - Scratch/Refute7b.v: on the mutated model, seek(t, 0, 9) then poll over the reply of C01_seek_into_cleaned_batch_ex
     below hands out t:0 -> [12] while `expected` is [9; 12]; the table moves to 13 all the same (9 is lost silently).
     All five examples of this file that touch the cleaned batch fail to evaluate to their stated values there.
   COVERED by C01_response_delivers_log (wf_entries puts no condition on the offsets inside a batch, so logs with
   gaps were in its scope all along).  The examples of the earlier passes all use dense offsets and keep evaluating to
   the same values under the mutant; the examples below use the cleaned batch.

   What the seed's DEMONSTRATION does, though - seek into the batch, poll, compare what comes out with the log from
   the seek offset on - was only stated as an inequality (C01_seek_then_poll: nothing BELOW the seek offset) and, as an
   equality, only against the per-broker request (`req_lookup (snd rq)`), not against the consumer's own table.
   PROVED HERE (all Qed, no axioms), about the UNCHANGED model:
   A. C01_poll_delivers_log_from_table : Consumer::poll as a whole, forward and exact: a successful (non-retry) poll
      hands out, for a reply that is a printed answer over logs of partitions this consumer fetches and that broker
      leads, EXACTLY the logs' messages from the offsets of the consumer's fetch table on (`table_offset k`).
   B. C01_seek_table_offset, C01_seek_then_poll_delivers_log : seek(t, p, off) = Ok sets the table offset of (t, p) to
      `off` and of nothing else, and the next poll hands out exactly the logs from there (the seed's demonstration:
      C01_seek_into_cleaned_batch_ex, 9 and 12 come out; under the mutant 12 only).
   C. C01_table_offset_after_poll : what a successful poll leaves behind: last delivered offset + 1 for a partition
      that delivered, the old offset for a partition that was listed without messages.
   D. histories: C01_poll_keeps_table_shape (ANY poll, successful or failed for whatever reason, keeps the key set of
      the fetch table and the assignment - also the MessageSizeTooLarge return in the middle of the bookkeeping loop),
      C01_history_keeps_table (any finite history of polls and seeks keeps `fetch_table_ok`), and
      C01_history_then_poll_delivers_log (A holds at the end of any such history).
   E. C01_cut_entry_retried, C01_retry_request : an entry cut by max_bytes (partition listed without messages below
      its high watermark): the poll keeps the offset, grows max_bytes (doubling, clamped) and queues the partition;
      the poll after that asks for it alone, from the same offset, with the grown max_bytes - nothing is skipped.
   NOT PROVED HERE: A for a single-partition retry poll (k_retry <> []: the request then carries one partition only
   and C01_poll_request_offsets is stated for the full request list); the forward direction from the script ("the
   stream delivers this frame, therefore the poll succeeds") - still no forward lemmas for get_conn / send_request /
   get_response_bytes; a closed formula for the table after n polls (C gives one step, D the invariant). *)
From Coq Require Import ZifyBool.
From KV Require Import Base.Prelude Base.Crc32 Base.Snappy Gen.ErrorCodes Gen.Consts
                       Model.Codecs Model.Requests Model.Responses
                       Model.ClientState Model.Net Model.Client Model.Consumer
                       Spec.MsgSetSpec Spec.RespGrammar.
From KV Require Import Proofs.BytesFacts Proofs.C10Facts Proofs.C02Lemmas Proofs.C02Facts Proofs.C02Extra.
From KV Require Import Proofs.NetFacts Proofs.C01Facts Proofs.C01Extra Proofs.C01ExtraB Proofs.C01ExtraC.
From KV Require Proofs.C18Extra2.

(* ======================================================================================================= *)
(* 0. the seed's input on the unchanged model                                                                *)
(* ======================================================================================================= *)

(* a cleaned (compacted) gzip batch: inner offsets 5 6 8 9 12, wrapper offset = last inner offset; plain 13 behind *)
Definition exe_inner : list MsgSetSpec.entry :=
  [Plain 5 None (Some [x61]); Plain 6 (Some [x6b]) (Some [x62]); Plain 8 None (Some [x63]);
   Plain 9 (Some []) (Some [x64]); Plain 12 None (Some [x65])].
Definition exe_log : list MsgSetSpec.entry := [Wrapper 1 12 exe_inner; Plain 13 None (Some [x66])].
Definition exe_m9 : message := {| m_offset := 9; m_key := []; m_value := [x64] |}.
Definition exe_m12 : message := {| m_offset := 12; m_key := []; m_value := [x65] |}.

Example exe_inner_plain : all_plain exe_inner. Proof. plain_tac. Qed.
Example exe_log_wf : wf_entries wcomp exe_log. Proof. wf_tac. Qed.
Example exe_log_not_Known : ~ Known exe_log.
Proof. apply head_batch_not_Known; [apply exe_inner_plain|plain_tac]. Qed.

(* the decoder alone: asked from 9 it hands out 9 and 12 (the mutant: 12), asked from 5 or below the whole batch,
   asked from 7 (inside a gap) 8 9 12, asked from 13 nothing *)
Example C01_cleaned_batch_from_slice_ex :
  map (fun req => option_map (map m_offset)
                    (match from_slice (wcz true) 3 true req (ser wcomp exe_log) with Ok l => Some l | _ => None end))
      [9; 5; 0; 7; 10; 13]
  = [Some [9; 12]; Some [5; 6; 8; 9; 12]; Some [5; 6; 8; 9; 12]; Some [8; 9; 12]; Some [12]; Some []].
Proof. vm_compute. reflexivity. Qed.

(* ======================================================================================================= *)
(* A. a poll hands out exactly the logs from the consumer's fetch offsets on                                 *)
(* ======================================================================================================= *)

(* the offset the consumer's fetch table holds for topic t (by name), partition p *)
Definition table_offset (k : consumer) (t : bytes) (p : Z) : Z :=
  match topic_ref (k_assign k) t with
  | Some r => match tk_get (r, p) (k_fetch k) with Some (off, _) => off | None => 0 end
  | None => 0
  end.

(* (t, p) is a partition the consumer fetches and broker h leads it according to the client state c *)
Definition fetched_from (k : consumer) (c : cstate) (h t : bytes) (p : Z) : Prop :=
  (exists r, topic_ref (k_assign k) t = Some r /\ tk_get (r, p) (k_fetch k) <> None) /\
  find_broker c t p = Some h.

(* `resp` is the decoding (decompressors / debug flag `cz`) of reply bytes read off the connection of broker `fst rq`
   against that broker's request; and if those bytes are a printed answer over logs of partitions the consumer fetches
   from that broker, iterating `resp` yields exactly those logs' messages from the CONSUMER'S offsets on *)
Definition reply_delivers_table (k : consumer) (c : cstate) (cz : codecs) (rq : bytes * fetch_tps) (resp : fetch_resp)
  : Prop :=
  exists validate s2 s3 b,
    get_response_bytes (fst rq) s2 = (Ok b, s3) /\
    fetch_from_vec cz decode_depth validate (snd rq) b = Ok resp /\
    forall comp corr tls rest,
      b = print_fetch (wire_resp comp corr tls) ++ rest ->
      codec_ok cz comp -> wf_fetch (wire_resp comp corr tls) -> logs_ok comp decode_depth tls ->
      (forall tl pl, In tl tls -> In pl (snd tl) -> fetched_from k c (fst rq) (fst tl) (pl_partition pl)) ->
      delivered resp = expected comp (table_offset k) tls /\ first_error [resp] = None.

Lemma flat_map_ext_in' {A B} (f g : A -> list B) l : (forall x, In x l -> f x = g x) -> flat_map f l = flat_map g l.
Proof.
  induction l as [|a l IH]; intros H; cbn [flat_map]; [reflexivity|].
  rewrite (H a (or_introl eq_refl)), IH; [reflexivity|]. intros x Hx. apply H. right. exact Hx.
Qed.

(* `expected` looks at the offset function only at the topics and partitions of the logs *)
Lemma expected_ext comp (f g : bytes -> Z -> Z) (tls : list topic_log) :
  (forall tl pl, In tl tls -> In pl (snd tl) -> f (fst tl) (pl_partition pl) = g (fst tl) (pl_partition pl)) ->
  expected comp f tls = expected comp g tls.
Proof.
  intros H. unfold expected. apply flat_map_ext_in'. intros tl Htl. apply flat_map_ext_in'. intros pl Hpl.
  rewrite (H tl pl Htl Hpl). reflexivity.
Qed.

Theorem C01_poll_delivers_log_from_table : forall k s ms k' s',
  k_retry k = [] -> fetch_table_ok k ->
  consumer_poll k s = (Ok (Ok ms, k'), s') ->
  exists input reqs,
    poll_requests k = Some input /\
    (forall h tps, In (h, tps) reqs -> In (h, tps) (fetch_reqs (after_corr (cl s)) input)) /\
    Forall2 (reply_delivers_table k (cs (cl s)) (env s)) reqs (ms_responses ms) /\
    iterate ms = flat_map delivered (ms_responses ms).
Proof.
  intros k s ms k' s' Hretry [Hnd Hinj] H.
  destruct (C01_poll_delivers_log _ _ _ _ _ H) as (input & reqs & Hreq & Hsub & Hall & Hit).
  exists input, reqs. split; [exact Hreq|]. split; [exact Hsub|]. split; [|exact Hit].
  apply Forall2_with_in in Hall. eapply Forall2_mono; [|exact Hall].
  intros [h tps] resp [Hin (validate & s2 & s3 & b & Hb & Hdec & Hlog)]. cbn [fst snd] in *.
  exists validate, s2, s3, b. cbn [fst snd]. split; [exact Hb|]. split; [exact Hdec|].
  intros comp corr tls rest Eb Hc Hwf Hok Hserved.
  destruct (Hlog comp corr tls rest Eb Hc Hwf Hok) as [Hdel Hfe]. split; [|exact Hfe].
  rewrite Hdel. apply expected_ext. intros tl pl Htl Hpl.
  destruct (Hserved tl pl Htl Hpl) as [(r & Hr & Hg) Hbk].
  destruct (tk_get (r, pl_partition pl) (k_fetch k)) as [[off maxb]|] eqn:Hget; [|congruence].
  assert (Hb' : find_broker (cs (after_corr (cl s))) (fst tl) (pl_partition pl) = Some h) by exact Hbk.
  rewrite (C01_request_offset_is_consumers _ _ _ _ _ _ _ Hsub Hin Hb').
  destruct (C01_poll_request_offsets k r (pl_partition pl) off maxb Hretry Hnd Hinj Hget) as (input' & Hreq' & Hoff).
  rewrite Hreq in Hreq'. inversion Hreq'; subst input'.
  rewrite (topic_name_of_ref _ _ _ Hr) in Hoff. rewrite Hoff.
  unfold table_offset. rewrite Hr, Hget. reflexivity.
Qed.

(* non-vacuity: the consumer stands at 9 for t:0 (inside the cleaned batch) and at 2 for t:1; broker h:9092 leads
   both; the reply carries the cleaned batch + 13 for t:0 and the dense plain log 0 1 2 for t:1.  Out come 9 and 12
   (not 13: the decoder does not read behind a batch) and 2, and the table moves to 13 and 3. *)
Definition exe_tls : list topic_log :=
  [ (tag "t", [ {| pl_partition := 0; pl_highwater := 14; pl_log := exe_log; pl_cut := 1000 |};
                {| pl_partition := 1; pl_highwater := 3; pl_log := es3; pl_cut := 82 |} ]) ].
Definition exe_body : bytes := print_fetch (wire_resp wcomp 1 exe_tls).
Definition exe_script : list ev_out := [OConn true; OWrote 1000; OData (enc_i32 (ulen exe_body)); OData exe_body].
Definition exe_k : consumer := exx_k [((0, 0), (9, 32768)); ((0, 1), (2, 32768))] [].

Lemma exe_table_ok (fetch : list (tpkey * (Z * Z))) :
  @map (tpkey * (Z * Z)) tpkey fst fetch = [(0, 0); (0, 1)] -> fetch_table_ok (exx_k fetch []).
Proof.
  intros Hk. split.
  - change (k_fetch (exx_k fetch [])) with fetch. rewrite Hk. repeat constructor; cbn [In]; intuition discriminate.
  - change (k_fetch (exx_k fetch [])) with fetch. rewrite Hk. intros r1 p1 r2 p2 H1 H2 _. cbn [In] in H1, H2.
    destruct H1 as [H1|[H1|[]]], H2 as [H2|[H2|[]]]; congruence.
Qed.

Example exe_hyps :
  codec_ok ex_env wcomp /\ wf_fetch (wire_resp wcomp 1 exe_tls) /\ logs_ok wcomp decode_depth exe_tls /\
  (forall tl pl, In tl exe_tls -> In pl (snd tl) ->
                 fetched_from exe_k (cs (cl (ex_st exe_script))) (tag "h:9092") (fst tl) (pl_partition pl)).
Proof.
  split; [exact (wcomp_codec_ok true)|]. split; [|split].
  - unfold wf_fetch, wf_topics_resp, wire_resp, wf_array, wf_topic, wf_fetch_part,
      wf_string, wf_array, in_i16, in_i32, in_i64; cbn [wr_corr wr_topics]. wf_compute.
  - intros tl pl Ht Hp. cbn [exe_tls In] in Ht. destruct Ht as [<-|[]]; cbn [snd In] in Hp.
    destruct Hp as [<-|[<-|[]]]; cbn [pl_log].
    + split; [apply exe_log_wf|]. split; [vm_compute; lia|]. apply exe_log_not_Known.
    + split; [apply es3_wf|]. split; [vm_compute; lia|]. apply all_plain_not_Known, es3_plain.
  - intros tl pl Ht Hp. cbn [exe_tls In] in Ht. destruct Ht as [<-|[]]; cbn [snd In] in Hp.
    destruct Hp as [<-|[<-|[]]]; (split; [exists 0; split; [vm_compute; reflexivity|vm_compute; discriminate]
                                         |vm_compute; reflexivity]).
Qed.

Example C01_poll_delivers_log_from_table_ex :
  k_retry exe_k = [] /\ fetch_table_ok exe_k /\
  exists ms k1 s',
    consumer_poll exe_k (ex_st exe_script) = (Ok (Ok ms, k1), s') /\
    iterate ms = [ (tag "t", 0, [exe_m9; exe_m12]); (tag "t", 1, [m2]) ] /\
    iterate ms = expected wcomp (table_offset exe_k) exe_tls /\
    k_fetch k1 = [((0, 0), (13, 32768)); ((0, 1), (3, 32768))].
Proof.
  split; [reflexivity|]. split; [apply exe_table_ok; reflexivity|].
  eexists. eexists. eexists. split; [vm_compute; reflexivity|]. vm_compute. repeat split.
Qed.

(* ======================================================================================================= *)
(* B. seek, then poll: exactly the log from the seek offset on                                               *)
(* ======================================================================================================= *)

(* Consumer::seek sets the offset of (t, p) and of nothing else *)
Theorem C01_seek_table_offset : forall k t p off k1,
  consumer_seek k t p off = Ok k1 ->
  table_offset k1 t p = off /\
  (forall t' p', (t', p') <> (t, p) -> table_offset k1 t' p' = table_offset k t' p') /\
  k_assign k1 = k_assign k /\ k_retry k1 = k_retry k /\ map fst (k_fetch k1) = map fst (k_fetch k).
Proof.
  intros k t p off k1 H. destruct (seek_ok_inv _ _ _ _ _ H) as (r & old & maxb & Hr & Hg & ->).
  unfold table_offset. cbn [consumer_with k_assign k_fetch k_retry]. split; [|split; [|split; [|split]]].
  - rewrite Hr, tk_get_set_same. reflexivity.
  - intros t' p' Hne. destruct (topic_ref (k_assign k) t') as [r'|] eqn:Hr'; [|reflexivity].
    rewrite tk_get_set_other; [reflexivity|]. intros E. inversion E; subst r' p'. apply Hne.
    rewrite <- (topic_name_of_ref _ _ _ Hr), <- (topic_name_of_ref _ _ _ Hr'). reflexivity.
  - reflexivity.
  - reflexivity.
  - apply tk_set_keys. rewrite Hg. discriminate.
Qed.

Theorem C01_seek_then_poll_delivers_log : forall k t p off k1 s ms k' s',
  k_retry k = [] -> fetch_table_ok k ->
  consumer_seek k t p off = Ok k1 ->
  consumer_poll k1 s = (Ok (Ok ms, k'), s') ->
  table_offset k1 t p = off /\
  (forall t' p', (t', p') <> (t, p) -> table_offset k1 t' p' = table_offset k t' p') /\
  exists input reqs,
    poll_requests k1 = Some input /\
    (forall h tps, In (h, tps) reqs -> In (h, tps) (fetch_reqs (after_corr (cl s)) input)) /\
    Forall2 (reply_delivers_table k1 (cs (cl s)) (env s)) reqs (ms_responses ms) /\
    iterate ms = flat_map delivered (ms_responses ms).
Proof.
  intros k t p off k1 s ms k' s' Hretry Hok Hseek Hpoll.
  destruct (C01_seek_table_offset _ _ _ _ _ Hseek) as (H1 & H2 & _ & Hr & _).
  split; [exact H1|]. split; [exact H2|].
  apply (C01_poll_delivers_log_from_table k1 s ms k' s'); [rewrite Hr; exact Hretry| |exact Hpoll].
  exact (seek_keeps_table_ok _ _ _ _ _ Hseek Hok).
Qed.

(* the seed's demonstration: the consumer has read past the cleaned batch (t:0 at 13), seeks back INTO it (to 9,
   with a gap - offset 7 - between the head of the batch and 9) and polls: 9 and 12 come out, t:1 (at 2) delivers 2 *)
Definition exe_k0 : consumer := exx_k [((0, 0), (13, 32768)); ((0, 1), (2, 32768))] [].

Example C01_seek_into_cleaned_batch_ex :
  k_retry exe_k0 = [] /\ fetch_table_ok exe_k0 /\
  consumer_seek exe_k0 (tag "t") 0 9 = Ok exe_k /\
  table_offset exe_k (tag "t") 0 = 9 /\ table_offset exe_k (tag "t") 1 = 2 /\
  exists ms k1 s',
    consumer_poll exe_k (ex_st exe_script) = (Ok (Ok ms, k1), s') /\
    iterate ms = [ (tag "t", 0, [exe_m9; exe_m12]); (tag "t", 1, [m2]) ] /\
    ms_empty ms = false.
Proof.
  split; [reflexivity|]. split; [apply exe_table_ok; reflexivity|]. split; [vm_compute; reflexivity|].
  split; [vm_compute; reflexivity|]. split; [vm_compute; reflexivity|].
  eexists. eexists. eexists. split; [vm_compute; reflexivity|]. vm_compute. split; reflexivity.
Qed.

(* ======================================================================================================= *)
(* C. what a successful poll leaves behind in the fetch table                                                *)
(* ======================================================================================================= *)

Lemma table_offset_polled k c t p : table_offset (polled k c) t p = table_offset k t p.
Proof. reflexivity. Qed.

(* After a successful poll whose responses are `sane` (only fetched partitions, each once, offsets below i64::MAX):
   a partition that handed out a message list ending in m stands at m's offset + 1; a partition that every response
   listing it listed without messages (or that no response listed) stands where it stood. *)
Theorem C01_table_offset_after_poll : forall k s ms k1 s1,
  sane k (ms_responses ms) ->
  consumer_poll k s = (Ok (Ok ms, k1), s1) ->
  forall t p,
    (forall rs ft fp hw msgs m,
        In rs (ms_responses ms) -> In ft (fr_topics rs) -> In fp (ft_partitions ft) ->
        ft_topic ft = t -> fp_partition fp = p -> fp_data fp = inl (hw, msgs) -> last_msg msgs = Some m ->
        table_offset k1 t p = m_offset m + 1) /\
    ((forall rs ft fp,
        In rs (ms_responses ms) -> In ft (fr_topics rs) -> In fp (ft_partitions ft) ->
        ft_topic ft = t -> fp_partition fp = p -> exists hw, fp_data fp = inl (hw, [])) ->
     table_offset k1 t p = table_offset k t p).
Proof.
  intros k s ms k1 s1 Hsane H1 t p.
  destruct (C18Extra2.C18_poll_hands_out_fetch_result _ _ _ _ _ H1) as (input0 & Hreq0 & Hf0).
  rewrite (C01_poll_success _ _ _ _ _ Hreq0 Hf0) in H1. inversion H1 as [Hp]. clear H1.
  set (kp := polled k (cl s1)) in *.
  pose proof (sane_polled k (cl s1) _ Hsane) as Hsanep. fold kp in Hsanep.
  destruct (pfr_ok _ _ _ _ _ _ Hp) as (Hfe & _).
  destruct (C01_consumed_untouched _ _ _ _ _ _ Hp) as (_ & Hasg & _).
  assert (Hasg1 : k_assign k1 = k_assign k) by (rewrite Hasg; reflexivity).
  split.
  - intros rs ft fp hw msgs m Hrs Hft Hfp Et Ep Hd Hl. subst t p.
    destruct (sane_assigned _ _ Hsane rs ft Hrs Hft) as (r & Hr & _).
    destruct (C01_offsets_advance _ _ _ _ _ _ Hsanep Hfe Hp r (fp_partition fp)) as [Hadv _].
    pose proof (Hadv rs ft fp hw msgs m Hrs Hft Hfp Hr eq_refl Hd Hl) as Hg.
    unfold table_offset. rewrite Hasg1, Hr, Hg. reflexivity.
  - intros Hall. rewrite <- (table_offset_polled k (cl s1)). fold kp.
    unfold table_offset. rewrite Hasg.
    destruct (topic_ref (k_assign kp) t) as [r|] eqn:Hr; [|reflexivity].
    destruct (C01_offsets_advance _ _ _ _ _ _ Hsanep Hfe Hp r p) as [_ Hkeep].
    assert (Hq : option_map fst (tk_get (r, p) (k_fetch k1)) = option_map fst (tk_get (r, p) (k_fetch kp))).
    { apply Hkeep. intros rs ft fp Hrs Hft Hfp Hr' Ep. apply (Hall rs ft fp Hrs Hft Hfp); [|exact Ep].
      rewrite <- (topic_name_of_ref kp _ _ Hr'), <- (topic_name_of_ref kp _ _ Hr). reflexivity. }
    destruct (tk_get (r, p) (k_fetch k1)) as [[o1 b1]|], (tk_get (r, p) (k_fetch kp)) as [[o2 b2]|];
      cbn [option_map fst] in Hq; congruence.
Qed.

(* non-vacuity: the poll of C01_seek_into_cleaned_batch_ex leaves t:0 at 13 and t:1 at 3; and with t:1 already at 3
   (its log then has nothing to deliver) t:1 stays at 3 *)
Definition exe_resp : fetch_resp :=
  {| fr_corr := 1;
     fr_topics := [ {| ft_topic := tag "t";
                       ft_partitions := [ {| fp_partition := 0; fp_data := inl (14, [exe_m9; exe_m12]) |};
                                          {| fp_partition := 1; fp_data := inl (3, [m2]) |} ] |} ] |}.

Lemma exe_sane : sane exe_k [exe_resp].
Proof.
  constructor.
  - intros rs ft [Hrs|[]] Hft. subst rs. destruct Hft as [Hft|[]]. subst ft. exists 0. split; [reflexivity|].
    intros fp [Hfp|[Hfp|[]]]; subst fp; vm_compute; discriminate.
  - vm_compute. repeat constructor; cbn [In]; intuition discriminate.
  - intros t fp hw msgs m Hin Hd Hm. vm_compute in Hin.
    destruct Hin as [Hin|[Hin|[]]]; inversion Hin; subst; cbn [fp_data] in Hd; inversion Hd; subst.
    + destruct Hm as [Hm|[Hm|[]]]; subst m; vm_compute; (split; [discriminate|reflexivity]).
    + destruct Hm as [Hm|[]]; subst m; vm_compute; (split; [discriminate|reflexivity]).
Qed.

Example C01_table_offset_after_poll_ex :
  exists ms k1 s',
    consumer_poll exe_k (ex_st exe_script) = (Ok (Ok ms, k1), s') /\
    ms_responses ms = [exe_resp] /\ sane exe_k (ms_responses ms) /\
    table_offset exe_k (tag "t") 0 = 9 /\ table_offset k1 (tag "t") 0 = 13 /\
    table_offset exe_k (tag "t") 1 = 2 /\ table_offset k1 (tag "t") 1 = 3.
Proof.
  eexists. eexists. eexists. split; [vm_compute; reflexivity|]. split; [reflexivity|]. split; [exact exe_sane|].
  vm_compute. repeat split.
Qed.

(* ======================================================================================================= *)
(* D. histories of polls and seeks                                                                           *)
(* ======================================================================================================= *)

(* the bookkeeping loop never changes the key set of the fetch table - not on its error exit either *)
Lemma process_parts_keyset_any dbg single n cm limit r ps : forall s,
  match process_parts dbg single n cm limit r ps s with
  | POk s' | PErr _ s' => map fst (ps_fetch s') = map fst (ps_fetch s)
  | PPanic _ => True
  end.
Proof.
  induction ps as [|p ps IH]; intros s; cbn [process_parts]; [reflexivity|].
  destruct (process_partition dbg single n cm limit r p s) as [s1|e1 s1|w] eqn:Ep.
  - specialize (IH s1). destruct (process_parts dbg single n cm limit r ps s1); try exact I;
      rewrite IH; apply (process_partition_keyset _ _ _ _ _ _ _ _ _ Ep).
  - destruct (process_partition_err _ _ _ _ _ _ _ _ _ _ Ep) as [-> _]. reflexivity.
  - exact I.
Qed.

Lemma process_topics_keyset_any dbg single n cm limit asg ts : forall s,
  match process_topics dbg single n cm limit asg ts s with
  | POk s' | PErr _ s' => map fst (ps_fetch s') = map fst (ps_fetch s)
  | PPanic _ => True
  end.
Proof.
  induction ts as [|t ts IH]; intros s; cbn [process_topics]; [reflexivity|].
  destruct (topic_ref asg (ft_topic t)) as [r|]; [|exact I].
  pose proof (process_parts_keyset_any dbg single n cm limit r (ft_partitions t) s) as K.
  destruct (process_parts dbg single n cm limit r (ft_partitions t) s) as [s1|e1 s1|w]; [|exact K|exact I].
  specialize (IH s1). destruct (process_topics dbg single n cm limit asg ts s1); try exact I; rewrite IH; exact K.
Qed.

Lemma pfr_keys_any dbg k n resps r k' :
  process_fetch_responses dbg k n resps = (r, k') -> map fst (k_fetch k') = map fst (k_fetch k).
Proof.
  unfold process_fetch_responses. intros H.
  destruct (first_error resps) as [c|]; [inversion H; reflexivity|]. cbv zeta in H.
  pose proof (process_topics_keyset_any dbg (ulen (k_fetch k) =? 1) n (fetch_max_bytes_per_partition (cfg (k_client k)))
                (k_retry_limit k) (k_assign k) (flat_map fr_topics resps)
                {| ps_fetch := k_fetch k; ps_retry := k_retry k; ps_empty := true |}) as K.
  destruct (process_topics dbg (ulen (k_fetch k) =? 1) n (fetch_max_bytes_per_partition (cfg (k_client k)))
              (k_retry_limit k) (k_assign k) (flat_map fr_topics resps)
              {| ps_fetch := k_fetch k; ps_retry := k_retry k; ps_empty := true |}) as [s1|e1 s1|w];
    inversion H; subst; cbn [consumer_with k_fetch ps_fetch] in *; [exact K|exact K|reflexivity].
Qed.

(* ANY poll that returns - success, I/O failure, broker error code, oversized message in the middle of the loop,
   unknown retry partition - leaves the key set of the fetch table and the assignment as they were *)
Theorem C01_poll_keeps_table_shape : forall k s r k1 s',
  consumer_poll k s = (Ok (r, k1), s') ->
  map fst (k_fetch k1) = map fst (k_fetch k) /\ k_assign k1 = k_assign k.
Proof.
  intros k s r k1 s' H.
  split; [|exact (proj1 (proj2 (C01_poll_consumed_untouched _ _ _ _ _ H)))].
  destruct (poll_requests k) as [reqs|] eqn:Hreq.
  - destruct (fetch_messages reqs s) as [[resps|er|w] s1] eqn:Hf.
    + rewrite (C01_poll_success _ _ _ _ _ Hreq Hf) in H. inversion H as [[Hp Hs]]. subst s1.
      rewrite (pfr_keys_any _ _ _ _ _ _ Hp). reflexivity.
    + destruct (C01_fetch_failure _ _ _ _ _ Hreq Hf) as [Hpoll _]. rewrite Hpoll in H.
      inversion H; subst. reflexivity.
    + rewrite (poll_panic _ _ _ _ _ Hreq Hf) in H. discriminate.
  - rewrite (poll_no_request _ _ Hreq) in H. inversion H; subst. reflexivity.
Qed.

Lemma table_ok_transfer k k1 :
  map fst (k_fetch k1) = map fst (k_fetch k) -> k_assign k1 = k_assign k -> fetch_table_ok k -> fetch_table_ok k1.
Proof.
  intros Hk Ha [Hnd Hinj]. split; [rewrite Hk; exact Hnd|].
  intros r1 p1 r2 p2. rewrite Hk. unfold topic_name. rewrite Ha. apply Hinj.
Qed.

(* one step of the application: a poll that returned (whatever it returned; the connection state `s` is arbitrary,
   so anything may have happened to the network in between) or a successful seek *)
Inductive c01_step : consumer -> consumer -> Prop :=
| C01_step_poll k s r k1 s' : consumer_poll k s = (Ok (r, k1), s') -> c01_step k k1
| C01_step_seek k t p off k1 : consumer_seek k t p off = Ok k1 -> c01_step k k1.

Inductive c01_history : consumer -> consumer -> Prop :=
| C01_hist_nil k : c01_history k k
| C01_hist_cons k k1 k2 : c01_step k k1 -> c01_history k1 k2 -> c01_history k k2.

Theorem C01_history_keeps_table : forall k k',
  c01_history k k' -> fetch_table_ok k ->
  fetch_table_ok k' /\ k_assign k' = k_assign k /\ map fst (k_fetch k') = map fst (k_fetch k).
Proof.
  intros k k' Hh. induction Hh as [k|k k1 k2 Hstep Hh IH]; intros Hok; [auto|].
  assert (Hs : map fst (k_fetch k1) = map fst (k_fetch k) /\ k_assign k1 = k_assign k).
  { destruct Hstep as [k s r k1 s' Hp|k t p off k1 Hsk].
    - exact (C01_poll_keeps_table_shape _ _ _ _ _ Hp).
    - destruct (C01_seek_table_offset _ _ _ _ _ Hsk) as (_ & _ & Ha & _ & Hk). auto. }
  destruct Hs as [Hk Ha].
  destruct (IH (table_ok_transfer _ _ Hk Ha Hok)) as (Hok2 & Ha2 & Hk2).
  split; [exact Hok2|]. split; congruence.
Qed.

(* At the end of ANY finite history of polls (successful or failed) and seeks, starting from a consumer whose
   fetch table is a map: a successful non-retry poll hands out exactly the logs from the table's offsets on. *)
Theorem C01_history_then_poll_delivers_log : forall k0 k s ms k' s',
  fetch_table_ok k0 -> c01_history k0 k -> k_retry k = [] ->
  consumer_poll k s = (Ok (Ok ms, k'), s') ->
  exists input reqs,
    poll_requests k = Some input /\
    (forall h tps, In (h, tps) reqs -> In (h, tps) (fetch_reqs (after_corr (cl s)) input)) /\
    Forall2 (reply_delivers_table k (cs (cl s)) (env s)) reqs (ms_responses ms) /\
    iterate ms = flat_map delivered (ms_responses ms).
Proof.
  intros k0 k s ms k' s' Hok0 Hh Hretry Hpoll.
  apply (C01_poll_delivers_log_from_table k s ms k' s'); [exact Hretry| |exact Hpoll].
  exact (proj1 (C01_history_keeps_table _ _ Hh Hok0)).
Qed.

(* non-vacuity: a history of three steps - a poll the broker refuses to connect for (fails, nothing moves), a seek
   of t:0 back into the cleaned batch, a successful poll - and then the table is still a map *)
Definition exe_k1 : consumer :=
  Eval vm_compute in
    match consumer_poll exe_k0 (ex_st [OConn false]) with (Ok (_, k), _) => k | _ => exe_k0 end.
Definition exe_k2 : consumer :=
  Eval vm_compute in match consumer_seek exe_k1 (tag "t") 0 9 with Ok k => k | _ => exe_k1 end.
Definition exe_k3 : consumer :=
  Eval vm_compute in
    match consumer_poll exe_k2 (ex_st exe_script) with (Ok (_, k), _) => k | _ => exe_k2 end.

Example C01_history_ex :
  c01_history exe_k0 exe_k3 /\ fetch_table_ok exe_k0 /\
  (exists e s', consumer_poll exe_k0 (ex_st [OConn false]) = (Ok (Err e, exe_k1), s')) /\
  k_fetch exe_k1 = k_fetch exe_k0 /\
  consumer_seek exe_k1 (tag "t") 0 9 = Ok exe_k2 /\
  (exists ms s', consumer_poll exe_k2 (ex_st exe_script) = (Ok (Ok ms, exe_k3), s') /\
                 iterate ms = [ (tag "t", 0, [exe_m9; exe_m12]); (tag "t", 1, [m2]) ]) /\
  k_fetch exe_k3 = [((0, 0), (13, 32768)); ((0, 1), (3, 32768))] /\ k_retry exe_k3 = [].
Proof.
  assert (P1 : exists e s', consumer_poll exe_k0 (ex_st [OConn false]) = (Ok (Err e, exe_k1), s')).
  { eexists. eexists. vm_compute. reflexivity. }
  assert (S2 : consumer_seek exe_k1 (tag "t") 0 9 = Ok exe_k2) by (vm_compute; reflexivity).
  assert (P3 : exists ms s', consumer_poll exe_k2 (ex_st exe_script) = (Ok (Ok ms, exe_k3), s') /\
                             iterate ms = [ (tag "t", 0, [exe_m9; exe_m12]); (tag "t", 1, [m2]) ]).
  { eexists. eexists. split; vm_compute; reflexivity. }
  split.
  { destruct P1 as (e & s1 & P1). destruct P3 as (ms & s3 & P3 & _).
    eapply C01_hist_cons; [eapply C01_step_poll; exact P1|].
    eapply C01_hist_cons; [eapply C01_step_seek; exact S2|].
    eapply C01_hist_cons; [eapply C01_step_poll; exact P3|]. apply C01_hist_nil. }
  split; [apply exe_table_ok; reflexivity|].
  split; [exact P1|]. split; [reflexivity|]. split; [exact S2|]. split; [exact P3|]. split; reflexivity.
Qed.

(* ======================================================================================================= *)
(* E. an entry cut by max_bytes: what the poll leaves behind for the next one                                *)
(* ======================================================================================================= *)

(* the max_bytes a partition is retried with: doubled (saturating), clamped to retry_max_bytes_limit; unchanged
   once the limit is reached *)
Definition grown_max_bytes (limit maxb : Z) : Z :=
  if maxb <? limit
  then (if limit <? Z.max i32_min (Z.min i32_max (maxb + maxb)) then limit
        else Z.max i32_min (Z.min i32_max (maxb + maxb)))
  else maxb.

Lemma process_partition_retry_mono dbg single n cm limit r p s s' q :
  process_partition dbg single n cm limit r p s = POk s' -> In q (ps_retry s) -> In q (ps_retry s').
Proof.
  intros H Hq. destruct (fp_data p) as [[hw msgs]|c] eqn:Hd.
  2:{ unfold process_partition in H. cbv zeta in H. rewrite Hd in H. discriminate. }
  destruct (tk_get (r, fp_partition p) (ps_fetch s)) as [[off maxb]|] eqn:Hg.
  2:{ unfold process_partition in H. cbv zeta in H. rewrite Hd, Hg in H. discriminate. }
  rewrite (process_partition_data _ _ _ _ _ _ _ _ _ _ _ _ Hd Hg) in H.
  destruct (last_msg msgs) as [m|].
  - destruct (i64_op dbg (m_offset m + 1)) as [o|e|w]; try discriminate. inversion H; subst s'. exact Hq.
  - destruct (off <? hw).
    + destruct (maxb <? limit).
      * inversion H; subst s'. cbn [ps_retry]. destruct single; [exact Hq|apply in_or_app; left; exact Hq].
      * destruct (n =? 1); [discriminate|]. inversion H; subst s'. cbn [ps_retry].
        destruct single; [exact Hq|apply in_or_app; left; exact Hq].
    + inversion H; subst s'. exact Hq.
Qed.

Lemma process_entries_retry_mono dbg single n cm limit es : forall s s' q,
  process_entries dbg single n cm limit es s = POk s' -> In q (ps_retry s) -> In q (ps_retry s').
Proof.
  induction es as [|e es IH]; intros s s' q H Hq; cbn [process_entries] in H.
  - inversion H; subst. exact Hq.
  - destruct (process_partition dbg single n cm limit (snd (fst e)) (snd e) s) as [s1|e1 s1|w] eqn:Ep;
      try discriminate.
    apply (IH _ _ _ H). apply (process_partition_retry_mono _ _ _ _ _ _ _ _ _ _ Ep Hq).
Qed.

Lemma process_partition_cut dbg single n cm limit r p s s' hw off maxb :
  fp_data p = inl (hw, []) -> tk_get (r, fp_partition p) (ps_fetch s) = Some (off, maxb) -> off < hw ->
  process_partition dbg single n cm limit r p s = POk s' ->
  tk_get (r, fp_partition p) (ps_fetch s') = Some (off, grown_max_bytes limit maxb) /\
  (single = false -> In (r, fp_partition p) (ps_retry s')).
Proof.
  intros Hd Hg Hlt H. rewrite (process_partition_data _ _ _ _ _ _ _ _ _ _ _ _ Hd Hg), last_msg_nil in H.
  unfold grown_max_bytes.
  destruct (off <? hw) eqn:E1; [|lia].
  destruct (maxb <? limit) eqn:E2.
  - inversion H; subst s'. cbn [ps_fetch ps_retry]. rewrite tk_get_set_same. split; [reflexivity|].
    intros ->. apply in_or_app. right. left. reflexivity.
  - destruct (n =? 1); [discriminate|]. inversion H; subst s'. cbn [ps_fetch ps_retry]. split; [exact Hg|].
    intros ->. apply in_or_app. right. left. reflexivity.
Qed.

Lemma process_entries_cut dbg single n cm limit es : forall s s' e hw off maxb,
  NoDup (map e_key es) -> process_entries dbg single n cm limit es s = POk s' ->
  In e es -> fp_data (snd e) = inl (hw, []) -> tk_get (e_key e) (ps_fetch s) = Some (off, maxb) -> off < hw ->
  tk_get (e_key e) (ps_fetch s') = Some (off, grown_max_bytes limit maxb) /\
  (single = false -> In (e_key e) (ps_retry s')).
Proof.
  induction es as [|e0 es IH]; intros s s' e hw off maxb Hnd H Hin Hd Hg Hlt; [destruct Hin|].
  cbn [process_entries] in H. cbn [map] in Hnd. inversion Hnd as [|? ? Hnot Hnd']; subst.
  destruct (process_partition dbg single n cm limit (snd (fst e0)) (snd e0) s) as [s1|e1 s1|w] eqn:Ep;
    try discriminate.
  destruct Hin as [Heq|Hin].
  - subst e0. unfold e_key in Hg.
    destruct (process_partition_cut _ _ _ _ _ _ _ _ _ _ _ _ Hd Hg Hlt Ep) as [G1 G2].
    rewrite (process_entries_frame _ _ _ _ _ _ _ _ _ H Hnot). split; [exact G1|].
    intros Hs. apply (process_entries_retry_mono _ _ _ _ _ _ _ _ _ H). exact (G2 Hs).
  - apply (IH s1 s' e hw off maxb Hnd' H Hin Hd); [|exact Hlt].
    rewrite (process_partition_frame _ _ _ _ _ _ _ _ _ _ Ep); [exact Hg|].
    intros Heq. apply Hnot. change (snd (fst e0), fp_partition (snd e0)) with (e_key e0) in Heq.
    rewrite <- Heq. apply in_map. exact Hin.
Qed.

(* A successful poll in which a fetched partition was listed WITHOUT messages although its fetch offset lies below
   the high watermark (the entry at that offset did not fit into max_bytes): the partition keeps its offset, its
   max_bytes grows (doubling, clamped to the retry limit), and - unless it is the consumer's only partition - it is
   queued to be fetched on its own.  Nothing is skipped: the entry is asked for again, from the same offset. *)
Theorem C01_cut_entry_retried : forall dbg k n resps ms k',
  sane k resps ->
  process_fetch_responses dbg k n resps = (Ok ms, k') ->
  forall rs ft fp r hw off maxb,
    In rs resps -> In ft (fr_topics rs) -> In fp (ft_partitions ft) ->
    topic_ref (k_assign k) (ft_topic ft) = Some r ->
    fp_data fp = inl (hw, []) -> tk_get (r, fp_partition fp) (k_fetch k) = Some (off, maxb) -> off < hw ->
    tk_get (r, fp_partition fp) (k_fetch k') = Some (off, grown_max_bytes (k_retry_limit k) maxb) /\
    (ulen (k_fetch k) <> 1 -> In (r, fp_partition fp) (k_retry k')).
Proof.
  intros dbg k n resps ms k' Hs H rs ft fp r hw off maxb Hrs Hft Hfp Hr Hd Hg Hlt.
  destruct (pfr_ok _ _ _ _ _ _ H) as [_ [Hms [es [s' [Hres [Hes [_ Hk']]]]]]].
  subst k'. cbn [consumer_with k_fetch k_retry].
  pose proof (resolve_in _ _ _ Hres) as Hin_es.
  assert (Hin : In (ft_topic ft, r, fp) es).
  { apply Hin_es. exists ft. repeat split; auto. apply in_flat_map. exists rs. auto. }
  assert (Hnd : NoDup (map e_key es)).
  { apply (NoDup_map_transfer e_label e_key).
    - intros [[t1 r1] p1] [[t2 r2] p2] H1 H2 Heq. unfold e_key, e_label in *. cbn [fst snd] in *.
      inversion Heq; subst. apply Hin_es in H1. apply Hin_es in H2.
      destruct H1 as [f1 [_ [Ht1 [Hr1 _]]]]. destruct H2 as [f2 [_ [Ht2 [Hr2 _]]]].
      subst t1 t2. rewrite (topic_ref_inj _ _ _ _ Hr1 Hr2). congruence.
    - replace (map e_label es) with (map entry_label (map (fun e : C01Facts.entry => (fst (fst e), snd e)) es)).
      + rewrite (resolve_names _ _ _ Hres). apply (sane_nodup _ _ Hs).
      + rewrite map_map. reflexivity. }
  destruct (process_entries_cut _ _ _ _ _ _ _ _ (ft_topic ft, r, fp) hw off maxb Hnd Hes Hin Hd Hg Hlt) as [G1 G2].
  unfold e_key in G1, G2. cbn [fst snd] in G1, G2. split; [exact G1|].
  intros Hone. apply G2. destruct (ulen (k_fetch k) =? 1) eqn:E; [lia|reflexivity].
Qed.

(* ... and the poll after that asks for this partition alone, from the same offset, with the grown max_bytes *)
Theorem C01_retry_request : forall k r p rest off maxb,
  k_retry k = (r, p) :: rest -> tk_get (r, p) (k_fetch k) = Some (off, maxb) ->
  poll_requests k = Some [ {| fq_topic := topic_name k r; fq_partition := p; fq_offset := off; fq_max_bytes := maxb |} ].
Proof. intros k r p rest off maxb Hr Hg. unfold poll_requests. rewrite Hr, Hg. reflexivity. Qed.

(* non-vacuity: t:0 stands at 5 with max_bytes 65536 (retry limit 1000000), t:1 at 7; the broker lists t:0 without
   messages below its high watermark 6 and t:1 at its end.  The poll succeeds and is empty, t:0 stays at 5 with
   131072 and is queued, and the next poll asks for t:0 alone from 5 with 131072. *)
Definition exe_resps_cut : list fetch_resp :=
  [ {| fr_corr := 1;
       fr_topics := [ {| ft_topic := tag "t";
                         ft_partitions := [ {| fp_partition := 0; fp_data := inl (6, []) |};
                                            {| fp_partition := 1; fp_data := inl (7, []) |} ] |} ] |} ].

Lemma exe_sane_cut : sane (ex_k2 []) exe_resps_cut.
Proof.
  constructor.
  - intros rs ft [Hrs|[]] Hft. subst rs. destruct Hft as [Hft|[]]. subst ft. exists 0. split; [reflexivity|].
    intros fp [Hfp|[Hfp|[]]]; subst fp; vm_compute; discriminate.
  - vm_compute. repeat constructor; cbn [In]; intuition discriminate.
  - intros t fp hw msgs m Hin Hd Hm. vm_compute in Hin.
    destruct Hin as [Hin|[Hin|[]]]; inversion Hin; subst; cbn [fp_data] in Hd; inversion Hd; subst; destruct Hm.
Qed.

Example C01_cut_entry_retried_ex :
  sane (ex_k2 []) exe_resps_cut /\
  exists ms k',
    process_fetch_responses true (ex_k2 []) 2 exe_resps_cut = (Ok ms, k') /\
    iterate ms = [] /\ ms_empty ms = true /\
    tk_get (0, 0) (k_fetch k') = Some (5, 131072) /\ grown_max_bytes 1000000 65536 = 131072 /\
    tk_get (0, 1) (k_fetch k') = Some (7, 32768) /\ k_retry k' = [(0, 0)] /\
    poll_requests k' = Some [ {| fq_topic := tag "t"; fq_partition := 0; fq_offset := 5; fq_max_bytes := 131072 |} ].
Proof.
  split; [exact exe_sane_cut|]. eexists. eexists. split; [vm_compute; reflexivity|]. vm_compute. repeat split.
Qed.

Print Assumptions C01_poll_delivers_log_from_table.
Print Assumptions C01_seek_table_offset.
Print Assumptions C01_seek_then_poll_delivers_log.
Print Assumptions C01_table_offset_after_poll.
Print Assumptions C01_poll_keeps_table_shape.
Print Assumptions C01_history_keeps_table.
Print Assumptions C01_history_then_poll_delivers_log.
Print Assumptions C01_cut_entry_retried.
Print Assumptions C01_retry_request.
