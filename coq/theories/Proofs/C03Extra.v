(* C03, additional theorems: the clauses of the property that Props/C03.v leaves open.

   Props/C03.v speaks about ONE partition entry (enc_messages / enc_partition_produce) and takes the
   record list as given.  Not covered there:
     (a) the whole produce REQUEST (enc_produce_req; Rust: ProduceRequest::encode,
         TopicPartitionProduceRequest::encode): every partition entry of every topic carries the message
         set of ITS OWN records, and the wrapper value is the compressor's output for exactly that set
         (seeded change C03: a scratch buffer shared by the partitions of a topic);
     (b) the step from the caller's batch to the record lists (produce_reqs / produce_add / pp_add; Rust:
         KafkaClient::internal_produce_messages, ProduceRequest::add): "in order" (seeded change C03-2:
         unstable pre-sort of the batch);
     (c) "decompresses, with an independent decompressor, to exactly that plain message set": C03_wrapped
         only names the value `gz_compress cz plain`; here the broker's reading (parse, one wrapper, attribute =
         codec, null key, decompress, parse again) is carried through, the round-trip property of the
         compressor being the visible hypothesis (seeded change C03-3 lives inside that oracle);
     (d) hypotheses of C03_wrapped / C03_none_in_request that follow from the encoder's own `Ok`. *)
From Coq Require Import ZifyBool Sorting.Permutation.
From KV Require Import Base.Prelude Base.Crc32 Gen.Consts Model.Codecs Model.Requests Model.Responses
                       Model.ClientState Model.Net Model.Client Model.Producer.
From KV Require Import Spec.MsgSetSpec Spec.ReqGrammar.
From KV Require Import Proofs.BytesFacts Proofs.C03Facts Proofs.C09Facts Proofs.C20Facts Proofs.C05Facts.
Ltac Zify.zify_post_hook ::= Z.div_mod_to_equations.

(* ================================================================================================== *)
(* Part 1: one partition entry, without size hypotheses                                                *)
(* ================================================================================================== *)

Definition short (m : pmsg) : Prop := olen (fst m) < 2 ^ 31 /\ olen (snd m) < 2 ^ 31.

Lemma enc_message_ok_ser attr m b :
  enc_message 0 attr m = Ok b -> short m /\ b = ser_message 0 attr (fst m) (snd m).
Proof.
  intros H. destruct m as [k v]. unfold short. cbn [fst snd].
  destruct (enc_opt_bytes_cases k) as [[Hk Ek]|[Hk Ek]].
  2:{ unfold enc_message in H. cbn [fst snd] in H. rewrite Ek in H. discriminate H. }
  destruct (enc_opt_bytes_cases v) as [[Hv Ev]|[Hv Ev]].
  2:{ unfold enc_message in H. cbn [fst snd] in H. rewrite Ek, Ev in H. discriminate H. }
  unfold i32_max in Hk, Hv.
  rewrite enc_message_ser in H by lia. apply Ok_inj in H. subst b. repeat split; lia.
Qed.

Lemma enc_messages_ok_ser recs : forall bs,
  enc_messages recs = Ok bs -> Forall short recs /\ bs = flat_map ser_raw (map plain_raw recs).
Proof.
  unfold enc_messages. induction recs as [|m r IH]; intros bs H.
  - cbn [enc_all] in H. apply Ok_inj in H. subst bs. split; [constructor|reflexivity].
  - apply enc_all_cons_ok in H. destruct H as [a [b [Ha [Hb ->]]]].
    change (enc_message MESSAGE_MAGIC_BYTE 0 m) with (enc_message 0 0 m) in Ha.
    apply enc_message_ok_ser in Ha. destruct Ha as [Hs ->].
    destruct (IH b Hb) as [Hr ->]. split; [constructor; assumption|reflexivity].
Qed.

Definition set_size (recs : list pmsg) : Z :=
  fold_right (fun m acc => 26 + olen (fst m) + olen (snd m) + acc) 0 recs.

Lemma set_size_nonneg recs : 0 <= set_size recs.
Proof.
  induction recs as [|m r IH]; cbn [set_size fold_right]; [lia|].
  fold (set_size r). pose proof (olen_nonneg (fst m)). pose proof (olen_nonneg (snd m)). lia.
Qed.

Lemma blen_plain_set recs : blen (flat_map ser_raw (map plain_raw recs)) = set_size recs.
Proof.
  induction recs as [|m r IH]; cbn [map flat_map set_size fold_right]; [reflexivity|].
  fold (set_size r). rewrite C03Facts.blen_app, IH. unfold ser_raw, plain_raw. cbn [rm_offset rm_attr rm_key rm_value].
  rewrite blen_ser_message. lia.
Qed.

Lemma short_small_fits recs : Forall short recs -> set_size recs <= i32_max -> Forall fits recs.
Proof.
  induction 1 as [|m r [Hk Hv] Hr IH]; intros Hsz; [constructor|].
  cbn [set_size fold_right] in Hsz. fold (set_size r) in Hsz.
  pose proof (set_size_nonneg r) as H0.
  pose proof (olen_nonneg (fst m)). pose proof (olen_nonneg (snd m)). unfold i32_max in *.
  constructor; [unfold fits; lia|apply IH; lia].
Qed.

(* the three codec settings *)
Definition codec (c : Z) : Prop := c = COMPRESSION_NONE \/ c = COMPRESSION_GZIP \/ c = COMPRESSION_SNAPPY.

Definition wrapper (c : Z) (v : bytes) : raw_msg := {| rm_offset := 0; rm_attr := c; rm_key := None; rm_value := Some v |}.

(* what the MessageSet bytes `sb` of a partition entry must be for the records `recs`:
   NONE: they parse, strictly, to the records;  GZIP/SNAPPY: they parse to ONE wrapper whose attribute is
   the codec, whose key is null and whose value is the compressor's output for the plain set of THESE
   records, that plain set itself parsing strictly to the records. *)
Definition set_ok (cz : codecs) (c : Z) (recs : list pmsg) (sb : bytes) : Prop :=
  if c =? COMPRESSION_NONE then spec_parse sb = Some (map plain_raw recs)
  else exists plain, enc_messages recs = Ok plain /\ spec_parse plain = Some (map plain_raw recs) /\
                     spec_parse sb = Some [wrapper c (compressed cz c plain)].

Lemma model_set_ok cz c recs buf' :
  codec c -> (c <> COMPRESSION_NONE -> Forall fits recs) ->
  model_message_set cz c recs = Ok buf' -> ulen buf' <= i32_max -> set_ok cz c recs buf'.
Proof.
  intros Hc Hfit H Hlen. unfold model_message_set in H. apply bind_ok in H. destruct H as [plain [Hplain H]].
  unfold set_ok.
  assert (Hwrap : forall a z, in_i8 a -> enc_message MESSAGE_MAGIC_BYTE a (None, Some z) = Ok buf' ->
                              spec_parse buf' = Some [wrapper a z]).
  { intros a z Ha Hw. change (enc_message MESSAGE_MAGIC_BYTE a (None, Some z)) with (enc_message 0 a (None, Some z)) in Hw.
    apply enc_message_ok_ser in Hw. destruct Hw as [[_ Hz] ->]. cbn [fst snd olen] in *.
    change (ulen ?x) with (blen x) in Hlen. rewrite blen_ser_message in Hlen. cbn [olen] in Hlen.
    pose proof (blen_nonneg z). unfold i32_max in Hlen.
    apply spec_parse_single; [unfold in_i64; lia|exact Ha|unfold fits; cbn [fst snd olen]; lia]. }
  destruct Hc as [->|[->| ->]].
  - change (COMPRESSION_NONE =? COMPRESSION_NONE) with true in *. cbv iota in *. apply Ok_inj in H. subst buf'.
    destruct (enc_messages_ok_ser recs plain Hplain) as [Hs ->].
    apply spec_parse_ser, plain_raw_ok, short_small_fits; [exact Hs|].
    rewrite <- blen_plain_set. exact Hlen.
  - change (COMPRESSION_GZIP =? COMPRESSION_NONE) with false in *.
    change (COMPRESSION_GZIP =? COMPRESSION_GZIP) with true in *. cbv iota in *.
    exists plain. split; [exact Hplain|]. split.
    + eapply C03_plain; [apply Hfit; discriminate|exact Hplain].
    + unfold compressed. change (COMPRESSION_GZIP =? COMPRESSION_GZIP) with true. cbv iota.
      apply Hwrap; [unfold in_i8, COMPRESSION_GZIP; lia|exact H].
  - change (COMPRESSION_SNAPPY =? COMPRESSION_NONE) with false in *.
    change (COMPRESSION_SNAPPY =? COMPRESSION_GZIP) with false in *. cbv iota in *.
    exists plain. split; [exact Hplain|]. split.
    + eapply C03_plain; [apply Hfit; discriminate|exact Hplain].
    + unfold compressed. change (COMPRESSION_SNAPPY =? COMPRESSION_GZIP) with false. cbv iota.
      apply Hwrap; [unfold in_i8, COMPRESSION_SNAPPY; lia|exact H].
Qed.

(* C03_none_in_request + C03_plain without ANY hypothesis on the records: whenever the encoder accepts an
   uncompressed partition entry, every record fits and the set parses strictly to the records.  (The
   `as i32` wrap of C03_size_cast_wraps cannot reach the wire uncompressed: the MessageSetSize check refuses.) *)
Theorem C03_none_exact : forall cz p recs out,
  enc_partition_produce cz COMPRESSION_NONE p recs = Ok out ->
  Forall fits recs /\
  exists sb, enc_messages recs = Ok sb /\ spec_parse sb = Some (map plain_raw recs) /\
             out = enc_i32 p ++ enc_i32 (blen sb) ++ sb.
Proof.
  intros cz p recs out H.
  apply C09_produce_partition_bytes in H. destruct H as [buf' [Hm [_ [Hlen ->]]]].
  pose proof Hm as Hm'. unfold model_message_set in Hm'. apply bind_ok in Hm'. destruct Hm' as [plain [Hplain Hm']].
  change (COMPRESSION_NONE =? COMPRESSION_NONE) with true in Hm'. cbv iota in Hm'. apply Ok_inj in Hm'. subst buf'.
  destruct (enc_messages_ok_ser recs plain Hplain) as [Hs Heq].
  assert (Hfit : Forall fits recs).
  { apply short_small_fits; [exact Hs|]. rewrite <- blen_plain_set, <- Heq. exact Hlen. }
  split; [exact Hfit|]. exists plain. split; [exact Hplain|]. split; [|reflexivity].
  eapply C03_plain; eassumption.
Qed.

(* C03_wrapped without the hypothesis on the compressed length (it follows from the encoder's Ok), and with
   the inner set's strict parse stated next to the wrapper *)
Theorem C03_wrapped_exact : forall cz c recs p out,
  (c = COMPRESSION_GZIP \/ c = COMPRESSION_SNAPPY) -> Forall fits recs ->
  enc_partition_produce cz c p recs = Ok out ->
  exists plain sb,
    enc_messages recs = Ok plain /\ spec_parse plain = Some (map plain_raw recs) /\
    spec_parse sb = Some [wrapper c (if c =? COMPRESSION_GZIP then gz_compress cz plain else sn_compress cz plain)] /\
    out = enc_i32 p ++ enc_i32 (blen sb) ++ sb.
Proof.
  intros cz c recs p out Hc Hfit H.
  apply C09_produce_partition_bytes in H. destruct H as [buf' [Hm [_ [Hlen ->]]]].
  assert (Hcodec : codec c) by (unfold codec; tauto).
  pose proof (model_set_ok cz c recs buf' Hcodec (fun _ => Hfit) Hm Hlen) as Hok.
  unfold set_ok in Hok.
  assert (E : (c =? COMPRESSION_NONE) = false) by (destruct Hc as [->| ->]; reflexivity).
  rewrite E in Hok. destruct Hok as [plain [Hp [Hpp Hw]]].
  exists plain, buf'. repeat split; assumption.
Qed.

(* `Forall fits` cannot be dropped from C03_wrapped_exact the way it is dropped in C03_none_exact: with a codec the
   plain set is never length-checked, only the (small) compressed wrapper is.  A record with
   2^31 <= 14 + |key| + |value| (C03_size_cast_wraps) is accepted, and the wrapper - itself perfectly well-formed -
   carries a plain set whose MessageSize field has wrapped.  Needs >= 2 GiB in one record. *)
Theorem C03_wrapped_exact_unfit_refuted :
  exists cz recs p out plain,
    enc_partition_produce cz COMPRESSION_GZIP p recs = Ok out /\ enc_messages recs = Ok plain /\
    spec_parse plain = None.
Proof.
  destruct (C03_size_cast_wraps (repeat x00 (Z.to_nat (2 ^ 30))) (repeat x00 (Z.to_nat (2 ^ 30)))) as [plain [Hplain Hnone]].
  1-3: unfold blen; rewrite repeat_length, Z2Nat.id by lia; lia.
  exists {| gz_compress := fun _ => []; sn_compress := fun _ => []; gz_decompress := fun _ => None; debug_build := false |}.
  eexists _, 0, _, plain. split; [|split; [exact Hplain|exact Hnone]].
  unfold enc_partition_produce. rewrite Hplain. cbn [bind gz_compress].
  change (COMPRESSION_GZIP =? COMPRESSION_NONE) with false. change (COMPRESSION_GZIP =? COMPRESSION_GZIP) with true.
  cbv iota. vm_compute. reflexivity.
Qed.

(* ================================================================================================== *)
(* Part 2: the whole produce request (enc_produce_req)                                                  *)
(* ================================================================================================== *)

Lemma produce_req_parts_ok cz corr cid acks timeout c tps bs :
  enc_produce_req cz corr cid acks timeout c tps = Ok bs ->
  forall t ps p recs, In (t, ps) tps -> In (p, recs) ps -> exists b, enc_partition_produce cz c p recs = Ok b.
Proof.
  intros H t ps p recs Ht Hp. rewrite enc_produce_req_eq in H.
  apply bind_ok in H. destruct H as [h [_ H]]. apply bind_ok in H. destruct H as [b [Hb _]].
  assert (Hex : exists b, enc_array (enc_topic_unchecked (m_produce_part cz c)) tps = Ok b) by (exists b; exact Hb).
  apply enc_array_ok_iff in Hex. destruct Hex as [_ HF]. rewrite Forall_forall in HF.
  destruct (HF (t, ps) Ht) as [bt Hbt]. unfold enc_topic_unchecked in Hbt.
  apply bind_ok in Hbt. destruct Hbt as [n [_ Hbt]]. apply bind_ok in Hbt. destruct Hbt as [a [Ha _]].
  assert (Hex : exists a, enc_array_unchecked (m_produce_part cz c) ps = Ok a) by (exists a; exact Ha).
  apply enc_array_unchecked_ok_iff in Hex. rewrite Forall_forall in Hex.
  exact (Hex (p, recs) Hp).
Qed.

(* every partition entry of an accepted request carries the set of its own records *)
Lemma request_entry_set_ok cz corr cid acks timeout c tps bs t ps p recs :
  codec c -> enc_produce_req cz corr cid acks timeout c tps = Ok bs ->
  In (t, ps) tps -> In (p, recs) ps -> (c <> COMPRESSION_NONE -> Forall fits recs) ->
  set_ok cz c recs (message_set_bytes cz c recs).
Proof.
  intros Hc H Ht Hp Hfit.
  destruct (produce_req_parts_ok cz corr cid acks timeout c tps bs H t ps p recs Ht Hp) as [b Hb].
  apply C09_produce_partition_bytes in Hb. destruct Hb as [buf' [Hm [Habs [Hlen _]]]].
  rewrite Habs. apply model_set_ok; assumption.
Qed.

Lemma Forall2_map_in {A B} (R : A -> B -> Prop) (f : A -> B) l :
  (forall x, In x l -> R x (f x)) -> Forall2 R l (map f l).
Proof.
  induction l as [|x l IH]; intros H; cbn [map]; constructor.
  - apply H. left. reflexivity.
  - apply IH. intros y Hy. apply H. right. exact Hy.
Qed.

Lemma Forall2_weaken {A B} (R R' : A -> B -> Prop) l l' :
  (forall x y, R x y -> R' x y) -> Forall2 R l l' -> Forall2 R' l l'.
Proof. intros H. induction 1; constructor; auto. Qed.

Definition all_fit (tps : produce_tps) : Prop :=
  forall t ps p recs, In (t, ps) tps -> In (p, recs) ps -> Forall fits recs.

Definition produce_hdr (corr : Z) (cid : bytes) : hdr :=
  {| api_key := 0; api_version := 0; correlation_id := corr; client_id := Some cid |}.

(* entry by entry, in the request's order: same topic, same partition, and the MessageSet bytes are
   related to the entry's records by Q *)
Definition entries_rel (Q : list pmsg -> bytes -> Prop) (tps : produce_tps) (topics : by_topic (Z * bytes)) : Prop :=
  Forall2 (fun tp tq => fst tq = fst tp /\
                        Forall2 (fun pm pq => fst pq = fst pm /\ Q (snd pm) (snd pq)) (snd tp) (snd tq))
          tps topics.

(* (a) The framed request parses under the independent request grammar; it lists the caller's topics and
   partitions in order, and the MessageSet of EVERY partition entry is `set_ok` for that entry's own records:
   a wrapper's value is the compressor's output for the plain set of this partition and of nothing else. *)
Theorem C03_request_sets : forall cz tps acks timeout c corr cid bs,
  codec c -> wf_produce tps -> in_i16 acks -> in_i32 timeout -> in_i32 corr -> ulen bs <= i32_max ->
  (c <> COMPRESSION_NONE -> all_fit tps) ->
  enc_produce_req cz corr cid acks timeout c tps = Ok bs ->
  exists topics,
    parse_frame (frame bs) = Some (produce_hdr corr cid, ProduceRequest acks timeout topics) /\
    entries_rel (set_ok cz c) tps topics.
Proof.
  intros cz tps acks timeout c corr cid bs Hc Hwf Ha Ht Hcorr Hlen Hfit H.
  exists (abs_by_topic (abs_produce_part cz c) tps). split.
  - apply C09_produce_frame; assumption.
  - unfold entries_rel, abs_by_topic. apply Forall2_map_in. intros [t ps] Htp. cbn [fst snd].
    split; [reflexivity|]. apply Forall2_map_in. intros [p recs] Hp. unfold abs_produce_part. cbn [fst snd].
    split; [reflexivity|].
    eapply request_entry_set_ok; try eassumption.
    intros Hne. exact (Hfit Hne t ps p recs Htp Hp).
Qed.

(* ---- (c) the broker's reading, with an independent decompressor ---------------------------------- *)

(* parse strictly; uncompressed: these are the records.  Compressed: exactly ONE message, its attribute is the
   codec, its key is null, its value decompresses, and the result parses strictly. *)
Definition broker_read (dz : Z -> bytes -> option bytes) (c : Z) (sb : bytes) : option (list raw_msg) :=
  match spec_parse sb with
  | None => None
  | Some ms =>
      if c =? COMPRESSION_NONE then Some ms
      else match ms with
           | [w] =>
               if rm_attr w =? c then
                 match rm_key w, rm_value w with
                 | None, Some v => match dz c v with Some plain => spec_parse plain | None => None end
                 | _, _ => None
                 end
               else None
           | _ => None
           end
  end.

(* the decompressor undoes the compressor the client links (flate2 / snap): an assumption about external code *)
Definition inverts (dz : Z -> bytes -> option bytes) (cz : codecs) : Prop :=
  (forall x, dz COMPRESSION_GZIP (gz_compress cz x) = Some x) /\
  (forall x, dz COMPRESSION_SNAPPY (sn_compress cz x) = Some x).

Lemma set_ok_read dz cz c recs sb :
  codec c -> inverts dz cz -> set_ok cz c recs sb -> broker_read dz c sb = Some (map plain_raw recs).
Proof.
  intros Hc [Hgz Hsn] H. unfold set_ok in H. unfold broker_read.
  destruct Hc as [->|[->| ->]].
  - change (COMPRESSION_NONE =? COMPRESSION_NONE) with true in *. cbv iota in H. rewrite H. reflexivity.
  - change (COMPRESSION_GZIP =? COMPRESSION_NONE) with false in *. cbv iota in H.
    destruct H as [plain [_ [Hpp Hw]]]. rewrite Hw. unfold wrapper. cbn [rm_attr rm_key rm_value].
    rewrite Z.eqb_refl. unfold compressed. rewrite Z.eqb_refl. rewrite Hgz. exact Hpp.
  - change (COMPRESSION_SNAPPY =? COMPRESSION_NONE) with false in *. cbv iota in H.
    destruct H as [plain [_ [Hpp Hw]]]. rewrite Hw. unfold wrapper. cbn [rm_attr rm_key rm_value].
    rewrite Z.eqb_refl. unfold compressed. change (COMPRESSION_SNAPPY =? COMPRESSION_GZIP) with false. cbv iota.
    rewrite Hsn. exact Hpp.
Qed.

Theorem C03_request_roundtrip : forall dz cz tps acks timeout c corr cid bs,
  codec c -> inverts dz cz ->
  wf_produce tps -> in_i16 acks -> in_i32 timeout -> in_i32 corr -> ulen bs <= i32_max ->
  (c <> COMPRESSION_NONE -> all_fit tps) ->
  enc_produce_req cz corr cid acks timeout c tps = Ok bs ->
  exists topics,
    parse_frame (frame bs) = Some (produce_hdr corr cid, ProduceRequest acks timeout topics) /\
    entries_rel (fun recs sb => broker_read dz c sb = Some (map plain_raw recs)) tps topics.
Proof.
  intros dz cz tps acks timeout c corr cid bs Hc Hinv Hwf Ha Ht Hcorr Hlen Hfit H.
  destruct (C03_request_sets cz tps acks timeout c corr cid bs Hc Hwf Ha Ht Hcorr Hlen Hfit H) as [topics [Hp Hrel]].
  exists topics. split; [exact Hp|]. unfold entries_rel in *.
  eapply Forall2_weaken; [|exact Hrel]. intros tp tq [Hn Hps]. split; [exact Hn|].
  eapply Forall2_weaken; [|exact Hps]. intros pm pq [Hk Hs]. split; [exact Hk|].
  eapply set_ok_read; eassumption.
Qed.

(* ================================================================================================== *)
(* Part 3: from the caller's batch to the wire ("in order")                                             *)
(* ================================================================================================== *)

(* the records of the batch addressed to topic t / partition p, in batch order, as a broker sees them *)
Definition for_tp (t : bytes) (p : Z) (msgs : list produce_message) : list produce_message :=
  filter (fun m => bytes_eqb (pq_topic m) t && (pq_partition m =? p)) msgs.
Definition sent_to (t : bytes) (p : Z) (msgs : list produce_message) : list raw_msg :=
  map (fun m => {| rm_offset := 0; rm_attr := 0; rm_key := pq_key m; rm_value := pq_value m |}) (for_tp t p msgs).

Lemma entry_partition_in_batch s msgs reqs h tps t ps p recs :
  produce_reqs s msgs [] = Some reqs -> In (h, tps) reqs -> In (t, ps) tps -> In (p, recs) ps ->
  recs = map pmsg_of (for_tp t p msgs) /\ exists m, In m msgs /\ pq_topic m = t /\ pq_partition m = p.
Proof.
  intros H Hh Ht Hp.
  pose proof (C05_entry_is_msgs_for s msgs reqs H h tps t ps p recs Hh Ht Hp) as Hrecs.
  destruct (C05_leader_only s msgs reqs H h tps t ps p recs Hh Ht Hp) as [_ Hne].
  split; [exact Hrecs|]. fold (for_tp t p msgs) in Hrecs.
  destruct (for_tp t p msgs) as [|m r] eqn:E; [subst recs; contradiction Hne; reflexivity|].
  assert (Hin : In m (for_tp t p msgs)) by (rewrite E; left; reflexivity).
  unfold for_tp in Hin. apply filter_In in Hin. destruct Hin as [Hin Hb]. apply andb_true_iff in Hb.
  destruct Hb as [Hb1 Hb2]. apply bytes_eqb_eq in Hb1. apply Z.eqb_eq in Hb2. exists m. auto.
Qed.

Lemma batch_wf_produce s msgs reqs h tps :
  Forall (fun m => in_i32 (pq_partition m)) msgs -> ulen msgs <= i32_max ->
  produce_reqs s msgs [] = Some reqs -> In (h, tps) reqs -> wf_produce tps.
Proof.
  intros Hpart Hlen H Hh. unfold wf_produce. apply Forall_forall. intros [t ps] Ht. cbn [snd].
  rewrite Forall_forall in Hpart. split.
  - apply Forall_forall. intros [p recs] Hp. unfold wf_produce_part. cbn [fst].
    destruct (entry_partition_in_batch s msgs reqs h tps t ps p recs H Hh Ht Hp) as [_ [m [Hm [_ <-]]]].
    apply Hpart. exact Hm.
  - destruct (C05_single_set s msgs reqs H) as [_ Hs]. destruct (Hs h tps Hh) as [_ Hnd]. specialize (Hnd t ps Ht).
    assert (Hincl : incl (map fst ps) (map pq_partition msgs)).
    { intros p Hp. apply in_map_iff in Hp. destruct Hp as [[p' recs] [<- Hp]]. cbn [fst].
      destruct (entry_partition_in_batch s msgs reqs h tps t ps p' recs H Hh Ht Hp) as [_ [m [Hm [_ <-]]]].
      apply in_map. exact Hm. }
    pose proof (NoDup_incl_length Hnd Hincl) as Hle. rewrite !map_length in Hle.
    unfold ulen in *. lia.
Qed.

(* (b) One produce request of a batch, read by the broker: the request built for broker h parses; each topic and
   each partition occurs once; every partition entry is for a partition led by h, and the broker reads out of
   it exactly the records of the batch addressed there, keys and values (null kept) IN BATCH ORDER. *)
Theorem C03_batch_in_order : forall dz cz s msgs reqs h tps acks timeout c corr cid bs,
  codec c -> inverts dz cz ->
  Forall (fun m => in_i32 (pq_partition m)) msgs -> ulen msgs <= i32_max ->
  (c <> COMPRESSION_NONE -> Forall (fun m => fits (pmsg_of m)) msgs) ->
  in_i16 acks -> in_i32 timeout -> in_i32 corr -> ulen bs <= i32_max ->
  produce_reqs s msgs [] = Some reqs -> In (h, tps) reqs ->
  enc_produce_req cz corr cid acks timeout c tps = Ok bs ->
  exists topics,
    parse_frame (frame bs) = Some (produce_hdr corr cid, ProduceRequest acks timeout topics) /\
    NoDup (map fst topics) /\
    forall t ps, In (t, ps) topics ->
      NoDup (map fst ps) /\
      forall p sb, In (p, sb) ps ->
        find_broker s t p = Some h /\ sent_to t p msgs <> [] /\ broker_read dz c sb = Some (sent_to t p msgs).
Proof.
  intros dz cz s msgs reqs h tps acks timeout c corr cid bs Hc Hinv Hpart Hlen Hfit Ha Ht Hcorr Hbs H Hh Henc.
  pose proof (batch_wf_produce s msgs reqs h tps Hpart Hlen H Hh) as Hwf.
  destruct (C05_single_set s msgs reqs H) as [_ Hs]. destruct (Hs h tps Hh) as [Hnd1 Hnd2].
  exists (abs_by_topic (abs_produce_part cz c) tps). split; [apply C09_produce_frame; assumption|].
  unfold abs_by_topic. split.
  { rewrite map_map. cbn [fst]. exact Hnd1. }
  intros t ps' Hin. apply in_map_iff in Hin. destruct Hin as [[t0 ps] [Heq Hin]]. cbn [fst snd] in Heq.
  injection Heq as -> <-. split.
  { rewrite map_map. unfold abs_produce_part. cbn [fst]. exact (Hnd2 t ps Hin). }
  intros p sb Hp. apply in_map_iff in Hp. destruct Hp as [[p0 recs] [Heq Hp]].
  unfold abs_produce_part in Heq. cbn [fst snd] in Heq. injection Heq as -> <-.
  destruct (entry_partition_in_batch s msgs reqs h tps t ps p recs H Hh Hin Hp) as [Hrecs _].
  destruct (C05_leader_only s msgs reqs H h tps t ps p recs Hh Hin Hp) as [Hl Hne].
  assert (Hsent : map plain_raw recs = sent_to t p msgs).
  { rewrite Hrecs. unfold sent_to. rewrite map_map. reflexivity. }
  split; [exact Hl|]. split.
  { rewrite <- Hsent. intros E. apply Hne. destruct recs; [reflexivity|discriminate E]. }
  rewrite <- Hsent. eapply set_ok_read; [exact Hc|exact Hinv|].
  eapply request_entry_set_ok; try eassumption.
  intros Hn. specialize (Hfit Hn). rewrite Forall_forall in Hfit. rewrite Hrecs.
  apply Forall_forall. intros x Hx. apply in_map_iff in Hx. destruct Hx as [m [<- Hm]].
  apply Hfit. unfold for_tp in Hm. apply filter_In in Hm. tauto.
Qed.

(* and nothing of the batch is left out: every record's destination is an entry of the request for its leader *)
Theorem C03_batch_complete : forall s msgs reqs m,
  produce_reqs s msgs [] = Some reqs -> In m msgs ->
  exists h tps ps recs,
    find_broker s (pq_topic m) (pq_partition m) = Some h /\
    In (h, tps) reqs /\ In (pq_topic m, ps) tps /\ In (pq_partition m, recs) ps.
Proof.
  intros s msgs reqs m H Hm.
  destruct (C05_every_record_sent s msgs reqs H m Hm) as [h [Hl Hin]].
  rewrite msgs_for_flat_map in Hin.
  apply in_flat_map in Hin. destruct Hin as [[h' tps] [Hh Hin]].
  destruct (bytes_eqb h' h) eqn:Eh; [|contradiction Hin]. apply bytes_eqb_eq in Eh. subst h'.
  apply in_flat_map in Hin. destruct Hin as [[t' ps] [Ht Hin]].
  destruct (bytes_eqb t' (pq_topic m)) eqn:Et; [|contradiction Hin]. apply bytes_eqb_eq in Et. subst t'.
  apply in_flat_map in Hin. destruct Hin as [[p' recs] [Hp Hin]].
  destruct (p' =? pq_partition m) eqn:Ep; [|contradiction Hin]. apply Z.eqb_eq in Ep. subst p'.
  exists h, tps, ps, recs. auto.
Qed.

(* ---- the call itself: KafkaClient::internal_produce_messages ------------------------------------- *)

Lemma ordered_total {V} (reqs : list (bytes * V)) x :
  exists reqs' x', ordered reqs x = (Ok reqs', x') /\ Permutation reqs' reqs /\ cl x' = cl x /\ env x' = env x.
Proof.
  unfold ordered. destruct reqs as [|r0 rs].
  - exists [], x. split; [reflexivity|]. split; [constructor|split; reflexivity].
  - unfold mbind, pop_hosts, ret. destruct (hostq x) as [|h hq].
    + eexists _, _. split; [reflexivity|]. split; [apply reorder_perm|split; reflexivity].
    + eexists _, _. split; [reflexivity|]. split; [apply reorder_perm|split; reflexivity].
Qed.

Lemma in_i32_next_corr s : in_i32 (fst (next_correlation_id s)).
Proof.
  unfold next_correlation_id. cbn [fst]. unfold CORRELATION_MODULUS, in_i32.
  destruct (Z_le_gt_dec 0 (correlation s + 1)) as [H|H].
  - pose proof (Z.rem_bound_pos_pos (correlation s + 1) (2 ^ 30) ltac:(lia) H). lia.
  - pose proof (Z.rem_bound_pos_neg (correlation s + 1) (2 ^ 30) ltac:(lia) ltac:(lia)). lia.
Qed.

(* the requests one call encodes: what produce_exchange is started with *)
Definition call_payload (x : st) (acks timeout : Z) (tps : produce_tps) : res bytes :=
  enc_produce_req (env x) (fst (next_correlation_id (cs (cl x)))) (Net.client_id (cfg (cl x))) acks timeout
                  (compression (cfg (cl x))) tps.

(* (b) at the level of the call.  Unless a record's partition has no known leader (then nothing is sent,
   C05/C20), internal_produce_messages IS produce_exchange on some list reqs' of per-broker requests, run in a
   state with the same client and codecs; produce_exchange encodes (h, tps) as `call_payload x acks timeout tps`
   (Client.v, by definition).  Every such payload that the encoder accepts is a request whose every partition
   entry reads back, at the broker, as the records of the CALLER'S batch for that partition in the caller's
   order; and every record of the batch has its entry in the request for its leader. *)
Theorem C03_call_in_order : forall dz acks timeout msgs x,
  codec (compression (cfg (cl x))) -> inverts dz (env x) ->
  Forall (fun m => in_i32 (pq_partition m)) msgs -> ulen msgs <= i32_max ->
  (compression (cfg (cl x)) <> COMPRESSION_NONE -> Forall (fun m => fits (pmsg_of m)) msgs) ->
  in_i16 acks -> in_i32 timeout ->
  produce_reqs (cs (cl x)) msgs [] <> None ->
  exists reqs' x',
    internal_produce_messages acks timeout msgs x
      = produce_exchange (fst (next_correlation_id (cs (cl x)))) acks timeout reqs' [] x' /\
    env x' = env x /\ cfg (cl x') = cfg (cl x) /\
    (forall h tps bs, In (h, tps) reqs' -> call_payload x acks timeout tps = Ok bs -> ulen bs <= i32_max ->
       exists topics,
         parse_frame (frame bs)
           = Some (produce_hdr (fst (next_correlation_id (cs (cl x)))) (Net.client_id (cfg (cl x))),
                   ProduceRequest acks timeout topics) /\
         NoDup (map fst topics) /\
         forall t ps, In (t, ps) topics ->
           NoDup (map fst ps) /\
           forall p sb, In (p, sb) ps ->
             find_broker (cs (cl x)) t p = Some h /\ sent_to t p msgs <> [] /\
             broker_read dz (compression (cfg (cl x))) sb = Some (sent_to t p msgs)) /\
    (forall m, In m msgs ->
       exists h tps ps recs, find_broker (cs (cl x)) (pq_topic m) (pq_partition m) = Some h /\
                             In (h, tps) reqs' /\ In (pq_topic m, ps) tps /\ In (pq_partition m, recs) ps).
Proof.
  intros dz acks timeout msgs x Hc Hinv Hpart Hlen Hfit Ha Ht Hsome.
  pose proof (C05_call_unfold acks timeout msgs x) as Hcall.
  destruct (produce_reqs (cs (cl x)) msgs []) as [reqs|] eqn:Hreqs; [|contradiction Hsome; reflexivity].
  destruct (ordered_total reqs (bump_corr x)) as [reqs' [x' [Hord [Hperm [Hcl Henv]]]]].
  exists reqs', x'. split.
  { rewrite Hcall. unfold mbind at 1. rewrite Hord. reflexivity. }
  split; [rewrite Henv; reflexivity|]. split; [rewrite Hcl; reflexivity|]. split.
  - intros h tps bs Hin Henc Hbs. unfold call_payload in Henc.
    assert (Hin' : In (h, tps) reqs) by (eapply Permutation_in; [exact Hperm|exact Hin]).
    eapply (C03_batch_in_order dz (env x) (cs (cl x)) msgs reqs h tps acks timeout); try eassumption.
    apply in_i32_next_corr.
  - intros m Hm. destruct (C03_batch_complete (cs (cl x)) msgs reqs m Hreqs Hm) as [h [tps [ps [recs [Hl [Hh Hrest]]]]]].
    exists h, tps, ps, recs. split; [exact Hl|]. split; [|exact Hrest].
    eapply Permutation_in; [apply Permutation_sym; exact Hperm|exact Hh].
Qed.

(* ---- Producer::send_all ------------------------------------------------------------------------- *)

(* the conclusion of C03_call_in_order about the requests reqs' handed to produce_exchange, as a predicate *)
Definition batch_on_wire (dz : Z -> bytes -> option bytes) (x : st) (acks timeout : Z)
           (msgs : list produce_message) (reqs' : list (bytes * produce_tps)) : Prop :=
  (forall h tps bs, In (h, tps) reqs' -> call_payload x acks timeout tps = Ok bs -> ulen bs <= i32_max ->
     exists topics,
       parse_frame (frame bs)
         = Some (produce_hdr (fst (next_correlation_id (cs (cl x)))) (Net.client_id (cfg (cl x))),
                 ProduceRequest acks timeout topics) /\
       NoDup (map fst topics) /\
       forall t ps, In (t, ps) topics ->
         NoDup (map fst ps) /\
         forall p sb, In (p, sb) ps ->
           find_broker (cs (cl x)) t p = Some h /\ sent_to t p msgs <> [] /\
           broker_read dz (compression (cfg (cl x))) sb = Some (sent_to t p msgs)) /\
  (forall m, In m msgs ->
     exists h tps ps recs, find_broker (cs (cl x)) (pq_topic m) (pq_partition m) = Some h /\
                           In (h, tps) reqs' /\ In (pq_topic m, ps) tps /\ In (pq_partition m, recs) ps).

Lemma reqs_on_wire dz acks timeout msgs x reqs reqs' :
  codec (compression (cfg (cl x))) -> inverts dz (env x) ->
  Forall (fun m => in_i32 (pq_partition m)) msgs -> ulen msgs <= i32_max ->
  (compression (cfg (cl x)) <> COMPRESSION_NONE -> Forall (fun m => fits (pmsg_of m)) msgs) ->
  in_i16 acks -> in_i32 timeout ->
  produce_reqs (cs (cl x)) msgs [] = Some reqs -> Permutation reqs' reqs ->
  batch_on_wire dz x acks timeout msgs reqs'.
Proof.
  intros Hc Hinv Hpart Hlen Hfit Ha Ht Hreqs Hperm. split.
  - intros h tps bs Hin Henc Hbs. unfold call_payload in Henc.
    assert (Hin' : In (h, tps) reqs) by (eapply Permutation_in; [exact Hperm|exact Hin]).
    eapply (C03_batch_in_order dz (env x) (cs (cl x)) msgs reqs h tps acks timeout); try eassumption.
    apply in_i32_next_corr.
  - intros m Hm. destruct (C03_batch_complete (cs (cl x)) msgs reqs m Hreqs Hm) as [h [tps [ps [recs [Hl [Hh Hrest]]]]]].
    exists h, tps, ps, recs. split; [exact Hl|]. split; [|exact Hrest].
    eapply Permutation_in; [apply Permutation_sym; exact Hperm|exact Hh].
Qed.

(* what send_all makes of the caller's records: one message per record, in order; topic kept; key and value kept
   byte-identical except that an EMPTY key / value is sent as null; an explicit partition (>= 0) kept *)
Lemma partitioned_fields parts : forall recs cntr,
  Forall2 (fun r m => pq_topic m = r_topic r /\ pq_key m = to_option (r_key r) /\ pq_value m = to_option (r_value r)
                      /\ (0 <= r_partition r -> pq_partition m = r_partition r))
          recs (fst (partitioned parts cntr recs)).
Proof.
  induction recs as [|r rest IH]; intros cntr; cbn [partitioned]; [constructor|].
  cbv zeta. destruct (partition parts cntr (r_topic r) (r_partition r) (to_option (r_key r))) as [p c'] eqn:E.
  specialize (IH c'). destruct (partitioned parts c' rest) as [ms c]. cbn [fst] in *.
  constructor; [|exact IH]. cbn [pq_topic pq_key pq_value pq_partition]. repeat split.
  intros Hp. unfold partition in E. destruct (0 <=? r_partition r) eqn:E0; [|lia]. injection E as <- _. reflexivity.
Qed.

Lemma Forall2_same_length {A B} (R : A -> B -> Prop) l l' : Forall2 R l l' -> length l = length l'.
Proof. induction 1; cbn [length]; congruence. Qed.

Theorem C03_producer_in_order : forall dz p recs x,
  let msgs := fst (partitioned (p_parts p) (p_cntr p) recs) in
  codec (compression (cfg (cl x))) -> inverts dz (env x) ->
  Forall (fun m => in_i32 (pq_partition m)) msgs -> ulen recs <= i32_max ->
  (compression (cfg (cl x)) <> COMPRESSION_NONE -> Forall (fun m => fits (pmsg_of m)) msgs) ->
  in_i16 (p_acks p) -> in_i32 (p_ack_timeout p) ->
  produce_reqs (cs (cl x)) msgs [] <> None ->
  Forall2 (fun r m => pq_topic m = r_topic r /\ pq_key m = to_option (r_key r) /\ pq_value m = to_option (r_value r)
                      /\ (0 <= r_partition r -> pq_partition m = r_partition r)) recs msgs /\
  exists reqs' x',
    producer_send_all p recs x
      = (let+ cf := produce_exchange (fst (next_correlation_id (cs (cl x)))) (p_acks p) (p_ack_timeout p) reqs' [] in
         ret (cf, producer_set_cntr p (snd (partitioned (p_parts p) (p_cntr p) recs)))) x' /\
    env x' = env x /\ cfg (cl x') = cfg (cl x) /\
    batch_on_wire dz x (p_acks p) (p_ack_timeout p) msgs reqs'.
Proof.
  intros dz p recs x msgs Hc Hinv Hpart Hlen Hfit Ha Ht Hsome.
  pose proof (partitioned_fields (p_parts p) recs (p_cntr p)) as Hf. fold msgs in Hf.
  split; [exact Hf|].
  destruct (produce_reqs (cs (cl x)) msgs []) as [reqs|] eqn:Hreqs; [|contradiction Hsome; reflexivity].
  pose proof (C05_producer_call_unfold p recs x reqs Hreqs) as Hcall.
  destruct (ordered_total reqs (bump_corr x)) as [reqs' [x' [Hord [Hperm [Hcl Henv]]]]].
  exists reqs', x'. split.
  { rewrite Hcall. unfold mbind at 1. rewrite Hord. reflexivity. }
  split; [rewrite Henv; reflexivity|]. split; [rewrite Hcl; reflexivity|].
  eapply reqs_on_wire; try eassumption.
  apply Forall2_same_length in Hf. unfold ulen in *. rewrite <- Hf. exact Hlen.
Qed.

(* ================================================================================================== *)
(* Examples (non-vacuity)                                                                               *)
(* ================================================================================================== *)

(* recognisable compressors and the decompressor that undoes them *)
Definition exx_cz : codecs :=
  {| gz_compress := fun b => x1f :: x8b :: b;
     sn_compress := fun b => xff :: b;
     gz_decompress := fun _ => None;
     debug_build := false |}.
Definition exx_dz (c : Z) (v : bytes) : option bytes :=
  if c =? COMPRESSION_GZIP then match v with _ :: _ :: r => Some r | _ => None end
  else match v with _ :: r => Some r | _ => None end.

Example exx_inverts : inverts exx_dz exx_cz.
Proof. split; intros x; reflexivity. Qed.

(* C03_none_exact / C03_wrapped_exact on the two-record batch of C03Facts (null key + empty value; binary key) *)
Example ex_none_exact :
  enc_partition_produce exx_cz COMPRESSION_NONE 3 ex_recs = Ok (enc_i32 3 ++ enc_i32 58 ++ ex_bytes)
  /\ spec_parse ex_bytes = Some (map plain_raw ex_recs).
Proof. vm_compute. split; reflexivity. Qed.

Example ex_wrapped_exact :
  Forall fits ex_recs
  /\ (exists out, enc_partition_produce exx_cz COMPRESSION_GZIP 3 ex_recs = Ok out)
  /\ (exists out, enc_partition_produce exx_cz COMPRESSION_SNAPPY 3 ex_recs = Ok out).
Proof. split; [exact ex_fits|]. split; eexists; vm_compute; reflexivity. Qed.

(* a request with TWO partitions of the same topic followed by a second topic *)
Definition exx_tps : produce_tps :=
  [ (tag "t1", [ (0, [(None, Some (tag "a")); (Some [x00; xff], Some [])]); (1, [(None, None)]) ]);
    (tag "t2", [ (5, [(Some (tag "k"), Some (tag "b"))]) ]) ].

Definition exx_req (c : Z) : bytes :=
  match enc_produce_req exx_cz 7 (tag "me") 1 1000 c exx_tps with Ok b => b | _ => [] end.

Example ex_request_hyps :
  wf_produce exx_tps /\ all_fit exx_tps
  /\ enc_produce_req exx_cz 7 (tag "me") 1 1000 COMPRESSION_GZIP exx_tps = Ok (exx_req COMPRESSION_GZIP)
  /\ enc_produce_req exx_cz 7 (tag "me") 1 1000 COMPRESSION_SNAPPY exx_tps = Ok (exx_req COMPRESSION_SNAPPY)
  /\ enc_produce_req exx_cz 7 (tag "me") 1 1000 COMPRESSION_NONE exx_tps = Ok (exx_req COMPRESSION_NONE)
  /\ ulen (exx_req COMPRESSION_GZIP) <= i32_max.
Proof.
  split.
  { repeat constructor; vm_compute; intros H; discriminate H. }
  split.
  { intros t ps p recs Ht Hp. cbn [exx_tps In] in Ht.
    repeat (destruct Ht as [Ht|Ht]; [injection Ht as <- <-; cbn [In] in Hp;
              repeat (destruct Hp as [Hp|Hp]; [injection Hp as <- <-; repeat constructor; vm_compute; reflexivity|]);
              contradiction Hp|]).
    contradiction Ht. }
  vm_compute. repeat split; try reflexivity. intros H; discriminate H.
Qed.

(* what C03_request_sets / C03_request_roundtrip conclude, computed: the second partition of t1 carries a wrapper
   around the compressed plain set of ITS OWN single (null, null) record *)
Example ex_request_gzip :
  match parse_frame (frame (exx_req COMPRESSION_GZIP)) with
  | Some (_, ProduceRequest 1 1000 [ (t1, [ (0, sb0); (1, sb1) ]); (t2, [ (5, sb5) ]) ]) =>
      t1 = tag "t1" /\ t2 = tag "t2"
      /\ spec_parse sb1 = Some [wrapper 1 (x1f :: x8b :: ser_message 0 0 None None)]
      /\ broker_read exx_dz 1 sb0 = Some (map plain_raw [(None, Some (tag "a")); (Some [x00; xff], Some [])])
      /\ broker_read exx_dz 1 sb1 = Some (map plain_raw [(None, None)])
      /\ broker_read exx_dz 1 sb5 = Some (map plain_raw [(Some (tag "k"), Some (tag "b"))])
  | _ => False
  end.
Proof. vm_compute. repeat split; reflexivity. Qed.

(* the broker's reading is not vacuous: the value of partition 0's wrapper in front of partition 1's (what a
   scratch buffer shared by the partitions of a topic would send) reads back as the wrong records; a wrong
   attribute, a non-null key or two wrappers are refused *)
Example ex_broker_read_strict :
  let plain0 := ser_message 0 0 None (Some (tag "a")) in
  let plain1 := ser_message 0 0 None None in
  broker_read exx_dz 1 (ser_message 0 1 None (Some (x1f :: x8b :: plain1))) = Some (map plain_raw [(None, None)])
  /\ broker_read exx_dz 1 (ser_message 0 1 None (Some (x1f :: x8b :: plain0 ++ x1f :: x8b :: plain1))) = None
  /\ broker_read exx_dz 1 (ser_message 0 1 None (Some (x1f :: x8b :: plain0 ++ plain1)))
     = Some (map plain_raw [(None, Some (tag "a")); (None, None)])
  /\ broker_read exx_dz 1 (ser_message 0 2 None (Some (x1f :: x8b :: plain1))) = None
  /\ broker_read exx_dz 1 (ser_message 0 1 (Some []) (Some (x1f :: x8b :: plain1))) = None
  /\ broker_read exx_dz 1 (ser_message 0 1 None (Some (x1f :: x8b :: plain1)) ++
                           ser_message 0 1 None (Some (x1f :: x8b :: plain1))) = None
  /\ broker_read exx_dz 1 (ser_message 0 1 None (Some (x1f :: x8b :: firstn 20 plain1))) = None.
Proof. vm_compute. repeat split; reflexivity. Qed.

(* the batch of C20Facts / C05Facts: two brokers, t1 and t2 interleaved, t1/0 addressed twice ("a" then "c") *)
Definition exx_batch_req (c : Z) : bytes :=
  match enc_produce_req exx_cz 7 (tag "me") 1 1000 c
          [ (tag "t1", [ (0, [(None, Some (tag "a")); (None, Some (tag "c"))]); (3, [(None, Some (tag "f"))]) ]);
            (tag "t2", [ (1, [(None, Some (tag "e"))]) ]) ] with Ok b => b | _ => [] end.

Example ex_batch_hyps :
  produce_reqs c20_state c20_batch [] = Some c05_reqs
  /\ Forall (fun m => in_i32 (pq_partition m)) c20_batch /\ ulen c20_batch <= i32_max
  /\ Forall (fun m => fits (pmsg_of m)) c20_batch
  /\ In (tag "h0:9092", [ (tag "t1", [ (0, [(None, Some (tag "a")); (None, Some (tag "c"))]); (3, [(None, Some (tag "f"))]) ]);
                          (tag "t2", [ (1, [(None, Some (tag "e"))]) ]) ]) c05_reqs
  /\ exx_batch_req COMPRESSION_SNAPPY <> [] /\ ulen (exx_batch_req COMPRESSION_SNAPPY) <= i32_max.
Proof.
  split; [vm_compute; reflexivity|].
  split; [repeat constructor; vm_compute; intros H; discriminate H|].
  split; [vm_compute; intros H; discriminate H|].
  split; [repeat constructor; vm_compute; reflexivity|].
  split; [left; reflexivity|].
  split; vm_compute; intros H; discriminate H.
Qed.

Example ex_batch_in_order :
  sent_to (tag "t1") 0 c20_batch = map plain_raw [(None, Some (tag "a")); (None, Some (tag "c"))]
  /\ match parse_frame (frame (exx_batch_req COMPRESSION_SNAPPY)) with
     | Some (_, ProduceRequest 1 1000 [ (_, [ (0, sb0); (3, sb3) ]); (_, [ (1, sb1) ]) ]) =>
         broker_read exx_dz 2 sb0 = Some (sent_to (tag "t1") 0 c20_batch)
         /\ broker_read exx_dz 2 sb3 = Some (sent_to (tag "t1") 3 c20_batch)
         /\ broker_read exx_dz 2 sb1 = Some (sent_to (tag "t2") 1 c20_batch)
     | _ => False
     end.
Proof. vm_compute. repeat split; reflexivity. Qed.

(* the call: a gzip client in the two-broker state of C20Facts, nothing scripted (the theorem does not run the I/O) *)
Definition exx_st : st :=
  {| script := []; trace := []; anyq := []; hostq := [[tag "h1:9092"]]; fetchq := []; entryq := [];
     cl := {| cfg := {| Net.client_id := tag "cid"; hosts := [tag "h0:9092"]; compression := COMPRESSION_GZIP;
                        fetch_max_wait_time := 100; fetch_min_bytes := 4096; fetch_max_bytes_per_partition := 32768;
                        fetch_crc_validation := true; offset_storage := 0; retry_backoff_time := (0, 100000000);
                        retry_max_attempts := 120; idle_timeout := (540, 0) |};
              cs := c20_state; conns := [] |};
     env := exx_cz |}.

Example ex_call_hyps :
  codec (compression (cfg (cl exx_st))) /\ inverts exx_dz (env exx_st)
  /\ Forall (fun m => in_i32 (pq_partition m)) c20_batch /\ ulen c20_batch <= i32_max
  /\ Forall (fun m => fits (pmsg_of m)) c20_batch /\ in_i16 1 /\ in_i32 1000
  /\ produce_reqs (cs (cl exx_st)) c20_batch [] <> None.
Proof.
  split; [right; left; reflexivity|]. split; [exact exx_inverts|].
  split; [repeat constructor; vm_compute; intros H; discriminate H|].
  split; [vm_compute; intros H; discriminate H|].
  split; [repeat constructor; vm_compute; reflexivity|].
  split; [split; vm_compute; intros H; discriminate H|].
  split; [split; vm_compute; intros H; discriminate H|].
  vm_compute. intros H; discriminate H.
Qed.

(* the request for h1 of that call (t2/0 gets "b" then "g", t1/2 the (null, null) record), as the broker reads it *)
Example ex_call_in_order :
  match call_payload exx_st 1 1000 [ (tag "t2", [ (0, [(Some (tag "k"), Some (tag "b")); (None, Some (tag "g"))]) ]);
                                     (tag "t1", [ (2, [(None, None)]) ]) ] with
  | Ok bs =>
      match parse_frame (frame bs) with
      | Some (hd, ProduceRequest 1 1000 [ (_, [ (0, sb0) ]); (_, [ (2, sb2) ]) ]) =>
          correlation_id hd = 8
          /\ broker_read exx_dz 1 sb0 = Some (sent_to (tag "t2") 0 c20_batch)
          /\ sent_to (tag "t2") 0 c20_batch = map plain_raw [(Some (tag "k"), Some (tag "b")); (None, Some (tag "g"))]
          /\ broker_read exx_dz 1 sb2 = Some (sent_to (tag "t1") 2 c20_batch)
      | _ => False
      end
  | _ => False
  end.
Proof. vm_compute. repeat split; reflexivity. Qed.

(* the producer on the records of C05Facts (keyless ones rotate, one is hashed, the last has an empty value -> null) *)
Definition exx_producer : producer :=
  {| p_client := cl exx_st; p_parts := producer_state c20_state; p_cntr := 0; p_ack_timeout := 1000; p_acks := 1 |}.

Example ex_producer_hyps :
  let msgs := fst (partitioned (p_parts exx_producer) (p_cntr exx_producer) c05_recs) in
  Forall (fun m => in_i32 (pq_partition m)) msgs /\ ulen c05_recs <= i32_max
  /\ Forall (fun m => fits (pmsg_of m)) msgs /\ in_i16 (p_acks exx_producer) /\ in_i32 (p_ack_timeout exx_producer)
  /\ produce_reqs (cs (cl exx_st)) msgs [] <> None
  /\ map (fun m => (pq_partition m, pq_key m, pq_value m)) msgs
     = [ (0, None, Some (tag "a")); (0, Some (tag "k"), Some (tag "b")); (2, None, Some (tag "c"));
         (3, None, Some (tag "d")); (0, Some (tag "key"), Some (tag "e")); (0, None, None) ].
Proof.
  cbv zeta.
  split; [repeat constructor; vm_compute; intros H; discriminate H|].
  split; [vm_compute; intros H; discriminate H|].
  split; [repeat constructor; vm_compute; reflexivity|].
  split; [split; vm_compute; intros H; discriminate H|].
  split; [split; vm_compute; intros H; discriminate H|].
  split; [vm_compute; intros H; discriminate H|].
  vm_compute. reflexivity.
Qed.

Print Assumptions C03_none_exact.
Print Assumptions C03_wrapped_exact.
Print Assumptions C03_wrapped_exact_unfit_refuted.
Print Assumptions C03_request_sets.
Print Assumptions C03_request_roundtrip.
Print Assumptions C03_batch_in_order.
Print Assumptions C03_batch_complete.
Print Assumptions C03_call_in_order.
Print Assumptions C03_producer_in_order.
