(* C16, additional theorems: the configuration IN FORCE ON THE WIRE.
   Props/C16.v proves builder -> configuration (last call wins, create copies every field).
   This file proves configuration -> observable behaviour, for every operation of the client, the
   producer and the consumer, and for the two Builder::create functions:

   every byte string an operation hands to a socket is (the unwritten rest of) the frame of a request that
   was ENCODED UNDER THE CONFIGURATION IN FORCE: its header carries the configured client id; a fetch
   request carries the configured max-wait and min-bytes; a produce request the configured compression and
   the caller's / producer's required acks and ack time-out; offset commit / offset fetch requests the API
   version selected by the configured offset storage; group requests the consumer's group.
   No operation changes the configuration.  *)
From KV Require Import Base.Prelude Gen.ErrorCodes Gen.Consts Model.Codecs Model.Requests Model.Responses
                       Model.ClientState Model.Net Model.Client Model.Producer Model.Consumer.
From KV Require Import Proofs.BytesFacts Proofs.NetFacts Proofs.C07Facts Proofs.C19Facts Proofs.C16Facts.
From Coq Require Import ZifyBool.

(* what the caller of an operation fixes besides the configuration: required acks / ack time-out of
   produce requests, the group of group requests *)
Record lims := { okA : Z -> Z -> Prop; okG : bytes -> Prop }.

(* p is a request encoded under configuration g (compression codecs cz) *)
Inductive req_of (g : config) (cz : codecs) (L : lims) (p : bytes) : Prop :=
| RQ_meta corr topics :
    enc_metadata_req corr (client_id g) topics = Ok p -> req_of g cz L p
| RQ_offset corr tps :
    enc_offset_req corr (client_id g) tps = Ok p -> req_of g cz L p
| RQ_list corr tps :
    enc_list_offsets_req corr (client_id g) tps = Ok p -> req_of g cz L p
| RQ_fetch corr tps :
    enc_fetch_req corr (client_id g) (fetch_max_wait_time g) (fetch_min_bytes g) tps = Ok p -> req_of g cz L p
| RQ_produce corr acks timeout tps :
    okA L acks timeout ->
    enc_produce_req cz corr (client_id g) acks timeout (compression g) tps = Ok p -> req_of g cz L p
| RQ_coord corr group :
    okG L group ->
    enc_group_coordinator_req corr (client_id g) group = Ok p -> req_of g cz L p
| RQ_ofetch corr group tps :
    okG L group ->
    enc_offset_fetch_req corr (client_id g) group (fetch_version (offset_storage g)) tps = Ok p -> req_of g cz L p
| RQ_commit corr group tps :
    okG L group ->
    enc_offset_commit_req corr (client_id g) group (commit_version (offset_storage g)) tps = Ok p -> req_of g cz L p.

(* an event is fine: a write offers the rest of the frame of such a request *)
Definition write_ok (g : config) (cz : codecs) (L : lims) (e : ev_op) : Prop :=
  match e with
  | EWrite _ b => exists p pre, req_of g cz L p /\ frame p = pre ++ b
  | _ => True
  end.

(* ================================================================================== *)
(* 1. the invariant and its combinators                                               *)
(* ================================================================================== *)
Section Wire.
  Variable g : config.
  Variable cz : codecs.
  Variable L : lims.

  Definition Rg (s s' : st) : Prop :=
    ops_in (write_ok g cz L) s s' /\ cfg (cl s') = cfg (cl s) /\ env s' = env s.

  (* run under configuration g: every event is fine and the configuration stays *)
  Definition good {A} (m : M A) : Prop :=
    forall s r s', cfg (cl s) = g -> env s = cz -> m s = (r, s') -> Rg s s'.

  Lemma preorder_Rg : preorder Rg.
  Proof.
    split.
    - intros s. split; [apply preorder_ops_in|split; reflexivity].
    - intros s s1 s2 (O1 & C1 & E1) (O2 & C2 & E2). split; [|split; congruence].
      eapply (proj2 (preorder_ops_in _)); eassumption.
  Qed.

  Lemma Rg_quiet s s' :
    script s' = script s -> trace s' = trace s -> cfg (cl s') = cfg (cl s) -> env s' = env s -> Rg s s'.
  Proof.
    intros Hs Ht Hc He. assert (Hseg : seg s s' [] []) by (split; cbn [app rev]; congruence).
    split; [|split; assumption]. split; [exists [], []; exact Hseg|].
    rewrite (seg_performed _ _ _ _ Hseg). constructor.
  Qed.

  Definition quiet {A} (m : M A) : Prop :=
    forall s r s', m s = (r, s') ->
      script s' = script s /\ trace s' = trace s /\ cfg (cl s') = cfg (cl s) /\ env s' = env s.

  Lemma keeps_quiet {A} (m : M A) : quiet m -> keeps Rg m.
  Proof. intros Hq s r s' H. destruct (Hq _ _ _ H) as (A1 & A2 & A3 & A4). apply Rg_quiet; assumption. Qed.

  Lemma good_of_keeps {A} (m : M A) : keeps Rg m -> good m.
  Proof. intros Hk s r s' _ _ H. eapply Hk; exact H. Qed.

  Lemma good_bind {A B} (m : M A) (f : A -> M B) : good m -> (forall a, good (f a)) -> good (mbind m f).
  Proof.
    intros Hm Hf s r s' Hg He H. bind_inv H a s1 H1 H2.
    - pose proof (Hm _ _ _ Hg He H1) as R1. destruct R1 as (O1 & C1 & E1).
      eapply (proj2 preorder_Rg); [split; [exact O1|split; [exact C1|exact E1]]|].
      eapply Hf; [congruence|congruence|exact H2].
    - eapply Hm; eassumption.
    - eapply Hm; eassumption.
  Qed.

  Lemma good_get_client {B} (f : client -> M B) : (forall c, cfg c = g -> good (f c)) -> good (mbind get_client f).
  Proof.
    intros Hf s r s' Hg He H. cbv beta iota delta [mbind get_client] in H.
    eapply (Hf (cl s)); eassumption.
  Qed.

  Lemma good_get_env {B} (f : codecs -> M B) : good (f cz) -> good (mbind get_env f).
  Proof.
    intros Hf s r s' Hg He H. cbv beta iota delta [mbind get_env] in H. rewrite He in H.
    eapply Hf; eassumption.
  Qed.

  Lemma good_mtry {A} (m : M A) : good m -> good (mtry m).
  Proof.
    intros Hm s r s' Hg He H. unfold mtry in H. destruct (m s) as [[a|e|w] s1] eqn:E; inversion H; subst;
      eapply Hm; eassumption.
  Qed.

  Lemma good_with_fuel {A} (f : nat -> M A) : (forall n, good (f n)) -> good (with_fuel f).
  Proof. intros Hf s r s' Hg He H. unfold with_fuel in H. eapply Hf; eassumption. Qed.

  Lemma good_ret {A} (a : A) : good (ret a).
  Proof. apply good_of_keeps, keeps_ret, preorder_Rg. Qed.
  Lemma good_fail {A} e : good (@fail A e).
  Proof. apply good_of_keeps, keeps_fail, preorder_Rg. Qed.
  Lemma good_mpanic {A} w : good (@mpanic A w).
  Proof. apply good_of_keeps, keeps_mpanic, preorder_Rg. Qed.
  Lemma good_lift {A} (x : res A) : good (lift x).
  Proof. apply good_of_keeps, keeps_lift, preorder_Rg. Qed.

  (* ---- the state accessors ------------------------------------------------------------ *)
  Lemma quiet_set_cs x : quiet (set_cs x).
  Proof. intros s r s' H. cbv beta iota delta [set_cs mbind get_client set_client] in H. inversion H; subst. repeat split. Qed.
  Lemma quiet_set_conns x : quiet (set_conns x).
  Proof. intros s r s' H. cbv beta iota delta [set_conns mbind get_client set_client] in H. inversion H; subst. repeat split. Qed.
  Lemma quiet_pop_hosts : quiet pop_hosts.
  Proof. intros s r s' H. unfold pop_hosts in H. destruct (hostq s); inversion H; subst; repeat split. Qed.
  Lemma quiet_pop_entries : quiet pop_entries.
  Proof. intros s r s' H. unfold pop_entries in H. destruct (entryq s); inversion H; subst; repeat split. Qed.
  Lemma quiet_pop_any : quiet pop_any.
  Proof. intros s r s' H. unfold pop_any in H. destruct (anyq s); inversion H; subst; repeat split. Qed.
  Lemma quiet_get_fetch_order h : quiet (get_fetch_order h).
  Proof. intros s r s' H. inversion H; subst; repeat split. Qed.

  Lemma good_set_cs x : good (set_cs x).
  Proof. apply good_of_keeps, keeps_quiet, quiet_set_cs. Qed.

  (* ---- events --------------------------------------------------------------------------- *)
  Lemma keeps_Rg_io op : write_ok g cz L op -> keeps Rg (io op).
  Proof.
    intros Hop s r s' H. split; [eapply keeps_io_ops; [exact Hop|exact H]|].
    destruct (keeps_io_frame _ _ _ _ H) as (_ & _ & _ & _ & Hc & He). split; congruence.
  Qed.

  Lemma keeps_Rg_write_all p (Hp : req_of g cz L p) fuel h :
    forall buf pre, frame p = pre ++ buf -> keeps Rg (write_all fuel h buf).
  Proof.
    induction fuel as [|f IH]; intros [|b0 buf] pre Hpre; cbn [write_all];
      try (apply keeps_ret; exact preorder_Rg); try (apply keeps_fail; exact preorder_Rg).
    apply keeps_bind; [exact preorder_Rg|apply keeps_Rg_io; exists p, pre; split; assumption|].
    intros [ok|k| |e|bs| |e|]; try (apply keeps_fail; exact preorder_Rg).
    - destruct (k <=? 0); [apply keeps_fail; exact preorder_Rg|].
      apply (IH _ (pre ++ firstn (Z.to_nat k) (b0 :: buf))).
      rewrite <- app_assoc, firstn_skipn. exact Hpre.
    - apply (IH _ pre). exact Hpre.
  Qed.

  Lemma keeps_Rg_send_request h payload :
    (forall p, payload = Ok p -> req_of g cz L p) -> keeps Rg (send_request h payload).
  Proof.
    intros Hp s r s' H. unfold send_request in H. destruct payload as [p|e|w];
      cbv beta iota delta [mbind lift] in H.
    - revert s r s' H. unfold send.
      apply keeps_bind; [exact preorder_Rg| |intros _; apply keeps_ret; exact preorder_Rg].
      apply keeps_with_fuel. intros n. apply (keeps_Rg_write_all p (Hp p eq_refl) n h (frame p) []). reflexivity.
    - inversion H; subst. apply preorder_Rg.
    - inversion H; subst. apply preorder_Rg.
  Qed.

  Lemma keeps_Rg_set_conns x : keeps Rg (set_conns x).
  Proof. apply keeps_quiet, quiet_set_conns. Qed.

  Lemma keeps_Rg_get_conn h : keeps Rg (get_conn h).
  Proof.
    apply (keepsR_get_conn _ preorder_Rg h); intros; try (apply keeps_Rg_io; exact I). apply keeps_Rg_set_conns.
  Qed.
  Lemma keeps_Rg_get_response {A} (d : dec A) h : keeps Rg (get_response d h).
  Proof. apply (keepsR_get_response _ preorder_Rg h); intros; apply keeps_Rg_io; exact I. Qed.
  Lemma keeps_Rg_get_response_bytes h : keeps Rg (get_response_bytes h).
  Proof. apply (keepsR_get_response_bytes _ preorder_Rg h); intros; apply keeps_Rg_io; exact I. Qed.

  Lemma keeps_Rg_send_receive {A} (d : dec A) h payload :
    (forall p, payload = Ok p -> req_of g cz L p) -> keeps Rg (send_receive d h payload).
  Proof.
    intros Hp. unfold send_receive.
    apply keeps_bind; [exact preorder_Rg|apply keeps_Rg_get_conn|]. intros _.
    apply keeps_bind; [exact preorder_Rg|apply keeps_Rg_send_request; exact Hp|]. intros _.
    apply keeps_Rg_get_response.
  Qed.

  Lemma keeps_Rg_get_conn_any : keeps Rg get_conn_any.
  Proof.
    unfold get_conn_any. apply keeps_bind; [exact preorder_Rg|apply keeps_get_client; exact preorder_Rg|].
    intros c. destruct (conns c) as [|first rest]; [apply keeps_ret; exact preorder_Rg|].
    apply keeps_bind; [exact preorder_Rg|apply keeps_quiet, quiet_pop_any|]. intros pick. cbv zeta.
    destruct (idle_expired (cfg c)); [|apply keeps_ret; exact preorder_Rg].
    apply keeps_bind; [exact preorder_Rg| |].
    - apply keeps_mtry. apply (keepsR_new_conn _ preorder_Rg). apply keeps_Rg_io; exact I.
    - intros [u|e|w]; try (apply keeps_ret; exact preorder_Rg).
      apply keeps_bind; [exact preorder_Rg| |intros _; apply keeps_ret; exact preorder_Rg].
      apply (keepsR_shutdown _ preorder_Rg). apply keeps_Rg_io; exact I.
  Qed.

  Ltac gk := apply good_of_keeps.
  Ltac kq := apply good_of_keeps, keeps_quiet.

  (* ================================================================================== *)
  (* 2. the client operations                                                           *)
  (* ================================================================================== *)

  Lemma good_next_corr : good next_corr.
  Proof.
    unfold next_corr. apply good_get_client. intros c Hc. destruct (next_correlation_id (cs c)) as [n s0].
    apply good_bind; [apply good_set_cs|intros _; apply good_ret].
  Qed.

  Lemma good_ordered {V} (reqs : list (bytes * V)) : good (ordered reqs).
  Proof.
    unfold ordered. destruct reqs; [apply good_ret|].
    apply good_bind; [kq; apply quiet_pop_hosts|intros o; apply good_ret].
  Qed.

  (* ---- metadata ---- *)
  Lemma good_fetch_metadata_hosts corr topics : forall hs, good (fetch_metadata_hosts corr topics hs).
  Proof.
    induction hs as [|h r IH]; cbn [fetch_metadata_hosts]; [apply good_fail|].
    apply good_get_client. intros c Hc.
    apply good_bind; [gk; apply keeps_mtry, keeps_Rg_get_conn|]. intros rc.
    destruct rc as [u|e|w]; try exact IH.
    apply good_bind.
    - gk. apply keeps_mtry, keeps_Rg_send_request. intros p Hp. rewrite Hc in Hp. eapply RQ_meta; exact Hp.
    - intros rs. destruct rs as [z|e|w]; try exact IH. gk. apply keeps_Rg_get_response.
  Qed.

  Lemma good_fetch_metadata topics : good (fetch_metadata topics).
  Proof.
    unfold fetch_metadata. apply good_bind; [apply good_next_corr|]. intros corr.
    apply good_get_client. intros c Hc. apply good_fetch_metadata_hosts.
  Qed.

  Lemma good_load_metadata topics : good (load_metadata topics).
  Proof.
    unfold load_metadata. apply good_bind; [apply good_fetch_metadata|]. intros md.
    apply good_get_client. intros c Hc. apply good_bind; [apply good_lift|]. intros s0. apply good_set_cs.
  Qed.

  Lemma good_reset_metadata : good reset_metadata.
  Proof. unfold reset_metadata. apply good_get_client. intros c Hc. apply good_set_cs. Qed.

  Lemma good_load_metadata_all : good load_metadata_all.
  Proof. unfold load_metadata_all. apply good_bind; [apply good_reset_metadata|intros _; apply good_load_metadata]. Qed.

  (* ---- offsets ---- *)
  Lemma good_offsets_exchange {P V} enc (d : dec (Z * list (bytes * list P))) (conv : P -> V + Z) pid :
    (forall tps p, enc tps = Ok p -> req_of g cz L p) ->
    forall reqs m, good (offsets_exchange enc d conv pid reqs m).
  Proof.
    intros Henc. induction reqs as [|[h tps] r IH]; intros m; cbn [offsets_exchange]; [apply good_ret|].
    apply good_bind.
    - gk. apply keeps_Rg_send_receive. intros p Hp. eapply Henc; exact Hp.
    - intros [c rtps]. apply good_bind; [apply good_lift|]. intros m'. apply IH.
  Qed.

  Lemma good_fetch_offsets topics time : good (fetch_offsets topics time).
  Proof.
    unfold fetch_offsets. apply good_bind; [apply good_next_corr|]. intros corr.
    apply good_get_client. intros c Hc. apply good_bind; [apply good_ordered|]. intros reqs.
    apply good_offsets_exchange. intros tps p Hp. rewrite Hc in Hp. eapply RQ_offset; exact Hp.
  Qed.

  Lemma good_list_offsets topics time : good (list_offsets topics time).
  Proof.
    unfold list_offsets. apply good_bind; [apply good_next_corr|]. intros corr.
    apply good_get_client. intros c Hc. apply good_bind; [apply good_ordered|]. intros reqs.
    apply good_offsets_exchange. intros tps p Hp. rewrite Hc in Hp. eapply RQ_list; exact Hp.
  Qed.

  Lemma good_fetch_topic_offsets topic time : good (fetch_topic_offsets topic time).
  Proof.
    unfold fetch_topic_offsets. apply good_bind; [apply good_fetch_offsets|]. intros m.
    destruct (assoc_bytes topic m) as [[|x xs]|]; try apply good_fail. apply good_ret.
  Qed.

  (* ---- fetch ---- *)
  Lemma good_fetch_exchange corr : forall reqs acc, good (fetch_exchange corr reqs acc).
  Proof.
    induction reqs as [|[h tps] r IH]; intros acc; cbn [fetch_exchange]; [apply good_ret|].
    apply good_get_client. intros c Hc. apply good_get_env.
    apply good_bind; [kq; apply quiet_get_fetch_order|]. intros fo. cbv zeta.
    apply good_bind; [gk; apply keeps_Rg_get_conn|]. intros _.
    apply good_bind.
    - gk. apply keeps_Rg_send_request. intros p Hp. rewrite Hc in Hp. eapply RQ_fetch; exact Hp.
    - intros _. apply good_bind; [gk; apply keeps_Rg_get_response_bytes|]. intros b.
      apply good_bind; [apply good_lift|]. intros resp. apply IH.
  Qed.

  Lemma good_fetch_messages input : good (fetch_messages input).
  Proof.
    unfold fetch_messages. apply good_bind; [apply good_next_corr|]. intros corr.
    apply good_get_client. intros c Hc. apply good_bind; [apply good_ordered|]. intros reqs.
    apply good_fetch_exchange.
  Qed.

  (* ---- produce ---- *)
  Lemma good_produce_exchange corr acks timeout : okA L acks timeout ->
    forall reqs acc, good (produce_exchange corr acks timeout reqs acc).
  Proof.
    intros HA. induction reqs as [|[h tps] r IH]; intros acc; cbn [produce_exchange]; [apply good_ret|].
    apply good_get_client. intros c Hc. apply good_get_env. cbv zeta.
    assert (Hreq : forall p, enc_produce_req cz corr (client_id (cfg c)) acks timeout (compression (cfg c)) tps = Ok p ->
                             req_of g cz L p).
    { intros p Hp. rewrite Hc in Hp. eapply RQ_produce; [exact HA|exact Hp]. }
    destruct (acks =? 0).
    - apply good_bind; [gk; apply keeps_Rg_get_conn|]. intros _.
      apply good_bind; [gk; apply keeps_Rg_send_request; exact Hreq|]. intros _. apply IH.
    - apply good_bind; [gk; apply keeps_Rg_send_receive; exact Hreq|]. intros [c0 rtps]. apply IH.
  Qed.

  Lemma good_internal_produce_messages acks timeout msgs : okA L acks timeout ->
    good (internal_produce_messages acks timeout msgs).
  Proof.
    intros HA. unfold internal_produce_messages. apply good_bind; [apply good_next_corr|]. intros corr.
    apply good_get_client. intros c Hc. destruct (produce_reqs (cs c) msgs []) as [reqs|]; [|apply good_fail].
    apply good_bind; [apply good_ordered|]. intros reqs'. apply good_produce_exchange. exact HA.
  Qed.

  Lemma good_produce_messages acks ack_timeout msgs :
    (forall t, to_millis_i32 ack_timeout = Ok t -> okA L acks t) ->
    good (produce_messages acks ack_timeout msgs).
  Proof.
    intros HA s r s' Hg He H. unfold produce_messages in H.
    destruct (to_millis_i32 ack_timeout) as [t|e|w] eqn:Et; cbv beta iota delta [mbind lift] in H.
    - eapply good_internal_produce_messages; [apply HA; reflexivity|eassumption..].
    - inversion H; subst. apply preorder_Rg.
    - inversion H; subst. apply preorder_Rg.
  Qed.

  (* ---- group coordinator ---- *)
  Lemma good_group_lookup_attempt req : (forall p, req = Ok p -> req_of g cz L p) -> good (group_lookup_attempt req).
  Proof.
    intros Hreq. unfold group_lookup_attempt. apply good_bind; [gk; apply keeps_Rg_get_conn_any|].
    intros [h|]; [|apply good_mpanic].
    apply good_bind; [gk; apply keeps_Rg_send_request; exact Hreq|]. intros _. gk. apply keeps_Rg_get_response.
  Qed.

  Lemma good_group_lookup_loop group req : (forall p, req = Ok p -> req_of g cz L p) ->
    forall fuel attempt, good (group_lookup_loop fuel group req attempt).
  Proof.
    intros Hreq. induction fuel as [|f IH]; intros attempt; cbn [group_lookup_loop]; [apply good_fail|].
    apply good_bind; [apply good_group_lookup_attempt; exact Hreq|]. intros r.
    destruct (from_protocol (gc_error r)) as [code|].
    - destruct (code =? KC_GroupCoordinatorNotAvailable); [|apply good_fail].
      apply good_get_client. intros c Hc. destruct (attempt <? retry_max_attempts (cfg c)); [apply IH|apply good_fail].
    - apply good_get_client. intros c Hc. destruct (set_group_coordinator (cs c) group r) as [h0 s0].
      apply good_bind; [apply good_set_cs|intros _; apply good_ret].
  Qed.

  Lemma good_get_group_coordinator group : okG L group -> good (get_group_coordinator group).
  Proof.
    intros HG. unfold get_group_coordinator. apply good_get_client. intros c Hc.
    destruct (group_coordinator (cs c) group) as [h|]; [apply good_ret|].
    apply good_bind; [apply good_next_corr|]. intros corr. apply good_with_fuel. intros f.
    apply good_group_lookup_loop. intros p Hp. rewrite Hc in Hp. eapply RQ_coord; [exact HG|exact Hp].
  Qed.

  (* ---- commit ---- *)
  Lemma good_commit_loop group req : okG L group -> (forall p, req = Ok p -> req_of g cz L p) ->
    forall fuel attempt, good (commit_loop fuel group req attempt).
  Proof.
    intros HG Hreq. induction fuel as [|f IH]; intros attempt; cbn [commit_loop]; [apply good_fail|].
    apply good_bind; [apply good_get_group_coordinator; exact HG|]. intros h.
    apply good_bind; [gk; apply keeps_Rg_send_receive; exact Hreq|]. intros [c0 tps].
    destruct (commit_scan tps) as [|code reset|code]; [apply good_ret| |apply good_fail].
    apply good_get_client. intros c Hc.
    apply good_bind; [destruct reset; [apply good_set_cs|apply good_ret]|]. intros _.
    destruct (attempt <? retry_max_attempts (cfg c)); [apply IH|apply good_fail].
  Qed.

  Lemma good_commit_offsets group os : okG L group -> good (commit_offsets group os).
  Proof.
    intros HG. unfold commit_offsets. apply good_get_client. intros c Hc.
    destruct (offset_storage (cfg c) <? 0); [apply good_fail|].
    apply good_bind; [apply good_next_corr|]. intros corr.
    destruct (commit_tps (cs c) os []) as [[|t0 tr]|]; [apply good_ret| |apply good_fail].
    apply good_with_fuel. intros f. apply good_commit_loop; [exact HG|].
    intros p Hp. rewrite Hc in Hp. eapply RQ_commit; [exact HG|exact Hp].
  Qed.

  (* ---- group offset fetch ---- *)
  Lemma good_group_fetch_loop group req : okG L group -> (forall p, req = Ok p -> req_of g cz L p) ->
    forall fuel attempt, good (group_fetch_loop fuel group req attempt).
  Proof.
    intros HG Hreq. induction fuel as [|f IH]; intros attempt; cbn [group_fetch_loop]; [apply good_fail|].
    apply good_bind; [apply good_get_group_coordinator; exact HG|]. intros h.
    apply good_bind; [gk; apply keeps_Rg_send_receive; exact Hreq|]. intros [c0 tps].
    destruct (group_scan tps []) as [[m|[code reset]]|code]; [apply good_ret| |apply good_fail].
    apply good_get_client. intros c Hc.
    apply good_bind; [destruct reset; [apply good_set_cs|apply good_ret]|]. intros _.
    destruct (attempt <? retry_max_attempts (cfg c)); [apply IH|apply good_fail].
  Qed.

  Lemma good_fetch_group_offsets group ps : okG L group -> good (fetch_group_offsets group ps).
  Proof.
    intros HG. unfold fetch_group_offsets. apply good_get_client. intros c Hc.
    destruct (offset_storage (cfg c) <? 0); [apply good_fail|].
    apply good_bind; [apply good_next_corr|]. intros corr.
    destruct (group_fetch_tps (cs c) ps []) as [tps|]; [|apply good_fail].
    apply good_with_fuel. intros f. apply good_group_fetch_loop; [exact HG|].
    intros p Hp. rewrite Hc in Hp. eapply RQ_ofetch; [exact HG|exact Hp].
  Qed.

  Lemma good_fetch_group_topic_offset group topic : okG L group -> good (fetch_group_topic_offset group topic).
  Proof.
    intros HG. unfold fetch_group_topic_offset. apply good_get_client. intros c Hc.
    destruct (offset_storage (cfg c) <? 0); [apply good_fail|].
    apply good_bind; [apply good_next_corr|]. intros corr.
    destruct (partitions_for (cs c) topic) as [ps|]; [|apply good_fail]. cbv zeta.
    apply good_bind; [|intros m; apply good_ret].
    apply good_with_fuel. intros f. apply good_group_fetch_loop; [exact HG|].
    intros p Hp. rewrite Hc in Hp. eapply RQ_ofetch; [exact HG|exact Hp].
  Qed.

  (* ================================================================================== *)
  (* 3. producer and consumer operations                                                *)
  (* ================================================================================== *)

  Lemma good_producer_send_all p recs : okA L (p_acks p) (p_ack_timeout p) -> good (producer_send_all p recs).
  Proof.
    intros HA. unfold producer_send_all. apply good_bind; [apply good_next_corr|]. intros corr.
    apply good_get_client. intros c Hc.
    destruct (send_all_reqs (cs c) (p_parts p) (p_cntr p) recs []) as [[reqs|] cntr']; cbv zeta.
    - apply good_bind; [apply good_ordered|]. intros reqs'.
      apply good_bind; [apply good_produce_exchange; exact HA|]. intros cf. apply good_ret.
    - intros s r s' _ _ H. inversion H; subst. apply preorder_Rg.
  Qed.

  Lemma good_producer_send p r : okA L (p_acks p) (p_ack_timeout p) -> good (producer_send p r).
  Proof.
    intros HA. unfold producer_send. apply good_bind; [apply good_producer_send_all; exact HA|].
    intros [cf p']. destruct (p_acks p =? 0); [apply good_ret|].
    destruct cf as [|[t pcs] [|x y]]; try apply good_mpanic.
    destruct pcs as [|[pp [o|code]] [|x y]]; try apply good_mpanic; [apply good_ret|apply good_fail].
  Qed.

  Lemma good_consumer_fetch k : good (consumer_fetch k).
  Proof.
    unfold consumer_fetch. destruct (k_retry k) as [|tp rest].
    - apply good_bind; [apply good_mtry, good_fetch_messages|]. intros r. apply good_ret.
    - cbv zeta. destruct (tk_get tp (k_fetch k)) as [[off maxb]|]; [|apply good_ret].
      apply good_bind; [apply good_mtry, good_fetch_messages|]. intros r. apply good_ret.
  Qed.

  Lemma good_consumer_poll k : good (consumer_poll k).
  Proof.
    unfold consumer_poll. apply good_bind; [apply good_consumer_fetch|]. intros [[n r] k'].
    apply good_get_client. intros c Hc. apply good_get_env. cbv zeta.
    destruct r as [resps|er|w]; [apply good_ret|apply good_ret|apply good_mpanic].
  Qed.

  Lemma good_commit_consumed k : okG L (k_group k) -> good (commit_consumed k).
  Proof.
    intros HG. unfold commit_consumed. destruct (k_group k) as [|g0 gr] eqn:Eg; [apply good_fail|].
    apply good_get_env.
    apply good_bind; [destruct (dirty_entries k); [apply good_ret|kq; apply quiet_pop_entries]|]. intros order.
    apply good_bind; [apply good_lift|]. intros os.
    apply good_bind; [apply good_commit_offsets; exact HG|]. intros _.
    apply good_get_client. intros c Hc. apply good_ret.
  Qed.

  Lemma good_load_consumed_offsets group asg subs : okG L group -> good (load_consumed_offsets group asg subs).
  Proof.
    intros HG. unfold load_consumed_offsets. destruct group as [|g0 gr]; [apply good_ret|].
    apply good_bind; [apply good_fetch_group_offsets; exact HG|]. intros tpos.
    apply good_get_env. apply good_lift.
  Qed.

  Lemma good_load_partition_offsets topics time : good (load_partition_offsets topics time).
  Proof.
    unfold load_partition_offsets. apply good_bind; [apply good_fetch_offsets|]. intros m. apply good_ret.
  Qed.

  Lemma good_load_fetch_states fb asg subs consumed : good (load_fetch_states fb asg subs consumed).
  Proof.
    unfold load_fetch_states. apply good_get_client. intros c Hc. apply good_get_env. cbv zeta.
    destruct consumed as [|c0 cr].
    - apply good_bind; [apply good_load_partition_offsets|]. intros offsets. apply good_lift.
    - apply good_bind; [apply good_load_partition_offsets|]. intros latest.
      apply good_bind; [apply good_load_partition_offsets|]. intros earliest. apply good_lift.
  Qed.

  Lemma good_consumer_create_rest src b : okG L (cb_group b) -> good (consumer_create_rest src b).
  Proof.
    intros HG. unfold consumer_create_rest.
    apply good_bind; [destruct src; [apply good_load_metadata_all|apply good_ret]|]. intros _. cbv zeta.
    apply good_get_client. intros c1 Hc1. apply good_bind; [apply good_lift|]. intros subs.
    apply good_bind; [apply good_load_consumed_offsets; exact HG|]. intros consumed.
    apply good_bind; [apply good_load_fetch_states|]. intros fetch.
    apply good_get_client. intros c2 Hc2. apply good_ret.
  Qed.

  Lemma good_producer_create_rest src b t : good (producer_create_rest src b t).
  Proof.
    unfold producer_create_rest.
    apply good_bind; [destruct src; [apply good_load_metadata_all|apply good_ret]|]. intros _.
    apply good_get_client. intros c Hc. apply good_ret.
  Qed.
End Wire.

(* ================================================================================== *)
(* 4. what `req_of` says about the bytes                                              *)
(* ================================================================================== *)

(* p = api key, api version, correlation id, the configured client id as a string, then `rest` *)
Definition header_of (g : config) (key ver : Z) (p rest : bytes) : Prop :=
  exists corr c, enc_str (client_id g) = Ok c /\ p = enc_i16 key ++ enc_i16 ver ++ enc_i32 corr ++ c ++ rest.

Lemma enc_header_ok key ver corr cid h : enc_header key ver corr cid = Ok h ->
  exists c, enc_str cid = Ok c /\ h = enc_i16 key ++ enc_i16 ver ++ enc_i32 corr ++ c.
Proof.
  unfold enc_header. destruct (enc_str cid) as [c|e|w]; cbn [bind]; intros H; inversion H; subst.
  exists c. split; reflexivity.
Qed.

Ltac hdr :=
  match goal with Hh : enc_header _ _ _ _ = Ok _ |- _ =>
    let c := fresh "c" in let Hc := fresh "Hc" in
    apply enc_header_ok in Hh; destruct Hh as (c & Hc & ->) end.
Ltac hdr_done corr :=
  match goal with Hc : enc_str _ = Ok ?c |- header_of _ _ _ _ _ =>
    exists corr, c; split; [exact Hc|rewrite <- !app_assoc; reflexivity] end.

Ltac destr_bind H :=
  repeat match type of H with
         | context [bind ?x _] => destruct x eqn:?; cbn [bind] in H; try discriminate H
         end.

Theorem C16_request_bytes : forall g cz L p, req_of g cz L p ->
  exists key ver rest, header_of g key ver p rest /\
    (key = API_KEY_FETCH -> exists body,
        rest = enc_i32 (-1) ++ enc_i32 (fetch_max_wait_time g) ++ enc_i32 (fetch_min_bytes g) ++ body) /\
    (key = API_KEY_PRODUCE -> exists acks timeout body,
        okA L acks timeout /\ rest = enc_i16 acks ++ enc_i32 timeout ++ body) /\
    (key = API_KEY_OFFSET_COMMIT -> ver = commit_version (offset_storage g)) /\
    (key = API_KEY_OFFSET_FETCH -> ver = fetch_version (offset_storage g)) /\
    (In key [API_KEY_GROUP_COORDINATOR; API_KEY_OFFSET_COMMIT; API_KEY_OFFSET_FETCH] ->
        exists group gb body, okG L group /\ enc_str group = Ok gb /\ rest = gb ++ body).
Proof.
  intros g cz L p H.
  assert (Hin : forall k, In k [API_KEY_GROUP_COORDINATOR; API_KEY_OFFSET_COMMIT; API_KEY_OFFSET_FETCH] ->
                          k = 10 \/ k = 8 \/ k = 9).
  { intros k [K|[K|[K|[]]]]; vm_compute in K; auto. }
  destruct H as [corr topics H|corr tps H|corr tps H|corr tps H|corr acks timeout tps HA H
                |corr group HG H|corr group tps HG H|corr group tps HG H].
  - unfold enc_metadata_req in H. destr_bind H. inversion H; subst. hdr.
    exists API_KEY_METADATA, API_VERSION. eexists. split.
    { hdr_done corr. }
    repeat split; intros K; try discriminate K. apply Hin in K. vm_compute in K. lia.
  - unfold enc_offset_req in H. destr_bind H. inversion H; subst. hdr.
    exists API_KEY_OFFSET, API_VERSION. eexists. split.
    { hdr_done corr. }
    repeat split; intros K; try discriminate K. apply Hin in K. vm_compute in K. lia.
  - unfold enc_list_offsets_req in H. destr_bind H. inversion H; subst. hdr.
    exists API_KEY_OFFSET, LIST_OFFSET_V1. eexists. split.
    { hdr_done corr. }
    repeat split; intros K; try discriminate K. apply Hin in K. vm_compute in K. lia.
  - unfold enc_fetch_req in H. destr_bind H. inversion H; subst. hdr.
    exists API_KEY_FETCH, API_VERSION. eexists. split.
    { hdr_done corr. }
    repeat split; intros K; try discriminate K; [eexists; reflexivity|]. apply Hin in K. vm_compute in K. lia.
  - unfold enc_produce_req in H. destr_bind H. inversion H; subst. hdr.
    exists API_KEY_PRODUCE, API_VERSION. eexists. split.
    { hdr_done corr. }
    repeat split; intros K; try discriminate K; [exists acks, timeout; eexists; split; [exact HA|reflexivity]|].
    apply Hin in K. vm_compute in K. lia.
  - unfold enc_group_coordinator_req in H. destr_bind H. inversion H; subst. hdr.
    exists API_KEY_GROUP_COORDINATOR, API_VERSION. eexists. split.
    { hdr_done corr. }
    repeat split; intros K; try discriminate K. exists group. eexists. exists []. split; [exact HG|].
    split; [eassumption|]. rewrite app_nil_r. reflexivity.
  - unfold enc_offset_fetch_req in H. destr_bind H. inversion H; subst. hdr.
    exists API_KEY_OFFSET_FETCH, (fetch_version (offset_storage g)). eexists. split.
    { hdr_done corr. }
    repeat split; intros K; try discriminate K. exists group. eexists. eexists. split; [exact HG|].
    split; [eassumption|]. reflexivity.
  - unfold enc_offset_commit_req in H.
    match type of H with (if ?c then _ else _) = _ => destruct c; [discriminate H|] end.
    destr_bind H. inversion H; subst. hdr.
    exists API_KEY_OFFSET_COMMIT, (commit_version (offset_storage g)). eexists. split.
    { hdr_done corr. }
    repeat split; intros K; try discriminate K. exists group. eexists. eexists. split; [exact HG|].
    split; [eassumption|]. reflexivity.
Qed.

(* the client id a payload carries is determined by the payload *)
Theorem C16_header_client_id_unique : forall g g' key ver key' ver' p rest rest',
  header_of g key ver p rest -> header_of g' key' ver' p rest' -> client_id g = client_id g'.
Proof.
  intros g g' key ver key' ver' p rest rest' (corr & c & Hc & Hp) (corr' & c' & Hc' & Hp').
  unfold enc_str in Hc, Hc'.
  destruct (ulen (client_id g) <=? i16_max) eqn:E1; [|discriminate Hc].
  destruct (ulen (client_id g') <=? i16_max) eqn:E2; [|discriminate Hc'].
  assert (Hcc : c = enc_i16 (ulen (client_id g)) ++ client_id g) by (inversion Hc; reflexivity).
  assert (Hcc' : c' = enc_i16 (ulen (client_id g')) ++ client_id g') by (inversion Hc'; reflexivity).
  clear Hc Hc'. rewrite Hp, Hcc, Hcc' in Hp'. clear Hp Hcc Hcc'.
  assert (L2 : forall z, length (enc_i16 z) = 2%nat) by (intros z; reflexivity).
  assert (L4 : forall z, length (enc_i32 z) = 4%nat) by (intros z; reflexivity).
  assert (D : forall (a1 a2 a3 a4 : bytes), length a1 = length a3 -> a1 ++ a2 = a3 ++ a4 -> a1 = a3 /\ a2 = a4).
  { induction a1 as [|x a1 IH]; intros a2 [|y a3] a4 Hl He; cbn [length app] in *; try discriminate; [auto|].
    inversion He; subst. destruct (IH a2 a3 a4) as [-> ->]; [lia|assumption|auto]. }
  apply D in Hp'; [|rewrite !L2; reflexivity]. destruct Hp' as [_ Hp'].
  apply D in Hp'; [|rewrite !L2; reflexivity]. destruct Hp' as [_ Hp'].
  apply D in Hp'; [|rewrite !L4; reflexivity]. destruct Hp' as [_ Hp'].
  rewrite <- !app_assoc in Hp'.
  apply D in Hp'; [|rewrite !L2; reflexivity]. destruct Hp' as [Hlen Hp'].
  assert (Hl : ulen (client_id g) = ulen (client_id g')).
  { unfold i16_max in *. unfold ulen in *.
    assert (Hd := f_equal be_dec_s Hlen).
    rewrite !dec_enc_i16 in Hd by (unfold in_i16, i16_max in *; lia). exact Hd. }
  apply D in Hp'; [apply Hp'|]. unfold ulen in Hl. lia.
Qed.

(* ================================================================================== *)
(* 5. main theorems: every operation obeys the configuration of the state it starts in *)
(* ================================================================================== *)

Definition Lnone : lims := {| okA := fun _ _ => False; okG := fun _ => False |}.
Definition Lgroup (grp : bytes) : lims := {| okA := fun _ _ => False; okG := eq grp |}.
Definition Lacks (acks timeout : Z) : lims := {| okA := fun a t => a = acks /\ t = timeout; okG := fun _ => False |}.

(* whatever the script answers and whatever the outcome: all events performed are fine with respect to the
   configuration the operation started with, and that configuration is still in place afterwards *)
Definition obeys {A} (L : lims) (m : M A) : Prop :=
  forall s r s', m s = (r, s') ->
    ext s s' /\ Forall (write_ok (cfg (cl s)) (env s) L) (performed s s') /\ cfg (cl s') = cfg (cl s).

Lemma obeys_of_good {A} L (m : M A) : (forall g cz, good g cz L m) -> obeys L m.
Proof.
  intros Hg s r s' H. destruct (Hg (cfg (cl s)) (env s) s r s' eq_refl eq_refl H) as ([E F] & C & _).
  split; [exact E|split; [exact F|exact C]].
Qed.

Theorem C16_client_wire :
  (forall topics, obeys Lnone (load_metadata topics)) /\
  obeys Lnone load_metadata_all /\
  (forall topics time, obeys Lnone (fetch_offsets topics time)) /\
  (forall topics time, obeys Lnone (list_offsets topics time)) /\
  (forall topic time, obeys Lnone (fetch_topic_offsets topic time)) /\
  (forall input, obeys Lnone (fetch_messages input)) /\
  (forall acks d msgs,
      obeys {| okA := fun a t => a = acks /\ to_millis_i32 d = Ok t; okG := fun _ => False |}
            (produce_messages acks d msgs)) /\
  (forall group os, obeys (Lgroup group) (commit_offsets group os)) /\
  (forall group ps, obeys (Lgroup group) (fetch_group_offsets group ps)) /\
  (forall group topic, obeys (Lgroup group) (fetch_group_topic_offset group topic)).
Proof.
  repeat match goal with |- _ /\ _ => split end; intros; apply obeys_of_good; intros g cz.
  - apply good_load_metadata.
  - apply good_load_metadata_all.
  - apply good_fetch_offsets.
  - apply good_list_offsets.
  - apply good_fetch_topic_offsets.
  - apply good_fetch_messages.
  - apply good_produce_messages. intros t Ht. split; [reflexivity|exact Ht].
  - apply good_commit_offsets. reflexivity.
  - apply good_fetch_group_offsets. reflexivity.
  - apply good_fetch_group_topic_offset. reflexivity.
Qed.

(* the producer: required acks and ack time-out are the producer's, the rest the client's *)
Theorem C16_producer_wire : forall p,
  (forall recs, obeys (Lacks (p_acks p) (p_ack_timeout p)) (producer_send_all p recs)) /\
  (forall r, obeys (Lacks (p_acks p) (p_ack_timeout p)) (producer_send p r)).
Proof.
  intros p. split; intros; apply obeys_of_good; intros g cz.
  - apply good_producer_send_all. split; reflexivity.
  - apply good_producer_send. split; reflexivity.
Qed.

(* the consumer: a poll sends nothing but metadata / offset / fetch requests under the configuration;
   a commit only group requests for the consumer's group *)
Theorem C16_consumer_wire : forall k,
  obeys Lnone (consumer_poll k) /\ obeys (Lgroup (k_group k)) (commit_consumed k).
Proof.
  intros k. split; apply obeys_of_good; intros g cz.
  - apply good_consumer_poll.
  - apply good_commit_consumed. reflexivity.
Qed.

(* ---- Builder::create: everything create itself sends is already under the builder's settings ------- *)

Lemma ops_in_st_with_client P s c s' : ops_in P (st_with_client s c) s' -> ops_in P s s'.
Proof. intros H. exact H. Qed.

Lemma producer_create_rest_client src b t s p s' :
  producer_create_rest src b t s = (Ok p, s') -> p_client p = cl s' /\ p_acks p = pb_acks b /\ p_ack_timeout p = t.
Proof.
  intros H. unfold producer_create_rest in H.
  apply C16Facts.mbind_ok in H. destruct H as (u & s1 & _ & H).
  apply C16Facts.mbind_ok in H. destruct H as (c & s2 & Hc & H).
  unfold get_client in Hc. inversion Hc; subst. unfold ret in H. inversion H; subst. repeat split.
Qed.

Theorem C16_producer_create_wire : forall src calls s r s',
  producer_create src calls s = (r, s') ->
  let b := fold_left pbuilder_apply calls (pbuilder_new src) in
  let g := cfg_set_producer (cfg (cl s)) b in
  ext s s' /\ Forall (write_ok g (env s) Lnone) (performed s s') /\ cfg (cl s') = g /\
  (forall p, r = Ok p ->
     cfg (p_client p) = g /\ p_acks p = pb_acks b /\ to_millis_i32 (pb_ack_timeout b) = Ok (p_ack_timeout p)).
Proof.
  intros src calls s r s' H b g.
  destruct (C16_duration_total (pb_ack_timeout b)) as [[t Ht]|Ht].
  - rewrite (C16_producer_create_config src calls s t Ht) in H. fold b in H. fold g in H.
    set (s0 := st_with_client s {| cfg := g; cs := cs (cl s); conns := conns (cl s) |}) in *.
    destruct (good_producer_create_rest g (env s) Lnone src b t s0 r s' eq_refl eq_refl H) as ([E F] & C & _).
    split; [exact E|]. split; [exact F|]. split; [exact C|].
    intros p ->. destruct (producer_create_rest_client _ _ _ _ _ _ H) as (Hp & Ha & Hto).
    rewrite Hp, Ha, Hto. repeat split; [exact C|exact Ht].
  - rewrite (C16_producer_create_invalid_duration src calls s Ht) in H. fold b in H. fold g in H.
    inversion H; subst.
    assert (Hseg : seg s (st_with_client s {| cfg := g; cs := cs (cl s); conns := conns (cl s) |}) [] [])
      by (split; reflexivity).
    split; [exists [], []; exact Hseg|]. rewrite (seg_performed _ _ _ _ Hseg).
    split; [constructor|]. split; [reflexivity|]. intros p Hp. discriminate Hp.
Qed.

Lemma consumer_create_rest_client src b s k s' :
  consumer_create_rest src b s = (Ok k, s') -> k_client k = cl s'.
Proof.
  intros H. unfold consumer_create_rest in H.
  apply C16Facts.mbind_ok in H. destruct H as (u & s1 & _ & H). cbv zeta in H.
  apply C16Facts.mbind_ok in H. destruct H as (c1 & s2 & _ & H).
  apply C16Facts.mbind_ok in H. destruct H as (subs & s3 & _ & H).
  apply C16Facts.mbind_ok in H. destruct H as (consumed & s4 & _ & H).
  apply C16Facts.mbind_ok in H. destruct H as (fetch & s5 & _ & H).
  apply C16Facts.mbind_ok in H. destruct H as (c2 & s6 & Hc & H).
  unfold get_client in Hc. inversion Hc; subst. unfold ret in H. inversion H; subst. reflexivity.
Qed.

Theorem C16_consumer_create_wire : forall src calls s r s' wait,
  consumer_create src calls s = (r, s') ->
  let b := fold_left cbuilder_apply calls (cbuilder_new src) in
  cb_assign b <> [] -> to_millis_i32 (cb_max_wait b) = Ok wait ->
  let g := cfg_set_consumer (cfg (cl s)) b wait in
  ext s s' /\ Forall (write_ok g (env s) (Lgroup (cb_group b))) (performed s s') /\ cfg (cl s') = g /\
  (forall k, r = Ok k -> cfg (k_client k) = g).
Proof.
  intros src calls s r s' wait H b Ha Hw g.
  rewrite (C16_consumer_create_config src calls s wait Ha Hw) in H. fold b in H. fold g in H.
  set (s0 := st_with_client s {| cfg := g; cs := cs (cl s); conns := conns (cl s) |}) in *.
  assert (HG : okG (Lgroup (cb_group b)) (cb_group b)) by reflexivity.
  destruct (good_consumer_create_rest g (env s) (Lgroup (cb_group b)) src b HG s0 r s' eq_refl eq_refl H)
    as ([E F] & C & _).
  split; [exact E|]. split; [exact F|]. split; [exact C|].
  intros k ->. rewrite (consumer_create_rest_client _ _ _ _ _ H). exact C.
Qed.

(* ---- non-vacuity: concrete runs in which requests are written ------------------------------------- *)
Definition exh : bytes := tag "h:9092".
Definition ex_cfg : config :=
  {| client_id := tag "me"; hosts := [exh]; compression := COMPRESSION_NONE; fetch_max_wait_time := 250;
     fetch_min_bytes := 7; fetch_max_bytes_per_partition := 999; fetch_crc_validation := false;
     offset_storage := 1; retry_backoff_time := (0, 0); retry_max_attempts := 3; idle_timeout := (9, 0) |}.
Definition ex_client : client :=
  {| cfg := ex_cfg;
     cs := {| correlation := 0; brokers := [{| b_node := 1; b_host := exh |}];
              topic_partitions := [(tag "t", [0])]; group_coordinators := [(tag "g", 0)] |};
     conns := [] |}.
Definition ex_run (c : client) : st := st_with (ex_st c) [OConn true; OWrote 1000] [].
Definition okp (r : res bytes) : bytes := match r with Ok p => p | _ => [] end.

Example C16_client_wire_ex :
  let s := ex_run ex_client in
  performed s (snd (fetch_messages [{| fq_topic := tag "t"; fq_partition := 0; fq_offset := 5; fq_max_bytes := 0 |}] s))
  = [EConnect exh; EWrite exh (frame (okp (enc_fetch_req 1 (tag "me") 250 7 [(tag "t", [(0, (5, 999))])]))); ERead exh 4]
  /\ performed s (snd (commit_offsets (tag "g") [{| co_topic := tag "t"; co_partition := 0; co_offset := 42 |}] s))
  = [EConnect exh;
     EWrite exh (frame (okp (enc_offset_commit_req 1 (tag "me") (tag "g") OFFSET_COMMIT_V1 [(tag "t", [(0, 42)])])));
     ERead exh 4]
  /\ performed s (snd (produce_messages 1 (1, 500000000)
                         [{| pq_topic := tag "t"; pq_partition := 0; pq_key := None; pq_value := Some (tag "v") |}] s))
  = [EConnect exh;
     EWrite exh (frame (okp (enc_produce_req (env s) 1 (tag "me") 1 1500 COMPRESSION_NONE
                                             [(tag "t", [(0, [(None, Some (tag "v"))])])])));
     ERead exh 4].
Proof. vm_compute. repeat split. Qed.

Example C16_create_wire_ex :
  let s := ex_run (client_new [exh]) in
  performed s (snd (producer_create (inl [exh]) [PWithClientId (tag "me"); PWithPartitioner; PWithAcks 0] s))
  = [EConnect exh; EWrite exh (frame (okp (enc_metadata_req 1 (tag "me") []))); ERead exh 4]
  /\ performed s (snd (consumer_create (inl [exh]) [CWithTopic (tag "t"); CWithClientId (tag "me"); CWithGroup (tag "g")] s))
  = [EConnect exh; EWrite exh (frame (okp (enc_metadata_req 1 (tag "me") []))); ERead exh 4].
Proof. vm_compute. repeat split. Qed.

Example C16_request_bytes_ex :
  req_of ex_cfg (env (ex_run ex_client)) Lnone (okp (enc_fetch_req 1 (tag "me") 250 7 [(tag "t", [(0, (5, 999))])])).
Proof. apply (RQ_fetch _ _ _ _ 1 [(tag "t", [(0, (5, 999))])]). vm_compute. reflexivity. Qed.

(* ================================================================================== *)
(* 6. CRC validation on or off: the flag handed to the decoder is the configured one   *)
(* ================================================================================== *)

Theorem C16_fetch_crc_in_force : forall corr reqs acc s out s',
  fetch_exchange corr reqs acc s = (Ok out, s') ->
  exists resps, out = acc ++ resps /\
    Forall2 (fun (req : bytes * fetch_tps) resp =>
               exists b, fetch_from_vec (env s) decode_depth (fetch_crc_validation (cfg (cl s))) (snd req) b = Ok resp)
            reqs resps.
Proof.
  intros corr. induction reqs as [|[h tps] r IH]; intros acc s out s' H; cbn [fetch_exchange] in H.
  - inversion H; subst. exists []. split; [rewrite app_nil_r; reflexivity|constructor].
  - cbv beta iota delta [mbind get_client get_env get_fetch_order] in H.
    destruct (get_conn h s) as [[u|e|w] s1] eqn:E1; try discriminate H.
    destruct (frame_get_conn _ _ _ _ E1) as (_ & _ & _ & _ & He1 & Hc1 & _).
    match type of H with context [send_request h ?pl s1] => destruct (send_request h pl s1) as [[z|e|w] s2] eqn:E2 end;
      try discriminate H.
    destruct (frame_send_request _ _ _ _ _ E2) as (_ & _ & _ & _ & Hcl2 & He2).
    destruct (get_response_bytes h s2) as [[b|e|w] s3] eqn:E3; try discriminate H.
    destruct (frame_get_response_bytes _ _ _ _ E3) as (_ & _ & _ & _ & Hcl3 & He3).
    unfold lift in H.
    destruct (fetch_from_vec (env s) decode_depth (fetch_crc_validation (cfg (cl s))) tps b) as [resp|e|w] eqn:E4;
      try discriminate H.
    destruct (IH _ _ _ _ H) as (resps & Hout & Hall).
    exists (resp :: resps). split; [rewrite Hout, <- app_assoc; reflexivity|].
    constructor; [exists b; exact E4|].
    assert (Hc : cfg (cl s3) = cfg (cl s)) by (rewrite Hcl3, Hcl2; exact Hc1).
    assert (He : env s3 = env s) by congruence.
    rewrite Hc, He in Hall. exact Hall.
Qed.

(* ... through KafkaClient::fetch_messages *)
Theorem C16_fetch_messages_crc_in_force : forall input s out s',
  fetch_messages input s = (Ok out, s') ->
  exists reqs, Forall2 (fun (req : bytes * fetch_tps) resp =>
               exists b, fetch_from_vec (env s) decode_depth (fetch_crc_validation (cfg (cl s))) (snd req) b = Ok resp)
            reqs out.
Proof.
  intros input s out s' H. unfold fetch_messages in H.
  apply C16Facts.mbind_ok in H. destruct H as (corr & s1 & H1 & H).
  destruct (good_next_corr (cfg (cl s)) (env s) Lnone s _ _ eq_refl eq_refl H1) as (_ & C1 & E1).
  cbv beta iota delta [mbind get_client] in H.
  destruct (ordered (fetch_reqs (cl s1) input) s1) as [[reqs|e|w] s2] eqn:E2; try discriminate H.
  destruct (good_ordered (cfg (cl s)) (env s) Lnone _ s1 _ _ C1 E1 E2) as (_ & C2 & E2').
  destruct (C16_fetch_crc_in_force _ _ _ _ _ _ H) as (resps & Hout & Hall). cbn [app] in Hout. subst resps.
  exists reqs. assert (Hc : cfg (cl s2) = cfg (cl s)) by congruence. assert (He : env s2 = env s) by congruence.
  rewrite Hc, He in Hall. exact Hall.
Qed.

(* ================================================================================== *)
(* 7. from a pre-configured client: a builder without calls leaves the configuration  *)
(* ================================================================================== *)
Theorem C16_producer_from_client : forall c,
  cfg_set_producer (cfg c) (pbuilder_new (inr c)) = cfg c.
Proof. intros [[] s0 cn]. reflexivity. Qed.

Example C16_producer_from_client_ex :
  cfg_set_producer ex_cfg (pbuilder_new (inr ex_client)) = ex_cfg
  /\ compression (cfg_set_producer ex_cfg (fold_left pbuilder_apply [PWithAcks 0; PWithPartitioner] (pbuilder_new (inr ex_client))))
     = compression ex_cfg.
Proof. split; reflexivity. Qed.

(* ================================================================================== *)
(* 8. any order of builder calls                                                      *)
(* ================================================================================== *)
From Coq Require Import Sorting.Permutation.

(* the values the calls give to one option, in call order *)
Definition setters {C T} (sets : C -> option T) (l : list C) : list T :=
  flat_map (fun c => match sets c with Some v => [v] | None => [] end) l.
(* the option is set at most once *)
Definition once {C T} (sets : C -> option T) (l : list C) : Prop := (length (setters sets l) <= 1)%nat.

Section AnyOrder.
  Context {B C T : Type} (apply : B -> C -> B) (proj : B -> T) (sets : C -> option T).
  Hypothesis Hstep : forall b c, proj (apply b c) = match sets c with Some v => v | None => proj b end.

  Lemma last_cons_default (v : T) S d : last (v :: S) d = last S v.
  Proof.
    revert v d. induction S as [|x S IH]; intros v d; [reflexivity|].
    change (last (v :: x :: S) d) with (last (x :: S) d). rewrite (IH x d), (IH x v). reflexivity.
  Qed.

  Lemma proj_fold : forall calls init, proj (fold_left apply calls init) = last (setters sets calls) (proj init).
  Proof.
    induction calls as [|c calls IH]; intros init; [reflexivity|].
    cbn [fold_left]. rewrite IH, Hstep. unfold setters. cbn [flat_map]. fold (setters sets calls).
    destruct (sets c) as [v|]; [|reflexivity]. cbn [app]. rewrite last_cons_default. reflexivity.
  Qed.

  Lemma setters_perm calls1 calls2 :
    Permutation calls1 calls2 -> once sets calls1 -> setters sets calls1 = setters sets calls2.
  Proof.
    intros HP H1. unfold once in H1.
    assert (HS : Permutation (setters sets calls1) (setters sets calls2)) by (apply Permutation_flat_map; exact HP).
    destruct (setters sets calls1) as [|v [|w S]].
    - apply Permutation_nil in HS. symmetry. exact HS.
    - apply Permutation_length_1_inv in HS. symmetry. exact HS.
    - cbn [length] in H1. lia.
  Qed.

  Lemma proj_fold_perm calls1 calls2 init :
    Permutation calls1 calls2 -> once sets calls1 ->
    proj (fold_left apply calls1 init) = proj (fold_left apply calls2 init).
  Proof. intros HP H1. rewrite !proj_fold, (setters_perm _ _ HP H1). reflexivity. Qed.
End AnyOrder.

Definition c_each_once (calls : list cbuilder_call) : Prop :=
  once sets_group calls /\ once sets_fallback calls /\ once sets_max_wait calls /\ once sets_min_bytes calls /\
  once sets_max_bytes calls /\ once sets_retry_limit calls /\ once sets_crc calls /\ once sets_storage calls /\
  once sets_idle calls /\ once sets_client_id calls.

(* two chains that make the same calls (each option at most once) in different orders build the same options;
   the topic assignments are a HashMap in the code, in the model an association list whose order follows the calls *)
Theorem C16_consumer_any_order : forall src calls1 calls2,
  Permutation calls1 calls2 -> c_each_once calls1 ->
  let b1 := fold_left cbuilder_apply calls1 (cbuilder_new src) in
  let b2 := fold_left cbuilder_apply calls2 (cbuilder_new src) in
  cb_group b1 = cb_group b2 /\ cb_fallback b1 = cb_fallback b2 /\ cb_max_wait b1 = cb_max_wait b2 /\
  cb_min_bytes b1 = cb_min_bytes b2 /\ cb_max_bytes b1 = cb_max_bytes b2 /\
  cb_retry_limit b1 = cb_retry_limit b2 /\ cb_crc b1 = cb_crc b2 /\ cb_storage b1 = cb_storage b2 /\
  cb_idle b1 = cb_idle b2 /\ cb_client_id b1 = cb_client_id b2.
Proof.
  intros src calls1 calls2 HP (O1 & O2 & O3 & O4 & O5 & O6 & O7 & O8 & O9 & O10) b1 b2.
  repeat match goal with |- _ /\ _ => split end.
  - apply (proj_fold_perm cbuilder_apply cb_group sets_group); [intros b c; destruct c; reflexivity|exact HP|exact O1].
  - apply (proj_fold_perm cbuilder_apply cb_fallback sets_fallback); [intros b c; destruct c; reflexivity|exact HP|exact O2].
  - apply (proj_fold_perm cbuilder_apply cb_max_wait sets_max_wait); [intros b c; destruct c; reflexivity|exact HP|exact O3].
  - apply (proj_fold_perm cbuilder_apply cb_min_bytes sets_min_bytes); [intros b c; destruct c; reflexivity|exact HP|exact O4].
  - apply (proj_fold_perm cbuilder_apply cb_max_bytes sets_max_bytes); [intros b c; destruct c; reflexivity|exact HP|exact O5].
  - apply (proj_fold_perm cbuilder_apply cb_retry_limit sets_retry_limit); [intros b c; destruct c; reflexivity|exact HP|exact O6].
  - apply (proj_fold_perm cbuilder_apply cb_crc sets_crc); [intros b c; destruct c; reflexivity|exact HP|exact O7].
  - apply (proj_fold_perm cbuilder_apply cb_storage sets_storage); [intros b c; destruct c; reflexivity|exact HP|exact O8].
  - apply (proj_fold_perm cbuilder_apply cb_idle sets_idle); [intros b c; destruct c; reflexivity|exact HP|exact O9].
  - apply (proj_fold_perm cbuilder_apply cb_client_id sets_client_id); [intros b c; destruct c; reflexivity|exact HP|exact O10].
Qed.

(* the two orders of the first seeded change *)
Example C16_consumer_any_order_ex :
  let l1 := [CWithTopic (tag "t"); CWithRetryLimit 16384; CWithMaxBytes 4096] in
  let l2 := [CWithMaxBytes 4096; CWithTopic (tag "t"); CWithRetryLimit 16384] in
  Permutation l1 l2 /\ c_each_once l1
  /\ cb_retry_limit (fold_left cbuilder_apply l1 (cbuilder_new (inl [exh]))) = 16384
  /\ cb_retry_limit (fold_left cbuilder_apply l2 (cbuilder_new (inl [exh]))) = 16384.
Proof.
  cbv zeta. split; [|split; [|split; reflexivity]].
  - apply Permutation_sym. apply (Permutation_cons_app [CWithTopic (tag "t"); CWithRetryLimit 16384] []). reflexivity.
  - unfold c_each_once, once. cbn. lia.
Qed.

Definition p_each_once (calls : list pbuilder_call) : Prop :=
  once psets_compression calls /\ once psets_ack_timeout calls /\ once psets_idle calls /\ once psets_acks calls /\
  once psets_client_id calls.

(* with_partitioner may occur any number of times at any position *)
Theorem C16_producer_any_order : forall src calls1 calls2,
  Permutation calls1 calls2 -> p_each_once calls1 ->
  fold_left pbuilder_apply calls1 (pbuilder_new src) = fold_left pbuilder_apply calls2 (pbuilder_new src).
Proof.
  intros src calls1 calls2 HP (O1 & O2 & O3 & O4 & O5).
  assert (E : forall b b' : pbuilder, pb_compression b = pb_compression b' -> pb_ack_timeout b = pb_ack_timeout b' ->
              pb_idle b = pb_idle b' -> pb_acks b = pb_acks b' -> pb_client_id b = pb_client_id b' -> b = b').
  { intros [] []; cbn; intros; subst; reflexivity. }
  apply E.
  - apply (proj_fold_perm pbuilder_apply pb_compression psets_compression); [intros b c; destruct c; reflexivity|exact HP|exact O1].
  - apply (proj_fold_perm pbuilder_apply pb_ack_timeout psets_ack_timeout); [intros b c; destruct c; reflexivity|exact HP|exact O2].
  - apply (proj_fold_perm pbuilder_apply pb_idle psets_idle); [intros b c; destruct c; reflexivity|exact HP|exact O3].
  - apply (proj_fold_perm pbuilder_apply pb_acks psets_acks); [intros b c; destruct c; reflexivity|exact HP|exact O4].
  - apply (proj_fold_perm pbuilder_apply pb_client_id psets_client_id); [intros b c; destruct c; reflexivity|exact HP|exact O5].
Qed.

Example C16_producer_any_order_ex :
  let l1 := [PWithClientId (tag "me"); PWithPartitioner; PWithAcks 0; PWithPartitioner] in
  let l2 := [PWithPartitioner; PWithAcks 0; PWithPartitioner; PWithClientId (tag "me")] in
  Permutation l1 l2 /\ p_each_once l1
  /\ pb_client_id (fold_left pbuilder_apply l2 (pbuilder_new (inl [exh]))) = Some (tag "me").
Proof.
  cbv zeta. split; [|split; [|reflexivity]].
  - apply (Permutation_cons_append [PWithPartitioner; PWithAcks 0; PWithPartitioner]).
  - unfold p_each_once, once. cbn. lia.
Qed.

Print Assumptions C16_request_bytes.
Print Assumptions C16_header_client_id_unique.
Print Assumptions C16_client_wire.
Print Assumptions C16_producer_wire.
Print Assumptions C16_consumer_wire.
Print Assumptions C16_producer_create_wire.
Print Assumptions C16_consumer_create_wire.
Print Assumptions C16_fetch_crc_in_force.
Print Assumptions C16_fetch_messages_crc_in_force.
Print Assumptions C16_producer_from_client.
Print Assumptions C16_consumer_any_order.
Print Assumptions C16_producer_any_order.
