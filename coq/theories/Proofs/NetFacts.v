(* Generic facts about the scripted-I/O monad of Model/Net.v: every computation only
   consumes a prefix of the script and only extends the trace; frame lemmas; the exact
   shape of the event sequences of write_all / read_exact; fuel sufficiency. *)
From KV Require Import Base.Prelude Gen.Consts Model.Codecs Model.Requests Model.Responses
                       Model.ClientState Model.Net.
From KV Require Import Proofs.BytesFacts.
From Coq Require Import ZifyBool.

(* ================================================================================== *)
(* 1. what a run consumed and performed                                               *)
(* ================================================================================== *)

Definition consumed (s s' : st) : list ev_out :=
  firstn (length (script s) - length (script s')) (script s).
Definition performed (s s' : st) : list ev_op :=
  rev (firstn (length (trace s') - length (trace s)) (trace s')).   (* in execution order *)
Definition steps (s s' : st) : Prop :=
  exists outs ops, script s = outs ++ script s' /\ trace s' = rev ops ++ trace s /\
    (length ops = length outs \/ (script s' = [] /\ length ops = S (length outs))).

(* the two equations of `steps`, with the witnesses exposed *)
Definition seg (s s' : st) (outs : list ev_out) (ops : list ev_op) : Prop :=
  script s = outs ++ script s' /\ trace s' = rev ops ++ trace s.

(* script shrinks by a prefix, trace grows: a preorder *)
Definition ext (s s' : st) : Prop := exists outs ops, seg s s' outs ops.

(* every event performed was answered *)
Definition full (s s' : st) : Prop := exists outs ops, seg s s' outs ops /\ length ops = length outs.

Lemma seg_consumed s s' outs ops : seg s s' outs ops -> consumed s s' = outs.
Proof.
  intros [H _]. unfold consumed. rewrite H, app_length.
  replace (length outs + length (script s') - length (script s'))%nat with (length outs) by lia.
  rewrite firstn_app, Nat.sub_diag, firstn_all, firstn_O, app_nil_r. reflexivity.
Qed.

Lemma seg_performed s s' outs ops : seg s s' outs ops -> performed s s' = ops.
Proof.
  intros [_ H]. unfold performed. rewrite H, app_length, rev_length.
  replace (length ops + length (trace s) - length (trace s))%nat with (length (rev ops))
    by (rewrite rev_length; lia).
  rewrite firstn_app, Nat.sub_diag, firstn_all, firstn_O, app_nil_r. apply rev_involutive.
Qed.

Lemma seg_refl s : seg s s [] [].
Proof. split; reflexivity. Qed.

Lemma seg_trans s s1 s2 o1 p1 o2 p2 :
  seg s s1 o1 p1 -> seg s1 s2 o2 p2 -> seg s s2 (o1 ++ o2) (p1 ++ p2).
Proof.
  intros [H1 H2] [H3 H4]. split.
  - rewrite H1, H3, app_assoc. reflexivity.
  - rewrite H4, H2, rev_app_distr, app_assoc. reflexivity.
Qed.

Lemma ext_seg s s' : ext s s' -> seg s s' (consumed s s') (performed s s').
Proof.
  intros [outs [ops H]]. rewrite (seg_consumed _ _ _ _ H), (seg_performed _ _ _ _ H). exact H.
Qed.

Lemma ext_refl s : ext s s.
Proof. exists [], []. apply seg_refl. Qed.

Lemma ext_trans s s1 s2 : ext s s1 -> ext s1 s2 -> ext s s2.
Proof. intros [o1 [p1 H1]] [o2 [p2 H2]]. exists (o1 ++ o2), (p1 ++ p2). eapply seg_trans; eassumption. Qed.

Lemma performed_app s s1 s2 : ext s s1 -> ext s1 s2 -> performed s s2 = performed s s1 ++ performed s1 s2.
Proof.
  intros H1 H2. apply ext_seg in H1. apply ext_seg in H2.
  exact (seg_performed _ _ _ _ (seg_trans _ _ _ _ _ _ _ H1 H2)).
Qed.

Lemma consumed_app s s1 s2 : ext s s1 -> ext s1 s2 -> consumed s s2 = consumed s s1 ++ consumed s1 s2.
Proof.
  intros H1 H2. apply ext_seg in H1. apply ext_seg in H2.
  exact (seg_consumed _ _ _ _ (seg_trans _ _ _ _ _ _ _ H1 H2)).
Qed.

Lemma performed_refl s : performed s s = [].
Proof. exact (seg_performed _ _ _ _ (seg_refl s)). Qed.
Lemma consumed_refl s : consumed s s = [].
Proof. exact (seg_consumed _ _ _ _ (seg_refl s)). Qed.

Lemma ext_script_le s s' : ext s s' -> (length (script s') <= length (script s))%nat.
Proof. intros [outs [ops [H _]]]. rewrite H, app_length. lia. Qed.

Lemma ext_script_length s s' : ext s s' ->
  length (script s) = (length (consumed s s') + length (script s'))%nat.
Proof. intros H. apply ext_seg in H. destruct H as [H _]. rewrite H at 1. apply app_length. Qed.

Lemma steps_ext s s' : steps s s' -> ext s s'.
Proof. intros [outs [ops [H1 [H2 _]]]]. exists outs, ops. split; assumption. Qed.

Lemma full_steps s s' : full s s' -> steps s s'.
Proof. intros [outs [ops [[H1 H2] H3]]]. exists outs, ops. repeat split; try assumption. left. exact H3. Qed.

Lemma full_ext s s' : full s s' -> ext s s'.
Proof. intros H. apply steps_ext, full_steps, H. Qed.

Lemma full_refl s : full s s.
Proof. exists [], []. split; [apply seg_refl|reflexivity]. Qed.

Lemma full_trans s s1 s2 : full s s1 -> full s1 s2 -> full s s2.
Proof.
  intros [o1 [p1 [H1 L1]]] [o2 [p2 [H2 L2]]]. exists (o1 ++ o2), (p1 ++ p2).
  split; [eapply seg_trans; eassumption|]. rewrite !app_length. lia.
Qed.

Theorem steps_refl : forall s, steps s s.
Proof. intros s. apply full_steps, full_refl. Qed.

(* after a fully answered run, any run composes *)
Lemma full_steps_trans s s1 s2 : full s s1 -> steps s1 s2 -> steps s s2.
Proof.
  intros [o1 [p1 [H1 L1]]] [o2 [p2 [Ha [Hb L2]]]].
  destruct (seg_trans _ _ _ _ _ _ _ H1 (conj Ha Hb)) as [Hc Hd].
  exists (o1 ++ o2), (p1 ++ p2). repeat split; try assumption.
  rewrite !app_length. destruct L2 as [L2|[E L2]]; [left; lia|right; split; [exact E|lia]].
Qed.

(* a run that left its last event unanswered composes with a run that performs nothing *)
Lemma steps_trans_quiet s s1 s2 : steps s s1 -> steps s1 s2 -> trace s2 = trace s1 -> steps s s2.
Proof.
  intros [o1 [p1 [Ha [Hb L1]]]] H2 Ht. pose proof (steps_ext _ _ H2) as He. apply ext_seg in He.
  destruct H2 as [o2 [p2 [Hc [Hd L2]]]].
  assert (p2 = []) as ->.
  { rewrite Hd in Ht. apply (f_equal (@length _)) in Ht. rewrite app_length, rev_length in Ht.
    destruct p2; [reflexivity|cbn [length] in Ht; lia]. }
  assert (o2 = []) as -> by (destruct L2 as [L2|[_ L2]]; destruct o2; cbn [length] in L2; try reflexivity; lia).
  cbn [app] in Hc. exists o1, p1. repeat split.
  - rewrite Ha, Hc. reflexivity.
  - rewrite Ht. exact Hb.
  - rewrite <- Hc. exact L1.
Qed.

(* `steps` as literally defined is NOT transitive: once the script is exhausted every further
   event is recorded unanswered, and a caller that catches the error (mtry) may go on issuing
   events.  Two runs with one dangling event each compose to a run with two. *)
Definition st0 : st :=
  {| script := []; trace := []; anyq := []; hostq := []; fetchq := []; entryq := [];
     cl := {| cfg := {| client_id := []; hosts := []; compression := 0; fetch_max_wait_time := 0;
                        fetch_min_bytes := 0; fetch_max_bytes_per_partition := 0;
                        fetch_crc_validation := false; offset_storage := -1; retry_backoff_time := (0, 0);
                        retry_max_attempts := 0; idle_timeout := (1, 0) |};
              cs := cstate_new; conns := [] |};
     env := {| gz_compress := fun b => b; sn_compress := fun b => b; gz_decompress := fun _ => None;
               debug_build := false |} |}.

Theorem steps_trans_refuted :
  exists s s1 s2, steps s s1 /\ steps s1 s2 /\ ~ steps s s2.
Proof.
  exists st0, (snd (io (EConnect []) st0)), (snd (io (EConnect []) (snd (io (EConnect []) st0)))).
  split; [|split].
  - exists [], [EConnect []]. cbn. repeat split. right. split; reflexivity.
  - exists [], [EConnect []]. cbn. repeat split. right. split; reflexivity.
  - intros [outs [ops [H1 [H2 H3]]]]. cbn in H1, H2.
    destruct outs; [|discriminate]. rewrite app_nil_r in H2.
    apply (f_equal (@length _)) in H2. rewrite rev_length in H2. cbn [length] in *.
    destruct H3 as [H3|[_ H3]]; lia.
Qed.

(* the transitive closure that is true of every computation: the number of events is at least
   the number of answers, and exceeds it only when the script is exhausted *)
Definition steps_le (s s' : st) : Prop :=
  exists outs ops, script s = outs ++ script s' /\ trace s' = rev ops ++ trace s /\
    (length outs <= length ops)%nat /\ ((length outs < length ops)%nat -> script s' = []).

Lemma steps_steps_le s s' : steps s s' -> steps_le s s'.
Proof.
  intros [outs [ops [H1 [H2 H3]]]]. exists outs, ops. repeat split; try assumption.
  - destruct H3 as [H3|[_ H3]]; lia.
  - intros L. destruct H3 as [H3|[H3 _]]; [lia|exact H3].
Qed.

Theorem steps_le_trans s s1 s2 : steps_le s s1 -> steps_le s1 s2 -> steps_le s s2.
Proof.
  intros [o1 [p1 [Ha [Hb [L1 E1]]]]] [o2 [p2 [Hc [Hd [L2 E2]]]]].
  destruct (seg_trans _ _ _ _ _ _ _ (conj Ha Hb) (conj Hc Hd)) as [He Hf].
  exists (o1 ++ o2), (p1 ++ p2). repeat split; try assumption.
  - rewrite !app_length. lia.
  - rewrite !app_length. intros L.
    destruct (Nat.eq_dec (length o2) (length p2)) as [E|E].
    + assert (L' : (length o1 < length p1)%nat) by lia. specialize (E1 L'). rewrite E1 in Hc.
      destruct o2; [|discriminate]. cbn [app] in Hc. symmetry. exact Hc.
    + apply E2. lia.
Qed.

(* ================================================================================== *)
(* 2. Hoare-style combinators                                                         *)
(* ================================================================================== *)

Lemma mbind_inv {A B} (m : M A) (f : A -> M B) s r s' :
  mbind m f s = (r, s') ->
  (exists a s1, m s = (Ok a, s1) /\ f a s1 = (r, s')) \/
  (exists e, m s = (Err e, s') /\ r = Err e) \/
  (exists w, m s = (Panic w, s') /\ r = Panic w).
Proof.
  unfold mbind. destruct (m s) as [[a|e|w] s1]; intros H.
  - left. exists a, s1. split; [reflexivity|exact H].
  - right. left. inversion H; subst. exists e. split; reflexivity.
  - right. right. inversion H; subst. exists w. split; reflexivity.
Qed.

Lemma mbind_ok {A B} (m : M A) (f : A -> M B) s a s1 : m s = (Ok a, s1) -> mbind m f s = f a s1.
Proof. unfold mbind. intros ->. reflexivity. Qed.
Lemma mbind_err {A B} (m : M A) (f : A -> M B) s e s1 : m s = (Err e, s1) -> mbind m f s = (Err e, s1).
Proof. unfold mbind. intros ->. reflexivity. Qed.
Lemma mbind_panic {A B} (m : M A) (f : A -> M B) s w s1 : m s = (Panic w, s1) -> mbind m f s = (Panic w, s1).
Proof. unfold mbind. intros ->. reflexivity. Qed.

Ltac bind_inv H a s1 H1 H2 :=
  apply mbind_inv in H;
  destruct H as [(a & s1 & H1 & H2)|[(a & H1 & H2)|(a & H1 & H2)]].

(* a relation between the state before and after, whatever the outcome *)
Definition keeps {A} (R : st -> st -> Prop) (m : M A) : Prop := forall s r s', m s = (r, s') -> R s s'.

Definition preorder (R : st -> st -> Prop) : Prop :=
  (forall s, R s s) /\ (forall s s1 s2, R s s1 -> R s1 s2 -> R s s2).

Lemma keeps_ret {A} R (a : A) : preorder R -> keeps R (ret a).
Proof. intros [Hr _] s r s' H. inversion H; subst. apply Hr. Qed.
Lemma keeps_fail {A} R e : preorder R -> keeps R (@fail A e).
Proof. intros [Hr _] s r s' H. inversion H; subst. apply Hr. Qed.
Lemma keeps_mpanic {A} R w : preorder R -> keeps R (@mpanic A w).
Proof. intros [Hr _] s r s' H. inversion H; subst. apply Hr. Qed.
Lemma keeps_lift {A} R (x : res A) : preorder R -> keeps R (lift x).
Proof. intros [Hr _] s r s' H. inversion H; subst. apply Hr. Qed.
Lemma keeps_get_client R : preorder R -> keeps R get_client.
Proof. intros [Hr _] s r s' H. inversion H; subst. apply Hr. Qed.
Lemma keeps_get_env R : preorder R -> keeps R get_env.
Proof. intros [Hr _] s r s' H. inversion H; subst. apply Hr. Qed.
Lemma keeps_get_fetch_order R h : preorder R -> keeps R (get_fetch_order h).
Proof. intros [Hr _] s r s' H. inversion H; subst. apply Hr. Qed.
Lemma keeps_bind {A B} R (m : M A) (f : A -> M B) :
  preorder R -> keeps R m -> (forall a, keeps R (f a)) -> keeps R (mbind m f).
Proof.
  intros [_ Ht] Hm Hf s r s' H. bind_inv H a s1 H1 H2.
  - eapply Ht; [eapply Hm; exact H1|eapply Hf; exact H2].
  - eapply Hm; exact H1.
  - eapply Hm; exact H1.
Qed.
Lemma keeps_mtry {A} R (m : M A) : keeps R m -> keeps R (mtry m).
Proof.
  intros Hm s r s' H. unfold mtry in H. destruct (m s) as [[a|e|w] s1] eqn:E; inversion H; subst;
    eapply Hm; exact E.
Qed.
Lemma keeps_with_fuel {A} R (f : nat -> M A) : (forall n, keeps R (f n)) -> keeps R (with_fuel f).
Proof. intros Hf s r s' H. unfold with_fuel in H. eapply Hf; exact H. Qed.
Lemma keeps_weaken {A} (R R' : st -> st -> Prop) (m : M A) :
  (forall s s', R s s' -> R' s s') -> keeps R m -> keeps R' m.
Proof. intros Hw Hm s r s' H. apply Hw. eapply Hm; exact H. Qed.
Lemma keeps_and {A} (R R' : st -> st -> Prop) (m : M A) :
  keeps R m -> keeps R' m -> keeps (fun s s' => R s s' /\ R' s s') m.
Proof. intros H1 H2 s r s' H. split; [eapply H1|eapply H2]; exact H. Qed.

Lemma preorder_ext : preorder ext.
Proof. split; [apply ext_refl|apply ext_trans]. Qed.

(* ---- the frame relations ------------------------------------------------------------- *)
(* nothing but script and trace changes *)
Definition same_but_io (s s' : st) : Prop :=
  anyq s' = anyq s /\ hostq s' = hostq s /\ fetchq s' = fetchq s /\ entryq s' = entryq s /\
  cl s' = cl s /\ env s' = env s.
(* the connection pool may change too *)
Definition same_but_conns (s s' : st) : Prop :=
  anyq s' = anyq s /\ hostq s' = hostq s /\ fetchq s' = fetchq s /\ entryq s' = entryq s /\
  env s' = env s /\ cfg (cl s') = cfg (cl s) /\ cs (cl s') = cs (cl s).
(* the client state, the pool and the get_conn_any choices may change *)
Definition same_cfg (s s' : st) : Prop :=
  hostq s' = hostq s /\ fetchq s' = fetchq s /\ entryq s' = entryq s /\
  env s' = env s /\ cfg (cl s') = cfg (cl s).

Lemma preorder_same_but_io : preorder same_but_io.
Proof.
  split.
  - intros s. repeat split.
  - intros s s1 s2 (A1 & A2 & A3 & A4 & A5 & A6) (B1 & B2 & B3 & B4 & B5 & B6).
    repeat split; congruence.
Qed.
Lemma preorder_same_but_conns : preorder same_but_conns.
Proof.
  split.
  - intros s. repeat split.
  - intros s s1 s2 (A1 & A2 & A3 & A4 & A5 & A6 & A7) (B1 & B2 & B3 & B4 & B5 & B6 & B7).
    repeat split; congruence.
Qed.
Lemma preorder_same_cfg : preorder same_cfg.
Proof.
  split.
  - intros s. repeat split.
  - intros s s1 s2 (A1 & A2 & A3 & A4 & A5) (B1 & B2 & B3 & B4 & B5).
    repeat split; congruence.
Qed.
Lemma same_but_io_conns s s' : same_but_io s s' -> same_but_conns s s'.
Proof. intros (A1 & A2 & A3 & A4 & A5 & A6). repeat split; congruence. Qed.
Lemma same_but_conns_cfg s s' : same_but_conns s s' -> same_cfg s s'.
Proof. intros (A1 & A2 & A3 & A4 & A5 & A6 & A7). repeat split; congruence. Qed.
Lemma same_but_io_cfg s s' : same_but_io s s' -> same_cfg s s'.
Proof. intros H. apply same_but_conns_cfg, same_but_io_conns, H. Qed.

(* ---- outcome-indexed `steps`: only a failed run may leave its last event unanswered ----- *)
Definition stepsR {A} (r : res A) (s s' : st) : Prop :=
  exists outs ops, seg s s' outs ops /\
    (length ops = length outs \/
     ((forall a, r <> Ok a) /\ script s' = [] /\ length ops = S (length outs))).
Definition tracks {A} (m : M A) : Prop := forall s r s', m s = (r, s') -> stepsR r s s'.

Lemma stepsR_steps {A} (r : res A) s s' : stepsR r s s' -> steps s s'.
Proof.
  intros [outs [ops [[H1 H2] H3]]]. exists outs, ops. repeat split; try assumption.
  destruct H3 as [H3|[_ [H3 H4]]]; [left; exact H3|right; split; assumption].
Qed.
Lemma stepsR_ok_full {A} (a : A) s s' : stepsR (Ok a) s s' -> full s s'.
Proof.
  intros [outs [ops [H1 H3]]]. exists outs, ops. split; [exact H1|].
  destruct H3 as [H3|[H3 _]]; [exact H3|]. exfalso. apply (H3 a). reflexivity.
Qed.
Lemma full_stepsR {A} (r : res A) s s' : full s s' -> stepsR r s s'.
Proof. intros [outs [ops [H1 H2]]]. exists outs, ops. split; [exact H1|left; exact H2]. Qed.
Lemma full_stepsR_trans {A} (r : res A) s s1 s2 : full s s1 -> stepsR r s1 s2 -> stepsR r s s2.
Proof.
  intros [o1 [p1 [H1 L1]]] [o2 [p2 [H2 L2]]]. exists (o1 ++ o2), (p1 ++ p2).
  split; [eapply seg_trans; eassumption|]. rewrite !app_length.
  destruct L2 as [L2|[N [E L2]]]; [left; lia|right; repeat split; [exact N|exact E|lia]].
Qed.
Lemma stepsR_retype {A B} (r : res A) (r' : res B) s s' :
  (forall a, r <> Ok a) -> (forall b, r' <> Ok b) -> stepsR r s s' -> stepsR r' s s'.
Proof.
  intros N N' [outs [ops [H1 H3]]]. exists outs, ops. split; [exact H1|].
  destruct H3 as [H3|[_ [H3 H4]]]; [left; exact H3|right; repeat split; assumption].
Qed.

Lemma tracks_steps {A} (m : M A) : tracks m -> keeps steps m.
Proof. intros H s r s' E. eapply stepsR_steps, H, E. Qed.
Lemma tracks_ext {A} (m : M A) : tracks m -> keeps ext m.
Proof. intros H s r s' E. eapply steps_ext, stepsR_steps, H, E. Qed.

Lemma tracks_ret {A} (a : A) : tracks (ret a).
Proof. intros s r s' H. inversion H; subst. apply full_stepsR, full_refl. Qed.
Lemma tracks_fail {A} e : tracks (@fail A e).
Proof. intros s r s' H. inversion H; subst. apply full_stepsR, full_refl. Qed.
Lemma tracks_mpanic {A} w : tracks (@mpanic A w).
Proof. intros s r s' H. inversion H; subst. apply full_stepsR, full_refl. Qed.
Lemma tracks_lift {A} (x : res A) : tracks (lift x).
Proof. intros s r s' H. inversion H; subst. apply full_stepsR, full_refl. Qed.
Lemma tracks_get_client : tracks get_client.
Proof. intros s r s' H. inversion H; subst. apply full_stepsR, full_refl. Qed.
Lemma tracks_set_client c : tracks (set_client c).
Proof.
  intros s r s' H. inversion H; subst. apply full_stepsR. exists [], []. split; [split; reflexivity|reflexivity].
Qed.
Lemma tracks_bind {A B} (m : M A) (f : A -> M B) : tracks m -> (forall a, tracks (f a)) -> tracks (mbind m f).
Proof.
  intros Hm Hf s r s' H. bind_inv H a s1 H1 H2.
  - eapply full_stepsR_trans; [eapply stepsR_ok_full, Hm, H1|eapply Hf, H2].
  - subst r. eapply stepsR_retype; [| |eapply Hm, H1]; intros x; discriminate.
  - subst r. eapply stepsR_retype; [| |eapply Hm, H1]; intros x; discriminate.
Qed.
Lemma tracks_with_fuel {A} (f : nat -> M A) : (forall n, tracks (f n)) -> tracks (with_fuel f).
Proof. intros Hf s r s' H. unfold with_fuel in H. eapply Hf, H. Qed.

Lemma tracks_io op : tracks (io op).
Proof.
  intros s r s' H. unfold io in H. destruct (script s) as [|o rest] eqn:E; inversion H; subst.
  - exists [], [op]. split; [split; [exact E|reflexivity]|].
    right. split; [intros a; discriminate|split; reflexivity].
  - exists [o], [op]. split; [split; [exact E|reflexivity]|]. left. reflexivity.
Qed.

Lemma keeps_io_frame op : keeps same_but_io (io op).
Proof.
  intros s r s' H. unfold io in H. destruct (script s); inversion H; subst; repeat split.
Qed.

Theorem steps_io : forall op s r s', io op s = (r, s') -> steps s s'.
Proof. intros op. apply tracks_steps, tracks_io. Qed.
