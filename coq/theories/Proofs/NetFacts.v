(* Generic facts about the scripted-I/O monad of Model/Net.v: every computation only
   consumes a prefix of the script and only extends the trace; frame lemmas; the exact
   shape of the event sequences of write_all / read_exact; fuel sufficiency. *)
From KV Require Import Base.Prelude Gen.Consts Model.Codecs Model.Requests Model.Responses
                       Model.ClientState Model.Net.
From KV Require Import Proofs.BytesFacts.
From Coq Require Import ZifyBool.

(* ================================================================================== *)
(* 1. what a run consumed and performed                                               *)
(* ================================================================================== *)

Definition consumed (s s' : st) : list ev_out :=
  firstn (length (script s) - length (script s')) (script s).
Definition performed (s s' : st) : list ev_op :=
  rev (firstn (length (trace s') - length (trace s)) (trace s')).   (* in execution order *)
Definition steps (s s' : st) : Prop :=
  exists outs ops, script s = outs ++ script s' /\ trace s' = rev ops ++ trace s /\
    (length ops = length outs \/ (script s' = [] /\ length ops = S (length outs))).

(* the two equations of `steps`, with the witnesses exposed *)
Definition seg (s s' : st) (outs : list ev_out) (ops : list ev_op) : Prop :=
  script s = outs ++ script s' /\ trace s' = rev ops ++ trace s.

(* script shrinks by a prefix, trace grows: a preorder *)
Definition ext (s s' : st) : Prop := exists outs ops, seg s s' outs ops.

(* every event performed was answered *)
Definition full (s s' : st) : Prop := exists outs ops, seg s s' outs ops /\ length ops = length outs.

Lemma seg_consumed s s' outs ops : seg s s' outs ops -> consumed s s' = outs.
Proof.
  intros [H _]. unfold consumed. rewrite H, app_length.
  replace (length outs + length (script s') - length (script s'))%nat with (length outs) by lia.
  rewrite firstn_app, Nat.sub_diag, firstn_all, firstn_O, app_nil_r. reflexivity.
Qed.

Lemma seg_performed s s' outs ops : seg s s' outs ops -> performed s s' = ops.
Proof.
  intros [_ H]. unfold performed. rewrite H, app_length, rev_length.
  replace (length ops + length (trace s) - length (trace s))%nat with (length (rev ops))
    by (rewrite rev_length; lia).
  rewrite firstn_app, Nat.sub_diag, firstn_all, firstn_O, app_nil_r. apply rev_involutive.
Qed.

Lemma seg_refl s : seg s s [] [].
Proof. split; reflexivity. Qed.

Lemma seg_trans s s1 s2 o1 p1 o2 p2 :
  seg s s1 o1 p1 -> seg s1 s2 o2 p2 -> seg s s2 (o1 ++ o2) (p1 ++ p2).
Proof.
  intros [H1 H2] [H3 H4]. split.
  - rewrite H1, H3, app_assoc. reflexivity.
  - rewrite H4, H2, rev_app_distr, app_assoc. reflexivity.
Qed.

Lemma ext_seg s s' : ext s s' -> seg s s' (consumed s s') (performed s s').
Proof.
  intros [outs [ops H]]. rewrite (seg_consumed _ _ _ _ H), (seg_performed _ _ _ _ H). exact H.
Qed.

Lemma ext_refl s : ext s s.
Proof. exists [], []. apply seg_refl. Qed.

Lemma ext_trans s s1 s2 : ext s s1 -> ext s1 s2 -> ext s s2.
Proof. intros [o1 [p1 H1]] [o2 [p2 H2]]. exists (o1 ++ o2), (p1 ++ p2). eapply seg_trans; eassumption. Qed.

Lemma performed_app s s1 s2 : ext s s1 -> ext s1 s2 -> performed s s2 = performed s s1 ++ performed s1 s2.
Proof.
  intros H1 H2. apply ext_seg in H1. apply ext_seg in H2.
  exact (seg_performed _ _ _ _ (seg_trans _ _ _ _ _ _ _ H1 H2)).
Qed.

Lemma consumed_app s s1 s2 : ext s s1 -> ext s1 s2 -> consumed s s2 = consumed s s1 ++ consumed s1 s2.
Proof.
  intros H1 H2. apply ext_seg in H1. apply ext_seg in H2.
  exact (seg_consumed _ _ _ _ (seg_trans _ _ _ _ _ _ _ H1 H2)).
Qed.

Lemma performed_refl s : performed s s = [].
Proof. exact (seg_performed _ _ _ _ (seg_refl s)). Qed.
Lemma consumed_refl s : consumed s s = [].
Proof. exact (seg_consumed _ _ _ _ (seg_refl s)). Qed.

Lemma ext_script_le s s' : ext s s' -> (length (script s') <= length (script s))%nat.
Proof. intros [outs [ops [H _]]]. rewrite H, app_length. lia. Qed.

Lemma ext_script_length s s' : ext s s' ->
  length (script s) = (length (consumed s s') + length (script s'))%nat.
Proof. intros H. apply ext_seg in H. destruct H as [H _]. rewrite H at 1. apply app_length. Qed.

Lemma steps_ext s s' : steps s s' -> ext s s'.
Proof. intros [outs [ops [H1 [H2 _]]]]. exists outs, ops. split; assumption. Qed.

Lemma full_steps s s' : full s s' -> steps s s'.
Proof. intros [outs [ops [[H1 H2] H3]]]. exists outs, ops. repeat split; try assumption. left. exact H3. Qed.

Lemma full_ext s s' : full s s' -> ext s s'.
Proof. intros H. apply steps_ext, full_steps, H. Qed.

Lemma full_refl s : full s s.
Proof. exists [], []. split; [apply seg_refl|reflexivity]. Qed.

Lemma full_trans s s1 s2 : full s s1 -> full s1 s2 -> full s s2.
Proof.
  intros [o1 [p1 [H1 L1]]] [o2 [p2 [H2 L2]]]. exists (o1 ++ o2), (p1 ++ p2).
  split; [eapply seg_trans; eassumption|]. rewrite !app_length. lia.
Qed.

Theorem steps_refl : forall s, steps s s.
Proof. intros s. apply full_steps, full_refl. Qed.

(* after a fully answered run, any run composes *)
Lemma full_steps_trans s s1 s2 : full s s1 -> steps s1 s2 -> steps s s2.
Proof.
  intros [o1 [p1 [H1 L1]]] [o2 [p2 [Ha [Hb L2]]]].
  destruct (seg_trans _ _ _ _ _ _ _ H1 (conj Ha Hb)) as [Hc Hd].
  exists (o1 ++ o2), (p1 ++ p2). repeat split; try assumption.
  rewrite !app_length. destruct L2 as [L2|[E L2]]; [left; lia|right; split; [exact E|lia]].
Qed.

(* a run that left its last event unanswered composes with a run that performs nothing *)
Lemma steps_trans_quiet s s1 s2 : steps s s1 -> steps s1 s2 -> trace s2 = trace s1 -> steps s s2.
Proof.
  intros [o1 [p1 [Ha [Hb L1]]]] H2 Ht. pose proof (steps_ext _ _ H2) as He. apply ext_seg in He.
  destruct H2 as [o2 [p2 [Hc [Hd L2]]]].
  assert (p2 = []) as ->.
  { rewrite Hd in Ht. apply (f_equal (@length _)) in Ht. rewrite app_length, rev_length in Ht.
    destruct p2; [reflexivity|cbn [length] in Ht; lia]. }
  assert (o2 = []) as -> by (destruct L2 as [L2|[_ L2]]; destruct o2; cbn [length] in L2; try reflexivity; lia).
  cbn [app] in Hc. exists o1, p1. repeat split.
  - rewrite Ha, Hc. reflexivity.
  - rewrite Ht. exact Hb.
  - rewrite <- Hc. exact L1.
Qed.

(* `steps` as literally defined is NOT transitive: once the script is exhausted every further
   event is recorded unanswered, and a caller that catches the error (mtry) may go on issuing
   events.  Two runs with one dangling event each compose to a run with two. *)
Definition st0 : st :=
  {| script := []; trace := []; anyq := []; hostq := []; fetchq := []; entryq := [];
     cl := {| cfg := {| client_id := []; hosts := []; compression := 0; fetch_max_wait_time := 0;
                        fetch_min_bytes := 0; fetch_max_bytes_per_partition := 0;
                        fetch_crc_validation := false; offset_storage := -1; retry_backoff_time := (0, 0);
                        retry_max_attempts := 0; idle_timeout := (1, 0) |};
              cs := cstate_new; conns := [] |};
     env := {| gz_compress := fun b => b; sn_compress := fun b => b; gz_decompress := fun _ => None;
               debug_build := false |} |}.

Theorem steps_trans_refuted :
  exists s s1 s2, steps s s1 /\ steps s1 s2 /\ ~ steps s s2.
Proof.
  exists st0, (snd (io (EConnect []) st0)), (snd (io (EConnect []) (snd (io (EConnect []) st0)))).
  split; [|split].
  - exists [], [EConnect []]. cbn. repeat split. right. split; reflexivity.
  - exists [], [EConnect []]. cbn. repeat split. right. split; reflexivity.
  - intros [outs [ops [H1 [H2 H3]]]]. cbn in H1, H2.
    destruct outs; [|discriminate]. rewrite app_nil_r in H2.
    apply (f_equal (@length _)) in H2. rewrite rev_length in H2. cbn [length] in *.
    destruct H3 as [H3|[_ H3]]; lia.
Qed.

(* the transitive closure that is true of every computation: the number of events is at least
   the number of answers, and exceeds it only when the script is exhausted *)
Definition steps_le (s s' : st) : Prop :=
  exists outs ops, script s = outs ++ script s' /\ trace s' = rev ops ++ trace s /\
    (length outs <= length ops)%nat /\ ((length outs < length ops)%nat -> script s' = []).

Lemma steps_steps_le s s' : steps s s' -> steps_le s s'.
Proof.
  intros [outs [ops [H1 [H2 H3]]]]. exists outs, ops. repeat split; try assumption.
  - destruct H3 as [H3|[_ H3]]; lia.
  - intros L. destruct H3 as [H3|[H3 _]]; [lia|exact H3].
Qed.

Theorem steps_le_trans s s1 s2 : steps_le s s1 -> steps_le s1 s2 -> steps_le s s2.
Proof.
  intros [o1 [p1 [Ha [Hb [L1 E1]]]]] [o2 [p2 [Hc [Hd [L2 E2]]]]].
  destruct (seg_trans _ _ _ _ _ _ _ (conj Ha Hb) (conj Hc Hd)) as [He Hf].
  exists (o1 ++ o2), (p1 ++ p2). repeat split; try assumption.
  - rewrite !app_length. lia.
  - rewrite !app_length. intros L.
    destruct (Nat.eq_dec (length o2) (length p2)) as [E|E].
    + assert (L' : (length o1 < length p1)%nat) by lia. specialize (E1 L'). rewrite E1 in Hc.
      destruct o2; [|discriminate]. cbn [app] in Hc. symmetry. exact Hc.
    + apply E2. lia.
Qed.

(* ================================================================================== *)
(* 2. Hoare-style combinators                                                         *)
(* ================================================================================== *)

Lemma mbind_inv {A B} (m : M A) (f : A -> M B) s r s' :
  mbind m f s = (r, s') ->
  (exists a s1, m s = (Ok a, s1) /\ f a s1 = (r, s')) \/
  (exists e, m s = (Err e, s') /\ r = Err e) \/
  (exists w, m s = (Panic w, s') /\ r = Panic w).
Proof.
  unfold mbind. destruct (m s) as [[a|e|w] s1]; intros H.
  - left. exists a, s1. split; [reflexivity|exact H].
  - right. left. inversion H; subst. exists e. split; reflexivity.
  - right. right. inversion H; subst. exists w. split; reflexivity.
Qed.

Lemma mbind_ok {A B} (m : M A) (f : A -> M B) s a s1 : m s = (Ok a, s1) -> mbind m f s = f a s1.
Proof. unfold mbind. intros ->. reflexivity. Qed.
Lemma mbind_err {A B} (m : M A) (f : A -> M B) s e s1 : m s = (Err e, s1) -> mbind m f s = (Err e, s1).
Proof. unfold mbind. intros ->. reflexivity. Qed.
Lemma mbind_panic {A B} (m : M A) (f : A -> M B) s w s1 : m s = (Panic w, s1) -> mbind m f s = (Panic w, s1).
Proof. unfold mbind. intros ->. reflexivity. Qed.

Ltac bind_inv H a s1 H1 H2 :=
  apply mbind_inv in H;
  destruct H as [(a & s1 & H1 & H2)|[(a & H1 & H2)|(a & H1 & H2)]].

(* a relation between the state before and after, whatever the outcome *)
Definition keeps {A} (R : st -> st -> Prop) (m : M A) : Prop := forall s r s', m s = (r, s') -> R s s'.

Definition preorder (R : st -> st -> Prop) : Prop :=
  (forall s, R s s) /\ (forall s s1 s2, R s s1 -> R s1 s2 -> R s s2).

Lemma keeps_ret {A} R (a : A) : preorder R -> keeps R (ret a).
Proof. intros [Hr _] s r s' H. inversion H; subst. apply Hr. Qed.
Lemma keeps_fail {A} R e : preorder R -> keeps R (@fail A e).
Proof. intros [Hr _] s r s' H. inversion H; subst. apply Hr. Qed.
Lemma keeps_mpanic {A} R w : preorder R -> keeps R (@mpanic A w).
Proof. intros [Hr _] s r s' H. inversion H; subst. apply Hr. Qed.
Lemma keeps_lift {A} R (x : res A) : preorder R -> keeps R (lift x).
Proof. intros [Hr _] s r s' H. inversion H; subst. apply Hr. Qed.
Lemma keeps_get_client R : preorder R -> keeps R get_client.
Proof. intros [Hr _] s r s' H. inversion H; subst. apply Hr. Qed.
Lemma keeps_get_env R : preorder R -> keeps R get_env.
Proof. intros [Hr _] s r s' H. inversion H; subst. apply Hr. Qed.
Lemma keeps_get_fetch_order R h : preorder R -> keeps R (get_fetch_order h).
Proof. intros [Hr _] s r s' H. inversion H; subst. apply Hr. Qed.
Lemma keeps_bind {A B} R (m : M A) (f : A -> M B) :
  preorder R -> keeps R m -> (forall a, keeps R (f a)) -> keeps R (mbind m f).
Proof.
  intros [_ Ht] Hm Hf s r s' H. bind_inv H a s1 H1 H2.
  - eapply Ht; [eapply Hm; exact H1|eapply Hf; exact H2].
  - eapply Hm; exact H1.
  - eapply Hm; exact H1.
Qed.
Lemma keeps_mtry {A} R (m : M A) : keeps R m -> keeps R (mtry m).
Proof.
  intros Hm s r s' H. unfold mtry in H. destruct (m s) as [[a|e|w] s1] eqn:E; inversion H; subst;
    eapply Hm; exact E.
Qed.
Lemma keeps_with_fuel {A} R (f : nat -> M A) : (forall n, keeps R (f n)) -> keeps R (with_fuel f).
Proof. intros Hf s r s' H. unfold with_fuel in H. eapply Hf; exact H. Qed.
Lemma keeps_weaken {A} (R R' : st -> st -> Prop) (m : M A) :
  (forall s s', R s s' -> R' s s') -> keeps R m -> keeps R' m.
Proof. intros Hw Hm s r s' H. apply Hw. eapply Hm; exact H. Qed.
Lemma keeps_and {A} (R R' : st -> st -> Prop) (m : M A) :
  keeps R m -> keeps R' m -> keeps (fun s s' => R s s' /\ R' s s') m.
Proof. intros H1 H2 s r s' H. split; [eapply H1|eapply H2]; exact H. Qed.

Lemma preorder_ext : preorder ext.
Proof. split; [apply ext_refl|apply ext_trans]. Qed.

(* ---- the frame relations ------------------------------------------------------------- *)
(* nothing but script and trace changes *)
Definition same_but_io (s s' : st) : Prop :=
  anyq s' = anyq s /\ hostq s' = hostq s /\ fetchq s' = fetchq s /\ entryq s' = entryq s /\
  cl s' = cl s /\ env s' = env s.
(* the connection pool may change too *)
Definition same_but_conns (s s' : st) : Prop :=
  anyq s' = anyq s /\ hostq s' = hostq s /\ fetchq s' = fetchq s /\ entryq s' = entryq s /\
  env s' = env s /\ cfg (cl s') = cfg (cl s) /\ cs (cl s') = cs (cl s).
(* the client state, the pool and the get_conn_any choices may change *)
Definition same_cfg (s s' : st) : Prop :=
  hostq s' = hostq s /\ fetchq s' = fetchq s /\ entryq s' = entryq s /\
  env s' = env s /\ cfg (cl s') = cfg (cl s).

Lemma preorder_same_but_io : preorder same_but_io.
Proof.
  split.
  - intros s. repeat split.
  - intros s s1 s2 (A1 & A2 & A3 & A4 & A5 & A6) (B1 & B2 & B3 & B4 & B5 & B6).
    repeat split; congruence.
Qed.
Lemma preorder_same_but_conns : preorder same_but_conns.
Proof.
  split.
  - intros s. repeat split.
  - intros s s1 s2 (A1 & A2 & A3 & A4 & A5 & A6 & A7) (B1 & B2 & B3 & B4 & B5 & B6 & B7).
    repeat split; congruence.
Qed.
Lemma preorder_same_cfg : preorder same_cfg.
Proof.
  split.
  - intros s. repeat split.
  - intros s s1 s2 (A1 & A2 & A3 & A4 & A5) (B1 & B2 & B3 & B4 & B5).
    repeat split; congruence.
Qed.
Lemma same_but_io_conns s s' : same_but_io s s' -> same_but_conns s s'.
Proof. intros (A1 & A2 & A3 & A4 & A5 & A6). repeat split; congruence. Qed.
Lemma same_but_conns_cfg s s' : same_but_conns s s' -> same_cfg s s'.
Proof. intros (A1 & A2 & A3 & A4 & A5 & A6 & A7). repeat split; congruence. Qed.
Lemma same_but_io_cfg s s' : same_but_io s s' -> same_cfg s s'.
Proof. intros H. apply same_but_conns_cfg, same_but_io_conns, H. Qed.

(* ---- outcome-indexed `steps`: only a failed run may leave its last event unanswered ----- *)
Definition stepsR {A} (r : res A) (s s' : st) : Prop :=
  exists outs ops, seg s s' outs ops /\
    (length ops = length outs \/
     ((forall a, r <> Ok a) /\ script s' = [] /\ length ops = S (length outs))).
Definition tracks {A} (m : M A) : Prop := forall s r s', m s = (r, s') -> stepsR r s s'.

Lemma stepsR_steps {A} (r : res A) s s' : stepsR r s s' -> steps s s'.
Proof.
  intros [outs [ops [[H1 H2] H3]]]. exists outs, ops. repeat split; try assumption.
  destruct H3 as [H3|[_ [H3 H4]]]; [left; exact H3|right; split; assumption].
Qed.
Lemma stepsR_ok_full {A} (a : A) s s' : stepsR (Ok a) s s' -> full s s'.
Proof.
  intros [outs [ops [H1 H3]]]. exists outs, ops. split; [exact H1|].
  destruct H3 as [H3|[H3 _]]; [exact H3|]. exfalso. apply (H3 a). reflexivity.
Qed.
Lemma full_stepsR {A} (r : res A) s s' : full s s' -> stepsR r s s'.
Proof. intros [outs [ops [H1 H2]]]. exists outs, ops. split; [exact H1|left; exact H2]. Qed.
Lemma full_stepsR_trans {A} (r : res A) s s1 s2 : full s s1 -> stepsR r s1 s2 -> stepsR r s s2.
Proof.
  intros [o1 [p1 [H1 L1]]] [o2 [p2 [H2 L2]]]. exists (o1 ++ o2), (p1 ++ p2).
  split; [eapply seg_trans; eassumption|]. rewrite !app_length.
  destruct L2 as [L2|[N [E L2]]]; [left; lia|right; repeat split; [exact N|exact E|lia]].
Qed.
Lemma stepsR_retype {A B} (r : res A) (r' : res B) s s' :
  (forall a, r <> Ok a) -> (forall b, r' <> Ok b) -> stepsR r s s' -> stepsR r' s s'.
Proof.
  intros N N' [outs [ops [H1 H3]]]. exists outs, ops. split; [exact H1|].
  destruct H3 as [H3|[_ [H3 H4]]]; [left; exact H3|right; repeat split; assumption].
Qed.

Lemma tracks_steps {A} (m : M A) : tracks m -> keeps steps m.
Proof. intros H s r s' E. eapply stepsR_steps, H, E. Qed.
Lemma tracks_ext {A} (m : M A) : tracks m -> keeps ext m.
Proof. intros H s r s' E. eapply steps_ext, stepsR_steps, H, E. Qed.

Lemma tracks_ret {A} (a : A) : tracks (ret a).
Proof. intros s r s' H. inversion H; subst. apply full_stepsR, full_refl. Qed.
Lemma tracks_fail {A} e : tracks (@fail A e).
Proof. intros s r s' H. inversion H; subst. apply full_stepsR, full_refl. Qed.
Lemma tracks_mpanic {A} w : tracks (@mpanic A w).
Proof. intros s r s' H. inversion H; subst. apply full_stepsR, full_refl. Qed.
Lemma tracks_lift {A} (x : res A) : tracks (lift x).
Proof. intros s r s' H. inversion H; subst. apply full_stepsR, full_refl. Qed.
Lemma tracks_get_client : tracks get_client.
Proof. intros s r s' H. inversion H; subst. apply full_stepsR, full_refl. Qed.
Lemma tracks_set_client c : tracks (set_client c).
Proof.
  intros s r s' H. inversion H; subst. apply full_stepsR. exists [], []. split; [split; reflexivity|reflexivity].
Qed.
Lemma tracks_bind {A B} (m : M A) (f : A -> M B) : tracks m -> (forall a, tracks (f a)) -> tracks (mbind m f).
Proof.
  intros Hm Hf s r s' H. bind_inv H a s1 H1 H2.
  - eapply full_stepsR_trans; [eapply stepsR_ok_full, Hm, H1|eapply Hf, H2].
  - subst r. eapply stepsR_retype; [| |eapply Hm, H1]; intros x; discriminate.
  - subst r. eapply stepsR_retype; [| |eapply Hm, H1]; intros x; discriminate.
Qed.
Lemma tracks_with_fuel {A} (f : nat -> M A) : (forall n, tracks (f n)) -> tracks (with_fuel f).
Proof. intros Hf s r s' H. unfold with_fuel in H. eapply Hf, H. Qed.

Lemma tracks_io op : tracks (io op).
Proof.
  intros s r s' H. unfold io in H. destruct (script s) as [|o rest] eqn:E; inversion H; subst.
  - exists [], [op]. split; [split; [exact E|reflexivity]|].
    right. split; [intros a; discriminate|split; reflexivity].
  - exists [o], [op]. split; [split; [exact E|reflexivity]|]. left. reflexivity.
Qed.

Lemma keeps_io_frame op : keeps same_but_io (io op).
Proof.
  intros s r s' H. unfold io in H. destruct (script s); inversion H; subst; repeat split.
Qed.

Theorem steps_io : forall op s r s', io op s = (r, s') -> steps s s'.
Proof. intros op. apply tracks_steps, tracks_io. Qed.

(* ================================================================================== *)
(* 3. write_all: the exact shape of its runs                                          *)
(* ================================================================================== *)

(* `wsteps h b ops outs chunks b'`: starting with buffer b, the writes `ops` answered by `outs`
   (each accepting a positive number of bytes, or interrupted) handed over `chunks` and
   leave b' to be written *)
Inductive wsteps (h : bytes) : bytes -> list ev_op -> list ev_out -> list bytes -> bytes -> Prop :=
| WS_nil b : wsteps h b [] [] [] b
| WS_wrote b k ops outs chunks b' : b <> [] -> 0 < k ->
    wsteps h (skipn (Z.to_nat k) b) ops outs chunks b' ->
    wsteps h b (EWrite h b :: ops) (OWrote k :: outs) (firstn (Z.to_nat k) b :: chunks) b'
| WS_intr b ops outs chunks b' : b <> [] -> wsteps h b ops outs chunks b' ->
    wsteps h b (EWrite h b :: ops) (OWriteIntr :: outs) chunks b'.

(* the answer that ends a write_all with an error *)
Definition write_bad (o : ev_out) (r : res unit) : Prop :=
  match o with
  | OWrote k => k <= 0 /\ r = Err (EIo IoWriteZero)
  | OWriteIntr => False
  | OWriteFail e => r = Err (EIo e)
  | _ => r = Err EOutOfScript
  end.

Inductive write_end (h : bytes) (fuel : nat) (s s' : st) (r : res unit)
          (ops : list ev_op) (outs : list ev_out) (b' : bytes) : Prop :=
| WE_done : r = Ok tt -> b' = [] -> seg s s' outs ops -> write_end h fuel s s' r ops outs b'
| WE_bad o : b' <> [] -> write_bad o r -> seg s s' (outs ++ [o]) (ops ++ [EWrite h b']) ->
    write_end h fuel s s' r ops outs b'
| WE_dry : b' <> [] -> r = Err EOutOfScript -> script s' = [] -> seg s s' outs (ops ++ [EWrite h b']) ->
    write_end h fuel s s' r ops outs b'
| WE_fuel : b' <> [] -> r = Err EOutOfFuel -> fuel = length ops -> seg s s' outs ops ->
    write_end h fuel s s' r ops outs b'.

Lemma seg_io_one s o rest op :
  script s = o :: rest -> seg s (st_with s rest (op :: trace s)) [o] [op].
Proof. intros E. split; [exact E|reflexivity]. Qed.

Lemma seg_cons s s1 s' o op outs ops :
  seg s s1 [o] [op] -> seg s1 s' outs ops -> seg s s' (o :: outs) (op :: ops).
Proof. intros H1 H2. exact (seg_trans _ _ _ _ _ _ _ H1 H2). Qed.

Lemma write_end_cons h f s s1 s' r o op ops outs b' :
  seg s s1 [o] [op] -> write_end h f s1 s' r ops outs b' -> write_end h (S f) s s' r (op :: ops) (o :: outs) b'.
Proof.
  intros H1 [Hr Hb H2|o' Hb Hbad H2|Hb Hr Hs H2|Hb Hr Hf H2].
  - apply WE_done; [exact Hr|exact Hb|]. eapply seg_cons; eassumption.
  - eapply WE_bad; [exact Hb|exact Hbad|]. cbn [app]. eapply seg_cons; eassumption.
  - apply WE_dry; [exact Hb|exact Hr|exact Hs|]. cbn [app]. eapply seg_cons; eassumption.
  - apply WE_fuel; [exact Hb|exact Hr|cbn [length]; congruence|]. eapply seg_cons; eassumption.
Qed.

Lemma same_but_io_st_with s sc tr : same_but_io s (st_with s sc tr).
Proof. repeat split. Qed.

Lemma write_all_run fuel h : forall buf s r s', write_all fuel h buf s = (r, s') ->
  same_but_io s s' /\
  exists ops outs chunks b', wsteps h buf ops outs chunks b' /\ write_end h fuel s s' r ops outs b'.
Proof.
  induction fuel as [|f IH]; intros buf s r s' H.
  - destruct buf as [|b0 buf]; cbn [write_all] in H; inversion H; subst.
    + split; [apply preorder_same_but_io|]. exists [], [], [], []. split; [constructor|].
      apply WE_done; [reflexivity|reflexivity|apply seg_refl].
    + split; [apply preorder_same_but_io|]. exists [], [], [], (b0 :: buf). split; [constructor|].
      apply WE_fuel; [discriminate|reflexivity|reflexivity|apply seg_refl].
  - destruct buf as [|b0 buf]; cbn [write_all] in H.
    + inversion H; subst. split; [apply preorder_same_but_io|]. exists [], [], [], []. split; [constructor|].
      apply WE_done; [reflexivity|reflexivity|apply seg_refl].
    + set (b := b0 :: buf) in *. assert (Hne : b <> []) by discriminate.
      unfold mbind at 1 in H. unfold io in H. destruct (script s) as [|o rest] eqn:E.
      * inversion H; subst. split; [apply same_but_io_st_with|]. exists [], [], [], b. split; [constructor|].
        apply WE_dry; [exact Hne|reflexivity|reflexivity|]. split; [exact E|reflexivity].
      * pose proof (seg_io_one s o rest (EWrite h b) E) as Hseg.
        set (s1 := st_with s rest (EWrite h b :: trace s)) in *.
        assert (Hbad : forall r0, write_bad o r0 -> (r0, s1) = (r, s') ->
                  same_but_io s s' /\ exists ops outs chunks b',
                    wsteps h b ops outs chunks b' /\ write_end h (S f) s s' r ops outs b').
        { intros r0 Hb Hq. inversion Hq; subst. split; [apply same_but_io_st_with|].
          exists [], [], [], b. split; [constructor|]. eapply WE_bad; [exact Hne|exact Hb|exact Hseg]. }
        destruct o as [ok|k| |e|bs| |e|].
        -- apply (Hbad (Err EOutOfScript)); [exact eq_refl|exact H].
        -- destruct (k <=? 0) eqn:Ek.
           ++ apply (Hbad (Err (EIo IoWriteZero))); [split; [lia|exact eq_refl]|exact H].
           ++ destruct (IH _ _ _ _ H) as [Hf (ops & outs & chunks & b' & Hw & He)].
              split; [eapply (proj2 preorder_same_but_io); [apply same_but_io_st_with|exact Hf]|].
              exists (EWrite h b :: ops), (OWrote k :: outs), (firstn (Z.to_nat k) b :: chunks), b'.
              split; [apply WS_wrote; [exact Hne|lia|exact Hw]|]. eapply write_end_cons; eassumption.
        -- destruct (IH _ _ _ _ H) as [Hf (ops & outs & chunks & b' & Hw & He)].
           split; [eapply (proj2 preorder_same_but_io); [apply same_but_io_st_with|exact Hf]|].
           exists (EWrite h b :: ops), (OWriteIntr :: outs), chunks, b'.
           split; [apply WS_intr; [exact Hne|exact Hw]|]. eapply write_end_cons; eassumption.
        -- apply (Hbad (Err (EIo e))); [exact eq_refl|exact H].
        -- apply (Hbad (Err EOutOfScript)); [exact eq_refl|exact H].
        -- apply (Hbad (Err EOutOfScript)); [exact eq_refl|exact H].
        -- apply (Hbad (Err EOutOfScript)); [exact eq_refl|exact H].
        -- apply (Hbad (Err EOutOfScript)); [exact eq_refl|exact H].
Qed.

Lemma wsteps_length h b ops outs chunks b' : wsteps h b ops outs chunks b' -> length ops = length outs.
Proof. induction 1; cbn [length]; congruence. Qed.

(* the chunks handed over, followed by what is left, are the buffer *)
Lemma wsteps_concat h b ops outs chunks b' : wsteps h b ops outs chunks b' -> b = concat chunks ++ b'.
Proof.
  induction 1 as [b|b k ops outs chunks b' Hne Hk Hw IH|b ops outs chunks b' Hne Hw IH].
  - reflexivity.
  - cbn [concat]. rewrite <- app_assoc, <- IH. symmetry. apply firstn_skipn.
  - exact IH.
Qed.

Definition good_write (o : ev_out) : bool :=
  match o with OWrote k => 0 <? k | OWriteIntr => true | _ => false end.

Lemma wsteps_good h b ops outs chunks b' : wsteps h b ops outs chunks b' -> forallb good_write outs = true.
Proof.
  induction 1; cbn [forallb good_write]; [reflexivity| |assumption].
  apply andb_true_iff. split; [lia|assumption].
Qed.

(* every buffer offered is a write to h of at most the original length; after a write that
   accepted something, strictly shorter *)
Definition write_to_le (h : bytes) (n : nat) (e : ev_op) : Prop :=
  exists b0, e = EWrite h b0 /\ (length b0 <= n)%nat.

Lemma wsteps_writes h b ops outs chunks b' : wsteps h b ops outs chunks b' ->
  Forall (write_to_le h (length b)) (ops ++ [EWrite h b']).
Proof.
  induction 1 as [b|b k ops outs chunks b' Hne Hk Hw IH|b ops outs chunks b' Hne Hw IH].
  - constructor; [|constructor]. exists b. split; [reflexivity|lia].
  - cbn [app]. constructor; [exists b; split; [reflexivity|lia]|].
    eapply Forall_impl; [|exact IH]. intros e [b0 [-> Hl]]. exists b0. split; [reflexivity|].
    rewrite skipn_length in Hl. lia.
  - cbn [app]. constructor; [exists b; split; [reflexivity|lia]|exact IH].
Qed.

Lemma write_end_seg h fuel s s' r ops outs b' :
  write_end h fuel s s' r ops outs b' -> ext s s'.
Proof. intros [? ? H|? ? ? H|? ? ? H|? ? ? H]; eexists; eexists; exact H. Qed.

Lemma tracks_write_all fuel h buf : tracks (write_all fuel h buf).
Proof.
  intros s r s' H. destruct (write_all_run _ _ _ _ _ _ H) as [_ (ops & outs & chunks & b' & Hw & He)].
  pose proof (wsteps_length _ _ _ _ _ _ Hw) as L.
  destruct He as [Hr Hb Hs|o Hb Hbad Hs|Hb Hr Hd Hs|Hb Hr Hf Hs].
  - exists outs, ops. split; [exact Hs|left; exact L].
  - eexists; eexists. split; [exact Hs|left]. rewrite !app_length. cbn [length]. lia.
  - exists outs, (ops ++ [EWrite h b']). split; [exact Hs|right]. subst r.
    split; [intros a; discriminate|]. split; [exact Hd|]. rewrite app_length. cbn [length]. lia.
  - exists outs, ops. split; [exact Hs|left; exact L].
Qed.

Lemma keeps_write_all_frame fuel h buf : keeps same_but_io (write_all fuel h buf).
Proof. intros s r s' H. exact (proj1 (write_all_run _ _ _ _ _ _ H)). Qed.

Theorem steps_write_all : forall fuel h buf s r s', write_all fuel h buf s = (r, s') -> steps s s'.
Proof. intros fuel h buf. apply tracks_steps, tracks_write_all. Qed.

(* fuel above the script length is never exhausted *)
Lemma write_all_fuel fuel h buf s r s' :
  write_all fuel h buf s = (r, s') -> (length (script s) < fuel)%nat -> r <> Err EOutOfFuel.
Proof.
  intros H Hf Hr. destruct (write_all_run _ _ _ _ _ _ H) as [_ (ops & outs & chunks & b' & Hw & He)].
  pose proof (wsteps_length _ _ _ _ _ _ Hw) as L.
  destruct He as [Hr' Hb Hs|o Hb Hbad Hs|Hb Hr' Hd Hs|Hb Hr' Hfu Hs]; subst r; try discriminate.
  - destruct o as [ok|k| |e|bs| |e|]; cbn [write_bad] in Hbad; try discriminate; try contradiction.
    destruct Hbad as [_ Hbad]. discriminate.
  - destruct Hs as [Hs _]. rewrite Hs, app_length in Hf. lia.
Qed.

(* a successful write of a non-empty buffer consumed at least one answer *)
Lemma write_all_ok_shrinks fuel h buf s s' :
  write_all fuel h buf s = (Ok tt, s') -> buf <> [] -> (length (script s') < length (script s))%nat.
Proof.
  intros H Hne. destruct (write_all_run _ _ _ _ _ _ H) as [_ (ops & outs & chunks & b' & Hw & He)].
  destruct He as [Hr' Hb Hs|o Hb Hbad Hs|Hb Hr' Hd Hs|Hb Hr' Hfu Hs]; try discriminate.
  - subst b'. destruct Hs as [Hs _]. rewrite Hs, app_length.
    inversion Hw; subst; cbn [length]; try lia. contradiction.
  - destruct o as [ok|k| |e|bs| |e|]; cbn [write_bad] in Hbad; try discriminate; try contradiction.
    destruct Hbad as [_ Hbad]. discriminate.
Qed.

(* ================================================================================== *)
(* 4. read_exact: the exact shape of its runs                                         *)
(* ================================================================================== *)

(* `rsteps h n ops outs data n'`: asking for n bytes, the reads `ops` answered by `outs`
   (non-empty data, or interrupted) delivered `data` and leave n' bytes to be read *)
Inductive rsteps (h : bytes) : Z -> list ev_op -> list ev_out -> bytes -> Z -> Prop :=
| RS_nil n : rsteps h n [] [] [] n
| RS_data n bs ops outs data n' : 0 < n -> bs <> [] ->
    rsteps h (n - ulen bs) ops outs data n' ->
    rsteps h n (ERead h n :: ops) (OData bs :: outs) (bs ++ data) n'
| RS_intr n ops outs data n' : 0 < n -> rsteps h n ops outs data n' ->
    rsteps h n (ERead h n :: ops) (OReadIntr :: outs) data n'.

Definition read_bad (o : ev_out) (r : res bytes) : Prop :=
  match o with
  | OData [] => r = Err (EIo IoUnexpectedEof)
  | OData _ => False
  | OReadIntr => False
  | OReadFail e => r = Err (EIo e)
  | _ => r = Err EOutOfScript
  end.

Inductive read_end (h : bytes) (fuel : nat) (s s' : st) (r : res bytes) (acc : bytes)
          (ops : list ev_op) (outs : list ev_out) (data : bytes) (n' : Z) : Prop :=
| RE_done : r = Ok (acc ++ data) -> n' <= 0 -> seg s s' outs ops -> read_end h fuel s s' r acc ops outs data n'
| RE_bad o : 0 < n' -> read_bad o r -> seg s s' (outs ++ [o]) (ops ++ [ERead h n']) ->
    read_end h fuel s s' r acc ops outs data n'
| RE_dry : 0 < n' -> r = Err EOutOfScript -> script s' = [] -> seg s s' outs (ops ++ [ERead h n']) ->
    read_end h fuel s s' r acc ops outs data n'
| RE_fuel : 0 < n' -> r = Err EOutOfFuel -> fuel = length ops -> seg s s' outs ops ->
    read_end h fuel s s' r acc ops outs data n'.

Lemma read_end_intr h f s s1 s' r acc op ops outs data n' :
  seg s s1 [OReadIntr] [op] -> read_end h f s1 s' r acc ops outs data n' ->
  read_end h (S f) s s' r acc (op :: ops) (OReadIntr :: outs) data n'.
Proof.
  intros H1 [Hr Hb H2|o' Hb Hbad H2|Hb Hr Hs H2|Hb Hr Hf H2].
  - apply RE_done; [exact Hr|exact Hb|]. eapply seg_cons; eassumption.
  - eapply RE_bad; [exact Hb|exact Hbad|]. cbn [app]. eapply seg_cons; eassumption.
  - apply RE_dry; [exact Hb|exact Hr|exact Hs|]. cbn [app]. eapply seg_cons; eassumption.
  - apply RE_fuel; [exact Hb|exact Hr|cbn [length]; congruence|]. eapply seg_cons; eassumption.
Qed.

Lemma read_end_data h f s s1 s' r acc bs op ops outs data n' :
  seg s s1 [OData bs] [op] -> read_end h f s1 s' r (acc ++ bs) ops outs data n' ->
  read_end h (S f) s s' r acc (op :: ops) (OData bs :: outs) (bs ++ data) n'.
Proof.
  intros H1 [Hr Hb H2|o' Hb Hbad H2|Hb Hr Hs H2|Hb Hr Hf H2].
  - apply RE_done; [rewrite app_assoc; exact Hr|exact Hb|]. eapply seg_cons; eassumption.
  - eapply RE_bad; [exact Hb|exact Hbad|]. cbn [app]. eapply seg_cons; eassumption.
  - apply RE_dry; [exact Hb|exact Hr|exact Hs|]. cbn [app]. eapply seg_cons; eassumption.
  - apply RE_fuel; [exact Hb|exact Hr|cbn [length]; congruence|]. eapply seg_cons; eassumption.
Qed.

Lemma read_exact_run fuel h : forall n acc s r s', read_exact fuel h n acc s = (r, s') ->
  same_but_io s s' /\
  exists ops outs data n', rsteps h n ops outs data n' /\ read_end h fuel s s' r acc ops outs data n'.
Proof.
  induction fuel as [|f IH]; intros n acc s r s' H.
  - cbn [read_exact] in H. destruct (n <=? 0) eqn:En; inversion H; subst.
    + split; [apply preorder_same_but_io|]. exists [], [], [], n. split; [constructor|].
      apply RE_done; [rewrite app_nil_r; reflexivity|lia|apply seg_refl].
    + split; [apply preorder_same_but_io|]. exists [], [], [], n. split; [constructor|].
      apply RE_fuel; [lia|reflexivity|reflexivity|apply seg_refl].
  - cbn [read_exact] in H. destruct (n <=? 0) eqn:En.
    + inversion H; subst. split; [apply preorder_same_but_io|]. exists [], [], [], n. split; [constructor|].
      apply RE_done; [rewrite app_nil_r; reflexivity|lia|apply seg_refl].
    + assert (Hn : 0 < n) by lia.
      unfold mbind at 1 in H. unfold io in H. destruct (script s) as [|o rest] eqn:E.
      * inversion H; subst. split; [apply same_but_io_st_with|]. exists [], [], [], n. split; [constructor|].
        apply RE_dry; [exact Hn|reflexivity|reflexivity|]. split; [exact E|reflexivity].
      * pose proof (seg_io_one s o rest (ERead h n) E) as Hseg.
        set (s1 := st_with s rest (ERead h n :: trace s)) in *.
        assert (Hbad : forall r0, read_bad o r0 -> (r0, s1) = (r, s') ->
                  same_but_io s s' /\ exists ops outs data n',
                    rsteps h n ops outs data n' /\ read_end h (S f) s s' r acc ops outs data n').
        { intros r0 Hb Hq. inversion Hq; subst. split; [apply same_but_io_st_with|].
          exists [], [], [], n. split; [constructor|]. eapply RE_bad; [exact Hn|exact Hb|exact Hseg]. }
        destruct o as [ok|k| |e|bs| |e|].
        -- apply (Hbad (Err EOutOfScript)); [exact eq_refl|exact H].
        -- apply (Hbad (Err EOutOfScript)); [exact eq_refl|exact H].
        -- apply (Hbad (Err EOutOfScript)); [exact eq_refl|exact H].
        -- apply (Hbad (Err EOutOfScript)); [exact eq_refl|exact H].
        -- destruct bs as [|b0 bs].
           ++ apply (Hbad (Err (EIo IoUnexpectedEof))); [exact eq_refl|exact H].
           ++ destruct (IH _ _ _ _ _ H) as [Hf (ops & outs & data & n' & Hw & He)].
              split; [eapply (proj2 preorder_same_but_io); [apply same_but_io_st_with|exact Hf]|].
              exists (ERead h n :: ops), (OData (b0 :: bs) :: outs), ((b0 :: bs) ++ data), n'.
              split; [apply RS_data; [exact Hn|discriminate|exact Hw]|]. eapply read_end_data; eassumption.
        -- destruct (IH _ _ _ _ _ H) as [Hf (ops & outs & data & n' & Hw & He)].
           split; [eapply (proj2 preorder_same_but_io); [apply same_but_io_st_with|exact Hf]|].
           exists (ERead h n :: ops), (OReadIntr :: outs), data, n'.
           split; [apply RS_intr; [exact Hn|exact Hw]|]. eapply read_end_intr; eassumption.
        -- apply (Hbad (Err (EIo e))); [exact eq_refl|exact H].
        -- apply (Hbad (Err EOutOfScript)); [exact eq_refl|exact H].
Qed.

Lemma rsteps_length h n ops outs data n' : rsteps h n ops outs data n' -> length ops = length outs.
Proof. induction 1; cbn [length]; congruence. Qed.

(* the bytes carried by the answers *)
Definition payloads (outs : list ev_out) : bytes :=
  flat_map (fun o => match o with OData bs => bs | _ => [] end) outs.

Lemma payloads_app a b : payloads (a ++ b) = payloads a ++ payloads b.
Proof. apply flat_map_app. Qed.

Lemma rsteps_payloads h n ops outs data n' : rsteps h n ops outs data n' -> payloads outs = data.
Proof. induction 1; cbn [payloads flat_map]; [reflexivity|fold (payloads outs); congruence|exact IHrsteps]. Qed.

Lemma rsteps_need h n ops outs data n' : rsteps h n ops outs data n' -> n' = n - ulen data.
Proof.
  induction 1; unfold ulen in *; [cbn [length]; lia| |exact IHrsteps].
  rewrite app_length. lia.
Qed.

Definition is_read (h : bytes) (e : ev_op) : Prop := exists n, e = ERead h n /\ 0 < n.
Definition good_read (o : ev_out) : bool :=
  match o with OData [] => false | OData _ => true | OReadIntr => true | _ => false end.

Lemma rsteps_reads h n ops outs data n' : rsteps h n ops outs data n' ->
  Forall (is_read h) ops /\ forallb good_read outs = true.
Proof.
  induction 1 as [n|n bs ops outs data n' Hn Hbs Hr [IH1 IH2]|n ops outs data n' Hn Hr [IH1 IH2]].
  - split; [constructor|reflexivity].
  - split; [constructor; [exists n; split; [reflexivity|exact Hn]|exact IH1]|].
    cbn [forallb good_read]. destruct bs; [contradiction|exact IH2].
  - split; [constructor; [exists n; split; [reflexivity|exact Hn]|exact IH1]|exact IH2].
Qed.

(* the guarantee of the byte stream (and of the harness): a read never returns more than asked *)
Definition read_ok (p : ev_op * ev_out) : Prop :=
  match p with (ERead _ n, OData bs) => ulen bs <= n | _ => True end.
Definition reads_bounded (s s' : st) : Prop := Forall read_ok (combine (performed s s') (consumed s s')).

Lemma rsteps_bounded h n ops outs data n' : rsteps h n ops outs data n' ->
  Forall read_ok (combine ops outs) -> 0 <= n -> 0 <= n'.
Proof.
  induction 1 as [n|n bs ops outs data n' Hn Hbs Hr IH|n ops outs data n' Hn Hr IH]; intros Hb H0.
  - exact H0.
  - cbn [combine] in Hb. inversion Hb as [|x l Hx Hl]; subst. cbn [read_ok] in Hx. apply IH; [exact Hl|lia].
  - cbn [combine] in Hb. inversion Hb as [|x l Hx Hl]; subst. apply IH; [exact Hl|lia].
Qed.

Lemma combine_app {A B} (a1 a2 : list A) (b1 b2 : list B) :
  length a1 = length b1 -> combine (a1 ++ a2) (b1 ++ b2) = combine a1 b1 ++ combine a2 b2.
Proof.
  revert b1. induction a1 as [|x a1 IH]; intros [|y b1] H; cbn [length] in H; try discriminate; [reflexivity|].
  cbn [app combine]. rewrite IH by lia. reflexivity.
Qed.

Lemma read_end_ext h fuel s s' r acc ops outs data n' :
  read_end h fuel s s' r acc ops outs data n' -> ext s s'.
Proof. intros [? ? H|? ? ? H|? ? ? H|? ? ? H]; eexists; eexists; exact H. Qed.

Lemma tracks_read_exact fuel h n acc : tracks (read_exact fuel h n acc).
Proof.
  intros s r s' H. destruct (read_exact_run _ _ _ _ _ _ _ H) as [_ (ops & outs & data & n' & Hw & He)].
  pose proof (rsteps_length _ _ _ _ _ _ Hw) as L.
  destruct He as [Hr Hb Hs|o Hb Hbad Hs|Hb Hr Hd Hs|Hb Hr Hf Hs].
  - exists outs, ops. split; [exact Hs|left; exact L].
  - eexists; eexists. split; [exact Hs|left]. rewrite !app_length. cbn [length]. lia.
  - exists outs, (ops ++ [ERead h n']). split; [exact Hs|right]. subst r.
    split; [intros a; discriminate|]. split; [exact Hd|]. rewrite app_length. cbn [length]. lia.
  - exists outs, ops. split; [exact Hs|left; exact L].
Qed.

Lemma keeps_read_exact_frame fuel h n acc : keeps same_but_io (read_exact fuel h n acc).
Proof. intros s r s' H. exact (proj1 (read_exact_run _ _ _ _ _ _ _ H)). Qed.

Theorem steps_read_exact : forall fuel h n acc s r s', read_exact fuel h n acc s = (r, s') -> steps s s'.
Proof. intros fuel h n acc. apply tracks_steps, tracks_read_exact. Qed.

Lemma read_bad_not_fuel o r : read_bad o r -> r <> Err EOutOfFuel.
Proof.
  intros Hbad Hr. subst r.
  destruct o as [ok|k| |e|[|b0 bs]| |e|]; cbn [read_bad] in Hbad; try discriminate; try contradiction.
Qed.
Lemma read_bad_not_ok o r a : read_bad o r -> r <> Ok a.
Proof.
  intros Hbad Hr. subst r.
  destruct o as [ok|k| |e|[|b0 bs]| |e|]; cbn [read_bad] in Hbad; try discriminate; try contradiction.
Qed.
Lemma read_bad_not_panic o r w : read_bad o r -> r <> Panic w.
Proof.
  intros Hbad Hr. subst r.
  destruct o as [ok|k| |e|[|b0 bs]| |e|]; cbn [read_bad] in Hbad; try discriminate; try contradiction.
Qed.
Lemma write_bad_not_fuel o r : write_bad o r -> r <> Err EOutOfFuel.
Proof.
  intros Hbad Hr. subst r.
  destruct o as [ok|k| |e|bs| |e|]; cbn [write_bad] in Hbad; try discriminate; try contradiction.
  destruct Hbad as [_ Hbad]. discriminate.
Qed.
Lemma write_bad_not_ok o r : write_bad o r -> r <> Ok tt.
Proof.
  intros Hbad Hr. subst r.
  destruct o as [ok|k| |e|bs| |e|]; cbn [write_bad] in Hbad; try discriminate; try contradiction.
  destruct Hbad as [_ Hbad]. discriminate.
Qed.
Lemma write_bad_not_panic o r w : write_bad o r -> r <> Panic w.
Proof.
  intros Hbad Hr. subst r.
  destruct o as [ok|k| |e|bs| |e|]; cbn [write_bad] in Hbad; try discriminate; try contradiction.
  destruct Hbad as [_ Hbad]. discriminate.
Qed.

Lemma read_exact_fuel fuel h n acc s r s' :
  read_exact fuel h n acc s = (r, s') -> (length (script s) < fuel)%nat -> r <> Err EOutOfFuel.
Proof.
  intros H Hf Hr. destruct (read_exact_run _ _ _ _ _ _ _ H) as [_ (ops & outs & data & n' & Hw & He)].
  pose proof (rsteps_length _ _ _ _ _ _ Hw) as L.
  destruct He as [Hr' Hb Hs|o Hb Hbad Hs|Hb Hr' Hd Hs|Hb Hr' Hfu Hs].
  - subst r. discriminate.
  - exact (read_bad_not_fuel _ _ Hbad Hr).
  - subst r. discriminate.
  - destruct Hs as [Hs _]. rewrite Hs, app_length in Hf. lia.
Qed.

(* the successful case, with everything one wants to know *)
Lemma read_exact_ok fuel h n acc s bs s' :
  read_exact fuel h n acc s = (Ok bs, s') ->
  exists ops outs data n', rsteps h n ops outs data n' /\ n' <= 0 /\ seg s s' outs ops /\ bs = acc ++ data.
Proof.
  intros H. destruct (read_exact_run _ _ _ _ _ _ _ H) as [_ (ops & outs & data & n' & Hw & He)].
  destruct He as [Hr' Hb Hs|o Hb Hbad Hs|Hb Hr' Hd Hs|Hb Hr' Hfu Hs]; try discriminate.
  - inversion Hr'; subst. exists ops, outs, data, n'. repeat split; try assumption; apply Hs.
  - exfalso. exact (read_bad_not_ok _ _ _ Hbad eq_refl).
Qed.

Lemma read_exact_ok_shrinks fuel h n acc s bs s' :
  read_exact fuel h n acc s = (Ok bs, s') -> 0 < n -> (length (script s') < length (script s))%nat.
Proof.
  intros H Hn. destruct (read_exact_ok _ _ _ _ _ _ _ H) as (ops & outs & data & n' & Hw & Hn' & [Hs _] & _).
  rewrite Hs, app_length. inversion Hw; subst; cbn [length]; lia.
Qed.

(* ================================================================================== *)
(* 5. events of a kind                                                                *)
(* ================================================================================== *)

Definition ops_in (P : ev_op -> Prop) (s s' : st) : Prop := ext s s' /\ Forall P (performed s s').

Lemma preorder_ops_in P : preorder (ops_in P).
Proof.
  split.
  - intros s. split; [apply ext_refl|]. rewrite performed_refl. constructor.
  - intros s s1 s2 [E1 F1] [E2 F2]. split; [eapply ext_trans; eassumption|].
    rewrite (performed_app _ _ _ E1 E2). apply Forall_app. split; assumption.
Qed.

Lemma io_seg op s r s' : io op s = (r, s') -> exists outs, seg s s' outs [op].
Proof.
  unfold io. destruct (script s) as [|o rest] eqn:E; intros H; inversion H; subst.
  - exists []. split; [exact E|reflexivity].
  - exists [o]. split; [exact E|reflexivity].
Qed.

Lemma keeps_io_ops (P : ev_op -> Prop) op : P op -> keeps (ops_in P) (io op).
Proof.
  intros HP s r s' H. destruct (io_seg _ _ _ _ H) as [outs Hs]. split; [exists outs, [op]; exact Hs|].
  rewrite (seg_performed _ _ _ _ Hs). constructor; [exact HP|constructor].
Qed.

Lemma keeps_set_client (R : st -> st -> Prop) c : (forall s, R s (snd (set_client c s))) -> keeps R (set_client c).
Proof. intros HR s r s' H. inversion H; subst. apply (HR s). Qed.

Lemma ops_in_set_client P c s : ops_in P s (snd (set_client c s)).
Proof.
  assert (Hs : seg s (snd (set_client c s)) [] []) by (split; reflexivity).
  split; [exists [], []; exact Hs|]. rewrite (seg_performed _ _ _ _ Hs). constructor.
Qed.

Definition on_host (h : bytes) (e : ev_op) : Prop :=
  match e with EConnect h' | EWrite h' _ | ERead h' _ | EShutdown h' => h' = h end.
Definition not_write (e : ev_op) : Prop := match e with EWrite _ _ => False | _ => True end.

Lemma ops_in_weaken (P Q : ev_op -> Prop) s s' : (forall e, P e -> Q e) -> ops_in P s s' -> ops_in Q s s'.
Proof. intros HPQ [E F]. split; [exact E|]. eapply Forall_impl; [exact HPQ|exact F]. Qed.

(* ---- write_all / read_exact as event producers --------------------------------------- *)
Lemma write_all_ops fuel h buf s r s' : write_all fuel h buf s = (r, s') ->
  ops_in (write_to_le h (length buf)) s s'.
Proof.
  intros H. destruct (write_all_run _ _ _ _ _ _ H) as [_ (ops & outs & chunks & b' & Hw & He)].
  pose proof (wsteps_writes _ _ _ _ _ _ Hw) as Hall.
  assert (Hops : Forall (write_to_le h (length buf)) ops) by (apply Forall_app in Hall; apply Hall).
  split; [eapply write_end_seg; exact He|].
  destruct He as [Hr Hb Hs|o Hb Hbad Hs|Hb Hr Hd Hs|Hb Hr Hf Hs]; rewrite (seg_performed _ _ _ _ Hs); assumption.
Qed.

Lemma read_exact_ops fuel h n acc s r s' : read_exact fuel h n acc s = (r, s') -> ops_in (is_read h) s s'.
Proof.
  intros H. destruct (read_exact_run _ _ _ _ _ _ _ H) as [_ (ops & outs & data & n' & Hw & He)].
  destruct (rsteps_reads _ _ _ _ _ _ Hw) as [Hops _].
  split; [eapply read_end_ext; exact He|].
  destruct He as [Hr Hb Hs|o Hb Hbad Hs|Hb Hr Hd Hs|Hb Hr Hf Hs]; rewrite (seg_performed _ _ _ _ Hs);
    try assumption; (apply Forall_app; split; [exact Hops|constructor; [|constructor]]);
    exists n'; (split; [reflexivity|exact Hb]).
Qed.

(* ================================================================================== *)
(* 6. the composite operations, for any relation preserved by the events of one host  *)
(* ================================================================================== *)

Section KeepsNet.
  Variable R : st -> st -> Prop.
  Hypothesis HR : preorder R.
  Variable h : bytes.
  Hypothesis HioW : forall b, keeps R (io (EWrite h b)).
  Hypothesis HioR : forall n, keeps R (io (ERead h n)).
  Hypothesis HioC : keeps R (io (EConnect h)).
  Hypothesis HioS : keeps R (io (EShutdown h)).
  Hypothesis Hconns : forall x, keeps R (set_conns x).

  Lemma keepsR_write_all fuel : forall buf, keeps R (write_all fuel h buf).
  Proof.
    induction fuel as [|f IH]; intros [|b0 buf]; cbn [write_all];
      try (apply keeps_ret; exact HR); try (apply keeps_fail; exact HR).
    apply keeps_bind; [exact HR|apply HioW|].
    intros [ok|k| |e|bs| |e|]; try (apply keeps_fail; exact HR); [|apply IH].
    destruct (k <=? 0); [apply keeps_fail; exact HR|apply IH].
  Qed.

  Lemma keepsR_send msg : keeps R (send h msg).
  Proof.
    apply keeps_bind; [exact HR|apply keeps_with_fuel; intros n; apply keepsR_write_all|].
    intros _. apply keeps_ret; exact HR.
  Qed.

  Lemma keepsR_read_exact fuel : forall n acc, keeps R (read_exact fuel h n acc).
  Proof.
    induction fuel as [|f IH]; intros n acc; cbn [read_exact]; destruct (n <=? 0);
      try (apply keeps_ret; exact HR); try (apply keeps_fail; exact HR).
    apply keeps_bind; [exact HR|apply HioR|].
    intros [ok|k| |e|[|b0 bs]| |e|]; try (apply keeps_fail; exact HR); apply IH.
  Qed.

  Lemma keepsR_read_chunks fuel : forall rem acc, keeps R (read_chunks fuel h rem acc).
  Proof.
    induction fuel as [|f IH]; intros rem acc; cbn [read_chunks]; destruct (rem <=? 0);
      try (apply keeps_ret; exact HR); try (apply keeps_fail; exact HR).
    cbv zeta. apply keeps_bind; [exact HR|apply keeps_with_fuel; intros g; apply keepsR_read_exact|].
    intros b. apply IH.
  Qed.

  Lemma keepsR_read_exact_alloc size : keeps R (read_exact_alloc h size).
  Proof. apply keeps_with_fuel. intros f. apply keepsR_read_chunks. Qed.

  Lemma keepsR_get_response_size : keeps R (get_response_size h).
  Proof.
    apply keeps_bind; [exact HR|apply keeps_with_fuel; intros g; apply keepsR_read_exact|].
    intros b. cbv zeta. destruct (be_dec_s b <? 0); [apply keeps_fail|apply keeps_ret]; exact HR.
  Qed.

  Lemma keepsR_new_conn : keeps R (new_conn h).
  Proof.
    apply keeps_bind; [exact HR|apply HioC|].
    intros [[|]|k| |e|bs| |e|]; try (apply keeps_fail; exact HR). apply keeps_ret; exact HR.
  Qed.

  Lemma keepsR_shutdown : keeps R (shutdown h).
  Proof. apply keeps_bind; [exact HR|apply HioS|]. intros _. apply keeps_ret; exact HR. Qed.

  Lemma keepsR_get_conn : keeps R (get_conn h).
  Proof.
    apply keeps_bind; [exact HR|apply keeps_get_client; exact HR|]. intros c.
    destruct (in_pool h (conns c)).
    - destruct (idle_expired (cfg c)); [|apply keeps_ret; exact HR].
      apply keeps_bind; [exact HR|apply keepsR_new_conn|]. intros _. apply keepsR_shutdown.
    - apply keeps_bind; [exact HR|apply keepsR_new_conn|]. intros _. apply Hconns.
  Qed.

  Lemma keepsR_send_request payload : keeps R (send_request h payload).
  Proof. apply keeps_bind; [exact HR|apply keeps_lift; exact HR|]. intros p. apply keepsR_send. Qed.

  Lemma keepsR_get_response_bytes : keeps R (get_response_bytes h).
  Proof. apply keeps_bind; [exact HR|apply keepsR_get_response_size|]. intros size. apply keepsR_read_exact_alloc. Qed.

  Lemma keepsR_get_response {A} (d : dec A) : keeps R (get_response d h).
  Proof.
    apply keeps_bind; [exact HR|apply keepsR_get_response_bytes|]. intros b.
    apply keeps_bind; [exact HR|apply keeps_lift; exact HR|]. intros [a rest]. apply keeps_ret; exact HR.
  Qed.

  Lemma keepsR_send_receive {A} (d : dec A) payload : keeps R (send_receive d h payload).
  Proof.
    apply keeps_bind; [exact HR|apply keepsR_get_conn|]. intros _.
    apply keeps_bind; [exact HR|apply keepsR_send_request|]. intros _. apply keepsR_get_response.
  Qed.
End KeepsNet.

Lemma keeps_set_conns_frame x : keeps same_but_conns (set_conns x).
Proof.
  intros s r s' H. unfold set_conns, mbind, get_client, set_client in H. inversion H; subst. repeat split.
Qed.
Lemma keeps_set_conns_ops P x : keeps (ops_in P) (set_conns x).
Proof.
  intros s r s' H. unfold set_conns, mbind, get_client in H.
  match type of H with set_client ?c s = _ => pose proof (ops_in_set_client P c s) as Hc; rewrite H in Hc end.
  exact Hc.
Qed.

(* ---- frame lemmas ------------------------------------------------------------------------ *)
Lemma io_frame_conns op : keeps same_but_conns (io op).
Proof. eapply keeps_weaken; [apply same_but_io_conns|apply keeps_io_frame]. Qed.

Theorem frame_write_all : forall fuel h buf, keeps same_but_io (write_all fuel h buf).
Proof. intros. apply keeps_write_all_frame. Qed.
Theorem frame_send : forall h msg, keeps same_but_io (send h msg).
Proof. intros h msg. apply (keepsR_send _ preorder_same_but_io h); intros; apply keeps_io_frame. Qed.
Theorem frame_read_exact : forall fuel h n acc, keeps same_but_io (read_exact fuel h n acc).
Proof. intros. apply keeps_read_exact_frame. Qed.
Theorem frame_read_chunks : forall fuel h rem acc, keeps same_but_io (read_chunks fuel h rem acc).
Proof. intros fuel h. apply (keepsR_read_chunks _ preorder_same_but_io h); intros; apply keeps_io_frame. Qed.
Theorem frame_read_exact_alloc : forall h size, keeps same_but_io (read_exact_alloc h size).
Proof. intros h. apply (keepsR_read_exact_alloc _ preorder_same_but_io h); intros; apply keeps_io_frame. Qed.
Theorem frame_get_response_size : forall h, keeps same_but_io (get_response_size h).
Proof. intros h. apply (keepsR_get_response_size _ preorder_same_but_io h); intros; apply keeps_io_frame. Qed.
Theorem frame_new_conn : forall h, keeps same_but_io (new_conn h).
Proof. intros h. apply (keepsR_new_conn _ preorder_same_but_io h); intros; apply keeps_io_frame. Qed.
Theorem frame_shutdown : forall h, keeps same_but_io (shutdown h).
Proof. intros h. apply (keepsR_shutdown _ preorder_same_but_io h); intros; apply keeps_io_frame. Qed.
Theorem frame_send_request : forall h payload, keeps same_but_io (send_request h payload).
Proof. intros h. apply (keepsR_send_request _ preorder_same_but_io h); intros; apply keeps_io_frame. Qed.
Theorem frame_get_response_bytes : forall h, keeps same_but_io (get_response_bytes h).
Proof. intros h. apply (keepsR_get_response_bytes _ preorder_same_but_io h); intros; apply keeps_io_frame. Qed.
Theorem frame_get_response : forall A (d : dec A) h, keeps same_but_io (get_response d h).
Proof. intros A d h. apply (keepsR_get_response _ preorder_same_but_io h); intros; apply keeps_io_frame. Qed.
(* get_conn and send_receive may add h to the pool, nothing else *)
Theorem frame_get_conn : forall h, keeps same_but_conns (get_conn h).
Proof.
  intros h. apply (keepsR_get_conn _ preorder_same_but_conns h); intros;
    try apply io_frame_conns; apply keeps_set_conns_frame.
Qed.
Theorem frame_send_receive : forall A (d : dec A) h payload, keeps same_but_conns (send_receive d h payload).
Proof.
  intros A d h payload. apply (keepsR_send_receive _ preorder_same_but_conns h); intros;
    try apply io_frame_conns; apply keeps_set_conns_frame.
Qed.

Lemma get_conn_pool h s r s' : get_conn h s = (r, s') ->
  conns (cl s') = conns (cl s) \/ (in_pool h (conns (cl s)) = false /\ conns (cl s') = conns (cl s) ++ [h]).
Proof.
  intros H. unfold get_conn in H. unfold mbind at 1 in H. unfold get_client at 1 in H.
  destruct (in_pool h (conns (cl s))) eqn:Ein.
  - left. destruct (idle_expired (cfg (cl s))).
    + assert (K : keeps same_but_io (let+ _ := new_conn h in shutdown h)).
      { apply keeps_bind; [apply preorder_same_but_io|apply frame_new_conn|intros _; apply frame_shutdown]. }
      destruct (K _ _ _ H) as (_ & _ & _ & _ & Hc & _). rewrite Hc. reflexivity.
    + inversion H; subst. reflexivity.
  - bind_inv H a s1 H1 H2.
    + right. split; [reflexivity|]. destruct (frame_new_conn _ _ _ _ H1) as (_ & _ & _ & _ & Hc & _).
      unfold set_conns, mbind, get_client, set_client in H2. inversion H2; subst. cbn [cl conns]. reflexivity.
    + left. destruct (frame_new_conn _ _ _ _ H1) as (_ & _ & _ & _ & Hc & _). rewrite Hc. reflexivity.
    + left. destruct (frame_new_conn _ _ _ _ H1) as (_ & _ & _ & _ & Hc & _). rewrite Hc. reflexivity.
Qed.

(* ---- every event of these operations concerns the host they were called with ------------- *)
Definition conn_event (h : bytes) (e : ev_op) : Prop := e = EConnect h \/ e = EShutdown h.
Definition read_event (h : bytes) (e : ev_op) : Prop := exists n, e = ERead h n.

Theorem ops_send_receive : forall A (d : dec A) h payload, keeps (ops_in (on_host h)) (send_receive d h payload).
Proof.
  intros A d h payload. apply (keepsR_send_receive _ (preorder_ops_in _) h); intros;
    try (apply keeps_io_ops; reflexivity); apply keeps_set_conns_ops.
Qed.
Theorem ops_get_conn : forall h, keeps (ops_in (conn_event h)) (get_conn h).
Proof.
  intros h. apply (keepsR_get_conn _ (preorder_ops_in _) h); intros.
  - apply keeps_io_ops. left. reflexivity.
  - apply keeps_io_ops. right. reflexivity.
  - apply keeps_set_conns_ops.
Qed.
Theorem ops_get_response_bytes : forall h, keeps (ops_in (read_event h)) (get_response_bytes h).
Proof.
  intros h. apply (keepsR_get_response_bytes _ (preorder_ops_in _) h); intros.
  apply keeps_io_ops. exists n. reflexivity.
Qed.
Theorem ops_get_response : forall A (d : dec A) h, keeps (ops_in (read_event h)) (get_response d h).
Proof.
  intros A d h. apply (keepsR_get_response _ (preorder_ops_in _) h); intros.
  apply keeps_io_ops. exists n. reflexivity.
Qed.

(* ---- steps ------------------------------------------------------------------------------------ *)
Lemma tracks_send h msg : tracks (send h msg).
Proof.
  apply tracks_bind; [apply tracks_with_fuel; intros n; apply tracks_write_all|intros _; apply tracks_ret].
Qed.
Lemma tracks_read_chunks fuel h : forall rem acc, tracks (read_chunks fuel h rem acc).
Proof.
  induction fuel as [|f IH]; intros rem acc; cbn [read_chunks]; destruct (rem <=? 0);
    try apply tracks_ret; try apply tracks_fail.
  cbv zeta. apply tracks_bind; [apply tracks_with_fuel; intros g; apply tracks_read_exact|intros b; apply IH].
Qed.
Lemma tracks_read_exact_alloc h size : tracks (read_exact_alloc h size).
Proof. apply tracks_with_fuel. intros f. apply tracks_read_chunks. Qed.
Lemma tracks_get_response_size h : tracks (get_response_size h).
Proof.
  apply tracks_bind; [apply tracks_with_fuel; intros g; apply tracks_read_exact|].
  intros b. cbv zeta. destruct (be_dec_s b <? 0); [apply tracks_fail|apply tracks_ret].
Qed.
Lemma tracks_new_conn h : tracks (new_conn h).
Proof.
  apply tracks_bind; [apply tracks_io|].
  intros [[|]|k| |e|bs| |e|]; try apply tracks_fail. apply tracks_ret.
Qed.
Lemma tracks_shutdown h : tracks (shutdown h).
Proof. apply tracks_bind; [apply tracks_io|intros _; apply tracks_ret]. Qed.
Lemma tracks_set_conns x : tracks (set_conns x).
Proof. apply tracks_bind; [apply tracks_get_client|intros c; apply tracks_set_client]. Qed.
Lemma tracks_get_conn h : tracks (get_conn h).
Proof.
  apply tracks_bind; [apply tracks_get_client|]. intros c. destruct (in_pool h (conns c)).
  - destruct (idle_expired (cfg c)); [|apply tracks_ret].
    apply tracks_bind; [apply tracks_new_conn|intros _; apply tracks_shutdown].
  - apply tracks_bind; [apply tracks_new_conn|intros _; apply tracks_set_conns].
Qed.
Lemma tracks_send_request h payload : tracks (send_request h payload).
Proof. apply tracks_bind; [apply tracks_lift|intros p; apply tracks_send]. Qed.
Lemma tracks_get_response_bytes h : tracks (get_response_bytes h).
Proof. apply tracks_bind; [apply tracks_get_response_size|intros size; apply tracks_read_exact_alloc]. Qed.
Lemma tracks_get_response {A} (d : dec A) h : tracks (get_response d h).
Proof.
  apply tracks_bind; [apply tracks_get_response_bytes|]. intros b.
  apply tracks_bind; [apply tracks_lift|]. intros [a rest]. apply tracks_ret.
Qed.
Lemma tracks_send_receive {A} (d : dec A) h payload : tracks (send_receive d h payload).
Proof.
  apply tracks_bind; [apply tracks_get_conn|]. intros _.
  apply tracks_bind; [apply tracks_send_request|]. intros _. apply tracks_get_response.
Qed.

Theorem steps_read_chunks : forall fuel h rem acc s r s', read_chunks fuel h rem acc s = (r, s') -> steps s s'.
Proof. intros fuel h rem acc. apply tracks_steps, tracks_read_chunks. Qed.
Theorem steps_get_conn : forall h s r s', get_conn h s = (r, s') -> steps s s'.
Proof. intros h. apply tracks_steps, tracks_get_conn. Qed.
Theorem steps_send_request : forall h payload s r s', send_request h payload s = (r, s') -> steps s s'.
Proof. intros h payload. apply tracks_steps, tracks_send_request. Qed.
Theorem steps_get_response : forall A (d : dec A) h s r s', get_response d h s = (r, s') -> steps s s'.
Proof. intros A d h. apply tracks_steps, tracks_get_response. Qed.
Theorem steps_send_receive : forall A (d : dec A) h payload s r s',
  send_receive d h payload s = (r, s') -> steps s s'.
Proof. intros A d h payload. apply tracks_steps, tracks_send_receive. Qed.

(* ================================================================================== *)
(* 7. outcomes that never happen                                                      *)
(* ================================================================================== *)

Definition nofuel {A} (m : M A) : Prop := forall s r s', m s = (r, s') -> r <> Err EOutOfFuel.
Definition nopanic {A} (m : M A) : Prop := forall s r s' w, m s = (r, s') -> r <> Panic w.

Lemma nofuel_ret {A} (a : A) : nofuel (ret a).
Proof. intros s r s' H. inversion H; subst. discriminate. Qed.
Lemma nofuel_fail {A} e : e <> EOutOfFuel -> nofuel (@fail A e).
Proof. intros He s r s' H. inversion H; subst. congruence. Qed.
Lemma nofuel_get_client : nofuel get_client.
Proof. intros s r s' H. inversion H; subst. discriminate. Qed.
Lemma nofuel_set_client c : nofuel (set_client c).
Proof. intros s r s' H. inversion H; subst. discriminate. Qed.
Lemma nofuel_io op : nofuel (io op).
Proof. intros s r s' H. unfold io in H. destruct (script s); inversion H; subst; discriminate. Qed.
Lemma nofuel_bind {A B} (m : M A) (f : A -> M B) : nofuel m -> (forall a, nofuel (f a)) -> nofuel (mbind m f).
Proof.
  intros Hm Hf s r s' H. bind_inv H a s1 H1 H2.
  - eapply Hf, H2.
  - subst r. intros E. inversion E; subst. exact (Hm _ _ _ H1 eq_refl).
  - subst r. discriminate.
Qed.

Lemma nopanic_ret {A} (a : A) : nopanic (ret a).
Proof. intros s r s' w H. inversion H; subst. discriminate. Qed.
Lemma nopanic_fail {A} e : nopanic (@fail A e).
Proof. intros s r s' w H. inversion H; subst. discriminate. Qed.
Lemma nopanic_get_client : nopanic get_client.
Proof. intros s r s' w H. inversion H; subst. discriminate. Qed.
Lemma nopanic_set_client c : nopanic (set_client c).
Proof. intros s r s' w H. inversion H; subst. discriminate. Qed.
Lemma nopanic_io op : nopanic (io op).
Proof. intros s r s' w H. unfold io in H. destruct (script s); inversion H; subst; discriminate. Qed.
Lemma nopanic_bind {A B} (m : M A) (f : A -> M B) : nopanic m -> (forall a, nopanic (f a)) -> nopanic (mbind m f).
Proof.
  intros Hm Hf s r s' w H. bind_inv H a s1 H1 H2.
  - eapply Hf, H2.
  - subst r. discriminate.
  - subst r. intros E. inversion E; subst. exact (Hm _ _ _ _ H1 eq_refl).
Qed.
Lemma nopanic_with_fuel {A} (f : nat -> M A) : (forall n, nopanic (f n)) -> nopanic (with_fuel f).
Proof. intros Hf s r s' w H. unfold with_fuel in H. eapply Hf, H. Qed.

Lemma nopanic_write_all fuel h : forall buf, nopanic (write_all fuel h buf).
Proof.
  induction fuel as [|f IH]; intros [|b0 buf]; cbn [write_all]; try apply nopanic_ret; try apply nopanic_fail.
  apply nopanic_bind; [apply nopanic_io|].
  intros [ok|k| |e|bs| |e|]; try apply nopanic_fail; [|apply IH].
  destruct (k <=? 0); [apply nopanic_fail|apply IH].
Qed.
Lemma nopanic_read_exact fuel h : forall n acc, nopanic (read_exact fuel h n acc).
Proof.
  induction fuel as [|f IH]; intros n acc; cbn [read_exact]; destruct (n <=? 0);
    try apply nopanic_ret; try apply nopanic_fail.
  apply nopanic_bind; [apply nopanic_io|].
  intros [ok|k| |e|[|b0 bs]| |e|]; try apply nopanic_fail; apply IH.
Qed.
Lemma nopanic_read_chunks fuel h : forall rem acc, nopanic (read_chunks fuel h rem acc).
Proof.
  induction fuel as [|f IH]; intros rem acc; cbn [read_chunks]; destruct (rem <=? 0);
    try apply nopanic_ret; try apply nopanic_fail.
  cbv zeta. apply nopanic_bind; [apply nopanic_with_fuel; intros g; apply nopanic_read_exact|intros b; apply IH].
Qed.
Lemma nopanic_send h msg : nopanic (send h msg).
Proof.
  apply nopanic_bind; [apply nopanic_with_fuel; intros n; apply nopanic_write_all|intros _; apply nopanic_ret].
Qed.
Lemma nopanic_get_response_bytes h : nopanic (get_response_bytes h).
Proof.
  apply nopanic_bind.
  - apply nopanic_bind; [apply nopanic_with_fuel; intros g; apply nopanic_read_exact|].
    intros b. cbv zeta. destruct (be_dec_s b <? 0); [apply nopanic_fail|apply nopanic_ret].
  - intros size. apply nopanic_with_fuel. intros f. apply nopanic_read_chunks.
Qed.
Lemma nopanic_new_conn h : nopanic (new_conn h).
Proof.
  apply nopanic_bind; [apply nopanic_io|].
  intros [[|]|k| |e|bs| |e|]; try apply nopanic_fail. apply nopanic_ret.
Qed.
Lemma nopanic_shutdown h : nopanic (shutdown h).
Proof. apply nopanic_bind; [apply nopanic_io|intros _; apply nopanic_ret]. Qed.
Lemma nopanic_set_conns x : nopanic (set_conns x).
Proof. apply nopanic_bind; [apply nopanic_get_client|intros c; apply nopanic_set_client]. Qed.
Lemma nopanic_get_conn h : nopanic (get_conn h).
Proof.
  apply nopanic_bind; [apply nopanic_get_client|]. intros c. destruct (in_pool h (conns c)).
  - destruct (idle_expired (cfg c)); [|apply nopanic_ret].
    apply nopanic_bind; [apply nopanic_new_conn|intros _; apply nopanic_shutdown].
  - apply nopanic_bind; [apply nopanic_new_conn|intros _; apply nopanic_set_conns].
Qed.

(* the fuel handed out by with_fuel is enough *)
Lemma nofuel_write_all_wf h buf : nofuel (with_fuel (fun f => write_all f h buf)).
Proof. intros s r s' H. unfold with_fuel in H. eapply write_all_fuel; [exact H|lia]. Qed.
Lemma nofuel_read_exact_wf h n acc : nofuel (with_fuel (fun f => read_exact f h n acc)).
Proof. intros s r s' H. unfold with_fuel in H. eapply read_exact_fuel; [exact H|lia]. Qed.
Lemma nofuel_send h msg : nofuel (send h msg).
Proof. apply nofuel_bind; [apply nofuel_write_all_wf|intros _; apply nofuel_ret]. Qed.

Lemma read_chunks_fuel fuel h : forall rem acc s r s',
  read_chunks fuel h rem acc s = (r, s') -> (length (script s) < fuel)%nat -> r <> Err EOutOfFuel.
Proof.
  induction fuel as [|f IH]; intros rem acc s r s' H Hf; [lia|].
  cbn [read_chunks] in H. destruct (rem <=? 0) eqn:Er; [inversion H; subst; discriminate|].
  cbv zeta in H. bind_inv H b s1 H1 H2.
  - eapply IH; [exact H2|]. unfold with_fuel in H1.
    pose proof (read_exact_ok_shrinks _ _ _ _ _ _ _ H1) as Hs. unfold read_chunk in Hs. lia.
  - subst r. intros E. inversion E; subst. exact (nofuel_read_exact_wf _ _ _ _ _ _ H1 eq_refl).
  - subst r. discriminate.
Qed.
Lemma nofuel_read_exact_alloc h size : nofuel (read_exact_alloc h size).
Proof. intros s r s' H. unfold read_exact_alloc, with_fuel in H. eapply read_chunks_fuel; [exact H|lia]. Qed.
Lemma nofuel_get_response_bytes h : nofuel (get_response_bytes h).
Proof.
  apply nofuel_bind.
  - apply nofuel_bind; [apply nofuel_read_exact_wf|].
    intros b. cbv zeta. destruct (be_dec_s b <? 0); [apply nofuel_fail; discriminate|apply nofuel_ret].
  - intros size. apply nofuel_read_exact_alloc.
Qed.
Lemma nofuel_new_conn h : nofuel (new_conn h).
Proof.
  apply nofuel_bind; [apply nofuel_io|].
  intros [[|]|k| |e|bs| |e|]; try (apply nofuel_fail; discriminate). apply nofuel_ret.
Qed.
Lemma nofuel_shutdown h : nofuel (shutdown h).
Proof. apply nofuel_bind; [apply nofuel_io|intros _; apply nofuel_ret]. Qed.
Lemma nofuel_set_conns x : nofuel (set_conns x).
Proof. apply nofuel_bind; [apply nofuel_get_client|intros c; apply nofuel_set_client]. Qed.
Lemma nofuel_get_conn h : nofuel (get_conn h).
Proof.
  apply nofuel_bind; [apply nofuel_get_client|]. intros c. destruct (in_pool h (conns c)).
  - destruct (idle_expired (cfg c)); [|apply nofuel_ret].
    apply nofuel_bind; [apply nofuel_new_conn|intros _; apply nofuel_shutdown].
  - apply nofuel_bind; [apply nofuel_new_conn|intros _; apply nofuel_set_conns].
Qed.

(* ================================================================================== *)
(* 8. the successful runs of the composite operations                                 *)
(* ================================================================================== *)

(* a sequence of reads on h that all delivered something (or were interrupted) *)
Definition reads (h : bytes) (ops : list ev_op) (outs : list ev_out) (data : bytes) : Prop :=
  length ops = length outs /\ Forall (is_read h) ops /\ forallb good_read outs = true /\ payloads outs = data.

Lemma reads_nil h : reads h [] [] [].
Proof. repeat split. constructor. Qed.
Lemma reads_app h o1 u1 d1 o2 u2 d2 : reads h o1 u1 d1 -> reads h o2 u2 d2 -> reads h (o1 ++ o2) (u1 ++ u2) (d1 ++ d2).
Proof.
  intros (A1 & A2 & A3 & A4) (B1 & B2 & B3 & B4). repeat split.
  - rewrite !app_length. lia.
  - apply Forall_app. split; assumption.
  - rewrite forallb_app, A3, B3. reflexivity.
  - rewrite payloads_app, A4, B4. reflexivity.
Qed.
Lemma rsteps_is_reads h n ops outs data n' : rsteps h n ops outs data n' -> reads h ops outs data.
Proof.
  intros H. destruct (rsteps_reads _ _ _ _ _ _ H) as [H1 H2]. repeat split; try assumption.
  - eapply rsteps_length; exact H.
  - eapply rsteps_payloads; exact H.
Qed.

Lemma send_ok h msg s z s' : send h msg s = (Ok z, s') ->
  exists ops outs chunks, wsteps h msg ops outs chunks [] /\ seg s s' outs ops /\ z = ulen msg.
Proof.
  intros H. unfold send in H. bind_inv H u s1 H1 H2; try discriminate.
  inversion H2; subst. unfold with_fuel in H1. destruct u.
  destruct (write_all_run _ _ _ _ _ _ H1) as [_ (ops & outs & chunks & b' & Hw & He)].
  destruct He as [Hr' Hb Hs|o Hb Hbad Hs|Hb Hr' Hd Hs|Hb Hr' Hfu Hs]; try discriminate.
  - subst b'. exists ops, outs, chunks. repeat split; try assumption; apply Hs.
  - exfalso. exact (write_bad_not_ok _ _ Hbad eq_refl).
Qed.

Lemma read_chunks_ok fuel h : forall rem acc s bs s', read_chunks fuel h rem acc s = (Ok bs, s') ->
  exists ops outs data, seg s s' outs ops /\ bs = acc ++ data /\ reads h ops outs data /\
    rem <= ulen data /\ (Forall read_ok (combine ops outs) -> 0 <= rem -> ulen data = rem).
Proof.
  induction fuel as [|f IH]; intros rem acc s bs s' H; cbn [read_chunks] in H; destruct (rem <=? 0) eqn:Er;
    try discriminate.
  - inversion H; subst. exists [], [], []. repeat split; try apply reads_nil.
    + rewrite app_nil_r. reflexivity.
    + unfold ulen. cbn [length]. lia.
    + unfold ulen. cbn [length]. lia.
  - inversion H; subst. exists [], [], []. repeat split; try apply reads_nil.
    + rewrite app_nil_r. reflexivity.
    + unfold ulen. cbn [length]. lia.
    + unfold ulen. cbn [length]. lia.
  - cbv zeta in H. bind_inv H b s1 H1 H2; try discriminate. unfold with_fuel in H1.
    destruct (read_exact_ok _ _ _ _ _ _ _ H1) as (ops1 & outs1 & data1 & n' & Hr & Hn' & Hs1 & Hb).
    cbn [app] in Hb. subst b.
    destruct (IH _ _ _ _ _ H2) as (ops2 & outs2 & data2 & Hs2 & Hbs & Hr2 & Hlen & Hex).
    pose proof (rsteps_need _ _ _ _ _ _ Hr) as Hneed. pose proof (rsteps_length _ _ _ _ _ _ Hr) as L1.
    exists (ops1 ++ ops2), (outs1 ++ outs2), (data1 ++ data2). split; [|split; [|split; [|split]]].
    + eapply seg_trans; eassumption.
    + rewrite Hbs, app_assoc. reflexivity.
    + apply reads_app; [eapply rsteps_is_reads; exact Hr|exact Hr2].
    + unfold ulen in *. rewrite app_length. lia.
    + intros Hb H0. rewrite combine_app in Hb by exact L1. apply Forall_app in Hb. destruct Hb as [Hb1 Hb2].
      assert (0 <= n') by (eapply rsteps_bounded; [exact Hr|exact Hb1|unfold read_chunk; lia]).
      assert (ulen data2 = rem - Z.min rem read_chunk) by (apply Hex; [exact Hb2|unfold read_chunk; lia]).
      unfold ulen in *. rewrite app_length. lia.
Qed.

Lemma get_response_bytes_ok h s b s' : get_response_bytes h s = (Ok b, s') ->
  exists ops outs b0, seg s s' outs ops /\ reads h ops outs (b0 ++ b) /\
    4 <= ulen b0 /\ 0 <= be_dec_s b0 /\ be_dec_s b0 <= ulen b /\
    (Forall read_ok (combine ops outs) -> ulen b0 = 4 /\ ulen b = be_dec_s b0).
Proof.
  intros H. unfold get_response_bytes in H. bind_inv H size s1 H1 H2; try discriminate.
  unfold get_response_size in H1. bind_inv H1 b0 s0 H3 H4; try discriminate.
  cbv zeta in H4. destruct (be_dec_s b0 <? 0) eqn:Eneg; [discriminate|]. inversion H4; subst. clear H4.
  unfold with_fuel in H3.
  destruct (read_exact_ok _ _ _ _ _ _ _ H3) as (ops1 & outs1 & data1 & n' & Hr & Hn' & Hs1 & Hb).
  cbn [app] in Hb. subst data1.
  unfold read_exact_alloc, with_fuel in H2.
  destruct (read_chunks_ok _ _ _ _ _ _ _ H2) as (ops2 & outs2 & data2 & Hs2 & Hbs & Hr2 & Hlen & Hex).
  cbn [app] in Hbs. subst data2.
  pose proof (rsteps_need _ _ _ _ _ _ Hr) as Hneed. pose proof (rsteps_length _ _ _ _ _ _ Hr) as L1.
  exists (ops1 ++ ops2), (outs1 ++ outs2), b0.
  split; [apply (seg_trans _ _ _ _ _ _ _ Hs1 Hs2)|].
  split; [apply reads_app; [eapply rsteps_is_reads; exact Hr|exact Hr2]|].
  split; [lia|]. split; [lia|]. split; [exact Hlen|].
  intros H. rewrite combine_app in H by exact L1. apply Forall_app in H. destruct H as [Hb1 Hb2].
  assert (0 <= n') by (eapply rsteps_bounded; [exact Hr|exact Hb1|lia]).
  split; [lia|]. apply Hex; [exact Hb2|lia].
Qed.

Lemma get_response_inv {A} (d : dec A) h s r s' : get_response d h s = (r, s') ->
  (exists b, get_response_bytes h s = (Ok b, s') /\
             r = match d b with Ok (a, _) => Ok a | Err e => Err e | Panic w => Panic w end) \/
  (exists e, get_response_bytes h s = (Err e, s') /\ r = Err e).
Proof.
  intros H. unfold get_response in H. bind_inv H b s1 H1 H2.
  - left. exists b. unfold mbind, lift in H2.
    destruct (d b) as [[a rest]|e|w]; inversion H2; subst; (split; [exact H1|reflexivity]).
  - right. exists b. split; assumption.
  - exfalso. exact (nopanic_get_response_bytes _ _ _ _ _ H1 eq_refl).
Qed.

Lemma send_receive_ok {A} (d : dec A) h p s a s' : send_receive d h (Ok p) s = (Ok a, s') ->
  exists s1 s2 z b rest, get_conn h s = (Ok tt, s1) /\ send h (frame p) s1 = (Ok z, s2) /\
    get_response_bytes h s2 = (Ok b, s') /\ d b = Ok (a, rest).
Proof.
  intros H. unfold send_receive in H. bind_inv H u s1 H1 H2; try discriminate. destruct u.
  bind_inv H2 z s2 H3 H4; try discriminate.
  unfold send_request in H3. unfold mbind at 1 in H3. unfold lift in H3.
  destruct (get_response_inv _ _ _ _ _ H4) as [[b [Hb Hr]]|[e [_ Hr]]]; [|discriminate].
  destruct (d b) as [[a' rest]|e|w] eqn:Ed; inversion Hr; subst.
  exists s1, s2, z, b, rest. repeat split; assumption.
Qed.

Lemma frame_nonempty p : frame p <> [].
Proof. unfold frame, enc_i32. cbn [be_enc app]. discriminate. Qed.

(* a successful exchange consumed at least one answer *)
Lemma send_receive_ok_shrinks {A} (d : dec A) h p s a s' :
  send_receive d h (Ok p) s = (Ok a, s') -> (length (script s') < length (script s))%nat.
Proof.
  intros H. destruct (send_receive_ok _ _ _ _ _ _ H) as (s1 & s2 & z & b & rest & H1 & H2 & H3 & _).
  pose proof (ext_script_le _ _ (tracks_ext _ (tracks_get_conn h) _ _ _ H1)).
  pose proof (ext_script_le _ _ (tracks_ext _ (tracks_get_response_bytes h) _ _ _ H3)).
  unfold send in H2. bind_inv H2 u s3 H6 H7; try discriminate. inversion H7; subst. destruct u.
  unfold with_fuel in H6. pose proof (write_all_ok_shrinks _ _ _ _ _ H6 (frame_nonempty p)). lia.
Qed.

(* ================================================================================== *)
(* 9. get_conn_any                                                                    *)
(* ================================================================================== *)

Section KeepsAny.
  Variable R : st -> st -> Prop.
  Hypothesis HR : preorder R.
  Hypothesis HioC : forall h, keeps R (io (EConnect h)).
  Hypothesis HioS : forall h, keeps R (io (EShutdown h)).
  Hypothesis Hpop : keeps R pop_any.

  Lemma keepsR_get_conn_any : keeps R get_conn_any.
  Proof.
    apply keeps_bind; [exact HR|apply keeps_get_client; exact HR|]. intros c.
    destruct (conns c) as [|first rest]; [apply keeps_ret; exact HR|].
    apply keeps_bind; [exact HR|exact Hpop|]. intros pick. cbv zeta.
    destruct (idle_expired (cfg c)); [|apply keeps_ret; exact HR].
    apply keeps_bind; [exact HR|apply keeps_mtry, keepsR_new_conn; [exact HR|apply HioC]|].
    intros [u|e|w]; try (apply keeps_ret; exact HR).
    apply keeps_bind; [exact HR|apply keepsR_shutdown; [exact HR|apply HioS]|]. intros _. apply keeps_ret; exact HR.
  Qed.
End KeepsAny.

Lemma pop_any_seg s r s' : pop_any s = (r, s') -> seg s s' [] [] /\ cl s' = cl s.
Proof.
  unfold pop_any. destruct (anyq s); intros H; inversion H; subst; (split; [split; reflexivity|reflexivity]).
Qed.

Lemma keeps_pop_any_ext : keeps ext pop_any.
Proof. intros s r s' H. exists [], []. apply (pop_any_seg _ _ _ H). Qed.
Lemma keeps_pop_any_ops P : keeps (ops_in P) pop_any.
Proof.
  intros s r s' H. destruct (pop_any_seg _ _ _ H) as [Hs _]. split; [exists [], []; exact Hs|].
  rewrite (seg_performed _ _ _ _ Hs). constructor.
Qed.

Definition same_cl (s s' : st) : Prop := cl s' = cl s.
Lemma preorder_same_cl : preorder same_cl.
Proof. split; [intros s; reflexivity|intros s s1 s2 H1 H2; unfold same_cl in *; congruence]. Qed.
Lemma keeps_io_same_cl op : keeps same_cl (io op).
Proof. intros s r s' H. apply (keeps_io_frame op _ _ _ H). Qed.

Lemma keeps_ext_io op : keeps ext (io op).
Proof. apply tracks_ext, tracks_io. Qed.

Theorem ext_get_conn_any : keeps ext get_conn_any.
Proof.
  apply keepsR_get_conn_any; [apply preorder_ext|intros; apply keeps_ext_io|intros; apply keeps_ext_io|
                              apply keeps_pop_any_ext].
Qed.
Theorem frame_get_conn_any : keeps same_cl get_conn_any.
Proof.
  apply keepsR_get_conn_any; [apply preorder_same_cl|intros; apply keeps_io_same_cl|intros; apply keeps_io_same_cl|].
  intros s r s' H. apply (pop_any_seg _ _ _ H).
Qed.
Theorem ops_get_conn_any : keeps (ops_in not_write) get_conn_any.
Proof.
  apply keepsR_get_conn_any; [apply preorder_ops_in| | |apply keeps_pop_any_ops];
    intros h; apply keeps_io_ops; exact I.
Qed.

Lemma nofuel_mtry {A} (m : M A) : nofuel (mtry m).
Proof. intros s r s' H. unfold mtry in H. destruct (m s) as [[a|e|w] s1]; inversion H; subst; discriminate. Qed.
Lemma nopanic_mtry {A} (m : M A) : nopanic m -> nopanic (mtry m).
Proof.
  intros Hm s r s' w H. unfold mtry in H. destruct (m s) as [[a|e|w'] s1] eqn:E; inversion H; subst; try discriminate.
  exfalso. exact (Hm _ _ _ _ E eq_refl).
Qed.
Lemma nofuel_pop_any : nofuel pop_any.
Proof. intros s r s' H. unfold pop_any in H. destruct (anyq s); inversion H; subst; discriminate. Qed.
Lemma nopanic_pop_any : nopanic pop_any.
Proof. intros s r s' w H. unfold pop_any in H. destruct (anyq s); inversion H; subst; discriminate. Qed.

(* it answers None when the pool is empty or the re-connect failed; it never panics *)
Lemma nofuel_get_conn_any : nofuel get_conn_any.
Proof.
  apply nofuel_bind; [apply nofuel_get_client|]. intros c.
  destruct (conns c) as [|first rest]; [apply nofuel_ret|].
  apply nofuel_bind; [apply nofuel_pop_any|]. intros pick. cbv zeta.
  destruct (idle_expired (cfg c)); [|apply nofuel_ret].
  apply nofuel_bind; [apply nofuel_mtry|]. intros [u|e|w]; try apply nofuel_ret.
  apply nofuel_bind; [apply nofuel_shutdown|intros _; apply nofuel_ret].
Qed.
Lemma nopanic_get_conn_any : nopanic get_conn_any.
Proof.
  apply nopanic_bind; [apply nopanic_get_client|]. intros c.
  destruct (conns c) as [|first rest]; [apply nopanic_ret|].
  apply nopanic_bind; [apply nopanic_pop_any|]. intros pick. cbv zeta.
  destruct (idle_expired (cfg c)); [|apply nopanic_ret].
  apply nopanic_bind; [apply nopanic_mtry, nopanic_new_conn|]. intros [u|e|w]; try apply nopanic_ret.
  apply nopanic_bind; [apply nopanic_shutdown|intros _; apply nopanic_ret].
Qed.

(* steps: the only catch (mtry) is followed by no further event when it caught an error *)
Theorem steps_get_conn_any : forall s r s', get_conn_any s = (r, s') -> steps s s'.
Proof.
  intros s r s' H. unfold get_conn_any in H. unfold mbind at 1 in H. unfold get_client at 1 in H.
  destruct (conns (cl s)) as [|first rest]; [inversion H; subst; apply steps_refl|].
  bind_inv H pick s1 H1 H2.
  - destruct (pop_any_seg _ _ _ H1) as [Hs1 _].
    assert (F1 : full s s1) by (exists [], []; split; [exact Hs1|reflexivity]).
    apply (full_steps_trans _ _ _ F1). cbv zeta in H2.
    destruct (idle_expired (cfg (cl s))); [|inversion H2; subst; apply steps_refl].
    unfold mbind at 1 in H2. unfold mtry in H2.
    destruct (new_conn _ s1) as [[u|e|w] s2] eqn:En.
    + pose proof (stepsR_ok_full _ _ _ (tracks_new_conn _ _ _ _ En)) as F2.
      apply (full_steps_trans _ _ _ F2).
      assert (T : tracks (let+ _ := shutdown (match pick with
                                                | Some h => if in_pool h (first :: rest) then h else first
                                                | None => first end) in ret (Some (match pick with
                                                | Some h => if in_pool h (first :: rest) then h else first
                                                | None => first end)))).
      { apply tracks_bind; [apply tracks_shutdown|intros _; apply tracks_ret]. }
      eapply stepsR_steps, T, H2.
    + inversion H2; subst. eapply stepsR_steps, tracks_new_conn, En.
    + inversion H2; subst. eapply stepsR_steps, tracks_new_conn, En.
  - unfold pop_any in H1. destruct (anyq s); discriminate.
  - unfold pop_any in H1. destruct (anyq s); discriminate.
Qed.

(* ---- non-vacuity ------------------------------------------------------------------------- *)
Example steps_ex :
  let s := {| script := [OWrote 3; OWrote 9]; trace := []; anyq := anyq st0; hostq := []; fetchq := [];
              entryq := []; cl := cl st0; env := env st0 |} in
  let s' := snd (with_fuel (fun f => write_all f [] [x01; x02; x03; x04; x05]) s) in
  consumed s s' = [OWrote 3; OWrote 9] /\
  performed s s' = [EWrite [] [x01; x02; x03; x04; x05]; EWrite [] [x04; x05]] /\ steps s s'.
Proof.
  cbv zeta. split; [vm_compute; reflexivity|]. split; [vm_compute; reflexivity|].
  eapply steps_write_all. unfold with_fuel. apply surjective_pairing.
Qed.

Print Assumptions steps_refl.
Print Assumptions steps_trans_refuted.
Print Assumptions steps_le_trans.
Print Assumptions full_steps_trans.
Print Assumptions steps_io.
Print Assumptions steps_write_all.
Print Assumptions steps_read_exact.
Print Assumptions steps_read_chunks.
Print Assumptions steps_get_conn.
Print Assumptions steps_get_conn_any.
Print Assumptions steps_send_request.
Print Assumptions steps_get_response.
Print Assumptions steps_send_receive.
Print Assumptions frame_send_receive.
Print Assumptions frame_get_conn.
Print Assumptions frame_get_response.
Print Assumptions write_all_run.
Print Assumptions read_exact_run.
Print Assumptions get_response_bytes_ok.
