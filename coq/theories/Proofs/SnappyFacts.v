(* Facts and examples about the snappy model (theories/Base/Snappy.v). *)
From KV Require Import Base.Prelude Base.Snappy Proofs.BytesFacts.
From Coq Require Import ZifyBool.
Import Coq.Strings.String.StringSyntax.
Local Delimit Scope string_scope with str.

(* ====================================================================== *)
(* copy_back: the one-pass copy agrees with the byte-by-byte loop          *)
(* ====================================================================== *)

Lemma nth_skipn_add : forall (m k : nat) (l : bytes) d,
  nth k (skipn m l) d = nth (m + k) l d.
Proof.
  induction m as [|m IH]; intros k l d; [reflexivity|].
  destruct l as [|a l]; [destruct k; reflexivity|]. simpl. apply IH.
Qed.

Lemma firstn_S_nth : forall (k : nat) (l : bytes) d,
  (k < length l)%nat -> firstn (S k) l = firstn k l ++ [nth k l d].
Proof.
  induction k as [|k IH]; intros l d H; destruct l as [|a l]; simpl in H; try lia.
  - reflexivity.
  - change (firstn (S (S k)) (a :: l)) with (a :: firstn (S k) l).
    rewrite (IH l d) by lia. reflexivity.
Qed.

Lemma copy_slow_pre : forall (k : nat) (pre rout : bytes) (off : nat),
  (length pre + k <= off)%nat -> (off <= length rout)%nat ->
  copy_slow k off (pre ++ rout)
  = firstn k (skipn (off - length pre - k) rout) ++ pre ++ rout.
Proof.
  induction k as [|k IH]; intros pre rout off H1 H2; [reflexivity|].
  cbn [copy_slow].
  rewrite app_nth2 by lia.
  set (x := nth (off - 1 - length pre) rout x00).
  change (x :: pre ++ rout) with ((x :: pre) ++ rout).
  rewrite IH by (simpl; lia).
  cbn [length].
  replace (off - S (length pre) - k)%nat with (off - length pre - S k)%nat by lia.
  set (m := (off - length pre - S k)%nat).
  rewrite (firstn_S_nth k (skipn m rout) x00) by (rewrite skipn_length; lia).
  rewrite nth_skipn_add.
  replace (m + k)%nat with (off - 1 - length pre)%nat by lia.
  fold x. rewrite <- app_assoc. reflexivity.
Qed.

Lemma copy_back_slow : forall (n off : nat) (rout : bytes),
  (off <= length rout)%nat -> copy_back n off rout = copy_slow n off rout.
Proof.
  intros n off rout H. unfold copy_back.
  destruct (Nat.leb n off) eqn:E; [|reflexivity].
  apply Nat.leb_le in E.
  pose proof (copy_slow_pre n [] rout off ltac:(simpl; lia) H) as P.
  simpl in P. rewrite Nat.sub_0_r in P. symmetry. exact P.
Qed.

(* ====================================================================== *)
(* which outcomes SnappyReader::new(..)?.read_to_end(..)? can have          *)
(* ====================================================================== *)

Lemma zread_i32_ok : forall bs v r,
  zread_i32 bs = Ok (v, r) -> r = skipn 4 bs /\ (4 <= length bs)%nat.
Proof.
  intros bs v r. unfold zread_i32. rewrite zread_unfold.
  destruct (Nat.ltb (length bs) 4) eqn:E; simpl; intro H; [discriminate|].
  apply Nat.ltb_ge in E. inversion H. auto.
Qed.

Lemma zread_i32_cases : forall bs,
  (exists v r, zread_i32 bs = Ok (v, r)) \/ zread_i32 bs = Err EUnexpectedEOF.
Proof.
  intros bs. unfold zread_i32. rewrite zread_unfold.
  destruct (Nat.ltb (length bs) 4); simpl; eauto.
Qed.

Definition loop_outcome (r : res bytes) : Prop :=
  (exists o, r = Ok o) \/ r = Err (EIo IoOther) \/ r = Panic split_at_panic.

(* |data| fuel is enough: EOutOfFuel is never produced, and the loop only ends
   in Ok, Err (EIo IoOther) or the split_at panic *)
Lemma xerial_loop_outcomes : forall fuel data out mx,
  (length data <= fuel)%nat -> loop_outcome (fst (xerial_loop fuel data out mx)).
Proof.
  unfold loop_outcome.
  induction fuel as [|fuel IH]; intros data out mx Hlen; destruct data as [|b data].
  - simpl. eauto.
  - simpl in Hlen. lia.
  - simpl. eauto.
  - cbn [xerial_loop].
    destruct (zread_i32 (b :: data)) as [[cs r]|e|w] eqn:Ez; [|simpl; auto..].
    apply zread_i32_ok in Ez. destruct Ez as [Er H4].
    destruct (cs <=? 0); [simpl; auto|].
    destruct (Z.of_nat (length r) <? cs) eqn:Ecs; [simpl; auto|].
    destruct (uncompress_to (firstn (Z.to_nat cs) r) out) as [out'|]; [|simpl; auto].
    apply IH. rewrite skipn_length. subst r. rewrite skipn_length.
    simpl length in *. lia.
Qed.

Lemma xerial_loop_no_fuel : forall data out mx,
  fst (xerial_loop (length data) data out mx) <> Err EOutOfFuel.
Proof.
  intros data out mx H.
  destruct (xerial_loop_outcomes (length data) data out mx (le_n _)) as [[o Ho]|[Ho|Ho]];
    rewrite Ho in H; discriminate.
Qed.

Lemma validate_stream_cases : forall s,
  (exists data, validate_stream s = Ok data)
  \/ validate_stream s = Err EUnexpectedEOF
  \/ validate_stream s = Err EInvalidSnappy.
Proof.
  intros s. unfold validate_stream.
  destruct (Nat.ltb (length s) 8); [auto|].
  destruct (negb (bytes_eqb (firstn 8 s) xerial_magic)); [auto|].
  destruct (zread_i32_cases (skipn 8 s)) as [[v [r ->]]| ->]; simpl; [|auto].
  destruct (negb (v =? 1)); [auto|].
  destruct (zread_i32_cases r) as [[v2 [r2 ->]]| ->]; simpl; [|auto].
  destruct (negb (v2 =? 1)); eauto.
Qed.

(* Exactly these five shapes:
     Ok out
     Err EUnexpectedEOF     SnappyReader::new: stream shorter than magic + 2 x i32
     Err EInvalidSnappy     SnappyReader::new: wrong magic / version / compat
     Err (EIo IoOther)      anything failing in _read_to_end (via to_io_error!)
     Panic "snappy split_at"  chunk size larger than the rest of the stream
   (each of them does occur: Examples below) *)
Theorem xerial_read_to_end_total : forall stream,
  let r := xerial_read_to_end stream in
  (exists out, r = Ok out)
  \/ r = Err EUnexpectedEOF
  \/ r = Err EInvalidSnappy
  \/ r = Err (EIo IoOther)
  \/ r = Panic split_at_panic.
Proof.
  intros stream. unfold xerial_read_to_end, xerial_run. cbv zeta.
  destruct (validate_stream_cases stream) as [[data ->]|[->| ->]]; simpl; auto.
  destruct (xerial_loop_outcomes (length data) data [] 0 (le_n _)) as [H|[H|H]]; auto.
Qed.

(* the allocation request is never negative and below off + 2^32 *)
Lemma uncompress_alloc_bound : forall src dst,
  0 <= uncompress_alloc src dst <= Z.of_nat (length dst) + u32_max.
Proof.
  intros src dst. unfold uncompress_alloc, snappy_decompress_len_Z, snappy_header.
  assert (Hu : 0 <= u32_max) by (unfold u32_max; lia).
  destruct src as [|b src]; [simpl; lia|].
  destruct (varint_go 5 0 0 (b :: src)) as [[v r]|]; [|lia].
  destruct (v >? u32_max) eqn:E; [lia|].
  destruct (v >? 0) eqn:E0; lia.
Qed.

(* ====================================================================== *)
(* literal-only encoder: round trip                                       *)
(* ====================================================================== *)

Lemma Zb_bZ : forall z, 0 <= z < 256 -> Zb (bZ z) = z.
Proof.
  intros z H. unfold Zb, bZ. rewrite Z.mod_small by lia.
  destruct (Byte.of_N (Z.to_N z)) as [b|] eqn:E.
  - apply Byte.to_of_N in E. rewrite E. lia.
  - apply Byte.of_N_None_iff in E. lia.
Qed.

Lemma varint_enc_S : forall f n,
  varint_enc (S f) n
  = if n <? 128 then [bZ n] else bZ (n mod 128 + 128) :: varint_enc f (n / 128).
Proof. reflexivity. Qed.

Lemma varint_go_cons : forall f shift acc b r,
  varint_go (S f) shift acc (b :: r)
  = if Zb b <? 128 then Some (acc + Zb b * 2 ^ shift, r)
    else varint_go f (shift + 7) (acc + (Zb b - 128) * 2 ^ shift) r.
Proof. reflexivity. Qed.

Lemma varint_roundtrip : forall f n shift acc rest,
  0 <= n < 2 ^ (7 * Z.of_nat (S f)) -> 0 <= shift ->
  varint_go (S f) shift acc (varint_enc (S f) n ++ rest) = Some (acc + n * 2 ^ shift, rest).
Proof.
  induction f as [|f IH]; intros n shift acc rest Hn Hs.
  - change (7 * Z.of_nat 1) with 7 in Hn. change (2 ^ 7) with 128 in Hn.
    rewrite varint_enc_S. destruct (n <? 128) eqn:E; [|lia].
    cbn [app]. rewrite varint_go_cons. rewrite Zb_bZ by lia. rewrite E. reflexivity.
  - rewrite varint_enc_S. destruct (n <? 128) eqn:E.
    + cbn [app]. rewrite varint_go_cons. rewrite Zb_bZ by lia. rewrite E. reflexivity.
    + apply Z.ltb_ge in E.
      assert (Hm : 0 <= n mod 128 < 128) by (apply Z.mod_pos_bound; lia).
      rewrite <- app_comm_cons. rewrite varint_go_cons. rewrite Zb_bZ by lia.
      destruct (n mod 128 + 128 <? 128) eqn:E2; [lia|].
      rewrite IH.
      * f_equal. f_equal.
        rewrite Z.pow_add_r by lia. change (2 ^ 7) with 128.
        pose proof (Z.div_mod n 128 ltac:(lia)) as Hd.
        replace (n mod 128 + 128 - 128) with (n mod 128) by lia.
        set (q := n / 128) in *. set (m := n mod 128) in *. set (p := 2 ^ shift).
        replace (acc + n * p) with (acc + (128 * q + m) * p) by (rewrite <- Hd; reflexivity).
        ring.
      * split; [apply Z.div_pos; lia|].
        apply Z.div_lt_upper_bound; [lia|].
        replace (7 * Z.of_nat (S (S f))) with (7 + 7 * Z.of_nat (S f)) in Hn by lia.
        rewrite Z.pow_add_r in Hn by lia. change (2 ^ 7) with 128 in Hn. lia.
      * lia.
Qed.

Lemma take_rev_app : forall (c rest acc : bytes),
  take_rev (c ++ rest) (Z.of_nat (length c)) acc = Some (rev c ++ acc, rest).
Proof.
  induction c as [|a c IH]; intros rest acc.
  - destruct rest; reflexivity.
  - cbn [app length]. cbn [take_rev].
    destruct (Z.of_nat (S (length c)) <=? 0) eqn:E; [lia|].
    replace (Z.of_nat (S (length c)) - 1) with (Z.of_nat (length c)) by lia.
    rewrite IH. cbn [rev]. rewrite <- app_assoc. reflexivity.
Qed.

Lemma decode_lit_chunks : forall fuel src fuel2 rout dlen d,
  (length src <= fuel)%nat ->
  (length (lit_chunks fuel src) <= fuel2)%nat ->
  d + Z.of_nat (length src) = dlen ->
  decode_tags fuel2 dlen (lit_chunks fuel src) rout d = Some (rev rout ++ src).
Proof.
  induction fuel as [|fuel IH]; intros src fuel2 rout dlen d H1 H2 H3.
  - destruct src; [|simpl in H1; lia].
    simpl in H3. rewrite app_nil_r.
    destruct fuel2; simpl; replace (d =? dlen) with true by lia; reflexivity.
  - destruct src as [|b s].
    + simpl in H3. rewrite app_nil_r.
      destruct fuel2; simpl; replace (d =? dlen) with true by lia; reflexivity.
    + remember (b :: s) as src eqn:Esrc.
      assert (Hne : (1 <= length src)%nat) by (subst src; simpl; lia).
      assert (Hc : lit_chunks (S fuel) src =
                   bZ ((Z.of_nat (length (firstn 60 src)) - 1) * 4)
                     :: firstn 60 src ++ lit_chunks fuel (skipn 60 src))
        by (subst src; reflexivity).
      rewrite Hc in *. clear Hc.
      set (c := firstn 60 src) in *.
      assert (Hk : (1 <= length c <= 60)%nat /\ (length c <= length src)%nat).
      { unfold c. rewrite firstn_length. lia. }
      destruct fuel2 as [|f2]; [simpl in H2; lia|].
      cbn [decode_tags]. unfold decode_step.
      rewrite Zb_bZ by lia.
      rewrite Z.mod_mul by lia. cbn [Z.eqb].
      unfold lit_len. rewrite Z.div_mul by lia.
      replace (Z.of_nat (length c) - 1 + 1) with (Z.of_nat (length c)) by lia.
      destruct (Z.of_nat (length c) <=? 60) eqn:E60; [|lia].
      destruct (dlen - d <? Z.of_nat (length c)) eqn:Ed; [lia|].
      rewrite take_rev_app.
      rewrite IH.
      * rewrite rev_app_distr, rev_involutive, <- app_assoc.
        unfold c. rewrite firstn_skipn. reflexivity.
      * rewrite skipn_length. lia.
      * cbn [length] in H2. rewrite app_length in H2. lia.
      * rewrite skipn_length.
        assert (length c = Nat.min 60 (length src)) by (unfold c; apply firstn_length).
        lia.
Qed.

Lemma varint_enc_nonempty : forall f n, varint_enc (S f) n <> [].
Proof. intros f n. cbn [varint_enc]. destruct (n <? 128); discriminate. Qed.

Theorem snappy_lit_roundtrip : forall x,
  Z.of_nat (length x) <= u32_max ->
  snappy_raw_decompress (snappy_lit_compress x) = Some x.
Proof.
  intros x Hx. unfold snappy_raw_decompress, snappy_lit_compress.
  destruct (varint_enc 5 (Z.of_nat (length x)) ++ lit_chunks (length x) x) as [|b0 l0] eqn:E.
  { apply app_eq_nil in E. destruct E as [E _]. apply varint_enc_nonempty in E. contradiction. }
  rewrite <- E. clear E b0 l0.
  unfold snappy_header.
  rewrite varint_roundtrip.
  - rewrite Z.mul_1_r, Z.add_0_l.
    destruct (Z.of_nat (length x) >? u32_max) eqn:E; [lia|].
    rewrite decode_lit_chunks; auto.
  - change (2 ^ (7 * Z.of_nat 5)) with 34359738368. unfold u32_max in Hx. lia.
  - lia.
Qed.

Corollary uncompress_to_lit : forall x dst,
  Z.of_nat (length x) <= u32_max ->
  uncompress_to (snappy_lit_compress x) dst = Some (dst ++ x).
Proof.
  intros x dst Hx. unfold uncompress_to.
  pose proof (snappy_lit_roundtrip x Hx) as R.
  unfold snappy_decompress_len_Z.
  unfold snappy_raw_decompress in R.
  destruct (snappy_lit_compress x) as [|b0 l0] eqn:E; [discriminate|].
  rewrite <- E in *.
  unfold snappy_lit_compress in *.
  unfold snappy_header in *.
  rewrite varint_roundtrip in *;
    try (change (2 ^ (7 * Z.of_nat 5)) with 34359738368; unfold u32_max in Hx; lia); try lia.
  rewrite Z.mul_1_r, Z.add_0_l in *.
  destruct (Z.of_nat (length x) >? u32_max) eqn:E1; [lia|].
  destruct (Z.of_nat (length x) >? 0) eqn:E0.
  - unfold snappy_raw_decompress. rewrite E. rewrite <- E.
    unfold snappy_header. rewrite varint_roundtrip;
      try (change (2 ^ (7 * Z.of_nat 5)) with 34359738368; unfold u32_max in Hx; lia); try lia.
    rewrite Z.mul_1_r, Z.add_0_l. rewrite E1. rewrite R. reflexivity.
  - destruct x; [rewrite app_nil_r; reflexivity|simpl length in E0; lia].
Qed.

(* ====================================================================== *)
(* examples                                                               *)
(* ====================================================================== *)

Definition ramp (n : nat) : bytes := map (fun i => bZ (Z.of_nat i * 7 + 3)) (seq 0 n).

Example lit_rt_empty : snappy_raw_decompress (snappy_lit_compress []) = Some [].
Proof. vm_compute. reflexivity. Qed.
Example lit_rt_1 : snappy_raw_decompress (snappy_lit_compress [x42]) = Some [x42].
Proof. vm_compute. reflexivity. Qed.
Example lit_rt_70 : snappy_raw_decompress (snappy_lit_compress (ramp 70)) = Some (ramp 70).
Proof. vm_compute. reflexivity. Qed.
Example lit_rt_300 : snappy_raw_decompress (snappy_lit_compress (ramp 300)) = Some (ramp 300).
Proof. vm_compute. reflexivity. Qed.
Example lit_compress_shape :
  snappy_lit_compress (ramp 130) =
    [x82; x01] ++ [xec] ++ ramp 60 ++ [xec] ++ firstn 60 (skipn 60 (ramp 130))
               ++ [x24] ++ skipn 120 (ramp 130).
Proof. vm_compute. reflexivity. Qed.

(* kafka-rust's own unit test vectors (snappy.rs: test_compress, test_uncompress, test_uncompress_invalid_input) *)
Definition this_is_test : bytes := tag "This is test"%str.
Example repo_test_uncompress :
  uncompress_to [x0c; x2c; x54; x68; x69; x73; x20; x69; x73; x20; x74; x65; x73; x74] []
  = Some this_is_test.
Proof. vm_compute. reflexivity. Qed.
Example repo_test_uncompress_invalid :
  uncompress_to [x0c; x2a; x54; x68; x69; x73; x20; x69; x73; x20; x74; x65; x73; x74] []
  = None.
Proof. vm_compute. reflexivity. Qed.

(* copies: literal "abcd", copy-1 len 11 offset 3 (overlapping) *)
Example copy_overlap :
  snappy_raw_decompress [x0f; x0c; x61; x62; x63; x64; x1d; x03]
  = Some (tag "abcdbcdbcdbcdbc"%str).
Proof. vm_compute. reflexivity. Qed.
(* literal "abcdefgh", copy-4 len 5 offset 8 *)
Example copy4 :
  snappy_raw_decompress
    [x0d; x1c; x61; x62; x63; x64; x65; x66; x67; x68; x13; x08; x00; x00; x00]
  = Some (tag "abcdefghabcde"%str).
Proof. vm_compute. reflexivity. Qed.
(* offset 0, offset > written, copy past the announced length, trailing element *)
Example copy_off0 : snappy_raw_decompress [x08; x0c; x61; x62; x63; x64; x01; x00] = None.
Proof. vm_compute. reflexivity. Qed.
Example copy_off5 : snappy_raw_decompress [x08; x0c; x61; x62; x63; x64; x01; x05] = None.
Proof. vm_compute. reflexivity. Qed.
Example copy_past_end : snappy_raw_decompress [x07; x0c; x61; x62; x63; x64; x01; x04] = None.
Proof. vm_compute. reflexivity. Qed.
Example trailing_elem : snappy_raw_decompress [x04; x0c; x61; x62; x63; x64; x00; x65] = None.
Proof. vm_compute. reflexivity. Qed.

Example decompress_len_empty : snappy_decompress_len [] = Some 0%nat.
Proof. reflexivity. Qed.
Example raw_decompress_empty : snappy_raw_decompress [] = None.
Proof. reflexivity. Qed.
(* 2^32 - 1 is accepted, 2^32 is not; a 6 byte varint is not *)
Example len_u32_max : snappy_decompress_len_Z [xff; xff; xff; xff; x0f] = Some 4294967295.
Proof. vm_compute. reflexivity. Qed.
Example len_2_32 : snappy_decompress_len_Z [x80; x80; x80; x80; x10] = None.
Proof. vm_compute. reflexivity. Qed.
Example len_6_bytes : snappy_decompress_len_Z [x80; x80; x80; x80; x80; x00] = None.
Proof. vm_compute. reflexivity. Qed.
Example len_noncanonical_zero : snappy_decompress_len_Z [x80; x80; x80; x80; x00] = Some 0.
Proof. vm_compute. reflexivity. Qed.

(* --- xerial framing ---------------------------------------------------- *)

Example xerial_two_chunks :
  xerial_read_to_end (xerial_frame [snappy_lit_compress (ramp 70); snappy_lit_compress (ramp 300)])
  = Ok (ramp 70 ++ ramp 300).
Proof. vm_compute. reflexivity. Qed.
Example xerial_two_chunks_alloc :
  xerial_max_alloc (xerial_frame [snappy_lit_compress (ramp 70); snappy_lit_compress (ramp 300)])
  = 370.
Proof. vm_compute. reflexivity. Qed.
Example xerial_small :
  xerial_read_to_end (xerial_frame [snappy_lit_compress [x61]; snappy_lit_compress []; snappy_lit_compress [x62; x63]])
  = Ok [x61; x62; x63].
Proof. vm_compute. reflexivity. Qed.
Example xerial_no_chunks : xerial_read_to_end (xerial_frame []) = Ok [].
Proof. vm_compute. reflexivity. Qed.

(* all five outcomes of xerial_read_to_end_total occur *)
Example outcome_eof : xerial_read_to_end (firstn 15 xerial_header) = Err EUnexpectedEOF.
Proof. vm_compute. reflexivity. Qed.
Example outcome_invalid : xerial_read_to_end (xerial_magic ++ enc_i32 2 ++ enc_i32 1) = Err EInvalidSnappy.
Proof. vm_compute. reflexivity. Qed.
(* chunk length cut short: UnexpectedEOF of next_i32! inside _read_to_end -> Io *)
Example outcome_io_eof : xerial_read_to_end (xerial_header ++ [x00; x00; x00]) = Err (EIo IoOther).
Proof. vm_compute. reflexivity. Qed.
Example outcome_io_size0 : xerial_read_to_end (xerial_header ++ enc_i32 0) = Err (EIo IoOther).
Proof. vm_compute. reflexivity. Qed.
Example outcome_io_size_neg : xerial_read_to_end (xerial_header ++ enc_i32 (-1)) = Err (EIo IoOther).
Proof. vm_compute. reflexivity. Qed.
(* chunk size 2 but only 1 byte left: an error (a split_at panic before the fix in /repo) *)
Example outcome_panic :
  xerial_read_to_end (xerial_header ++ enc_i32 2 ++ [x00]) = Err (EIo IoOther).
Proof. vm_compute. reflexivity. Qed.
(* chunk size 1 and nothing left *)
Example outcome_panic_min :
  xerial_read_to_end (xerial_header ++ enc_i32 1) = Err (EIo IoOther).
Proof. vm_compute. reflexivity. Qed.

(* --- behaviour of the real code worth knowing --------------------------- *)

(* a chunk announcing length 0 is accepted whatever follows the header byte:
   uncompress_to never calls the decoder when decompress_len = 0 *)
Example zero_header_garbage :
  xerial_read_to_end (xerial_header ++ enc_i32 4 ++ [x00; xff; xff; xff]) = Ok [].
Proof. vm_compute. reflexivity. Qed.

(* a 5 byte chunk makes uncompress_to resize (and zero) 4 GiB - 1 before the
   decoder looks at a single tag; the decode then fails *)
Example alloc_4g :
  xerial_run (xerial_header ++ enc_i32 5 ++ [xff; xff; xff; xff; x0f])
  = (Err (EIo IoOther), 4294967295).
Proof. vm_compute. reflexivity. Qed.
