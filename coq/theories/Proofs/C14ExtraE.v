(* C14, additional theorems, fourth pass (mutation adequacy, round-seven seed).

   Seed C14-7 (PartitionOffsetFetchResponse::get_offsets looks at the "no offset" marker, offset = -1,
   BEFORE the error code; Kafka writes -1 next to every code, so 14 / 16 / fatal codes of a group offset
   fetch come out as "nothing committed") is already refuted by C14_group_fetch_step (and with it
   C14_group_fetch_counter_own, C14_fetch_group_offsets_ok_iff): those are stated over the codes ON THE
   WIRE (fetch_codes = the error fields of the decoded entries), not over get_offsets; on the model
   mutated the same way the negation of C14_group_fetch_step is proved with the seed's own answer
   (offset -1, code 14, limit 3).  What the earlier passes left implicit or open, and this file adds:

   1. the verdict on a group-offset-fetch answer as a TOTAL function of the wire: codes decide, the
      offset / metadata fields next to a code do not enter (C14_fetch_verdict,
      C14_fetch_verdict_codes_only, C14_fetch_verdict_relayout), and the success value is explicit
      (fetch_value: offset as sent, -1 for code 3) - C14_group_fetch_step had "exists m" there;
   2. with the value explicit, the converse that was missing for the group offset fetch:
      b answers 14 / 16 (whatever their offset fields) and then a clean one succeed IF AND ONLY IF
      1 + b <= max 1 limit, and the result is exactly fetch_value of the clean answer
      (C14_fetch_group_offsets_budget_iff; C14_fetch_group_topic_offset_iff for the third entry);
   3. histories: what a SUCCESSFUL group call leaves behind - the coordinator it last talked to is
      cached, so the next group call of whatever kind sends its first request there without a lookup
      (C14_ok_leaves_coordinator, C14_calls_ok_leave_coordinator, C14_moved_then_direct). *)
From KV Require Import Base.Prelude Gen.ErrorCodes Gen.Consts Model.Codecs Model.Requests Model.Responses
                       Model.ClientState Model.Net Model.Client.
From KV Require Import Proofs.BytesFacts Proofs.C11Facts Proofs.NetFacts Proofs.C14Facts Proofs.C14Extra
                       Proofs.C14ExtraB Proofs.C14ExtraC.
From Coq Require Import ZifyBool.

(* ================================================================================== *)
(* 1. the verdict on an OffsetFetch answer, from the wire                              *)
(* ================================================================================== *)

(* what a partition entry without a (real) error code contributes: the offset as sent, or -1 when the
   entry carries code 3 ("nothing committed" of protocol v0) *)
Definition part_value (p : offset_fetch_part) : Z * Z :=
  (ofp_partition p, match from_protocol (ofp_error p) with None => ofp_offset p | Some _ => -1 end).
Definition fetch_value_from (tps : list (bytes * list offset_fetch_part)) (m : list (bytes * list (Z * Z)))
  : list (bytes * list (Z * Z)) :=
  fold_left (fun m tp => map_insert m (fst tp) (map part_value (snd tp))) tps m.
Definition fetch_value (tps : list (bytes * list offset_fetch_part)) : list (bytes * list (Z * Z)) :=
  fetch_value_from tps [].

Lemma group_scan_parts_value ps : forall acc,
  first_gcode (map ofp_error ps) = None -> group_scan_parts ps acc = GOk (acc ++ map part_value ps).
Proof.
  induction ps as [|p ps IH]; intros acc H; cbn [map first_gcode group_scan_parts] in *.
  - rewrite app_nil_r. reflexivity.
  - unfold get_offsets, part_value. destruct (from_protocol (ofp_error p)) as [c|].
    + destruct (c =? KC_UnknownTopicOrPartition); [|discriminate].
      rewrite (IH _ H), <- app_assoc. reflexivity.
    + rewrite (IH _ H), <- app_assoc. reflexivity.
Qed.

Lemma group_scan_value tps : forall m,
  first_gcode (fetch_codes tps) = None -> group_scan tps m = inl (inl (fetch_value_from tps m)).
Proof.
  induction tps as [|[t ps] tps IH]; intros m H; [reflexivity|].
  unfold fetch_codes in H. cbn [flat_map snd] in H. rewrite first_gcode_app in H. fold (fetch_codes tps) in H.
  destruct (first_gcode (map ofp_error ps)) as [c|] eqn:Ep; [discriminate|].
  cbn [group_scan]. rewrite (group_scan_parts_value ps [] Ep). cbn [app].
  unfold fetch_value_from. cbn [fold_left fst snd]. apply IH. exact H.
Qed.

(* the classification of a code *)
Definition verdict_of_code {B} (code : Z) : verdict B :=
  if code =? KC_GroupLoadInProgress then VRetry code false
  else if code =? KC_NotCoordinatorForGroup then VRetry code true else VFatal code.

(* The verdict is a function of the answer as decoded from the wire: the first code other than 0 and 3,
   in answer order, decides - 14 retry, 16 retry with the coordinator dropped, anything else final -
   and NOTHING else of the entry carrying it (offset, metadata) is looked at; without such a code the
   call's value is the offsets as sent (-1 under code 3). *)
Theorem C14_fetch_verdict : forall c tps,
  fetch_judge (c, tps) =
  match first_gcode (fetch_codes tps) with
  | Some code => verdict_of_code code
  | None => VDone (fetch_value tps)
  end.
Proof.
  intros c tps. unfold fetch_judge. cbn [snd]. pose proof (group_scan_wire tps []) as Hw.
  destruct (first_gcode (fetch_codes tps)) as [code|] eqn:Ec.
  - rewrite Hw. unfold verdict_of_code. destruct (code =? KC_GroupLoadInProgress); [reflexivity|].
    destruct (code =? KC_NotCoordinatorForGroup); reflexivity.
  - rewrite (group_scan_value tps [] Ec). reflexivity.
Qed.

(* two answers with the same codes get the same kind of verdict, and the same retryable / final code *)
Theorem C14_fetch_verdict_codes_only : forall c tps c' tps',
  fetch_codes tps = fetch_codes tps' ->
  (forall code reset, fetch_judge (c, tps) = VRetry code reset <-> fetch_judge (c', tps') = VRetry code reset) /\
  (forall code, fetch_judge (c, tps) = VFatal code <-> fetch_judge (c', tps') = VFatal code) /\
  ((exists m, fetch_judge (c, tps) = VDone m) <-> (exists m', fetch_judge (c', tps') = VDone m')).
Proof.
  intros c tps c' tps' H. rewrite !C14_fetch_verdict, <- H.
  destruct (first_gcode (fetch_codes tps)) as [code|].
  - split; [|split]; intros; reflexivity.
  - split; [|split]; try (intros; split; discriminate). split; intros _; eexists; reflexivity.
Qed.

(* an answer laid out differently: the same partitions and codes, offsets and metadata chosen freely *)
Definition relayout (fo : offset_fetch_part -> Z) (fm : offset_fetch_part -> bytes)
           (tps : list (bytes * list offset_fetch_part)) : list (bytes * list offset_fetch_part) :=
  map (fun tp => (fst tp, map (fun p => {| ofp_partition := ofp_partition p; ofp_offset := fo p;
                                           ofp_metadata := fm p; ofp_error := ofp_error p |}) (snd tp))) tps.

Lemma fetch_codes_relayout fo fm tps : fetch_codes (relayout fo fm tps) = fetch_codes tps.
Proof.
  unfold fetch_codes, relayout. induction tps as [|[t ps] tps IH]; [reflexivity|].
  cbn [map flat_map fst snd]. rewrite IH, map_map. reflexivity.
Qed.

(* Kafka writes offset -1 and empty metadata next to every code; a scripted broker may leave 0 or the
   last committed offset there.  A retryable or final answer is judged the same in every layout. *)
Theorem C14_fetch_verdict_relayout : forall c tps code fo fm,
  first_gcode (fetch_codes tps) = Some code ->
  fetch_judge (c, relayout fo fm tps) = fetch_judge (c, tps) /\
  fetch_judge (c, tps) = verdict_of_code code.
Proof.
  intros c tps code fo fm H. rewrite !C14_fetch_verdict, fetch_codes_relayout, H. split; reflexivity.
Qed.

(* the offset-fetch answer of the examples: one topic "t", partition 0 *)
Definition one_part (offset code : Z) : list (bytes * list offset_fetch_part) :=
  [(tag "t", [{| ofp_partition := 0; ofp_offset := offset; ofp_metadata := []; ofp_error := code |}])].

Example C14_fetch_verdict_ex :
  fetch_judge (1, one_part (-1) 14) = VRetry KC_GroupLoadInProgress false /\
  fetch_judge (1, one_part (-1) 16) = VRetry KC_NotCoordinatorForGroup true /\
  fetch_judge (1, one_part (-1) 30) = VFatal 30 /\
  fetch_judge (1, one_part (-1) 15) = VFatal KC_GroupCoordinatorNotAvailable /\
  fetch_judge (1, one_part (-1) 0) = VDone [(tag "t", [(0, -1)])] /\
  fetch_judge (1, one_part 77 3) = VDone [(tag "t", [(0, -1)])] /\
  fetch_judge (1, one_part 77 0) = VDone [(tag "t", [(0, 77)])] /\
  relayout (fun _ => -1) (fun _ => []) (one_part 77 14) = one_part (-1) 14 /\
  fetch_codes (one_part (-1) 14) = fetch_codes (one_part 0 14).
Proof. vm_compute. repeat split. Qed.

(* the step of the group-offset-fetch loop with the value of the success case spelled out
   (C14_group_fetch_step says "exists m") *)
Theorem C14_group_fetch_step_value : forall f group req attempt s c tps s2,
  exchange_attempt dec_offset_fetch_resp group req s = (Ok (c, tps), s2) ->
  group_fetch_loop (S f) group req attempt s =
  match first_gcode (fetch_codes tps) with
  | None => (Ok (fetch_value tps), s2)
  | Some code =>
      if code =? KC_GroupLoadInProgress then
        if attempt <? retry_max_attempts (cfg (cl s2)) then group_fetch_loop f group req (attempt + 1) s2
        else (Err (EKafka code), s2)
      else if code =? KC_NotCoordinatorForGroup then
        let s3 := with_cs s2 (remove_group_coordinator (cs (cl s2)) group) in
        if attempt <? retry_max_attempts (cfg (cl s2)) then group_fetch_loop f group req (attempt + 1) s3
        else (Err (EKafka code), s3)
      else (Err (EKafka code), s2)
  end.
Proof.
  intros f group req attempt s c tps s2 E. cbv zeta. rewrite !group_fetch_loop_eq. cbn [retry_loop]. rewrite E.
  rewrite C14_fetch_verdict. destruct (first_gcode (fetch_codes tps)) as [code|]; [|reflexivity].
  unfold verdict_of_code. destruct (code =? KC_GroupLoadInProgress).
  - unfold after_retry. destruct (attempt <? _); reflexivity.
  - destruct (code =? KC_NotCoordinatorForGroup); [|reflexivity].
    unfold after_retry. destruct (attempt <? _); reflexivity.
Qed.

(* the seed's answer: code 14 next to offset -1, limit 3, first attempt: retried *)
Example C14_group_fetch_step_value_ex :
  let s := after_corr (mkst 3 true (answer (ofetch_resp 1 (-1) 14) ++ answer (ofetch_resp 1 77 0))) in
  let '(r, s2) := exchange_attempt dec_offset_fetch_resp (tag "g") (Ok fetch_p) s in
  r = Ok (1, one_part (-1) 14) /\ first_gcode (fetch_codes (one_part (-1) 14)) = Some KC_GroupLoadInProgress /\
  (1 <? retry_max_attempts (cfg (cl s2))) = true /\
  group_fetch_loop 5 (tag "g") (Ok fetch_p) 1 s = group_fetch_loop 4 (tag "g") (Ok fetch_p) 2 s2 /\
  fst (group_fetch_loop 5 (tag "g") (Ok fetch_p) 1 s) = Ok [(tag "t", [(0, 77)])].
Proof. vm_compute. repeat split. Qed.

(* ================================================================================== *)
(* 2. the budget of the group offset fetch as an "if and only if", with the value      *)
(* ================================================================================== *)

(* a run of answered-retryable attempts and a run of retried attempts from the same state lie along
   each other (the model is deterministic) *)
Lemma answered_vs_retried {A B} (d : dec A) (judge : A -> verdict B) group req : forall m x0 k,
  loop_answered d judge group req m x0 k ->
  forall n' att k', loop_retried d judge group req n' att x0 k' ->
  ((n' <= m)%nat /\ loop_answered d judge group req (m - n') k' k) \/
  ((m < n')%nat /\ exists a2 s3 code reset,
      exchange_attempt d group req k = (Ok a2, s3) /\ judge a2 = VRetry code reset).
Proof.
  induction 1 as [x0|m x0 a s2 code reset k E Ej Ha IH]; intros n' att k' Hr.
  - inversion Hr as [|n0 a0 s0 a' s2' code' reset' sk' E' Ej' Ea' Hr']; subst.
    + left. split; [lia|constructor].
    + right. split; [lia|]. eexists _, _, _, _. split; eassumption.
  - inversion Hr as [|n0 a0 s0 a' s2' code' reset' sk' E' Ej' Ea' Hr']; subst.
    + left. split; [lia|]. cbn [Nat.sub]. eapply GA_S; eassumption.
    + rewrite E in E'. inversion E'; subst. rewrite Ej in Ej'. inversion Ej'; subst.
      destruct (IH _ _ _ Hr') as [[Hle Hrest]|[Hlt Hex]].
      * left. split; [lia|]. cbn [Nat.sub]. exact Hrest.
      * right. split; [lia|]. exact Hex.
Qed.

(* The loop, from attempt number `attempt`: b answers judged retryable (14 / 16 as first code - whatever
   stands in their offset fields) and then an answer without a code.  It returns Ok - and then exactly
   the offsets of that last answer, in the state right after it - iff the b retries are within the limit. *)
Theorem C14_group_fetch_loop_budget_iff : forall fuel group req attempt s b sk c tps s2,
  (length (script s) < fuel)%nat ->
  loop_answered dec_offset_fetch_resp fetch_judge group req b s sk ->
  exchange_attempt dec_offset_fetch_resp group req sk = (Ok (c, tps), s2) ->
  first_gcode (fetch_codes tps) = None ->
  ((b = O \/ attempt + Z.of_nat b <= retry_max_attempts (cfg (cl s))) <->
   group_fetch_loop fuel group req attempt s = (Ok (fetch_value tps), s2)) /\
  ((b = O \/ attempt + Z.of_nat b <= retry_max_attempts (cfg (cl s))) <->
   exists m s', group_fetch_loop fuel group req attempt s = (Ok m, s')).
Proof.
  intros fuel group req attempt s b sk c tps s2 Hl Ha E Hc.
  pose proof (C14_loop_granted _ _ _ _ _ _ _ attempt _ _ Ha) as Hg.
  assert (Hj : fetch_judge (c, tps) = VDone (fetch_value tps)) by (rewrite C14_fetch_verdict, Hc; reflexivity).
  assert (Hfw : (b = O \/ attempt + Z.of_nat b <= retry_max_attempts (cfg (cl s))) ->
                group_fetch_loop fuel group req attempt s = (Ok (fetch_value tps), s2)).
  { intros Hb. apply (proj2 (C14_group_fetch_loop_iff _ _ _ _ _ _ _ Hl)). exists b, sk.
    split; [apply Hg; exact Hb|]. unfold loop_final. rewrite E, Hj. split; reflexivity. }
  assert (Hbw : (exists m s', group_fetch_loop fuel group req attempt s = (Ok m, s')) ->
                (b = O \/ attempt + Z.of_nat b <= retry_max_attempts (cfg (cl s)))).
  { intros (m & s' & Hx).
    destruct (proj1 (C14_group_fetch_loop_iff _ _ _ _ _ _ _ Hl) Hx) as (n & sk' & Hr & Hf).
    destruct (answered_vs_retried _ _ _ _ _ _ _ Ha _ _ _ Hr) as [[Hle Hrest]|[Hlt (a2 & s3 & code & reset & E2 & Ej2)]].
    - destruct (Nat.eq_dec n b) as [->|Hne].
      + rewrite Nat.sub_diag in Hrest. inversion Hrest; subst. apply Hg. exact Hr.
      + exfalso. inversion Hrest as [x0 Hx1 Hx2|m0 x0 a2 s3 code reset k E2 Ej2 Ha2 Hm]; subst; [lia|].
        unfold loop_final in Hf. rewrite E2, Ej2 in Hf. destruct Hf as [Hf _]. discriminate.
    - exfalso. rewrite E in E2. inversion E2; subst. rewrite Hj in Ej2. discriminate. }
  split; split.
  - exact Hfw.
  - intros Hx. apply Hbw. eexists _, _. exact Hx.
  - intros Hb. eexists _, _. exact (Hfw Hb).
  - exact Hbw.
Qed.

(* fetch_group_offsets (C14_fetch_group_offsets_own_budget had the forward half, with "exists m") *)
Theorem C14_fetch_group_offsets_budget_iff : forall group ps s tps0 b sk c tps s2,
  (offset_storage (cfg (cl s)) <? 0) = false -> group_fetch_tps (cs (cl s)) ps [] = Some tps0 ->
  loop_answered dec_offset_fetch_resp fetch_judge group (fetch_req group s tps0) b (after_corr s) sk ->
  exchange_attempt dec_offset_fetch_resp group (fetch_req group s tps0) sk = (Ok (c, tps), s2) ->
  first_gcode (fetch_codes tps) = None ->
  (1 + Z.of_nat b <= Z.max 1 (retry_max_attempts (cfg (cl s))) <->
   fetch_group_offsets group ps s = (Ok (fetch_value tps), s2)) /\
  (1 + Z.of_nat b <= Z.max 1 (retry_max_attempts (cfg (cl s))) <->
   exists m s', fetch_group_offsets group ps s = (Ok m, s')).
Proof.
  intros group ps s tps0 b sk c tps s2 Hst Ht Ha E Hc. rewrite fetch_group_offsets_unfold, Hst, Ht.
  assert (Hl : (length (script (after_corr s)) < S (length (script s)))%nat) by (rewrite after_corr_script; lia).
  destruct (C14_group_fetch_loop_budget_iff _ _ _ 1 _ _ _ _ _ _ Hl Ha E Hc) as [H1 H2].
  rewrite after_corr_cfg in H1, H2.
  assert (Hn : (b = O \/ 1 + Z.of_nat b <= retry_max_attempts (cfg (cl s))) <->
               1 + Z.of_nat b <= Z.max 1 (retry_max_attempts (cfg (cl s)))) by lia.
  rewrite <- Hn. split; assumption.
Qed.

(* fetch_group_topic_offset, the third public entry (used by Consumer start-up): the same, the value
   being the entry of the topic in the offsets of the clean answer *)
Theorem C14_fetch_group_topic_offset_budget_iff : forall group topic s ps b sk c tps s2,
  (offset_storage (cfg (cl s)) <? 0) = false -> partitions_for (cs (cl s)) topic = Some ps ->
  loop_answered dec_offset_fetch_resp fetch_judge group (fetch_req group s (topic_tps topic ps)) b (after_corr s) sk ->
  exchange_attempt dec_offset_fetch_resp group (fetch_req group s (topic_tps topic ps)) sk = (Ok (c, tps), s2) ->
  first_gcode (fetch_codes tps) = None ->
  (1 + Z.of_nat b <= Z.max 1 (retry_max_attempts (cfg (cl s))) <->
   fetch_group_topic_offset group topic s =
     (Ok (match assoc_bytes topic (fetch_value tps) with Some vs => vs | None => [] end), s2)) /\
  (1 + Z.of_nat b <= Z.max 1 (retry_max_attempts (cfg (cl s))) <->
   exists vs s', fetch_group_topic_offset group topic s = (Ok vs, s')).
Proof.
  intros group topic s ps b sk c tps s2 Hst Ht Ha E Hc. rewrite fetch_group_topic_offset_unfold, Hst, Ht.
  assert (Hl : (length (script (after_corr s)) < S (length (script s)))%nat) by (rewrite after_corr_script; lia).
  destruct (C14_group_fetch_loop_budget_iff _ _ _ 1 _ _ _ _ _ _ Hl Ha E Hc) as [H1 H2].
  rewrite after_corr_cfg in H1, H2.
  assert (Hn : (b = O \/ 1 + Z.of_nat b <= retry_max_attempts (cfg (cl s))) <->
               1 + Z.of_nat b <= Z.max 1 (retry_max_attempts (cfg (cl s)))) by lia.
  rewrite <- Hn.
  assert (Hbw : (exists vs s',
            match group_fetch_loop (S (length (script s))) group (fetch_req group s (topic_tps topic ps)) 1 (after_corr s) with
            | (Ok m, s'0) => (Ok (match assoc_bytes topic m with Some vs0 => vs0 | None => [] end), s'0)
            | (Err e, s'0) => (Err e, s'0)
            | (Panic w, s'0) => (Panic w, s'0)
            end = (Ok vs, s')) -> b = O \/ 1 + Z.of_nat b <= retry_max_attempts (cfg (cl s))).
  { intros (vs & s' & Hx). apply (proj2 H2).
    destruct (group_fetch_loop _ group _ 1 (after_corr s)) as [[m|e|w] s'']; [|discriminate..].
    eexists _, _. reflexivity. }
  split; split.
  - intros Hb. rewrite (proj1 H1 Hb). reflexivity.
  - intros Hx. apply Hbw. eexists _, _. exact Hx.
  - intros Hb. rewrite (proj1 H1 Hb). eexists _, _. reflexivity.
  - exact Hbw.
Qed.

(* Non-vacuity, on the seed's own histories (Kafka's layout: offset -1 next to the code).
   limit 3: "loading, loading, ok" - two retried answers, 1 + 2 <= 3, the third answer's offset. *)
Example C14_fetch_group_offsets_budget_iff_ex :
  let s := mkst 3 true (answer (ofetch_resp 1 (-1) 14) ++ answer (ofetch_resp 1 (-1) 14) ++ answer (ofetch_resp 1 42 0)) in
  exists sk s2,
    (offset_storage (cfg (cl s)) <? 0) = false /\ group_fetch_tps (cs (cl s)) [(tag "t", 0)] [] = Some [(tag "t", [0])] /\
    fetch_req (tag "g") s [(tag "t", [0])] = Ok fetch_p /\
    loop_answered dec_offset_fetch_resp fetch_judge (tag "g") (Ok fetch_p) 2 (after_corr s) sk /\
    exchange_attempt dec_offset_fetch_resp (tag "g") (Ok fetch_p) sk = (Ok (1, one_part 42 0), s2) /\
    first_gcode (fetch_codes (one_part 42 0)) = None /\
    1 + Z.of_nat 2 <= Z.max 1 (retry_max_attempts (cfg (cl s))) /\
    fetch_group_offsets (tag "g") [(tag "t", 0)] s = (Ok [(tag "t", [(0, 42)])], s2) /\
    attempts (frame fetch_p) s s2 = 3.
Proof.
  eexists _, _. split; [reflexivity|]. split; [reflexivity|]. split; [reflexivity|]. split.
  { eapply GA_S; [vm_compute; reflexivity|vm_compute; reflexivity|].
    eapply GA_S; [vm_compute; reflexivity|vm_compute; reflexivity|]. apply GA_O. }
  vm_compute. repeat split. intros H; discriminate H.
Qed.
(* limit 2, the same three answers: 1 + 2 > 2, the call ends after two attempts with the last retryable
   error although a clean answer was waiting; limit 0, one "loading": one attempt, that error *)
Example C14_fetch_group_offsets_budget_exceeded_ex :
  (let s := mkst 2 true (answer (ofetch_resp 1 (-1) 14) ++ answer (ofetch_resp 1 (-1) 14) ++ answer (ofetch_resp 1 42 0)) in
   let '(r, s') := fetch_group_offsets (tag "g") [(tag "t", 0)] s in
   r = Err (EKafka KC_GroupLoadInProgress) /\ attempts (frame fetch_p) s s' = 2 /\ script s' = answer (ofetch_resp 1 42 0)) /\
  (let s := mkst 0 true (answer (ofetch_resp 1 (-1) 14) ++ answer (ofetch_resp 1 42 0)) in
   let '(r, s') := fetch_group_offsets (tag "g") [(tag "t", 0)] s in
   r = Err (EKafka KC_GroupLoadInProgress) /\ attempts (frame fetch_p) s s' = 1) /\
  (* "until the first other answer": loading, then not authorised (30) with offset -1, limit 5 *)
  (let s := mkst 5 true (answer (ofetch_resp 1 (-1) 14) ++ answer (ofetch_resp 1 (-1) 30) ++ answer (ofetch_resp 1 42 0)) in
   let '(r, s') := fetch_group_offsets (tag "g") [(tag "t", 0)] s in
   r = Err (EKafka 30) /\ attempts (frame fetch_p) s s' = 2).
Proof. vm_compute. repeat split. Qed.
Example C14_fetch_group_topic_offset_budget_iff_ex :
  let s := mkst 3 true (answer (ofetch_resp 1 (-1) 16) ++ answer (coord_resp 2 0 2 (tag "b2") 9092)
                        ++ [OConn true] ++ answer (ofetch_resp 1 42 0)) in
  partitions_for (cs (cl s)) (tag "t") = Some [0] /\
  fetch_req (tag "g") s (topic_tps (tag "t") [0]) = Ok fetch_p /\
  let '(r, s') := fetch_group_topic_offset (tag "g") (tag "t") s in
  r = Ok [(0, 42)] /\
  filter not_read (performed s s') = [EWrite h1 (frame fetch_p); EWrite h1 (frame (lookup_p 2)); EConnect h2; EWrite h2 (frame fetch_p)].
Proof. vm_compute. repeat split. Qed.

(* ================================================================================== *)
(* 3. histories: what a successful group call leaves behind for the next               *)
(* ================================================================================== *)

(* a loop that returns Ok got its value from one exchange with the coordinator h then cached, and h is
   still the cached coordinator in the final state *)
Lemma retry_loop_ok_leaves {A B} (d : dec A) (judge : A -> verdict B) group req : forall fuel attempt s b s',
  retry_loop d judge fuel group req attempt s = (Ok b, s') -> gc_wf (cs (cl s)) ->
  exists h sk s4 a,
    get_group_coordinator group sk = (Ok h, s4) /\ send_receive d h req s4 = (Ok a, s') /\ judge a = VDone b /\
    group_coordinator (cs (cl s')) group = Some h /\ gc_wf (cs (cl s')).
Proof.
  induction fuel as [|f IH]; intros attempt s b s' H Hwf; [discriminate H|].
  cbn [retry_loop] in H. destruct (exchange_attempt d group req s) as [[a|e|w] s2] eqn:E; [|discriminate H..].
  pose proof (proj1 (exchange_attempt_outcome _ _ _ _ _ _ E Hwf)) as W2.
  destruct (judge a) as [b0|c|code reset] eqn:Ej; [|discriminate H|].
  - inversion H; subst b0 s2. clear H. unfold exchange_attempt in E. bind_inv E h s1 H1 H2; [|discriminate H2..].
    destruct (ggc_outcome _ _ _ _ H1 Hwf) as [W G]. exists h, s, s1, a.
    split; [exact H1|]. split; [exact H2|]. split; [exact Ej|].
    rewrite (send_receive_cs _ _ _ _ _ _ H2). split; assumption.
  - destruct (attempt <? retry_max_attempts (cfg (cl s2))); [|discriminate H].
    eapply IH; [exact H|]. apply after_retry_wf. exact W2.
Qed.

(* with h cached, the next attempt of whatever group request is one exchange with h: no lookup *)
Lemma cached_goes_straight {A} (d : dec A) group h req s :
  group_coordinator (cs (cl s)) group = Some h ->
  get_group_coordinator group s = (Ok h, s) /\
  exchange_attempt d group req s = send_receive d h req s /\
  (forall r5 s5, send_receive d h req s = (r5, s5) -> Forall (on_host h) (performed s s5)).
Proof.
  intros G. assert (Hg : get_group_coordinator group s = (Ok h, s)) by (rewrite ggc_unfold, G; reflexivity).
  split; [exact Hg|]. split.
  - unfold exchange_attempt. exact (mbind_ok _ (fun h => send_receive d h req) _ _ _ Hg).
  - intros r5 s5 H5. apply (ops_send_receive _ _ _ _ _ _ _ H5).
Qed.

(* The loops: a commit / group offset fetch that returns Ok - after however many retried answers and
   coordinator moves - received its last answer from a broker h that is the cached coordinator of the
   group in the state it leaves; the first attempt of the NEXT group request (any decoder d, any
   request req') in that state is a single exchange with h, without a lookup. *)
Theorem C14_ok_leaves_coordinator : forall fuel group req attempt s,
  gc_wf (cs (cl s)) ->
  (forall u s', commit_loop fuel group req attempt s = (Ok u, s') ->
     exists h sk s4 a,
       get_group_coordinator group sk = (Ok h, s4) /\ send_receive dec_offset_commit_resp h req s4 = (Ok a, s') /\
       first_code (commit_codes (snd a)) = None /\
       group_coordinator (cs (cl s')) group = Some h /\ gc_wf (cs (cl s')) /\
       forall A (d : dec A) req',
         get_group_coordinator group s' = (Ok h, s') /\
         exchange_attempt d group req' s' = send_receive d h req' s' /\
         (forall r5 s5, send_receive d h req' s' = (r5, s5) -> Forall (on_host h) (performed s' s5))) /\
  (forall m s', group_fetch_loop fuel group req attempt s = (Ok m, s') ->
     exists h sk s4 a,
       get_group_coordinator group sk = (Ok h, s4) /\ send_receive dec_offset_fetch_resp h req s4 = (Ok a, s') /\
       first_gcode (fetch_codes (snd a)) = None /\ m = fetch_value (snd a) /\
       group_coordinator (cs (cl s')) group = Some h /\ gc_wf (cs (cl s')) /\
       forall A (d : dec A) req',
         get_group_coordinator group s' = (Ok h, s') /\
         exchange_attempt d group req' s' = send_receive d h req' s' /\
         (forall r5 s5, send_receive d h req' s' = (r5, s5) -> Forall (on_host h) (performed s' s5))).
Proof.
  intros fuel group req attempt s Hwf. split.
  - intros u s' H. rewrite commit_loop_eq in H.
    destruct (retry_loop_ok_leaves _ _ _ _ _ _ _ _ _ H Hwf) as (h & sk & s4 & a & H1 & H2 & Hj & G & W).
    exists h, sk, s4, a. split; [exact H1|]. split; [exact H2|]. split.
    { unfold commit_judge in Hj. rewrite commit_scan_wire in Hj.
      destruct (first_code (commit_codes (snd a))) as [code|]; [|reflexivity]. cbn [scan_of] in Hj.
      destruct (code =? KC_GroupLoadInProgress); [discriminate|].
      destruct (code =? KC_NotCoordinatorForGroup); discriminate. }
    split; [exact G|]. split; [exact W|]. intros A d req'. apply cached_goes_straight. exact G.
  - intros m s' H. rewrite group_fetch_loop_eq in H.
    destruct (retry_loop_ok_leaves _ _ _ _ _ _ _ _ _ H Hwf) as (h & sk & s4 & [c tps] & H1 & H2 & Hj & G & W).
    exists h, sk, s4, (c, tps). split; [exact H1|]. split; [exact H2|]. cbn [snd].
    rewrite C14_fetch_verdict in Hj.
    destruct (first_gcode (fetch_codes tps)) as [code|].
    { exfalso. revert Hj. unfold verdict_of_code. destruct (code =? KC_GroupLoadInProgress); [discriminate|].
      destruct (code =? KC_NotCoordinatorForGroup); discriminate. }
    inversion Hj; subst m. split; [reflexivity|]. split; [reflexivity|].
    split; [exact G|]. split; [exact W|]. intros A d req'. apply cached_goes_straight. exact G.
Qed.

(* The public calls, from the call result alone (a commit of nothing returns Ok without any I/O, hence
   the hypothesis that there is something to commit). *)
Theorem C14_calls_ok_leave_coordinator : forall group s,
  gc_wf (cs (cl s)) ->
  (forall os x xs s', commit_tps (cs (cl s)) os [] = Some (x :: xs) -> commit_offsets group os s = (Ok tt, s') ->
     exists h, group_coordinator (cs (cl s')) group = Some h /\ gc_wf (cs (cl s')) /\
       forall A (d : dec A) req',
         get_group_coordinator group s' = (Ok h, s') /\
         exchange_attempt d group req' s' = send_receive d h req' s' /\
         (forall r5 s5, send_receive d h req' s' = (r5, s5) -> Forall (on_host h) (performed s' s5))) /\
  (forall ps m s', fetch_group_offsets group ps s = (Ok m, s') ->
     exists h, group_coordinator (cs (cl s')) group = Some h /\ gc_wf (cs (cl s')) /\
       forall A (d : dec A) req',
         get_group_coordinator group s' = (Ok h, s') /\
         exchange_attempt d group req' s' = send_receive d h req' s' /\
         (forall r5 s5, send_receive d h req' s' = (r5, s5) -> Forall (on_host h) (performed s' s5))) /\
  (forall topic vs s', fetch_group_topic_offset group topic s = (Ok vs, s') ->
     exists h, group_coordinator (cs (cl s')) group = Some h /\ gc_wf (cs (cl s')) /\
       forall A (d : dec A) req',
         get_group_coordinator group s' = (Ok h, s') /\
         exchange_attempt d group req' s' = send_receive d h req' s' /\
         (forall r5 s5, send_receive d h req' s' = (r5, s5) -> Forall (on_host h) (performed s' s5))).
Proof.
  intros group s Hwf.
  assert (Hwf' : gc_wf (cs (cl (after_corr s)))).
  { unfold after_corr. rewrite with_cs_cs. apply gc_wf_next_corr. exact Hwf. }
  split; [|split].
  - intros os x xs s' Ht H. rewrite commit_offsets_unfold, Ht in H.
    destruct (offset_storage (cfg (cl s)) <? 0); [discriminate H|].
    destruct (proj1 (C14_ok_leaves_coordinator _ _ _ _ _ Hwf') _ _ H) as (h & _ & _ & _ & _ & _ & _ & G & W & Hn).
    exists h. split; [exact G|]. split; [exact W|exact Hn].
  - intros ps m s' H. rewrite fetch_group_offsets_unfold in H.
    destruct (offset_storage (cfg (cl s)) <? 0); [discriminate H|].
    destruct (group_fetch_tps (cs (cl s)) ps []) as [tps|]; [|discriminate H].
    destruct (proj2 (C14_ok_leaves_coordinator _ _ _ _ _ Hwf') _ _ H) as (h & _ & _ & _ & _ & _ & _ & _ & G & W & Hn).
    exists h. split; [exact G|]. split; [exact W|exact Hn].
  - intros topic vs s' H. rewrite fetch_group_topic_offset_unfold in H.
    destruct (offset_storage (cfg (cl s)) <? 0); [discriminate H|].
    destruct (partitions_for (cs (cl s)) topic) as [ps|]; [|discriminate H].
    destruct (group_fetch_loop _ group _ 1 (after_corr s)) as [[m|e|w] s''] eqn:EL; [|discriminate H..].
    inversion H; subst s''.
    destruct (proj2 (C14_ok_leaves_coordinator _ _ _ _ _ Hwf') _ _ EL) as (h & _ & _ & _ & _ & _ & _ & _ & G & W & Hn).
    exists h. split; [exact G|]. split; [exact W|exact Hn].
Qed.

(* "that attempt goes to the newly named broker" - and so does the next CALL.  One attempt is answered
   'not coordinator for group' (whatever its offset fields) within the limit, the lookup that follows
   names a broker (resp, code 0) and the repeated request is answered there without a code: the call
   returns those offsets, the named host is the cached coordinator, and the next group request is
   exchanged with it directly. *)
Theorem C14_moved_then_direct : forall f group req attempt s c tps s2 code resp s1 c' tps' s5,
  exchange_attempt dec_offset_fetch_resp group req s = (Ok (c, tps), s2) ->
  first_gcode (fetch_codes tps) = Some code -> code = KC_NotCoordinatorForGroup ->
  attempt < retry_max_attempts (cfg (cl s2)) -> gc_wf (cs (cl s2)) ->
  let s3 := after_retry group true s2 in
  group_lookup_attempt (lookup_req group s3) (after_corr s3) = (Ok resp, s1) -> gc_error resp = 0 ->
  let h' := named_host (cs (cl s1)) resp in
  send_receive dec_offset_fetch_resp h' req (after_lookup group resp s1) = (Ok (c', tps'), s5) ->
  first_gcode (fetch_codes tps') = None ->
  group_fetch_loop (S (S f)) group req attempt s = (Ok (fetch_value tps'), s5) /\
  group_coordinator (cs (cl s5)) group = Some h' /\
  Forall (on_host h') (performed (after_lookup group resp s1) s5) /\
  forall A (d : dec A) req',
    exchange_attempt d group req' s5 = send_receive d h' req' s5 /\
    (forall r6 s6, send_receive d h' req' s5 = (r6, s6) -> Forall (on_host h') (performed s5 s6)).
Proof.
  intros f group req attempt s c tps s2 code resp s1 c' tps' s5 E Hc -> Ha Hwf s3 El H0 h' E5 Hc'.
  assert (Hnone : group_coordinator (cs (cl s3)) group = None).
  { unfold s3, after_retry. rewrite with_cs_cs. apply group_coordinator_removed. exact Hwf. }
  destruct (C14_attempt_lookup_own_budget _ dec_offset_fetch_resp group req s3 O (after_corr s3) resp s1 Hnone
              (LR_O _ _ _) El H0) as (_ & Hg & Hcache & Hx & Hon).
  fold h' in Hg, Hcache, Hx, Hon.
  assert (G5 : group_coordinator (cs (cl s5)) group = Some h').
  { rewrite (send_receive_cs _ _ _ _ _ _ E5). exact Hcache. }
  split; [|split; [exact G5|split; [exact (Hon _ _ E5)|]]].
  - rewrite (C14_group_fetch_step_value _ _ _ _ _ _ _ _ E), Hc. cbv zeta.
    assert (E16 : (KC_NotCoordinatorForGroup =? KC_GroupLoadInProgress) = false) by reflexivity.
    rewrite E16, Z.eqb_refl. destruct (attempt <? retry_max_attempts (cfg (cl s2))) eqn:Eb; [|lia].
    fold (after_retry group true s2). fold s3.
    assert (E3 : exchange_attempt dec_offset_fetch_resp group req s3 = (Ok (c', tps'), s5)) by (rewrite Hx; exact E5).
    rewrite (C14_group_fetch_step_value _ _ _ _ _ _ _ _ E3), Hc'. reflexivity.
  - intros A d req'. destruct (cached_goes_straight d group h' req' s5 G5) as (_ & H1 & H2). split; assumption.
Qed.

(* Non-vacuity: the seed's "move is followed" history, Kafka's layout.  Limit 3, b1 cached.
   call 1: b1 answers offset 42; call 2: b1 answers 16 (offset -1), the lookup names b2, b2 answers 42;
   call 3: goes to b2 at once. *)
Example C14_moved_then_direct_ex :
  let s := mkst 3 true (answer (ofetch_resp 1 42 0)) in
  let '(r1, s1) := fetch_group_offsets (tag "g") [(tag "t", 0)] s in
  r1 = Ok [(tag "t", [(0, 42)])] /\ filter not_read (performed s s1) = [EWrite h1 (frame (fetch_p_corr 1))] /\
  group_coordinator (cs (cl s1)) (tag "g") = Some h1 /\
  let s1' := more s1 (answer (ofetch_resp 2 (-1) 16) ++ answer (coord_resp 3 0 2 (tag "b2") 9092) ++ [OConn true]
                      ++ answer (ofetch_resp 2 42 0)) in
  let '(r2, s2) := fetch_group_offsets (tag "g") [(tag "t", 0)] s1' in
  r2 = Ok [(tag "t", [(0, 42)])] /\
  filter not_read (performed s1' s2)
    = [EWrite h1 (frame (fetch_p_corr 2)); EWrite h1 (frame (lookup_p 3)); EConnect h2; EWrite h2 (frame (fetch_p_corr 2))] /\
  group_coordinator (cs (cl s2)) (tag "g") = Some h2 /\
  let s2' := more s2 (answer (ofetch_resp 4 43 0)) in
  let '(r3, s3) := fetch_group_offsets (tag "g") [(tag "t", 0)] s2' in
  r3 = Ok [(tag "t", [(0, 43)])] /\ filter not_read (performed s2' s3) = [EWrite h2 (frame (fetch_p_corr 4))].
Proof. vm_compute. repeat split. Qed.
(* the hypotheses of C14_moved_then_direct on the second call of that history *)
Example C14_moved_then_direct_hyp_ex :
  let s := after_corr (mkst 3 true (answer (ofetch_resp 1 (-1) 16) ++ answer (coord_resp 2 0 2 (tag "b2") 9092)
                                    ++ [OConn true] ++ answer (ofetch_resp 1 42 0))) in
  exists s2 resp s1 s5,
    exchange_attempt dec_offset_fetch_resp (tag "g") (Ok fetch_p) s = (Ok (1, one_part (-1) 16), s2) /\
    first_gcode (fetch_codes (one_part (-1) 16)) = Some KC_NotCoordinatorForGroup /\
    1 < retry_max_attempts (cfg (cl s2)) /\ gc_wf (cs (cl s2)) /\
    group_lookup_attempt (lookup_req (tag "g") (after_retry (tag "g") true s2)) (after_corr (after_retry (tag "g") true s2))
      = (Ok resp, s1) /\ gc_error resp = 0 /\ named_host (cs (cl s1)) resp = h2 /\
    send_receive dec_offset_fetch_resp (named_host (cs (cl s1)) resp) (Ok fetch_p) (after_lookup (tag "g") resp s1)
      = (Ok (1, one_part 42 0), s5) /\
    first_gcode (fetch_codes (one_part 42 0)) = None.
Proof.
  cbv zeta. eexists _, _, _, _. split; [vm_compute; reflexivity|]. split; [vm_compute; reflexivity|].
  split; [vm_compute; reflexivity|]. split; [unfold gc_wf; vm_compute; repeat constructor; intros []|].
  split; [vm_compute; reflexivity|]. split; [vm_compute; reflexivity|]. split; [vm_compute; reflexivity|].
  split; vm_compute; reflexivity.
Qed.
(* C14_calls_ok_leave_coordinator for a commit: after the move the commit of the next call goes to b2 *)
Example C14_calls_ok_leave_coordinator_ex :
  let s := mkst 3 true (answer (commit_resp 1 16) ++ answer (coord_resp 2 0 2 (tag "b2") 9092) ++ [OConn true]
                        ++ answer (commit_resp 1 0)) in
  gc_wf (cs (cl s)) /\ commit_tps (cs (cl s)) the_commit [] = Some [(tag "t", [(0, 5)])] /\
  let '(r1, s1) := commit_offsets (tag "g") the_commit s in
  r1 = Ok tt /\ group_coordinator (cs (cl s1)) (tag "g") = Some h2 /\
  let s1' := more s1 (answer (ofetch_resp 3 5 0)) in
  let '(r2, s2) := fetch_group_topic_offset (tag "g") (tag "t") s1' in
  r2 = Ok [(0, 5)] /\ filter not_read (performed s1' s2) = [EWrite h2 (frame (fetch_p_corr 3))].
Proof. split; [apply gc_wf_mkst|]. vm_compute. repeat split. Qed.

Check C14_fetch_verdict.
Check C14_fetch_verdict_codes_only.
Check C14_fetch_verdict_relayout.
Check C14_group_fetch_step_value.
Check C14_group_fetch_loop_budget_iff.
Check C14_fetch_group_offsets_budget_iff.
Check C14_fetch_group_topic_offset_budget_iff.
Check C14_ok_leaves_coordinator.
Check C14_calls_ok_leave_coordinator.
Check C14_moved_then_direct.

Print Assumptions C14_fetch_verdict.
Print Assumptions C14_fetch_verdict_codes_only.
Print Assumptions C14_fetch_verdict_relayout.
Print Assumptions C14_group_fetch_step_value.
Print Assumptions C14_group_fetch_loop_budget_iff.
Print Assumptions C14_fetch_group_offsets_budget_iff.
Print Assumptions C14_fetch_group_topic_offset_budget_iff.
Print Assumptions C14_ok_leaves_coordinator.
Print Assumptions C14_calls_ok_leave_coordinator.
Print Assumptions C14_moved_then_direct.
