(* C19: the consumer fetches exactly the assigned partitions, nothing else.
   - the assignment table built by from_map is strictly sorted, so the binary search topic_ref
     finds exactly the topics that are there (binary search = linear search);
   - determine_partitions yields all partitions / the requested ones / an error;
   - the builder keeps one entry per topic, the later call wins; no topic -> ENoTopicsAssigned;
   - seek / consume_message reject (topic, partition) pairs that are not fetched and touch only
     the addressed entry otherwise;
   - the fetch states hold exactly the subscribed keys; subscriptions() lists exactly these. *)
From KV Require Import Base.Prelude Gen.ErrorCodes Gen.Consts Model.Codecs Model.Requests Model.Responses
                       Model.ClientState Model.Net Model.Client Model.Consumer.
From KV Require Import Proofs.BytesFacts Proofs.C07Facts.
From Coq Require Import ZifyBool Sorted Permutation.
Ltac Zify.zify_post_hook ::= Z.div_mod_to_equations.

(* ================================================================================== *)
(* 1. bytes_cmp is a strict total order                                               *)
(* ================================================================================== *)

Lemma bytes_cmp_antisym a : forall b, bytes_cmp b a = CompOpp (bytes_cmp a b).
Proof.
  induction a as [|x a IH]; intros [|y b]; cbn [bytes_cmp]; try reflexivity.
  rewrite (Z.compare_antisym (Zb x) (Zb y)).
  destruct (Zb x ?= Zb y); cbn [CompOpp]; [apply IH|reflexivity|reflexivity].
Qed.

Lemma bytes_cmp_gt_lt a b : bytes_cmp a b = Gt <-> bytes_cmp b a = Lt.
Proof.
  rewrite (bytes_cmp_antisym a b). destruct (bytes_cmp a b); cbn [CompOpp]; split; intros H;
    try discriminate; reflexivity.
Qed.

Lemma bytes_cmp_trans a : forall b c, bytes_cmp a b = Lt -> bytes_cmp b c = Lt -> bytes_cmp a c = Lt.
Proof.
  induction a as [|x a IH]; intros [|y b] [|z c]; cbn [bytes_cmp]; intros H1 H2;
    try reflexivity; try discriminate.
  destruct (Z.compare_spec (Zb x) (Zb y)); destruct (Z.compare_spec (Zb y) (Zb z)); try discriminate;
    destruct (Z.compare_spec (Zb x) (Zb z)); try lia; try reflexivity.
  eapply IH; eassumption.
Qed.

Lemma bytes_cmp_lt_neq a b : bytes_cmp a b = Lt -> a <> b.
Proof. intros H E. subst b. rewrite bytes_cmp_refl in H. discriminate. Qed.

(* trichotomy: exactly one of  a < b,  a = b,  b < a *)
Theorem bytes_cmp_total : forall a b, bytes_cmp a b = Lt \/ a = b \/ bytes_cmp b a = Lt.
Proof.
  intros a b. destruct (bytes_cmp a b) eqn:E.
  - right. left. apply bytes_cmp_eq. exact E.
  - left. reflexivity.
  - right. right. apply bytes_cmp_gt_lt. exact E.
Qed.

Definition topic_lt {V} (a b : bytes * V) : Prop := bytes_cmp (fst a) (fst b) = Lt.
Definition strictly_sorted {V} (tbl : list (bytes * V)) : Prop := StronglySorted topic_lt tbl.

Lemma topic_lt_trans {V} : Relations_1.Transitive (@topic_lt V).
Proof. intros a b c H1 H2. unfold topic_lt in *. eapply bytes_cmp_trans; eassumption. Qed.

(* ================================================================================== *)
(* 2. sort_dedup                                                                      *)
(* ================================================================================== *)

Lemma insert_z_in x l y : In y (insert_z x l) <-> y = x \/ In y l.
Proof.
  induction l as [|z l IH]; cbn [insert_z].
  - cbn [In]. intuition.
  - destruct (x <? z) eqn:E1; [cbn [In]; intuition|].
    destruct (x =? z) eqn:E2.
    + apply Z.eqb_eq in E2. subst z. cbn [In]. intuition.
    + cbn [In]. rewrite IH. intuition.
Qed.

Lemma insert_z_hdrel x y l : HdRel Z.lt y l -> y < x -> HdRel Z.lt y (insert_z x l).
Proof.
  intros H Hlt. destruct l as [|z l]; cbn [insert_z]; [constructor; exact Hlt|].
  inversion H; subst. destruct (x <? z); [constructor; exact Hlt|].
  destruct (x =? z); constructor; assumption.
Qed.

Lemma insert_z_sorted x l : Sorted Z.lt l -> Sorted Z.lt (insert_z x l).
Proof.
  induction l as [|z l IH]; intros H; cbn [insert_z].
  - repeat constructor.
  - inversion H; subst. destruct (x <? z) eqn:E1.
    + constructor; [exact H|]. constructor. lia.
    + destruct (x =? z) eqn:E2; [exact H|].
      constructor; [apply IH; assumption|]. apply insert_z_hdrel; [assumption|lia].
Qed.

Lemma sort_dedup_gen l : forall acc, Sorted Z.lt acc ->
  Sorted Z.lt (fold_left (fun acc x => insert_z x acc) l acc)
  /\ forall y, In y (fold_left (fun acc x => insert_z x acc) l acc) <-> In y l \/ In y acc.
Proof.
  induction l as [|x l IH]; intros acc H; cbn [fold_left].
  - split; [exact H|]. intros y. cbn [In]. intuition.
  - destruct (IH (insert_z x acc) (insert_z_sorted x acc H)) as [H1 H2]. split; [exact H1|].
    intros y. rewrite H2, insert_z_in. cbn [In]. intuition.
Qed.

Lemma Zlt_trans : Relations_1.Transitive Z.lt.
Proof. intros a b c. apply Z.lt_trans. Qed.

Theorem sort_dedup_spec : forall ps,
  StronglySorted Z.lt (sort_dedup ps) /\ forall x, In x (sort_dedup ps) <-> In x ps.
Proof.
  intros ps. destruct (sort_dedup_gen ps [] (Sorted_nil _)) as [H1 H2]. split.
  - apply Sorted_StronglySorted; [exact Zlt_trans|exact H1].
  - intros x. unfold sort_dedup. rewrite H2. cbn [In]. intuition.
Qed.

(* ================================================================================== *)
(* 3. from_map                                                                        *)
(* ================================================================================== *)

Lemma insert_topic_perm {V} (x : bytes * V) l : Permutation (insert_topic x l) (x :: l).
Proof.
  induction l as [|y l IH]; cbn [insert_topic]; [apply Permutation_refl|].
  destruct (bytes_ltb (fst x) (fst y)); [apply Permutation_refl|].
  eapply Permutation_trans; [apply perm_skip; exact IH|apply perm_swap].
Qed.

Lemma insert_topic_hdrel {V} (x y : bytes * V) l :
  HdRel topic_lt y l -> topic_lt y x -> HdRel topic_lt y (insert_topic x l).
Proof.
  intros H Hlt. destruct l as [|z l]; cbn [insert_topic]; [constructor; exact Hlt|].
  inversion H; subst. destruct (bytes_ltb (fst x) (fst z)); constructor; assumption.
Qed.

Lemma insert_topic_sorted {V} (x : bytes * V) l :
  Sorted topic_lt l -> ~ In (fst x) (map fst l) -> Sorted topic_lt (insert_topic x l).
Proof.
  induction l as [|y l IH]; intros H Hn; cbn [insert_topic].
  - repeat constructor.
  - inversion H; subst. unfold bytes_ltb. destruct (bytes_cmp (fst x) (fst y)) eqn:E.
    + exfalso. apply Hn. left. symmetry. apply bytes_cmp_eq. exact E.
    + constructor; [exact H|]. constructor. exact E.
    + constructor.
      * apply IH; [assumption|]. intros Hi. apply Hn. right. exact Hi.
      * apply insert_topic_hdrel; [assumption|]. unfold topic_lt. apply bytes_cmp_gt_lt. exact E.
Qed.

Definition norm_entry (e : bytes * list Z) : bytes * list Z := (fst e, sort_dedup (snd e)).

Lemma from_map_gen : forall m acc,
  Sorted topic_lt acc -> NoDup (map fst m) -> (forall t, In t (map fst m) -> ~ In t (map fst acc)) ->
  Sorted topic_lt (fold_left (fun acc '(t, ps) => insert_topic (t, sort_dedup ps) acc) m acc)
  /\ Permutation (fold_left (fun acc '(t, ps) => insert_topic (t, sort_dedup ps) acc) m acc)
                 (map norm_entry m ++ acc).
Proof.
  induction m as [|[t ps] m IH]; intros acc Hs Hnd Hdis; cbn [fold_left].
  - split; [exact Hs|apply Permutation_refl].
  - cbn [map fst] in Hnd, Hdis. inversion Hnd as [|? ? Hnt Hnd']; subst.
    pose proof (insert_topic_perm (t, sort_dedup ps) acc) as Hperm.
    destruct (IH (insert_topic (t, sort_dedup ps) acc)) as [H1 H2].
    + apply insert_topic_sorted; [exact Hs|]. cbn [fst]. apply Hdis. left. reflexivity.
    + exact Hnd'.
    + intros t' Hin Hin'.
      apply (Permutation_in _ (Permutation_map fst Hperm)) in Hin'. cbn [map fst] in Hin'.
      destruct Hin' as [E|Hin']; [subst t'; contradiction|].
      apply (Hdis t'); [right; exact Hin|exact Hin'].
    + split; [exact H1|]. eapply Permutation_trans; [exact H2|].
      cbn [map app]. unfold norm_entry at 2. cbn [fst snd].
      eapply Permutation_trans; [apply Permutation_app_head; exact Hperm|].
      symmetry. apply Permutation_middle.
Qed.

(* the table is strictly sorted by topic, holds exactly the topics of the map, and every
   partition list is strictly increasing with the same elements as the given one *)
Theorem C19_from_map_sorted : forall m, NoDup (map fst m) ->
  strictly_sorted (from_map m)
  /\ Permutation (from_map m) (map (fun e => (fst e, sort_dedup (snd e))) m)
  /\ (forall t, In t (map fst (from_map m)) <-> In t (map fst m))
  /\ (forall ps, StronglySorted Z.lt (sort_dedup ps) /\ forall x, In x (sort_dedup ps) <-> In x ps).
Proof.
  intros m Hnd. destruct (from_map_gen m [] (Sorted_nil _) Hnd) as [H1 H2]; [intros t _ []|].
  rewrite app_nil_r in H2. fold (from_map m) in H1, H2.
  split; [apply Sorted_StronglySorted; [exact topic_lt_trans|exact H1]|].
  split; [exact H2|]. split; [|exact sort_dedup_spec].
  intros t. assert (Hm : map fst (map norm_entry m) = map fst m).
  { rewrite map_map. apply map_ext. intros e. reflexivity. }
  rewrite <- Hm. split; intros Hin.
  - eapply Permutation_in; [apply Permutation_map; exact H2|exact Hin].
  - eapply Permutation_in; [apply Permutation_map; symmetry; exact H2|exact Hin].
Qed.

Example C19_from_map_ex :
  from_map [(tag "zeta", [3; 1; 3; 2]); (tag "alpha", []); (tag "m", [7; 0]); (tag "alphabet", [5])]
  = [(tag "alpha", []); (tag "alphabet", [5]); (tag "m", [0; 7]); (tag "zeta", [1; 2; 3])].
Proof. vm_compute. reflexivity. Qed.

(* the hypothesis is needed: a map with a repeated key (impossible for a HashMap) keeps both *)
Example C19_from_map_dup_ex :
  from_map [(tag "a", [1]); (tag "a", [2])] = [(tag "a", [1]); (tag "a", [2])].
Proof. vm_compute. reflexivity. Qed.

(* ================================================================================== *)
(* 4. binary search = linear search on a strictly sorted table                        *)
(* ================================================================================== *)

Fixpoint lsearch {V} (tbl : list (bytes * V)) (key : bytes) (i : Z) : option Z :=
  match tbl with
  | [] => None
  | (t, _) :: r => if bytes_eqb t key then Some i else lsearch r key (i + 1)
  end.

Lemma ssorted_nth {A} (R : A -> A -> Prop) l : StronglySorted R l ->
  forall i j a b, (i < j)%nat -> nth_error l i = Some a -> nth_error l j = Some b -> R a b.
Proof.
  induction 1 as [|x l Hs IH Hall]; intros i j a b Hij Ha Hb.
  - destruct i; discriminate.
  - destruct j as [|j]; [lia|]. cbn [nth_error] in Hb. destruct i as [|i]; cbn [nth_error] in Ha.
    + inversion Ha; subst a. rewrite Forall_forall in Hall. apply Hall. eapply nth_error_In. exact Hb.
    + eapply IH; [|exact Ha|exact Hb]. lia.
Qed.

Lemma nth_z_error {A} (l : list A) i a : nth_z l i = Some a -> nth_error l (Z.to_nat i) = Some a.
Proof. unfold nth_z. destruct ((i <? 0) || (ulen l <=? i)); [discriminate|]. intros H. exact H. Qed.

Lemma ssorted_nth_z {V} (tbl : list (bytes * V)) : strictly_sorted tbl ->
  forall i j a b, i < j -> nth_z tbl i = Some a -> nth_z tbl j = Some b -> topic_lt a b.
Proof.
  intros Hs i j a b Hij Ha Hb. pose proof (nth_z_range _ _ _ Ha). pose proof (nth_z_range _ _ _ Hb).
  eapply (ssorted_nth _ _ Hs (Z.to_nat i) (Z.to_nat j)); [lia|apply nth_z_error; exact Ha|apply nth_z_error; exact Hb].
Qed.

Lemma In_nth_z {A} (l : list A) a : In a l -> exists i, nth_z l i = Some a.
Proof.
  intros H. apply In_nth_error in H. destruct H as [n Hn]. exists (Z.of_nat n).
  assert (n < length l)%nat by (apply nth_error_Some; congruence).
  unfold nth_z, ulen. destruct ((Z.of_nat n <? 0) || (Z.of_nat (length l) <=? Z.of_nat n)) eqn:E; [lia|].
  rewrite Nat2Z.id. exact Hn.
Qed.

Lemma bsearch_none {V} (tbl : list (bytes * V)) key : strictly_sorted tbl -> forall fuel lo hi,
  0 <= lo -> hi <= ulen tbl -> hi - lo < Z.of_nat fuel ->
  (forall i a, i < lo -> nth_z tbl i = Some a -> bytes_cmp (fst a) key = Lt) ->
  (forall i a, hi <= i -> nth_z tbl i = Some a -> bytes_cmp (fst a) key = Gt) ->
  bsearch fuel tbl key lo hi = None ->
  forall i a, nth_z tbl i = Some a -> fst a <> key.
Proof.
  intros Hs.
  assert (Hout : forall lo hi, hi <= lo ->
            (forall i a, i < lo -> nth_z tbl i = Some a -> bytes_cmp (fst a) key = Lt) ->
            (forall i a, hi <= i -> nth_z tbl i = Some a -> bytes_cmp (fst a) key = Gt) ->
            forall i a, nth_z tbl i = Some a -> fst a <> key).
  { intros lo hi Hle Hlo Hhi i a Ha E.
    assert (Hc : bytes_cmp (fst a) key = Eq) by (rewrite E; apply bytes_cmp_refl).
    destruct (Z_lt_le_dec i lo) as [Hi|Hi].
    - rewrite (Hlo i a Hi Ha) in Hc. discriminate.
    - rewrite (Hhi i a ltac:(lia) Ha) in Hc. discriminate. }
  induction fuel as [|f IH]; intros lo hi H0 Hlen Hfuel Hlo Hhi H.
  - apply (Hout lo hi); [lia|exact Hlo|exact Hhi].
  - cbn [bsearch] in H. destruct (hi <=? lo) eqn:E; [apply (Hout lo hi); [lia|exact Hlo|exact Hhi]|].
    remember (lo + (hi - lo) / 2) as mid eqn:Hm.
    assert (Hmid : lo <= mid < hi) by lia.
    destruct (nth_z tbl mid) as [[t v]|] eqn:En.
    2:{ destruct (nth_z_in_range tbl mid ltac:(lia)) as [a Ha]. rewrite Ha in En. discriminate. }
    destruct (bytes_cmp t key) eqn:Ec; [discriminate| |].
    + apply (IH (mid + 1) hi); [lia|lia|lia| |exact Hhi|exact H].
      intros i a Hi Ha. destruct (Z.eq_dec i mid) as [Ei|Ei].
      * subst i. rewrite En in Ha. inversion Ha; subst a. exact Ec.
      * pose proof (ssorted_nth_z tbl Hs i mid a (t, v) ltac:(lia) Ha En) as Hlt.
        unfold topic_lt in Hlt. cbn [fst] in Hlt. eapply bytes_cmp_trans; eassumption.
    + apply (IH lo mid); [lia|lia|lia|exact Hlo| |exact H].
      intros i a Hi Ha. destruct (Z.eq_dec i mid) as [Ei|Ei].
      * subst i. rewrite En in Ha. inversion Ha; subst a. exact Ec.
      * pose proof (ssorted_nth_z tbl Hs mid i (t, v) a ltac:(lia) En Ha) as Hlt.
        unfold topic_lt in Hlt. cbn [fst] in Hlt.
        apply bytes_cmp_gt_lt. apply bytes_cmp_gt_lt in Ec. eapply bytes_cmp_trans; eassumption.
Qed.

Lemma lsearch_none_intro {V} (tbl : list (bytes * V)) key : forall i0,
  (forall a, In a tbl -> fst a <> key) -> lsearch tbl key i0 = None.
Proof.
  induction tbl as [|[t v] r IH]; intros i0 H; cbn [lsearch]; [reflexivity|].
  destruct (bytes_eqb t key) eqn:E.
  - apply bytes_eqb_eq in E. exfalso. apply (H (t, v)); [left; reflexivity|exact E].
  - apply IH. intros a Ha. apply H. right. exact Ha.
Qed.

Lemma lsearch_sorted_at {V} (tbl : list (bytes * V)) key v : strictly_sorted tbl -> forall n i0,
  nth_error tbl n = Some (key, v) -> lsearch tbl key i0 = Some (i0 + Z.of_nat n).
Proof.
  induction 1 as [|[t v0] r Hs IH Hall]; intros n i0 Hn.
  - destruct n; discriminate.
  - cbn [lsearch]. destruct n as [|n]; cbn [nth_error] in Hn.
    + inversion Hn; subst. rewrite bytes_eqb_refl. f_equal. lia.
    + rewrite Forall_forall in Hall. pose proof (Hall _ (nth_error_In _ _ Hn)) as Hlt.
      unfold topic_lt in Hlt. cbn [fst] in Hlt. apply bytes_cmp_lt_neq in Hlt.
      apply bytes_eqb_neq in Hlt. rewrite Hlt. rewrite (IH n (i0 + 1) Hn). f_equal. lia.
Qed.

(* binary search = linear search, for every strictly sorted table and every key *)
Theorem C19_lookup : forall V (tbl : list (bytes * V)) key,
  strictly_sorted tbl -> topic_ref tbl key = lsearch tbl key 0.
Proof.
  intros V tbl key Hs. destruct (topic_ref tbl key) as [i|] eqn:E.
  - apply topic_ref_some in E. destruct E as [v Hv]. pose proof (nth_z_range _ _ _ Hv) as Hr.
    apply nth_z_error in Hv. rewrite (lsearch_sorted_at tbl key v Hs _ 0 Hv). f_equal. lia.
  - symmetry. apply lsearch_none_intro. intros a Ha. apply In_nth_z in Ha. destruct Ha as [i Hi].
    unfold topic_ref in E.
    eapply (bsearch_none tbl key Hs (S (length tbl)) 0 (ulen tbl)); try eassumption; try lia.
    + unfold ulen. lia.
    + intros j b Hj Hb. apply nth_z_range in Hb. lia.
    + intros j b Hj Hb. apply nth_z_range in Hb. lia.
Qed.

Theorem C19_lookup_some : forall V (tbl : list (bytes * V)) key i,
  topic_ref tbl key = Some i -> exists v, nth_z tbl i = Some (key, v).
Proof. intros V tbl key i. apply topic_ref_some. Qed.

Theorem C19_lookup_none : forall V (tbl : list (bytes * V)) key,
  strictly_sorted tbl -> (topic_ref tbl key = None <-> ~ In key (map fst tbl)).
Proof.
  intros V tbl key Hs. rewrite (C19_lookup V tbl key Hs). generalize 0 as i0.
  induction tbl as [|[t v] r IH]; intros i0; cbn [lsearch map fst In].
  - split; [intros _ []|reflexivity].
  - inversion Hs; subst. destruct (bytes_eqb t key) eqn:E.
    + apply bytes_eqb_eq in E. split; [discriminate|]. intros H. exfalso. apply H. left. exact E.
    + apply bytes_eqb_neq in E. rewrite (IH ltac:(assumption)). intuition.
Qed.

Corollary C19_lookup_found : forall V (tbl : list (bytes * V)) key,
  strictly_sorted tbl -> In key (map fst tbl) -> exists i v, topic_ref tbl key = Some i /\ nth_z tbl i = Some (key, v).
Proof.
  intros V tbl key Hs Hin. destruct (topic_ref tbl key) as [i|] eqn:E.
  - destruct (topic_ref_some _ _ _ E) as [v Hv]. eauto.
  - apply C19_lookup_none in E; [contradiction|exact Hs].
Qed.

(* distinct indices hold distinct names: the reference identifies the topic and vice versa *)
Corollary C19_lookup_unique : forall V (tbl : list (bytes * V)) key i v,
  strictly_sorted tbl -> nth_z tbl i = Some (key, v) -> topic_ref tbl key = Some i.
Proof.
  intros V tbl key i v Hs Hv. rewrite (C19_lookup V tbl key Hs).
  pose proof (nth_z_range _ _ _ Hv) as Hr. apply nth_z_error in Hv.
  rewrite (lsearch_sorted_at tbl key v Hs _ 0 Hv). f_equal. lia.
Qed.

Example C19_lookup_ex :
  let tbl := from_map [(tag "zeta", [3]); (tag "alpha", []); (tag "m", [7]); (tag "alphabet", [5]); (tag "b", [])] in
  map (topic_ref tbl) [tag "alpha"; tag "alphabet"; tag "b"; tag "m"; tag "zeta"; tag "alph"; tag ""; tag "zz"]
  = [Some 0; Some 1; Some 2; Some 3; Some 4; None; None; None]
  /\ map (fun k => lsearch tbl k 0) [tag "alpha"; tag "alphabet"; tag "b"; tag "m"; tag "zeta"; tag "alph"; tag ""; tag "zz"]
  = [Some 0; Some 1; Some 2; Some 3; Some 4; None; None; None].
Proof. vm_compute. split; reflexivity. Qed.

(* on an unsorted table the binary search misses entries: sortedness is needed *)
Example C19_lookup_unsorted_ex :
  topic_ref [(tag "b", 0); (tag "c", 1); (tag "a", 2)] (tag "a") = None
  /\ lsearch [(tag "b", 0); (tag "c", 1); (tag "a", 2)] (tag "a") 0 = Some 2.
Proof. vm_compute. split; reflexivity. Qed.

(* ================================================================================== *)
(* 5. determine_partitions                                                            *)
(* ================================================================================== *)

Lemma iota_z_seq n : forall k, iota_z n (Z.of_nat k) = map Z.of_nat (seq k n).
Proof.
  induction n as [|n IH]; intros k; cbn [iota_z seq map]; [reflexivity|].
  replace (Z.of_nat k + 1) with (Z.of_nat (S k)) by lia. rewrite IH. reflexivity.
Qed.

(* [0 .. n-1] *)
Theorem C19_iota : forall n, iota_z n 0 = map Z.of_nat (seq 0 n).
Proof. intros n. apply (iota_z_seq n 0%nat). Qed.

Lemma partition_ref_some_iff (avail : list Z) p :
  (match partition_ref avail p with Some _ => true | None => false end) = true <-> 0 <= p < ulen avail.
Proof.
  unfold partition_ref. split.
  - destruct (nth_z avail p) as [a|] eqn:E; [|discriminate]. intros _. eapply nth_z_range. exact E.
  - intros H. destruct (nth_z_in_range avail p H) as [a Ha]. rewrite Ha. reflexivity.
Qed.

Theorem C19_determine_all : forall s t avail,
  partitions_for s t = Some avail ->
  determine_partitions s (t, []) = Ok (iota_z (length avail) 0).
Proof. intros s t avail H. unfold determine_partitions. cbn [fst snd]. rewrite H. reflexivity. Qed.

Theorem C19_determine_requested : forall s t avail req,
  partitions_for s t = Some avail -> req <> [] ->
  Forall (fun p => 0 <= p < ulen avail) req ->
  determine_partitions s (t, req) = Ok req.
Proof.
  intros s t avail req H Hne Hall. unfold determine_partitions. cbn [fst snd]. rewrite H.
  destruct req as [|p0 req0] eqn:Er; [congruence|]. rewrite <- Er in *.
  assert (Hf : forallb (fun p => match partition_ref avail p with Some _ => true | None => false end) req = true).
  { apply forallb_forall. intros p Hp. rewrite Forall_forall in Hall. apply partition_ref_some_iff. apply Hall. exact Hp. }
  rewrite Hf. reflexivity.
Qed.

Theorem C19_determine_unknown_topic : forall s t req,
  partitions_for s t = None ->
  determine_partitions s (t, req) = Err (EKafka KC_UnknownTopicOrPartition).
Proof. intros s t req H. unfold determine_partitions. cbn [fst snd]. rewrite H. reflexivity. Qed.

Theorem C19_determine_out_of_range : forall s t avail req,
  partitions_for s t = Some avail ->
  Exists (fun p => p < 0 \/ ulen avail <= p) req ->
  determine_partitions s (t, req) = Err (EKafka KC_UnknownTopicOrPartition).
Proof.
  intros s t avail req H Hex. unfold determine_partitions. cbn [fst snd]. rewrite H.
  destruct req as [|p0 req0] eqn:Er; [inversion Hex|]. rewrite <- Er in *.
  destruct (forallb (fun p => match partition_ref avail p with Some _ => true | None => false end) req) eqn:Hf;
    [|reflexivity].
  exfalso. rewrite forallb_forall in Hf. apply Exists_exists in Hex. destruct Hex as (p & Hp & Hbad).
  specialize (Hf p Hp). apply partition_ref_some_iff in Hf. lia.
Qed.

Theorem C19_determine : forall s t,
  (forall avail, partitions_for s t = Some avail ->
      determine_partitions s (t, []) = Ok (map Z.of_nat (seq 0 (length avail)))
      /\ (forall req, req <> [] -> Forall (fun p => 0 <= p < ulen avail) req ->
            determine_partitions s (t, req) = Ok req)
      /\ (forall req, Exists (fun p => p < 0 \/ ulen avail <= p) req ->
            determine_partitions s (t, req) = Err (EKafka KC_UnknownTopicOrPartition)))
  /\ (partitions_for s t = None ->
      forall req, determine_partitions s (t, req) = Err (EKafka KC_UnknownTopicOrPartition)).
Proof.
  intros s t. split.
  - intros avail H. split; [rewrite <- C19_iota; apply C19_determine_all; exact H|]. split.
    + intros req Hne Hall. eapply C19_determine_requested; eassumption.
    + intros req Hex. eapply C19_determine_out_of_range; eassumption.
  - intros H req. apply C19_determine_unknown_topic. exact H.
Qed.

Definition ex_state : cstate :=
  {| correlation := 0; brokers := [{| b_node := 1; b_host := tag "h:9092" |}];
     topic_partitions := [(tag "a", [0; 0; 0]); (tag "b", [0])]; group_coordinators := [] |}.

Example C19_determine_ex :
  determine_partitions ex_state (tag "a", []) = Ok [0; 1; 2]
  /\ determine_partitions ex_state (tag "a", [2; 0]) = Ok [2; 0]
  /\ determine_partitions ex_state (tag "a", [0; 3]) = Err (EKafka KC_UnknownTopicOrPartition)
  /\ determine_partitions ex_state (tag "a", [-1]) = Err (EKafka KC_UnknownTopicOrPartition)
  /\ determine_partitions ex_state (tag "c", []) = Err (EKafka KC_UnknownTopicOrPartition).
Proof. vm_compute. repeat split. Qed.

(* subscriptions_of: one entry per assignment, in table order, or the first error *)
Theorem C19_subscriptions_of : forall s asg subs,
  subscriptions_of s asg = Ok subs ->
  map fst subs = map fst asg
  /\ Forall2 (fun a sub => determine_partitions s a = Ok (snd sub)) asg subs.
Proof.
  intros s. induction asg as [|a r IH]; intros subs H; cbn [subscriptions_of] in H.
  - inversion H. split; [reflexivity|constructor].
  - apply bind_ok in H. destruct H as (ps & Hps & H). apply bind_ok in H. destruct H as (rest & Hr & H).
    inversion H; subst subs. destruct (IH rest Hr) as [H1 H2]. cbn [map fst]. rewrite H1.
    split; [reflexivity|]. constructor; [exact Hps|exact H2].
Qed.

(* ================================================================================== *)
(* 6. the builder keeps one entry per topic; the later call wins                      *)
(* ================================================================================== *)

Definition asg_call (c : cbuilder_call) : option (bytes * list Z) :=
  match c with
  | CWithTopic t => Some (t, [])
  | CWithTopicPartitions t ps => Some (t, ps)
  | _ => None
  end.

Lemma cb_assign_apply b c :
  cb_assign (cbuilder_apply b c) =
  match asg_call c with Some (t, ps) => map_insert (cb_assign b) t ps | None => cb_assign b end.
Proof. destruct c; reflexivity. Qed.

Lemma assoc_map_insert_same {V} (m : list (bytes * V)) k v : assoc_bytes k (map_insert m k v) = Some v.
Proof.
  induction m as [|[k' v'] m IH]; cbn [map_insert assoc_bytes].
  - rewrite bytes_eqb_refl. reflexivity.
  - destruct (bytes_eqb k' k) eqn:E; cbn [assoc_bytes]; rewrite E; [reflexivity|exact IH].
Qed.
Lemma assoc_map_insert_other {V} (m : list (bytes * V)) k k' v :
  k' <> k -> assoc_bytes k' (map_insert m k v) = assoc_bytes k' m.
Proof.
  intros Hn. induction m as [|[k0 v0] m IH]; cbn [map_insert assoc_bytes].
  - destruct (bytes_eqb k k') eqn:E; [apply bytes_eqb_eq in E; congruence|reflexivity].
  - destruct (bytes_eqb k0 k) eqn:E; cbn [assoc_bytes].
    + apply bytes_eqb_eq in E. subst k0.
      destruct (bytes_eqb k k') eqn:E2; [apply bytes_eqb_eq in E2; congruence|reflexivity].
    + destruct (bytes_eqb k0 k'); [reflexivity|exact IH].
Qed.
Lemma map_insert_keys {V} (m : list (bytes * V)) k v t :
  In t (map fst (map_insert m k v)) <-> t = k \/ In t (map fst m).
Proof.
  induction m as [|[k0 v0] m IH]; cbn [map_insert map fst In].
  - intuition.
  - destruct (bytes_eqb k0 k) eqn:E; cbn [map fst In].
    + apply bytes_eqb_eq in E. subst k0. intuition.
    + rewrite IH. intuition.
Qed.
Lemma map_insert_nodup {V} (m : list (bytes * V)) k v :
  NoDup (map fst m) -> NoDup (map fst (map_insert m k v)).
Proof.
  induction m as [|[k0 v0] m IH]; intros H; cbn [map_insert map fst].
  - constructor; [intros []|constructor].
  - cbn [map fst] in H. inversion H as [|? ? Hn Hd]; subst.
    destruct (bytes_eqb k0 k) eqn:E; cbn [map fst]; [exact H|].
    constructor; [|apply IH; exact Hd]. intros Hin. apply map_insert_keys in Hin.
    destruct Hin as [Hk|Hin]; [apply bytes_eqb_neq in E; congruence|contradiction].
Qed.

Lemma assign_untouched t : forall calls b,
  (forall c ps, In c calls -> asg_call c <> Some (t, ps)) ->
  assoc_bytes t (cb_assign (fold_left cbuilder_apply calls b)) = assoc_bytes t (cb_assign b).
Proof.
  induction calls as [|c calls IH]; intros b H; cbn [fold_left]; [reflexivity|].
  rewrite IH by (intros c' ps' Hin; apply H; right; exact Hin).
  rewrite cb_assign_apply. destruct (asg_call c) as [[t' ps']|] eqn:E; [|reflexivity].
  apply assoc_map_insert_other. intros Et. subst t'. apply (H c ps'); [left; reflexivity|exact E].
Qed.

(* the last with_topic / with_topic_partitions call for a topic decides its partition list,
   whatever was requested for that topic before, and whatever else is called in between *)
Theorem C19_builder_override : forall b calls1 c calls2 t ps,
  asg_call c = Some (t, ps) ->
  (forall c' ps', In c' calls2 -> asg_call c' <> Some (t, ps')) ->
  assoc_bytes t (cb_assign (fold_left cbuilder_apply (calls1 ++ c :: calls2) b)) = Some ps.
Proof.
  intros b calls1 c calls2 t ps Hc Hno. rewrite fold_left_app. cbn [fold_left].
  rewrite assign_untouched by exact Hno. rewrite cb_assign_apply, Hc. apply assoc_map_insert_same.
Qed.

(* a topic never named is not assigned *)
Theorem C19_builder_untouched : forall src calls t,
  (forall c ps, In c calls -> asg_call c <> Some (t, ps)) ->
  assoc_bytes t (cb_assign (fold_left cbuilder_apply calls (cbuilder_new src))) = None.
Proof. intros src calls t H. rewrite assign_untouched by exact H. destruct src; reflexivity. Qed.

(* the assignment map has one entry per topic: the hypothesis of C19_from_map_sorted holds *)
Theorem C19_builder_keys_distinct : forall src calls,
  NoDup (map fst (cb_assign (fold_left cbuilder_apply calls (cbuilder_new src)))).
Proof.
  intros src calls.
  assert (H0 : NoDup (map fst (cb_assign (cbuilder_new src)))) by (destruct src; constructor).
  revert H0. generalize (cbuilder_new src). induction calls as [|c calls IH]; intros b H; cbn [fold_left]; [exact H|].
  apply IH. rewrite cb_assign_apply. destruct (asg_call c) as [[t ps]|]; [apply map_insert_nodup; exact H|exact H].
Qed.

Example C19_builder_override_ex :
  cb_assign (fold_left cbuilder_apply
               [CWithTopic (tag "a"); CWithGroup (tag "g"); CWithTopicPartitions (tag "b") [1];
                CWithTopicPartitions (tag "a") [2; 0]; CWithMaxBytes 10; CWithTopic (tag "b")]
               (cbuilder_new (inl [tag "h:9092"])))
  = [(tag "a", [2; 0]); (tag "b", [])].
Proof. vm_compute. reflexivity. Qed.

(* ================================================================================== *)
(* 7. no topic: ENoTopicsAssigned, without I/O                                        *)
(* ================================================================================== *)

Theorem C19_no_topics : forall src calls s,
  (forall c, In c calls -> asg_call c = None) ->
  consumer_create src calls s = (Err ENoTopicsAssigned, s).
Proof.
  intros src calls s H.
  assert (Ha : cb_assign (fold_left cbuilder_apply calls (cbuilder_new src)) = []).
  { assert (H0 : cb_assign (cbuilder_new src) = []) by (destruct src; reflexivity).
    revert H0. generalize (cbuilder_new src). induction calls as [|c calls IH]; intros b H0; cbn [fold_left]; [exact H0|].
    apply IH; [intros c' Hc'; apply H; right; exact Hc'|].
    rewrite cb_assign_apply, (H c (or_introl eq_refl)). exact H0. }
  unfold consumer_create. cbv zeta. rewrite Ha. reflexivity.
Qed.

Definition ex_st (c : client) : st :=
  {| script := []; trace := []; anyq := []; hostq := []; fetchq := []; entryq := []; cl := c;
     env := {| gz_compress := fun b => b; sn_compress := fun b => b; gz_decompress := fun b => Some b;
              debug_build := true |} |}.

Example C19_no_topics_ex :
  let s := ex_st (client_new [tag "h:9092"]) in
  consumer_create (inl [tag "h:9092"]) [CWithGroup (tag "g"); CWithMaxBytes 5; CWithFallback FbEarliest] s
  = (Err ENoTopicsAssigned, s).
Proof. vm_compute. reflexivity. Qed.

(* ================================================================================== *)
(* 8. seek / consume_message / last_consumed_message                                  *)
(* ================================================================================== *)

(* (topic, p) is fetched by k: the topic has a reference and the key is in k_fetch *)
Definition assigned (k : consumer) (topic : bytes) (p : Z) : Prop :=
  exists r, topic_ref (k_assign k) topic = Some r /\ tk_get (r, p) (k_fetch k) <> None.

(* an Err result carries no consumer: the caller's consumer - hence every
   last_consumed_message - is what it was *)
Theorem C19_foreign_seek : forall k topic p off,
  ~ assigned k topic p ->
  consumer_seek k topic p off = Err (EKafka KC_UnknownTopicOrPartition)
  \/ consumer_seek k topic p off = Err (ETopicPartition topic p KC_UnknownTopicOrPartition).
Proof.
  intros k topic p off H. unfold consumer_seek.
  destruct (topic_ref (k_assign k) topic) as [r|] eqn:Er; [|left; reflexivity].
  destruct (tk_get (r, p) (k_fetch k)) as [[o mb]|] eqn:Eg; [|right; reflexivity].
  exfalso. apply H. exists r. split; [exact Er|rewrite Eg; discriminate].
Qed.

Theorem C19_foreign_consume : forall k topic p off,
  ~ assigned k topic p ->
  consume_message k topic p off = Err (EKafka KC_UnknownTopicOrPartition).
Proof.
  intros k topic p off H. unfold consume_message.
  destruct (topic_ref (k_assign k) topic) as [r|] eqn:Er; [|reflexivity].
  destruct (tk_get (r, p) (k_fetch k)) as [v|] eqn:Eg; [|reflexivity].
  exfalso. apply H. exists r. split; [exact Er|rewrite Eg; discriminate].
Qed.

(* for an assigned pair seek changes exactly that key's offset *)
Theorem C19_seek_assigned : forall k topic p off k',
  consumer_seek k topic p off = Ok k' ->
  exists r old maxb,
    topic_ref (k_assign k) topic = Some r
    /\ tk_get (r, p) (k_fetch k) = Some (old, maxb)
    /\ tk_get (r, p) (k_fetch k') = Some (off, maxb)
    /\ (forall key, key <> (r, p) -> tk_get key (k_fetch k') = tk_get key (k_fetch k))
    /\ k_consumed k' = k_consumed k /\ k_assign k' = k_assign k /\ k_retry k' = k_retry k
    /\ k_group k' = k_group k /\ k_client k' = k_client k.
Proof.
  intros k topic p off k' H. unfold consumer_seek in H.
  destruct (topic_ref (k_assign k) topic) as [r|] eqn:Er; [|discriminate].
  destruct (tk_get (r, p) (k_fetch k)) as [[o mb]|] eqn:Eg; [|discriminate].
  inversion H; subst k'. exists r, o, mb. unfold consumer_with. cbn [k_fetch k_consumed k_assign k_retry k_group k_client].
  split; [reflexivity|]. split; [exact Eg|]. split; [apply tk_get_set_same|].
  split; [intros key Hk; apply tk_get_set_other; exact Hk|]. repeat split.
Qed.

Theorem C19_seek_ok_iff : forall k topic p off,
  (exists k', consumer_seek k topic p off = Ok k') <-> assigned k topic p.
Proof.
  intros k topic p off. split.
  - intros [k' H]. apply C19_seek_assigned in H. destruct H as (r & old & maxb & H1 & H2 & _).
    exists r. split; [exact H1|rewrite H2; discriminate].
  - intros (r & H1 & H2). unfold consumer_seek. rewrite H1.
    destruct (tk_get (r, p) (k_fetch k)) as [[o mb]|]; [eauto|congruence].
Qed.

(* for an assigned pair consume_message changes at most that key's mark *)
Theorem C19_consume_assigned : forall k topic p off k',
  consume_message k topic p off = Ok k' ->
  exists r,
    topic_ref (k_assign k) topic = Some r
    /\ tk_get (r, p) (k_fetch k) <> None
    /\ (forall key, key <> (r, p) -> tk_get key (k_consumed k') = tk_get key (k_consumed k))
    /\ k_fetch k' = k_fetch k /\ k_assign k' = k_assign k /\ k_retry k' = k_retry k
    /\ k_group k' = k_group k /\ k_client k' = k_client k.
Proof.
  intros k topic p off k' H. unfold consume_message in H.
  destruct (topic_ref (k_assign k) topic) as [r|] eqn:Er; [|discriminate].
  destruct (tk_get (r, p) (k_fetch k)) as [v|] eqn:Eg; [|discriminate].
  exists r. split; [reflexivity|]. split; [rewrite Eg; discriminate|].
  destruct (tk_get (r, p) (k_consumed k)) as [[o d]|] eqn:Ec.
  - destruct (o <? off) eqn:El.
    + inversion H; subst k'. unfold consumer_with. cbn [k_fetch k_consumed k_assign k_retry k_group k_client].
      split; [intros key Hk; apply tk_get_set_other; exact Hk|]. repeat split.
    + inversion H; subst k'. repeat split.
  - inversion H; subst k'. unfold consumer_with. cbn [k_fetch k_consumed k_assign k_retry k_group k_client].
    split; [intros key Hk; apply tk_get_set_other; exact Hk|]. repeat split.
Qed.

Theorem C19_consume_ok_iff : forall k topic p off,
  (exists k', consume_message k topic p off = Ok k') <-> assigned k topic p.
Proof.
  intros k topic p off. split.
  - intros [k' H]. apply C19_consume_assigned in H. destruct H as (r & H1 & H2 & _). exists r. auto.
  - intros (r & H1 & H2). unfold consume_message. rewrite H1.
    destruct (tk_get (r, p) (k_fetch k)) as [v|]; [|congruence].
    destruct (tk_get (r, p) (k_consumed k)) as [[o d]|]; [destruct (o <? off)|]; eauto.
Qed.

(* every other (topic, partition) keeps its last consumed message *)
Theorem C19_consume_others : forall k topic p off k',
  consume_message k topic p off = Ok k' ->
  forall t' p', (t', p') <> (topic, p) -> last_consumed_message k' t' p' = last_consumed_message k t' p'.
Proof.
  intros k topic p off k' H t' p' Hne. apply C19_consume_assigned in H.
  destruct H as (r & Hr & _ & Hoth & _ & Ha & _). unfold last_consumed_message. rewrite Ha.
  destruct (topic_ref (k_assign k) t') as [r'|] eqn:Er'; [|reflexivity].
  rewrite Hoth; [reflexivity|]. intros E. inversion E. subst r' p'.
  apply Hne. f_equal. eapply topic_ref_inj; eassumption.
Qed.

Theorem C19_seek_keeps_marks : forall k topic p off k',
  consumer_seek k topic p off = Ok k' ->
  forall t' p', last_consumed_message k' t' p' = last_consumed_message k t' p'.
Proof.
  intros k topic p off k' H t' p'. apply C19_seek_assigned in H.
  destruct H as (r & old & maxb & _ & _ & _ & _ & Hc & Ha & _). unfold last_consumed_message. rewrite Ha, Hc. reflexivity.
Qed.

Definition ex_consumer : consumer :=
  {| k_client := client_new [tag "h:9092"]; k_group := tag "g"; k_fallback := FbLatest; k_retry_limit := 0;
     k_assign := [(tag "a", [0; 1]); (tag "b", [0])];
     k_fetch := [((0, 0), (10, 4096)); ((0, 1), (20, 4096)); ((1, 0), (30, 4096))];
     k_retry := [];
     k_consumed := [((0, 1), (19, false))] |}.

Example C19_seek_consume_ex :
  consumer_seek ex_consumer (tag "c") 0 5 = Err (EKafka KC_UnknownTopicOrPartition)
  /\ consumer_seek ex_consumer (tag "b") 1 5 = Err (ETopicPartition (tag "b") 1 KC_UnknownTopicOrPartition)
  /\ consume_message ex_consumer (tag "b") 1 5 = Err (EKafka KC_UnknownTopicOrPartition)
  /\ option_map k_fetch (match consumer_seek ex_consumer (tag "a") 1 5 with Ok k => Some k | _ => None end)
     = Some [((0, 0), (10, 4096)); ((0, 1), (5, 4096)); ((1, 0), (30, 4096))]
  /\ option_map k_consumed (match consume_message ex_consumer (tag "b") 0 31 with Ok k => Some k | _ => None end)
     = Some [((0, 1), (19, false)); ((1, 0), (31, true))].
Proof. vm_compute. repeat split. Qed.

(* ================================================================================== *)
(* 9. the fetch states hold exactly the subscribed keys                               *)
(* ================================================================================== *)

Lemma range_parts_keys dbg fb consumed latest earliest maxb t r ps acc res :
  range_parts dbg fb consumed latest earliest maxb t r ps acc = Ok res ->
  forall key, tk_get key res <> None -> tk_get key acc <> None \/ (fst key = r /\ In (snd key) ps).
Proof.
  intros H [kr kp] Hk. cbn [fst snd].
  destruct (Z.eq_dec kr r) as [Er|Er]; [destruct (in_dec Z.eq_dec kp ps) as [Hin|Hin]; [right; auto|]|]; left.
  - rewrite <- (C07_range_parts_others _ _ _ _ _ _ _ _ _ _ _ H); [exact Hk|].
    intros q Hq E. inversion E. subst. contradiction.
  - rewrite <- (C07_range_parts_others _ _ _ _ _ _ _ _ _ _ _ H); [exact Hk|].
    intros q Hq E. inversion E. contradiction.
Qed.

Lemma range_states_keys dbg fb asg consumed latest earliest maxb : forall subs acc res,
  range_states dbg fb asg consumed latest earliest maxb subs acc = Ok res ->
  forall key, tk_get key res <> None ->
    tk_get key acc <> None
    \/ exists t ps, In (t, ps) subs /\ topic_ref asg t = Some (fst key) /\ In (snd key) ps.
Proof.
  induction subs as [|[t0 ps0] rest IH]; intros acc res H key Hk; cbn [range_states] in H.
  - inversion H; subst. left. exact Hk.
  - destruct (topic_ref asg t0) as [r0|] eqn:Hr0; [|discriminate].
    apply bind_ok in H. destruct H as (acc' & Hp & H).
    destruct (IH _ _ H key Hk) as [Hacc'|(t & ps & Hin & Hr & Hps)].
    + destruct (range_parts_keys _ _ _ _ _ _ _ _ _ _ _ Hp key Hacc') as [Hacc|[Hr Hps]]; [left; exact Hacc|].
      right. exists t0, ps0. split; [left; reflexivity|]. rewrite Hr. auto.
    + right. exists t, ps. split; [right; exact Hin|auto].
Qed.

(* a committed-offsets start: the keys of the fetch states are exactly the subscribed
   (topic reference, partition) pairs *)
Theorem C19_fetch_states_exact : forall dbg fb asg consumed latest earliest maxb subs res,
  range_states dbg fb asg consumed latest earliest maxb subs [] = Ok res ->
  forall r p, tk_get (r, p) res <> None <->
              exists t ps, In (t, ps) subs /\ topic_ref asg t = Some r /\ In p ps.
Proof.
  intros dbg fb asg consumed latest earliest maxb subs res H r p. split.
  - intros Hk. destruct (range_states_keys _ _ _ _ _ _ _ _ _ _ H (r, p) Hk) as [Hn|Hx]; [|exact Hx].
    exfalso. apply Hn. reflexivity.
  - intros (t & ps & Hin & Hr & Hp).
    destruct (C07_range_states _ _ _ _ _ _ _ _ _ _ H t ps p Hin Hp) as (r' & off & Hr' & _ & Hg).
    rewrite Hr in Hr'. inversion Hr'. subst r'. rewrite Hg. discriminate.
Qed.

Lemma fallback_states_keys asg offsets maxb : forall subs acc res,
  fallback_states asg offsets maxb subs acc = Ok res ->
  forall key, tk_get key res <> None ->
    tk_get key acc <> None
    \/ exists t ps, In (t, ps) subs /\ topic_ref asg t = Some (fst key) /\ In (snd key) ps.
Proof.
  induction subs as [|[t0 ps0] rest IH]; intros acc res H key Hk; cbn [fallback_states] in H.
  - inversion H; subst. left. exact Hk.
  - destruct (topic_ref asg t0) as [r0|] eqn:Hr0; [|discriminate].
    destruct (assoc_bytes t0 offsets) as [offs|] eqn:Ho; [|discriminate].
    destruct (IH _ _ H key Hk) as [Hacc'|(t & ps & Hin & Hr & Hps)].
    + destruct (fold_tk_set_spec r0 (fun p => (match assoc_z p offs with Some o => o | None => -1 end, maxb)) ps0 acc)
        as [_ Hp2].
      destruct key as [kr kp]. cbn [fst snd].
      destruct (Z.eq_dec kr r0) as [Er|Er]; [destruct (in_dec Z.eq_dec kp ps0) as [Hin|Hin]|].
      * right. exists t0, ps0. split; [left; reflexivity|]. subst kr. auto.
      * left. rewrite <- Hp2; [exact Hacc'|]. intros q Hq E. inversion E. subst. contradiction.
      * left. rewrite <- Hp2; [exact Hacc'|]. intros q Hq E. inversion E. contradiction.
    + right. exists t, ps. split; [right; exact Hin|auto].
Qed.

Theorem C19_fallback_states_exact : forall asg offsets maxb subs res,
  fallback_states asg offsets maxb subs [] = Ok res ->
  forall r p, tk_get (r, p) res <> None <->
              exists t ps, In (t, ps) subs /\ topic_ref asg t = Some r /\ In p ps.
Proof.
  intros asg offsets maxb subs res H r p. split.
  - intros Hk. destruct (fallback_states_keys _ _ _ _ _ _ H (r, p) Hk) as [Hn|Hx]; [|exact Hx].
    exfalso. apply Hn. reflexivity.
  - intros (t & ps & Hin & Hr & Hp).
    destruct (C07_fallback_states _ _ _ _ _ _ H t ps p Hin Hp) as (r' & offs & Hr' & _ & Hg).
    rewrite Hr in Hr'. inversion Hr'. subst r'. rewrite Hg. discriminate.
Qed.

(* ================================================================================== *)
(* 10. subscriptions()                                                                *)
(* ================================================================================== *)

Definition flat_tps (m : list (bytes * list Z)) : list (bytes * Z) :=
  flat_map (fun e => map (fun p => (fst e, p)) (snd e)) m.

Lemma res_push_flat m t p : Permutation (flat_tps (res_push m t [p])) ((t, p) :: flat_tps m).
Proof.
  induction m as [|[t' vs'] m IH]; cbn [res_push].
  - apply Permutation_refl.
  - destruct (bytes_eqb t' t) eqn:E.
    + apply bytes_eqb_eq in E. subst t'. unfold flat_tps. cbn [flat_map fst snd].
      rewrite map_app. cbn [map]. rewrite <- app_assoc. cbn [app].
      symmetry. apply Permutation_middle.
    + unfold flat_tps. cbn [flat_map fst snd]. fold (flat_tps (res_push m t [p])). fold (flat_tps m).
      eapply Permutation_trans; [apply Permutation_app_head; exact IH|].
      symmetry. apply Permutation_middle.
Qed.

Lemma res_push_keys {V} (m : list (bytes * list V)) t vs t' :
  In t' (map fst (res_push m t vs)) <-> t' = t \/ In t' (map fst m).
Proof.
  induction m as [|[k0 v0] m IH]; cbn [res_push map fst In].
  - intuition.
  - destruct (bytes_eqb k0 t) eqn:E; cbn [map fst In].
    + apply bytes_eqb_eq in E. subst k0. intuition.
    + rewrite IH. intuition.
Qed.
Lemma res_push_nodup {V} (m : list (bytes * list V)) t vs :
  NoDup (map fst m) -> NoDup (map fst (res_push m t vs)).
Proof.
  induction m as [|[k0 v0] m IH]; intros H; cbn [res_push map fst].
  - constructor; [intros []|constructor].
  - cbn [map fst] in H. inversion H as [|? ? Hn Hd]; subst.
    destruct (bytes_eqb k0 t) eqn:E; cbn [map fst]; [exact H|].
    constructor; [|apply IH; exact Hd]. intros Hin. apply res_push_keys in Hin.
    destruct Hin as [Hk|Hin]; [apply bytes_eqb_neq in E; congruence|contradiction].
Qed.

Definition fetch_key_name (k : consumer) (e : tpkey * (Z * Z)) : bytes * Z :=
  (topic_name k (fst (fst e)), snd (fst e)).

Lemma subscriptions_gen k : forall l acc,
  NoDup (map fst acc) ->
  let step := (fun acc '((r, p), _) => res_push acc (topic_name k r) [p]) in
  Permutation (flat_tps (fold_left step l acc)) (flat_tps acc ++ map (fetch_key_name k) l)
  /\ NoDup (map fst (fold_left step l acc)).
Proof.
  induction l as [|[[r p] v] l IH]; intros acc Hnd step; cbn [fold_left map].
  - rewrite app_nil_r. split; [apply Permutation_refl|exact Hnd].
  - subst step. destruct (IH (res_push acc (topic_name k r) [p]) (res_push_nodup _ _ _ Hnd)) as [H1 H2].
    split; [|exact H2]. eapply Permutation_trans; [exact H1|].
    eapply Permutation_trans; [apply Permutation_app_tail; apply res_push_flat|].
    unfold fetch_key_name at 2. cbn [fst snd app]. apply Permutation_middle.
Qed.

(* subscriptions() lists exactly the keys of the fetch states - one (topic, partition) pair per
   entry, as a multiset - and names every topic once (grouped by topic) *)
Theorem C19_subscriptions : forall k,
  Permutation (flat_tps (subscriptions k)) (map (fetch_key_name k) (k_fetch k))
  /\ NoDup (map fst (subscriptions k)).
Proof.
  intros k. destruct (subscriptions_gen k (k_fetch k) [] (NoDup_nil _)) as [H1 H2].
  split; [exact H1|exact H2].
Qed.

Example C19_subscriptions_ex :
  subscriptions ex_consumer = [(tag "a", [0; 1]); (tag "b", [0])]
  /\ map (fetch_key_name ex_consumer) (k_fetch ex_consumer) = [(tag "a", 0); (tag "a", 1); (tag "b", 0)].
Proof. vm_compute. split; reflexivity. Qed.

Print Assumptions bytes_cmp_total.
Print Assumptions C19_from_map_sorted.
Print Assumptions C19_lookup.
Print Assumptions C19_lookup_some.
Print Assumptions C19_lookup_none.
Print Assumptions C19_lookup_found.
Print Assumptions C19_lookup_unique.
Print Assumptions C19_determine.
Print Assumptions C19_subscriptions_of.
Print Assumptions C19_builder_override.
Print Assumptions C19_builder_untouched.
Print Assumptions C19_builder_keys_distinct.
Print Assumptions C19_no_topics.
Print Assumptions C19_foreign_seek.
Print Assumptions C19_foreign_consume.
Print Assumptions C19_seek_assigned.
Print Assumptions C19_seek_ok_iff.
Print Assumptions C19_consume_assigned.
Print Assumptions C19_consume_ok_iff.
Print Assumptions C19_consume_others.
Print Assumptions C19_seek_keeps_marks.
Print Assumptions C19_fetch_states_exact.
Print Assumptions C19_fallback_states_exact.
Print Assumptions C19_subscriptions.
