(* C14, additional theorems, second pass (mutation adequacy, round-four seed).
   Seed C14-4 (a coordinator lookup answered with a code other than 15 is asked again) is already
   refuted by C14_lookup_step / C14_lookup_result / C14_lookup_ok_iff (checked against the mutated
   model).  This file adds what was still missing at the level of the PUBLIC calls:
   1. exact attempt accounting: the number of retried attempts of a run, and the exact number of
      attempts made when the call gives up (max 1 limit, counted from the call's first attempt);
   2. the converse ("forward") direction of the *_result theorems: a stream that delivers n retryable
      answers within the limit followed by a final one makes the loop / the call return exactly what
      loop_final / lookup_final says; hence an "if and only if" for get_group_coordinator,
      commit_offsets and fetch_group_offsets, and "succeeds iff some attempt within the limit succeeds";
   3. "until the first other answer" for the coordinator lookup INSIDE a commit / group offset fetch
      (first attempt of a call, and the attempt after 'not coordinator for group'): the call ends
      with that code, nothing more is sent (the four demonstrations of seed C14-4);
   4. which host a successful lookup names (set_group_coordinator). *)
From KV Require Import Base.Prelude Gen.ErrorCodes Gen.Consts Model.Codecs Model.Requests Model.Responses
                       Model.ClientState Model.Net Model.Client.
From KV Require Import Proofs.BytesFacts Proofs.C11Facts Proofs.NetFacts Proofs.C14Facts Proofs.C14Extra.
From Coq Require Import ZifyBool.

(* ================================================================================== *)
(* 1. counting the retried attempts                                                   *)
(* ================================================================================== *)

Lemma with_cs_script s x : script (with_cs s x) = script s.
Proof. reflexivity. Qed.
Lemma after_corr_script s : script (after_corr s) = script s.
Proof. reflexivity. Qed.
Lemma after_corr_cfg s : cfg (cl (after_corr s)) = cfg (cl s).
Proof. apply with_cs_cfg. Qed.
Lemma after_corr_coordinator s group :
  group_coordinator (cs (cl (after_corr s))) group = group_coordinator (cs (cl s)) group.
Proof. unfold after_corr. rewrite with_cs_cs. reflexivity. Qed.

(* n retried attempts starting with attempt number `attempt`: the configuration is the same at the
   end, every one of them was within the limit, and each consumed part of the stream *)
Lemma loop_retried_count {A B} (d : dec A) (judge : A -> verdict B) group req n attempt s sk :
  loop_retried d judge group req n attempt s sk ->
  cfg (cl sk) = cfg (cl s) /\
  ((0 < n)%nat -> attempt + Z.of_nat n <= retry_max_attempts (cfg (cl s))) /\
  (length (script sk) + n <= length (script s))%nat.
Proof.
  induction 1 as [attempt s|n attempt s a s2 code reset sk E Ej Ea Hr IH].
  - split; [reflexivity|]. split; lia.
  - destruct IH as (C & Hc & Hl). rewrite after_retry_cfg in C, Hc. rewrite after_retry_script in Hl.
    destruct (exchange_attempt_cfg _ _ _ _ _ _ E) as [_ C1]. unfold same_cfgc in C1.
    pose proof (exchange_attempt_ok_shrinks _ _ _ _ _ _ E) as Hs.
    split; [congruence|]. split; [|lia]. intros _. rewrite <- C1.
    destruct n as [|n]; [lia|]. specialize (Hc ltac:(lia)). lia.
Qed.

Lemma lookup_retried_count req n attempt s sk :
  lookup_retried req n attempt s sk ->
  cfg (cl sk) = cfg (cl s) /\
  ((0 < n)%nat -> attempt + Z.of_nat n <= retry_max_attempts (cfg (cl s))) /\
  (length (script sk) + n <= length (script s))%nat.
Proof.
  induction 1 as [attempt s|n attempt s resp s1 sk E Ep Ea Hr IH].
  - split; [reflexivity|]. split; lia.
  - destruct IH as (C & Hc & Hl).
    pose proof (lookup_attempt_cl _ _ _ _ E) as C1.
    pose proof (lookup_attempt_ok_shrinks _ _ _ _ E) as Hs.
    split; [congruence|]. split; [|lia]. intros _. rewrite <- C1.
    destruct n as [|n]; [lia|]. specialize (Hc ltac:(lia)). lia.
Qed.

(* ================================================================================== *)
(* 2. the forward direction of the result theorems                                    *)
(* ================================================================================== *)

Lemma retry_loop_complete {A B} (d : dec A) (judge : A -> verdict B) group req n attempt s sk :
  loop_retried d judge group req n attempt s sk ->
  forall fuel r s', loop_final d judge group req (attempt + Z.of_nat n) sk r s' -> (n < fuel)%nat ->
  retry_loop d judge fuel group req attempt s = (r, s').
Proof.
  induction 1 as [attempt s|n attempt s a s2 code reset sk E Ej Ea Hr IH]; intros fuel r s' Hf Hl;
    (destruct fuel as [|f]; [lia|]); cbn [retry_loop].
  - unfold loop_final in Hf. destruct (exchange_attempt d group req s) as [[a|e|w] s2].
    + destruct (judge a) as [b|c|code reset].
      * destruct Hf as [-> ->]. reflexivity.
      * destruct Hf as [-> ->]. reflexivity.
      * destruct Hf as (-> & -> & Hlim).
        destruct (attempt <? retry_max_attempts (cfg (cl s2))) eqn:Eb; [lia|reflexivity].
    + destruct Hf as [-> ->]. reflexivity.
    + destruct Hf as [-> ->]. reflexivity.
  - rewrite E, Ej. destruct (attempt <? retry_max_attempts (cfg (cl s2))) eqn:Eb; [|lia].
    apply IH; [|lia]. replace (attempt + 1 + Z.of_nat n) with (attempt + Z.of_nat (S n)) by lia. exact Hf.
Qed.

Lemma lookup_loop_complete group req n attempt s sk :
  lookup_retried req n attempt s sk ->
  forall fuel r s', lookup_final group req (attempt + Z.of_nat n) sk r s' -> (n < fuel)%nat ->
  group_lookup_loop fuel group req attempt s = (r, s').
Proof.
  induction 1 as [attempt s|n attempt s resp s1 sk E Ep Ea Hr IH]; intros fuel r s' Hf Hl;
    (destruct fuel as [|f]; [lia|]); rewrite lookup_loop_step.
  - unfold lookup_final in Hf. destruct (group_lookup_attempt req s) as [[resp|e|w] s1].
    + destruct (from_protocol (gc_error resp)) as [c|].
      * destruct Hf as (-> & -> & Hlim).
        destruct (c =? KC_GroupCoordinatorNotAvailable) eqn:Ec; [|reflexivity].
        destruct (attempt <? retry_max_attempts (cfg (cl s1))) eqn:Eb; [|reflexivity].
        specialize (Hlim ltac:(lia)). lia.
      * destruct Hf as (_ & -> & ->). reflexivity.
    + destruct Hf as [-> ->]. reflexivity.
    + destruct Hf as [-> ->]. reflexivity.
  - rewrite E, Ep. rewrite Z.eqb_refl.
    destruct (attempt <? retry_max_attempts (cfg (cl s1))) eqn:Eb; [|lia].
    apply IH; [|lia]. replace (attempt + 1 + Z.of_nat n) with (attempt + Z.of_nat (S n)) by lia. exact Hf.
Qed.

(* ---- the loops: result <-> description, and the exact number of attempts ----------------------- *)

(* For every fuel that is enough (more than the stream is long): the loop returns (r, s') exactly when
   some number n of attempts were answered "retry" within the limit and the next one ends it as
   loop_final says.  (-> is C14_commit_result / C14_group_fetch_result; <- is new.) *)
Theorem C14_commit_loop_iff : forall fuel group req attempt s r s',
  (length (script s) < fuel)%nat ->
  (commit_loop fuel group req attempt s = (r, s') <->
   exists n sk, loop_retried dec_offset_commit_resp commit_judge group req n attempt s sk /\
                loop_final dec_offset_commit_resp commit_judge group req (attempt + Z.of_nat n) sk r s').
Proof.
  intros fuel group req attempt s r s' Hl. split.
  - intros H. exact (C14_commit_result _ _ _ _ _ _ _ H Hl).
  - intros (n & sk & Hr & Hf). rewrite commit_loop_eq.
    eapply retry_loop_complete; [exact Hr|exact Hf|].
    pose proof (proj2 (proj2 (loop_retried_count _ _ _ _ _ _ _ _ Hr))). lia.
Qed.

Theorem C14_group_fetch_loop_iff : forall fuel group req attempt s r s',
  (length (script s) < fuel)%nat ->
  (group_fetch_loop fuel group req attempt s = (r, s') <->
   exists n sk, loop_retried dec_offset_fetch_resp fetch_judge group req n attempt s sk /\
                loop_final dec_offset_fetch_resp fetch_judge group req (attempt + Z.of_nat n) sk r s').
Proof.
  intros fuel group req attempt s r s' Hl. split.
  - intros H. exact (C14_group_fetch_result _ _ _ _ _ _ _ H Hl).
  - intros (n & sk & Hr & Hf). rewrite group_fetch_loop_eq.
    eapply retry_loop_complete; [exact Hr|exact Hf|].
    pose proof (proj2 (proj2 (loop_retried_count _ _ _ _ _ _ _ _ Hr))). lia.
Qed.

Theorem C14_lookup_loop_iff : forall fuel group req attempt s r s',
  (length (script s) < fuel)%nat ->
  (group_lookup_loop fuel group req attempt s = (r, s') <->
   exists n sk, lookup_retried req n attempt s sk /\ lookup_final group req (attempt + Z.of_nat n) sk r s').
Proof.
  intros fuel group req attempt s r s' Hl. split.
  - intros H. exact (C14_lookup_result _ _ _ _ _ _ _ H Hl).
  - intros (n & sk & Hr & Hf).
    eapply lookup_loop_complete; [exact Hr|exact Hf|].
    pose proof (proj2 (proj2 (lookup_retried_count _ _ _ _ _ Hr))). lia.
Qed.

(* the exact attempt count of a run: n retried attempts and the one that ended it make
   attempt + n <= max attempt limit; when the ending answer is itself a retryable one (the call
   gives up) the number of the last attempt IS max attempt limit - not one fewer, not one more *)
Theorem C14_retried_within_limit : forall group req n attempt s sk,
  (loop_retried dec_offset_commit_resp commit_judge group req n attempt s sk \/
   loop_retried dec_offset_fetch_resp fetch_judge group req n attempt s sk \/
   lookup_retried req n attempt s sk) ->
  cfg (cl sk) = cfg (cl s) /\
  attempt + Z.of_nat n <= Z.max attempt (retry_max_attempts (cfg (cl s))).
Proof.
  intros group req n attempt s sk H.
  assert (G : cfg (cl sk) = cfg (cl s) /\
              ((0 < n)%nat -> attempt + Z.of_nat n <= retry_max_attempts (cfg (cl s)))).
  { destruct H as [H|[H|H]].
    - destruct (loop_retried_count _ _ _ _ _ _ _ _ H) as (C & Hc & _). split; assumption.
    - destruct (loop_retried_count _ _ _ _ _ _ _ _ H) as (C & Hc & _). split; assumption.
    - destruct (lookup_retried_count _ _ _ _ _ H) as (C & Hc & _). split; assumption. }
  destruct G as [C Hc]. split; [exact C|]. destruct n as [|n]; [lia|]. specialize (Hc ltac:(lia)). lia.
Qed.

Lemma loop_giveup_exact {A B} (d : dec A) (judge : A -> verdict B) group req n attempt s sk r s' a s2 code reset :
  loop_retried d judge group req n attempt s sk ->
  loop_final d judge group req (attempt + Z.of_nat n) sk r s' ->
  exchange_attempt d group req sk = (Ok a, s2) -> judge a = VRetry code reset ->
  r = Err (EKafka code) /\ s' = after_retry group reset s2 /\
  attempt + Z.of_nat n = Z.max attempt (retry_max_attempts (cfg (cl s))).
Proof.
  intros Hr Hf E Ej. unfold loop_final in Hf. rewrite E, Ej in Hf. destruct Hf as (-> & -> & Hlim).
  split; [reflexivity|]. split; [reflexivity|].
  destruct (loop_retried_count _ _ _ _ _ _ _ _ Hr) as (C & Hc & _).
  destruct (exchange_attempt_cfg _ _ _ _ _ _ E) as [_ C1]. unfold same_cfgc in C1.
  rewrite C1, C in Hlim. destruct n as [|n]; [lia|]. specialize (Hc ltac:(lia)). lia.
Qed.

Theorem C14_commit_giveup_exact : forall group req n attempt s sk r s' a s2 code reset,
  loop_retried dec_offset_commit_resp commit_judge group req n attempt s sk ->
  loop_final dec_offset_commit_resp commit_judge group req (attempt + Z.of_nat n) sk r s' ->
  exchange_attempt dec_offset_commit_resp group req sk = (Ok a, s2) -> commit_judge a = VRetry code reset ->
  r = Err (EKafka code) /\ s' = after_retry group reset s2 /\
  attempt + Z.of_nat n = Z.max attempt (retry_max_attempts (cfg (cl s))).
Proof. intros. eapply loop_giveup_exact; eassumption. Qed.

Theorem C14_group_fetch_giveup_exact : forall group req n attempt s sk r s' a s2 code reset,
  loop_retried dec_offset_fetch_resp fetch_judge group req n attempt s sk ->
  loop_final dec_offset_fetch_resp fetch_judge group req (attempt + Z.of_nat n) sk r s' ->
  exchange_attempt dec_offset_fetch_resp group req sk = (Ok a, s2) -> fetch_judge a = VRetry code reset ->
  r = Err (EKafka code) /\ s' = after_retry group reset s2 /\
  attempt + Z.of_nat n = Z.max attempt (retry_max_attempts (cfg (cl s))).
Proof. intros. eapply loop_giveup_exact; eassumption. Qed.

Theorem C14_lookup_giveup_exact : forall group req n attempt s sk r s' resp s1,
  lookup_retried req n attempt s sk ->
  lookup_final group req (attempt + Z.of_nat n) sk r s' ->
  group_lookup_attempt req sk = (Ok resp, s1) ->
  from_protocol (gc_error resp) = Some KC_GroupCoordinatorNotAvailable ->
  r = Err (EKafka KC_GroupCoordinatorNotAvailable) /\ s' = s1 /\
  attempt + Z.of_nat n = Z.max attempt (retry_max_attempts (cfg (cl s))).
Proof.
  intros group req n attempt s sk r s' resp s1 Hr Hf E Ep.
  unfold lookup_final in Hf. rewrite E, Ep in Hf. destruct Hf as (-> & -> & Hlim). specialize (Hlim eq_refl).
  split; [reflexivity|]. split; [reflexivity|].
  destruct (lookup_retried_count _ _ _ _ _ Hr) as (C & Hc & _).
  pose proof (lookup_attempt_cl _ _ _ _ E) as C1. rewrite C1, C in Hlim.
  destruct n as [|n]; [lia|]. specialize (Hc ltac:(lia)). lia.
Qed.

(* ================================================================================== *)
(* 3. the public calls: result <-> description, exact attempt numbers                 *)
(* ================================================================================== *)

(* the lookup request a client in state s encodes (its next correlation id) *)
Definition lookup_req (group : bytes) (s : st) : res bytes :=
  enc_group_coordinator_req (fst (next_correlation_id (cs (cl s)))) (client_id (cfg (cl s))) group.

Lemma lookup_of_eq group s :
  lookup_of group s = group_lookup_loop (S (length (script s))) group (lookup_req group s) 1 (after_corr s).
Proof. reflexivity. Qed.

(* get_group_coordinator with nothing cached: attempts are numbered from 1 *)
Theorem C14_get_group_coordinator_iff : forall group s r s',
  group_coordinator (cs (cl s)) group = None ->
  (get_group_coordinator group s = (r, s') <->
   exists n sk, lookup_retried (lookup_req group s) n 1 (after_corr s) sk /\
                lookup_final group (lookup_req group s) (1 + Z.of_nat n) sk r s').
Proof.
  intros group s r s' Hn. rewrite (uncached_looks_up _ _ Hn), lookup_of_eq.
  apply C14_lookup_loop_iff. rewrite after_corr_script. lia.
Qed.

Theorem C14_commit_offsets_iff : forall group os s r s' x xs,
  (offset_storage (cfg (cl s)) <? 0) = false -> commit_tps (cs (cl s)) os [] = Some (x :: xs) ->
  (commit_offsets group os s = (r, s') <->
   exists n sk,
     loop_retried dec_offset_commit_resp commit_judge group (commit_req group s (x :: xs)) n 1 (after_corr s) sk /\
     loop_final dec_offset_commit_resp commit_judge group (commit_req group s (x :: xs)) (1 + Z.of_nat n) sk r s').
Proof.
  intros group os s r s' x xs Hst Ht. rewrite commit_offsets_unfold, Hst, Ht.
  apply C14_commit_loop_iff. rewrite after_corr_script. lia.
Qed.

Theorem C14_fetch_group_offsets_iff : forall group ps s r s' tps,
  (offset_storage (cfg (cl s)) <? 0) = false -> group_fetch_tps (cs (cl s)) ps [] = Some tps ->
  (fetch_group_offsets group ps s = (r, s') <->
   exists n sk,
     loop_retried dec_offset_fetch_resp fetch_judge group (fetch_req group s tps) n 1 (after_corr s) sk /\
     loop_final dec_offset_fetch_resp fetch_judge group (fetch_req group s tps) (1 + Z.of_nat n) sk r s').
Proof.
  intros group ps s r s' tps Hst Ht. rewrite fetch_group_offsets_unfold, Hst, Ht.
  apply C14_group_fetch_loop_iff. rewrite after_corr_script. lia.
Qed.

(* The exact bound at the public calls, in numbers of attempts (not of write events, so no allowance for
   interrupted writes is needed): the call makes 1 + n attempts with 1 + n <= max 1 limit, and when the
   answer to the last of them is still a retryable one the call has made EXACTLY max 1 limit attempts
   and returns that code. *)
Theorem C14_commit_offsets_attempts_exact : forall group os s r s' x xs,
  commit_offsets group os s = (r, s') ->
  (offset_storage (cfg (cl s)) <? 0) = false -> commit_tps (cs (cl s)) os [] = Some (x :: xs) ->
  exists n sk,
    loop_retried dec_offset_commit_resp commit_judge group (commit_req group s (x :: xs)) n 1 (after_corr s) sk /\
    loop_final dec_offset_commit_resp commit_judge group (commit_req group s (x :: xs)) (1 + Z.of_nat n) sk r s' /\
    1 + Z.of_nat n <= Z.max 1 (retry_max_attempts (cfg (cl s))) /\
    (forall a s2 code reset,
       exchange_attempt dec_offset_commit_resp group (commit_req group s (x :: xs)) sk = (Ok a, s2) ->
       commit_judge a = VRetry code reset ->
       r = Err (EKafka code) /\ 1 + Z.of_nat n = Z.max 1 (retry_max_attempts (cfg (cl s)))).
Proof.
  intros group os s r s' x xs H Hst Ht.
  destruct (proj1 (C14_commit_offsets_iff _ _ _ _ _ _ _ Hst Ht) H) as (n & sk & Hr & Hf).
  exists n, sk. split; [exact Hr|]. split; [exact Hf|]. split.
  - destruct (C14_retried_within_limit group _ n 1 _ sk (or_introl Hr)) as [_ B].
    rewrite after_corr_cfg in B. exact B.
  - intros a s2 code reset E Ej.
    destruct (C14_commit_giveup_exact _ _ _ _ _ _ _ _ _ _ _ _ Hr Hf E Ej) as (Hx & _ & Hc).
    rewrite after_corr_cfg in Hc. split; assumption.
Qed.

Theorem C14_fetch_group_offsets_attempts_exact : forall group ps s r s' tps,
  fetch_group_offsets group ps s = (r, s') ->
  (offset_storage (cfg (cl s)) <? 0) = false -> group_fetch_tps (cs (cl s)) ps [] = Some tps ->
  exists n sk,
    loop_retried dec_offset_fetch_resp fetch_judge group (fetch_req group s tps) n 1 (after_corr s) sk /\
    loop_final dec_offset_fetch_resp fetch_judge group (fetch_req group s tps) (1 + Z.of_nat n) sk r s' /\
    1 + Z.of_nat n <= Z.max 1 (retry_max_attempts (cfg (cl s))) /\
    (forall a s2 code reset,
       exchange_attempt dec_offset_fetch_resp group (fetch_req group s tps) sk = (Ok a, s2) ->
       fetch_judge a = VRetry code reset ->
       r = Err (EKafka code) /\ 1 + Z.of_nat n = Z.max 1 (retry_max_attempts (cfg (cl s)))).
Proof.
  intros group ps s r s' tps H Hst Ht.
  destruct (proj1 (C14_fetch_group_offsets_iff _ _ _ _ _ _ Hst Ht) H) as (n & sk & Hr & Hf).
  exists n, sk. split; [exact Hr|]. split; [exact Hf|]. split.
  - destruct (C14_retried_within_limit group _ n 1 _ sk (or_intror (or_introl Hr))) as [_ B].
    rewrite after_corr_cfg in B. exact B.
  - intros a s2 code reset E Ej.
    destruct (C14_group_fetch_giveup_exact _ _ _ _ _ _ _ _ _ _ _ _ Hr Hf E Ej) as (Hx & _ & Hc).
    rewrite after_corr_cfg in Hc. split; assumption.
Qed.

Theorem C14_get_group_coordinator_attempts_exact : forall group s r s',
  get_group_coordinator group s = (r, s') -> group_coordinator (cs (cl s)) group = None ->
  exists n sk,
    lookup_retried (lookup_req group s) n 1 (after_corr s) sk /\
    lookup_final group (lookup_req group s) (1 + Z.of_nat n) sk r s' /\
    1 + Z.of_nat n <= Z.max 1 (retry_max_attempts (cfg (cl s))) /\
    (forall resp s1,
       group_lookup_attempt (lookup_req group s) sk = (Ok resp, s1) ->
       from_protocol (gc_error resp) = Some KC_GroupCoordinatorNotAvailable ->
       r = Err (EKafka KC_GroupCoordinatorNotAvailable) /\
       1 + Z.of_nat n = Z.max 1 (retry_max_attempts (cfg (cl s)))).
Proof.
  intros group s r s' H Hn.
  destruct (proj1 (C14_get_group_coordinator_iff _ _ _ _ Hn) H) as (n & sk & Hr & Hf).
  exists n, sk. split; [exact Hr|]. split; [exact Hf|]. split.
  - destruct (C14_retried_within_limit group _ n 1 _ sk (or_intror (or_intror Hr))) as [_ B].
    rewrite after_corr_cfg in B. exact B.
  - intros resp s1 E Ep.
    destruct (C14_lookup_giveup_exact _ _ _ _ _ _ _ _ _ _ Hr Hf E Ep) as (Hx & _ & Hc).
    rewrite after_corr_cfg in Hc. split; assumption.
Qed.

(* "a success on any attempt within the limit yields success", both ways, at the calls: the call returns
   Ok exactly when, after some number of retried attempts (each within the limit), an attempt is
   answered without an error code *)
Theorem C14_commit_offsets_ok_iff : forall group os s x xs,
  (offset_storage (cfg (cl s)) <? 0) = false -> commit_tps (cs (cl s)) os [] = Some (x :: xs) ->
  ((exists s', commit_offsets group os s = (Ok tt, s')) <->
   exists n sk c tps s2,
     loop_retried dec_offset_commit_resp commit_judge group (commit_req group s (x :: xs)) n 1 (after_corr s) sk /\
     exchange_attempt dec_offset_commit_resp group (commit_req group s (x :: xs)) sk = (Ok (c, tps), s2) /\
     first_code (commit_codes tps) = None).
Proof.
  intros group os s x xs Hst Ht. split.
  - intros [s' H]. destruct (proj1 (C14_commit_offsets_iff _ _ _ _ _ _ _ Hst Ht) H) as (n & sk & Hr & Hf).
    unfold loop_final in Hf.
    destruct (exchange_attempt dec_offset_commit_resp group (commit_req group s (x :: xs)) sk) as [[[c tps]|e|w] s2] eqn:E;
      [|destruct Hf; discriminate|destruct Hf; discriminate].
    unfold commit_judge in Hf. cbn [snd] in Hf. rewrite commit_scan_wire in Hf.
    exists n, sk, c, tps, s2. split; [exact Hr|]. split; [exact E|].
    destruct (first_code (commit_codes tps)) as [code|]; [|reflexivity]. cbn [scan_of] in Hf.
    destruct (code =? KC_GroupLoadInProgress); [destruct Hf; discriminate|].
    destruct (code =? KC_NotCoordinatorForGroup); destruct Hf; discriminate.
  - intros (n & sk & c & tps & s2 & Hr & E & Hc). exists s2.
    apply (proj2 (C14_commit_offsets_iff _ _ _ _ _ _ _ Hst Ht)). exists n, sk. split; [exact Hr|].
    unfold loop_final. rewrite E. unfold commit_judge. cbn [snd]. rewrite commit_scan_wire, Hc. cbn [scan_of].
    split; reflexivity.
Qed.

Theorem C14_fetch_group_offsets_ok_iff : forall group ps s tps0,
  (offset_storage (cfg (cl s)) <? 0) = false -> group_fetch_tps (cs (cl s)) ps [] = Some tps0 ->
  ((exists m s', fetch_group_offsets group ps s = (Ok m, s')) <->
   exists n sk c tps s2,
     loop_retried dec_offset_fetch_resp fetch_judge group (fetch_req group s tps0) n 1 (after_corr s) sk /\
     exchange_attempt dec_offset_fetch_resp group (fetch_req group s tps0) sk = (Ok (c, tps), s2) /\
     first_gcode (fetch_codes tps) = None).
Proof.
  intros group ps s tps0 Hst Ht. split.
  - intros (m & s' & H). destruct (proj1 (C14_fetch_group_offsets_iff _ _ _ _ _ _ Hst Ht) H) as (n & sk & Hr & Hf).
    unfold loop_final in Hf.
    destruct (exchange_attempt dec_offset_fetch_resp group (fetch_req group s tps0) sk) as [[[c tps]|e|w] s2] eqn:E;
      [|destruct Hf; discriminate|destruct Hf; discriminate].
    unfold fetch_judge in Hf. cbn [snd] in Hf. pose proof (group_scan_wire tps []) as Hw.
    exists n, sk, c, tps, s2. split; [exact Hr|]. split; [exact E|].
    destruct (first_gcode (fetch_codes tps)) as [code|]; [|reflexivity]. rewrite Hw in Hf.
    destruct (code =? KC_GroupLoadInProgress); [destruct Hf; discriminate|].
    destruct (code =? KC_NotCoordinatorForGroup); destruct Hf; discriminate.
  - intros (n & sk & c & tps & s2 & Hr & E & Hc).
    pose proof (group_scan_wire tps []) as Hw. rewrite Hc in Hw. destruct Hw as [m Hm]. exists m, s2.
    apply (proj2 (C14_fetch_group_offsets_iff _ _ _ _ _ _ Hst Ht)). exists n, sk. split; [exact Hr|].
    unfold loop_final. rewrite E. unfold fetch_judge. cbn [snd]. rewrite Hm. split; reflexivity.
Qed.

(* ================================================================================== *)
(* 4. a refused coordinator lookup ends the whole call ("until the first other answer") *)
(* ================================================================================== *)

(* The lookup a group call performs when no coordinator is cached, answered with an error code other
   than 15 (e.g. 30, group authorisation failed): get_group_coordinator returns that code, and so does
   an offset commit / group offset fetch at whatever attempt it is, in the state right after that one
   answer was read - no second lookup, no commit or fetch request. *)
Theorem C14_lookup_refusal_ends_call : forall group s resp s1 code,
  group_coordinator (cs (cl s)) group = None ->
  group_lookup_attempt (lookup_req group s) (after_corr s) = (Ok resp, s1) ->
  from_protocol (gc_error resp) = Some code -> code <> KC_GroupCoordinatorNotAvailable ->
  get_group_coordinator group s = (Err (EKafka code), s1) /\
  (forall f req attempt,
     commit_loop (S f) group req attempt s = (Err (EKafka code), s1) /\
     group_fetch_loop (S f) group req attempt s = (Err (EKafka code), s1)).
Proof.
  intros group s resp s1 code Hn E Ep Hc.
  assert (G : get_group_coordinator group s = (Err (EKafka code), s1)).
  { rewrite (uncached_looks_up _ _ Hn), lookup_of_eq, lookup_loop_step, E, Ep.
    destruct (code =? KC_GroupCoordinatorNotAvailable) eqn:Ec; [lia|reflexivity]. }
  split; [exact G|]. intros f req attempt.
  rewrite commit_loop_eq, group_fetch_loop_eq. cbn [retry_loop]. unfold exchange_attempt.
  rewrite !(mbind_err _ _ _ _ _ G). split; reflexivity.
Qed.

(* the three public calls, coordinator not cached: one lookup answer with such a code is the result *)
Theorem C14_calls_lookup_refused : forall group s resp s1 code,
  (offset_storage (cfg (cl s)) <? 0) = false ->
  group_coordinator (cs (cl s)) group = None ->
  group_lookup_attempt (lookup_req group (after_corr s)) (after_corr (after_corr s)) = (Ok resp, s1) ->
  from_protocol (gc_error resp) = Some code -> code <> KC_GroupCoordinatorNotAvailable ->
  (forall os x xs, commit_tps (cs (cl s)) os [] = Some (x :: xs) ->
     commit_offsets group os s = (Err (EKafka code), s1)) /\
  (forall ps tps, group_fetch_tps (cs (cl s)) ps [] = Some tps ->
     fetch_group_offsets group ps s = (Err (EKafka code), s1)) /\
  (forall topic ps, partitions_for (cs (cl s)) topic = Some ps ->
     fetch_group_topic_offset group topic s = (Err (EKafka code), s1)).
Proof.
  intros group s resp s1 code Hst Hn E Ep Hc.
  assert (Hn' : group_coordinator (cs (cl (after_corr s))) group = None)
    by (rewrite after_corr_coordinator; exact Hn).
  destruct (C14_lookup_refusal_ends_call _ _ _ _ _ Hn' E Ep Hc) as [_ L].
  split; [|split].
  - intros os x xs Ht. rewrite commit_offsets_unfold, Hst, Ht. apply L.
  - intros ps tps Ht. rewrite fetch_group_offsets_unfold, Hst, Ht. apply L.
  - intros topic ps Ht. rewrite fetch_group_topic_offset_unfold, Hst, Ht.
    rewrite (proj2 (L _ _ _)). reflexivity.
Qed.

(* the attempt after 'not coordinator for group': the re-lookup is refused -> the call ends with the
   refusal's code; the request is not sent again (seed C14-4, fourth demonstration) *)
Theorem C14_commit_relookup_refused : forall f group req attempt s c tps s2 code0 resp s1 code,
  exchange_attempt dec_offset_commit_resp group req s = (Ok (c, tps), s2) ->
  commit_scan tps = ScanRetry code0 true ->
  attempt < retry_max_attempts (cfg (cl s2)) -> gc_wf (cs (cl s2)) ->
  let s3 := after_retry group true s2 in
  group_lookup_attempt (lookup_req group s3) (after_corr s3) = (Ok resp, s1) ->
  from_protocol (gc_error resp) = Some code -> code <> KC_GroupCoordinatorNotAvailable ->
  commit_loop (S (S f)) group req attempt s = (Err (EKafka code), s1).
Proof.
  intros f group req attempt s c tps s2 code0 resp s1 code E Es Ea Hwf s3 El Ep Hc.
  destruct (C14_relookup (S f) _ _ _ _ _ _ _ _ E Es Ea Hwf) as (_ & Hstep & Hn & _).
  fold s3 in Hstep, Hn. rewrite Hstep.
  exact (proj1 (proj2 (C14_lookup_refusal_ends_call _ _ _ _ _ Hn El Ep Hc) f req (attempt + 1))).
Qed.

Theorem C14_group_fetch_relookup_refused : forall f group req attempt s c tps s2 code0 resp s1 code,
  exchange_attempt dec_offset_fetch_resp group req s = (Ok (c, tps), s2) ->
  group_scan tps [] = inl (inr (code0, true)) ->
  attempt < retry_max_attempts (cfg (cl s2)) -> gc_wf (cs (cl s2)) ->
  let s3 := after_retry group true s2 in
  group_lookup_attempt (lookup_req group s3) (after_corr s3) = (Ok resp, s1) ->
  from_protocol (gc_error resp) = Some code -> code <> KC_GroupCoordinatorNotAvailable ->
  group_fetch_loop (S (S f)) group req attempt s = (Err (EKafka code), s1).
Proof.
  intros f group req attempt s c tps s2 code0 resp s1 code E Es Ea Hwf s3 El Ep Hc.
  destruct (C14_relookup_group_fetch (S f) _ _ _ _ _ _ _ _ E Es Ea Hwf) as (_ & Hstep & Hn & _).
  fold s3 in Hstep, Hn. rewrite Hstep.
  exact (proj2 (proj2 (C14_lookup_refusal_ends_call _ _ _ _ _ Hn El Ep Hc) f req (attempt + 1))).
Qed.

(* ================================================================================== *)
(* 5. the host a successful lookup names                                              *)
(* ================================================================================== *)

Lemma find_node_spec bs node : forall k,
  match find_node bs node k with
  | Some i => k <= i < k + ulen bs /\ nth_error bs (Z.to_nat (i - k)) = find (fun b => b_node b =? node) bs
  | None => find (fun b => b_node b =? node) bs = None
  end.
Proof.
  induction bs as [|b bs IH]; intros k; cbn [find_node find]; [reflexivity|].
  unfold ulen in *. cbn [length]. destruct (b_node b =? node).
  - split; [lia|]. rewrite Z.sub_diag. reflexivity.
  - specialize (IH (k + 1)). destruct (find_node bs node (k + 1)) as [i|]; [|exact IH].
    destruct IH as [Hi Hn]. split; [lia|].
    replace (Z.to_nat (i - k)) with (S (Z.to_nat (i - (k + 1)))) by lia. exact Hn.
Qed.

(* "that attempt goes to the newly named broker": the host returned (and cached, see
   set_group_coordinator_cached / C14_lookup_caches) for an answer naming broker id N at host:port is
   the host the client already knows for the first broker with id N, and "host:port" of the answer
   if it knows none *)
Theorem C14_lookup_names_broker : forall x group resp,
  fst (set_group_coordinator x group resp) =
  match find (fun b => b_node b =? gc_broker resp) (brokers x) with
  | Some b => b_host b
  | None => host_port (gc_host resp) (gc_port resp)
  end.
Proof.
  intros x group resp. unfold set_group_coordinator.
  pose proof (find_node_spec (brokers x) (gc_broker resp) 0) as Hs.
  destruct (find_node (brokers x) (gc_broker resp) 0) as [i|].
  - cbn [fst]. destruct Hs as [Hi Hn]. rewrite Z.sub_0_r in Hn. rewrite <- Hn.
    unfold nth_z. destruct ((i <? 0) || (ulen (brokers x) <=? i)) eqn:Eb; [lia|].
    destruct (nth_error (brokers x) (Z.to_nat i)) as [b|] eqn:En; [reflexivity|].
    apply nth_error_None in En. unfold ulen in Hi. lia.
  - cbn [fst]. rewrite Hs, nth_z_snoc. reflexivity.
Qed.

(* ================================================================================== *)
(* 6. non-vacuity: concrete runs                                                      *)
(* ================================================================================== *)

Definition KC_GroupAuthorizationFailed : Z := kcode_disc KGroupAuthorizationFailed.

(* C14_calls_lookup_refused / C14_lookup_refusal_ends_call: limit 3, nothing cached, the lookup is
   answered 30 (group authorisation failed); a second answer naming b1 is waiting in the stream.
   All hypotheses hold; the commit returns 30 after ONE lookup, the second answer is left unread,
   no commit request is written. *)
Example C14_calls_lookup_refused_ex :
  let s := mkst 3 false (answer (coord_resp 2 30 0 [] 0) ++ answer (coord_resp 2 0 1 (tag "b1") 9092)) in
  (offset_storage (cfg (cl s)) <? 0) = false /\ group_coordinator (cs (cl s)) (tag "g") = None /\
  commit_tps (cs (cl s)) the_commit [] = Some [(tag "t", [(0, 5)])] /\
  (let '(r, s1) := group_lookup_attempt (lookup_req (tag "g") (after_corr s)) (after_corr (after_corr s)) in
   exists resp, r = Ok resp /\ from_protocol (gc_error resp) = Some KC_GroupAuthorizationFailed /\
                KC_GroupAuthorizationFailed <> KC_GroupCoordinatorNotAvailable /\
                commit_offsets (tag "g") the_commit s = (Err (EKafka KC_GroupAuthorizationFailed), s1) /\
                script s1 = answer (coord_resp 2 0 1 (tag "b1") 9092) /\
                filter not_read (performed s s1) = [EWrite h1 (frame (lookup_p 2))]).
Proof. vm_compute. repeat split. eexists. repeat split. discriminate. Qed.

(* C14_commit_relookup_refused: limit 3, b1 cached; b1 answers the commit with 16, the re-lookup is
   answered 30, and answers that would let a retry succeed are waiting: the call returns 30 having
   written the commit once and the lookup once *)
Example C14_commit_relookup_refused_ex :
  let s := after_corr (mkst 3 true (answer (commit_resp 1 16) ++ answer (coord_resp 2 30 0 [] 0)
                                    ++ answer (coord_resp 2 0 2 (tag "b2") 9092) ++ [OConn true]
                                    ++ answer (commit_resp 1 0))) in
  let '(r, s2) := exchange_attempt dec_offset_commit_resp (tag "g") (Ok commit_p) s in
  (exists c tps, r = Ok (c, tps) /\ commit_scan tps = ScanRetry KC_NotCoordinatorForGroup true) /\
  1 < retry_max_attempts (cfg (cl s2)) /\
  let s3 := after_retry (tag "g") true s2 in
  let '(r1, s1) := group_lookup_attempt (lookup_req (tag "g") s3) (after_corr s3) in
  (exists resp, r1 = Ok resp /\ from_protocol (gc_error resp) = Some KC_GroupAuthorizationFailed) /\
  commit_loop 5 (tag "g") (Ok commit_p) 1 s = (Err (EKafka KC_GroupAuthorizationFailed), s1) /\
  filter not_read (performed s s1) = [EWrite h1 (frame commit_p); EWrite h1 (frame (lookup_p 2))].
Proof.
  vm_compute. split; [eexists _, _; split; reflexivity|]. split; [reflexivity|].
  split; [eexists; split; reflexivity|]. split; reflexivity.
Qed.

(* the same for the group offset fetch (C14_group_fetch_relookup_refused) *)
Example C14_group_fetch_relookup_refused_ex :
  let s := mkst 3 true (answer (ofetch_resp 1 0 16) ++ answer (coord_resp 2 30 0 [] 0)
                        ++ answer (coord_resp 2 0 2 (tag "b2") 9092) ++ [OConn true]
                        ++ answer (ofetch_resp 1 77 0)) in
  let '(r, s') := fetch_group_offsets (tag "g") [(tag "t", 0)] s in
  r = Err (EKafka KC_GroupAuthorizationFailed) /\
  filter not_read (performed s s') = [EWrite h1 (frame fetch_p); EWrite h1 (frame (lookup_p 2))].
Proof. vm_compute. split; reflexivity. Qed.

(* C14_commit_offsets_ok_iff, right to left, and C14_commit_loop_iff's new direction: limit 2, the
   first commit is answered 14, the second 0 - the description with n = 1 holds, hence Ok *)
Example C14_commit_offsets_ok_iff_ex :
  let s := mkst 2 true (answer (commit_resp 1 14) ++ answer (commit_resp 1 0)) in
  (offset_storage (cfg (cl s)) <? 0) = false /\
  commit_tps (cs (cl s)) the_commit [] = Some [(tag "t", [(0, 5)])] /\
  commit_req (tag "g") s [(tag "t", [(0, 5)])] = Ok commit_p /\
  exists sk c tps s2,
    loop_retried dec_offset_commit_resp commit_judge (tag "g") (Ok commit_p) 1 1 (after_corr s) sk /\
    exchange_attempt dec_offset_commit_resp (tag "g") (Ok commit_p) sk = (Ok (c, tps), s2) /\
    first_code (commit_codes tps) = None.
Proof.
  cbv zeta. split; [reflexivity|]. split; [reflexivity|]. split; [reflexivity|].
  eexists _, _, _, _. split; [|split].
  - eapply RR_S; [vm_compute; reflexivity|vm_compute; reflexivity|vm_compute; reflexivity|apply RR_O].
  - vm_compute. reflexivity.
  - vm_compute. reflexivity.
Qed.

(* C14_commit_offsets_attempts_exact / C14_commit_giveup_exact: limit 3, three answers 14: two retried
   attempts, the third is still retryable, 1 + 2 = max 1 3, the call returns 14 *)
Example C14_commit_giveup_exact_ex :
  let s := mkst 3 true (answer (commit_resp 1 14) ++ answer (commit_resp 1 14) ++ answer (commit_resp 1 14)
                        ++ answer (commit_resp 1 0)) in
  fst (commit_offsets (tag "g") the_commit s) = Err (EKafka KC_GroupLoadInProgress) /\
  exists sk a s2,
    loop_retried dec_offset_commit_resp commit_judge (tag "g") (Ok commit_p) 2 1 (after_corr s) sk /\
    exchange_attempt dec_offset_commit_resp (tag "g") (Ok commit_p) sk = (Ok a, s2) /\
    commit_judge a = VRetry KC_GroupLoadInProgress false /\
    1 + Z.of_nat 2 = Z.max 1 (retry_max_attempts (cfg (cl s))).
Proof.
  cbv zeta. split; [vm_compute; reflexivity|]. eexists _, _, _. split; [|split; [|split]].
  - eapply RR_S; [vm_compute; reflexivity|vm_compute; reflexivity|vm_compute; reflexivity|].
    eapply RR_S; [vm_compute; reflexivity|vm_compute; reflexivity|vm_compute; reflexivity|apply RR_O].
  - vm_compute. reflexivity.
  - vm_compute. reflexivity.
  - vm_compute. reflexivity.
Qed.

(* C14_get_group_coordinator_attempts_exact / C14_lookup_giveup_exact / C14_get_group_coordinator_iff:
   limit 2, answers 15, 15, (ok): one retried lookup, the second still 15: exactly 2 = max 1 2 *)
Example C14_lookup_giveup_exact_ex :
  let s := mkst 2 false (answer (coord_resp 1 15 0 [] 0) ++ answer (coord_resp 1 15 0 [] 0)
                         ++ answer (coord_resp 1 0 1 (tag "b1") 9092)) in
  group_coordinator (cs (cl s)) (tag "g") = None /\
  fst (get_group_coordinator (tag "g") s) = Err (EKafka KC_GroupCoordinatorNotAvailable) /\
  exists sk resp s1,
    lookup_retried (lookup_req (tag "g") s) 1 1 (after_corr s) sk /\
    group_lookup_attempt (lookup_req (tag "g") s) sk = (Ok resp, s1) /\
    from_protocol (gc_error resp) = Some KC_GroupCoordinatorNotAvailable /\
    script s1 = answer (coord_resp 1 0 1 (tag "b1") 9092).
Proof.
  cbv zeta. split; [reflexivity|]. split; [vm_compute; reflexivity|]. eexists _, _, _. split; [|split; [|split]].
  - eapply LR_S; [vm_compute; reflexivity|vm_compute; reflexivity|vm_compute; reflexivity|apply LR_O].
  - vm_compute. reflexivity.
  - vm_compute. reflexivity.
  - vm_compute. reflexivity.
Qed.

(* C14_fetch_group_offsets_ok_iff / C14_fetch_group_offsets_attempts_exact: limit 2, answers 14 then an offset *)
Example C14_fetch_group_offsets_ok_iff_ex :
  let s := mkst 2 true (answer (ofetch_resp 1 0 14) ++ answer (ofetch_resp 1 77 0)) in
  (offset_storage (cfg (cl s)) <? 0) = false /\
  group_fetch_tps (cs (cl s)) [(tag "t", 0)] [] = Some [(tag "t", [0])] /\
  fetch_req (tag "g") s [(tag "t", [0])] = Ok fetch_p /\
  exists sk c tps s2,
    loop_retried dec_offset_fetch_resp fetch_judge (tag "g") (Ok fetch_p) 1 1 (after_corr s) sk /\
    exchange_attempt dec_offset_fetch_resp (tag "g") (Ok fetch_p) sk = (Ok (c, tps), s2) /\
    first_gcode (fetch_codes tps) = None.
Proof.
  cbv zeta. split; [reflexivity|]. split; [reflexivity|]. split; [reflexivity|].
  eexists _, _, _, _. split; [|split].
  - eapply RR_S; [vm_compute; reflexivity|vm_compute; reflexivity|vm_compute; reflexivity|apply RR_O].
  - vm_compute. reflexivity.
  - vm_compute. reflexivity.
Qed.

(* C14_lookup_names_broker: an answer naming the unknown broker 2 at b2:9092 yields "b2:9092"; one naming
   the known broker 1 yields the host the client knows for it, whatever host the answer carries *)
Example C14_lookup_names_broker_ex :
  fst (set_group_coordinator (csg false) (tag "g") {| gc_corr := 1; gc_error := 0; gc_broker := 2; gc_host := tag "b2"; gc_port := 9092 |}) = h2 /\
  fst (set_group_coordinator (csg false) (tag "g") {| gc_corr := 1; gc_error := 0; gc_broker := 1; gc_host := tag "zz"; gc_port := 1 |}) = h1.
Proof. vm_compute. split; reflexivity. Qed.

Print Assumptions C14_commit_loop_iff.
Print Assumptions C14_group_fetch_loop_iff.
Print Assumptions C14_lookup_loop_iff.
Print Assumptions C14_retried_within_limit.
Print Assumptions C14_commit_giveup_exact.
Print Assumptions C14_group_fetch_giveup_exact.
Print Assumptions C14_lookup_giveup_exact.
Print Assumptions C14_get_group_coordinator_iff.
Print Assumptions C14_commit_offsets_iff.
Print Assumptions C14_fetch_group_offsets_iff.
Print Assumptions C14_commit_offsets_attempts_exact.
Print Assumptions C14_fetch_group_offsets_attempts_exact.
Print Assumptions C14_get_group_coordinator_attempts_exact.
Print Assumptions C14_commit_offsets_ok_iff.
Print Assumptions C14_fetch_group_offsets_ok_iff.
Print Assumptions C14_lookup_refusal_ends_call.
Print Assumptions C14_calls_lookup_refused.
Print Assumptions C14_commit_relookup_refused.
Print Assumptions C14_group_fetch_relookup_refused.
Print Assumptions C14_lookup_names_broker.
