(* C09, second adequacy pass (seed C09-4: the request buffer moved into the connection and only emptied
   after a send, so that a request whose encoding FAILED stays behind and is glued in front of the next one).

   No theorem of Props/C09.v so far says what `send_request` (client/mod.rs:__send_request) puts on the wire:
   the *_frame theorems are about the pure function `frame`, the call_* theorems stop at the argument handed
   to send_request.  This file closes the gap, for ALL states of the client (the state of the unchanged model
   has no room for left-overs, so "whatever happened before" is the universal quantifier over the state):

   (A) send_request: an unencodable request changes NOTHING (no event, no state - nothing is retained);
       an encodable one offers, as its first event, exactly `frame p`, and after that only non-empty
       remainders of it; on success the bytes the stream accepted are exactly `frame p`.
   (B) the same up to the public operations: the write events of a whole API call, in order, are a sequence of
       "sends", each starting with the COMPLETE frame of one of the requests the call is entitled to
       (wire_ok), for load_metadata(_all), get_group_coordinator, fetch_group_offsets, fetch_group_topic_offset,
       commit_offsets, fetch_offsets, list_offsets, fetch_messages, produce; composed with the parsers of
       Spec/ReqGrammar.v for the metadata and group calls; and the converse for an unencodable metadata call
       (it fails with NoHostReachable and writes nothing).
   (C) the history of the seeded demonstration: failed call, then an ordinary call.
   Everything is about the unchanged model; no axioms. *)
From Coq Require Import ZifyBool.
From KV Require Import Base.Prelude Gen.Consts Model.Codecs Model.Requests Model.Responses
                       Model.ClientState Model.Net Model.Client.
From KV Require Import Proofs.BytesFacts Proofs.NetFacts Proofs.C09Facts Proofs.C09Extra.

(* ================================================================================================ *)
(* A. send_request                                                                                  *)
(* ================================================================================================ *)

(* `chain h b l`: l is a non-empty run of writes to h; the first offers b, every later one offers a
   non-empty remainder (a suffix) of the buffer offered just before *)
Inductive chain (h : bytes) : bytes -> list ev_op -> Prop :=
| CH_one b : chain h b [EWrite h b]
| CH_cons b b' l : b' <> [] -> (exists pre, b = pre ++ b') -> chain h b' l -> chain h b (EWrite h b :: l).

Lemma chain_head h b l : chain h b l -> exists l', l = EWrite h b :: l'.
Proof. intros H. destruct H; eexists; reflexivity. Qed.

(* every buffer offered in a chain is a non-empty suffix of the first (when that is non-empty) *)
Lemma chain_suffix h b l : chain h b l -> b <> [] ->
  Forall (fun e => exists b0 pre, e = EWrite h b0 /\ b = pre ++ b0 /\ b0 <> []) l.
Proof.
  induction 1 as [b|b b' l Hne [pre Hpre] Hc IH]; intros Hb.
  - constructor; [|constructor]. exists b, []. split; [reflexivity|split; [reflexivity|exact Hb]].
  - constructor; [exists b, []; split; [reflexivity|split; [reflexivity|exact Hb]]|].
    eapply Forall_impl; [|apply IH; exact Hne]. intros e (b0 & pre0 & -> & E & N).
    exists b0, (pre ++ pre0). split; [reflexivity|]. split; [|exact N]. rewrite Hpre, E, app_assoc. reflexivity.
Qed.

Lemma wsteps_from_nil h ops outs chunks b' : wsteps h [] ops outs chunks b' -> ops = [] /\ b' = [].
Proof. intros H. inversion H; subst; try (split; reflexivity); exfalso; auto. Qed.

(* a completed write_all *)
Lemma wsteps_chain_done' h b ops outs chunks b' : wsteps h b ops outs chunks b' -> b' = [] -> b <> [] -> chain h b ops.
Proof.
  induction 1 as [b|b k ops outs chunks b' Hne Hk Hw IH|b ops outs chunks b' Hne Hw IH]; intros Eb Hb.
  - subst. contradiction.
  - destruct (skipn (Z.to_nat k) b) as [|x t] eqn:Es.
    + destruct (wsteps_from_nil _ _ _ _ _ Hw) as [-> _]. constructor.
    + apply CH_cons with (b' := x :: t); [discriminate| |apply IH; [exact Eb|discriminate]].
      exists (firstn (Z.to_nat k) b). rewrite <- Es. symmetry. apply firstn_skipn.
  - apply CH_cons with (b' := b); [exact Hne|exists []; reflexivity|apply IH; [exact Eb|exact Hne]].
Qed.
Lemma wsteps_chain_done h b ops outs chunks : wsteps h b ops outs chunks [] -> b <> [] -> chain h b ops.
Proof. intros H. apply (wsteps_chain_done' _ _ _ _ _ _ H eq_refl). Qed.

(* a write_all that stopped with b' still to be written, the last offer included *)
Lemma wsteps_chain_more h b ops outs chunks b' : wsteps h b ops outs chunks b' -> b' <> [] ->
  chain h b (ops ++ [EWrite h b']).
Proof.
  induction 1 as [b|b k ops outs chunks b' Hne Hk Hw IH|b ops outs chunks b' Hne Hw IH]; intros Hb.
  - constructor.
  - cbn [app]. destruct (skipn (Z.to_nat k) b) as [|x t] eqn:Es.
    + destruct (wsteps_from_nil _ _ _ _ _ Hw) as [_ ->]. contradiction.
    + apply CH_cons with (b' := x :: t); [discriminate| |apply IH; exact Hb].
      exists (firstn (Z.to_nat k) b). rewrite <- Es. symmetry. apply firstn_skipn.
  - cbn [app]. apply CH_cons with (b' := b); [exact Hne|exists []; reflexivity|apply IH; exact Hb].
Qed.

(* the bytes the stream took over: for every write answered `OWrote k`, the first k bytes offered *)
Fixpoint accepted (ops : list ev_op) (outs : list ev_out) : bytes :=
  match ops, outs with
  | EWrite _ b :: ops', OWrote k :: outs' => firstn (Z.to_nat k) b ++ accepted ops' outs'
  | _ :: ops', _ :: outs' => accepted ops' outs'
  | _, _ => []
  end.

Lemma wsteps_accepted h b ops outs chunks b' : wsteps h b ops outs chunks b' ->
  accepted ops outs = concat chunks /\
  forall ops2 outs2, accepted (ops ++ ops2) (outs ++ outs2) = concat chunks ++ accepted ops2 outs2.
Proof.
  induction 1 as [b|b k ops outs chunks b' Hne Hk Hw [IH1 IH2]|b ops outs chunks b' Hne Hw [IH1 IH2]].
  - split; [reflexivity|intros; reflexivity].
  - split; [cbn [accepted concat]; rewrite IH1; reflexivity|].
    intros ops2 outs2. cbn [app accepted concat]. rewrite IH2, app_assoc. reflexivity.
  - split; [cbn [accepted]; exact IH1|]. intros ops2 outs2. cbn [app accepted]. apply IH2.
Qed.

(* an answer that ends write_all with an error handed nothing over *)
Lemma accepted_bad h b o r : write_bad o r -> accepted [EWrite h b] [o] = [].
Proof.
  destruct o as [ok|k| |e|bs| |e|]; cbn [write_bad accepted]; try reflexivity.
  intros [Hk _]. replace (Z.to_nat k) with O by lia. reflexivity.
Qed.

(* the shape of every run of `send` on a non-empty message *)
Lemma send_run h msg s r s' : send h msg s = (r, s') -> msg <> [] ->
  same_but_io s s' /\ chain h msg (performed s s') /\
  (exists suf, msg = accepted (performed s s') (consumed s s') ++ suf) /\
  (forall z, r = Ok z -> z = ulen msg /\ accepted (performed s s') (consumed s s') = msg).
Proof.
  intros H Hne. split; [exact (frame_send _ _ _ _ _ H)|].
  unfold send in H. unfold mbind at 1 in H. unfold with_fuel in H.
  destruct (write_all (S (length (script s))) h msg s) as [[u|e|w] s1] eqn:E.
  - (* written completely *)
    inversion H; subst. destruct u.
    destruct (write_all_run _ _ _ _ _ _ E) as [_ (ops & outs & chunks & b' & Hw & He)].
    destruct He as [Hr Hb Hs|o Hb Hbad Hs|Hb Hr Hd Hs|Hb Hr Hf Hs]; try discriminate.
    + subst b'. rewrite (seg_performed _ _ _ _ Hs), (seg_consumed _ _ _ _ Hs).
      pose proof (wsteps_concat _ _ _ _ _ _ Hw) as Hc. rewrite app_nil_r in Hc.
      destruct (wsteps_accepted _ _ _ _ _ _ Hw) as [Ha _].
      split; [apply (wsteps_chain_done _ _ _ _ _ Hw Hne)|].
      split; [exists []; rewrite Ha, app_nil_r; exact Hc|].
      intros z Hz. injection Hz as Hz'. split; [symmetry; exact Hz'|]. rewrite Ha. symmetry. exact Hc.
    + exfalso. exact (write_bad_not_ok _ _ Hbad eq_refl).
  - inversion H; subst.
    destruct (write_all_run _ _ _ _ _ _ E) as [_ (ops & outs & chunks & b' & Hw & He)].
    pose proof (wsteps_concat _ _ _ _ _ _ Hw) as Hc.
    destruct (wsteps_accepted _ _ _ _ _ _ Hw) as [Ha1 Ha2].
    destruct He as [Hr Hb Hs|o Hb Hbad Hs|Hb Hr Hd Hs|Hb Hr Hf Hs]; try discriminate.
    + rewrite (seg_performed _ _ _ _ Hs), (seg_consumed _ _ _ _ Hs).
      split; [apply (wsteps_chain_more _ _ _ _ _ _ Hw Hb)|].
      split; [|intros z Hz; discriminate Hz].
      exists b'. rewrite Ha2, (accepted_bad _ _ _ _ Hbad), app_nil_r. exact Hc.
    + rewrite (seg_performed _ _ _ _ Hs), (seg_consumed _ _ _ _ Hs).
      split; [apply (wsteps_chain_more _ _ _ _ _ _ Hw Hb)|].
      split; [|intros z Hz; discriminate Hz].
      exists b'. rewrite <- (app_nil_r outs) at 1. rewrite Ha2. cbn [accepted]. rewrite app_nil_r. exact Hc.
    + (* the fuel is one above the length of the script: never exhausted *)
      exfalso. pose proof (wsteps_length _ _ _ _ _ _ Hw) as L. destruct Hs as [Hs _].
      apply (f_equal (@length _)) in Hs. rewrite app_length in Hs. lia.
  - inversion H; subst. exfalso. eapply (nopanic_write_all _ _ _ _ _ _ _ E). reflexivity.
Qed.

(* __send_request on a request that could not be encoded: the error is handed on, no event happens and the
   state afterwards is the state before - nothing of the request is kept anywhere.  [seed C09-4] *)
Theorem C09_send_request_unencodable : forall h x,
  (forall e, send_request h (Err e) x = (Err e, x)) /\ (forall w, send_request h (Panic w) x = (Panic w, x)).
Proof. intros h x. split; intros; reflexivity. Qed.

(* __send_request on an encodable request, in ANY state: the first event is a write to h offering exactly
   `frame p` (length prefix + payload, nothing in front of it), every later event a write to h of a
   non-empty remainder; the bytes the stream accepted are a prefix of `frame p`, and all of it if the call
   succeeded; only script and trace change.  [seed C09-4] *)
Theorem C09_send_request_wire : forall h p x r x',
  send_request h (Ok p) x = (r, x') ->
  same_but_io x x' /\ chain h (frame p) (performed x x') /\
  (exists suf, frame p = accepted (performed x x') (consumed x x') ++ suf) /\
  (forall z, r = Ok z -> z = ulen (frame p) /\ accepted (performed x x') (consumed x x') = frame p).
Proof. intros h p x r x' H. apply (send_run h (frame p) x r x' H (frame_nonempty p)). Qed.

Corollary C09_send_request_first_write : forall h p x r x',
  send_request h (Ok p) x = (r, x') -> exists rest, performed x x' = EWrite h (frame p) :: rest.
Proof.
  intros h p x r x' H. destruct (C09_send_request_wire _ _ _ _ _ H) as (_ & Hc & _). apply (chain_head _ _ _ Hc).
Qed.

(* the history of the seed at this level: a request that fails to encode, then an ordinary one on the same
   connection - over both calls together the stream received exactly the frame of the second *)
Theorem C09_send_after_failed_encode : forall h e p x r1 x1 z x2,
  send_request h (Err e) x = (r1, x1) -> send_request h (Ok p) x1 = (Ok z, x2) ->
  r1 = Err e /\ chain h (frame p) (performed x x2) /\ accepted (performed x x2) (consumed x x2) = frame p.
Proof.
  intros h e p x r1 x1 z x2 H1 H2. destruct (C09_send_request_unencodable h x) as [Hu _].
  rewrite Hu in H1. inversion H1; subst. split; [reflexivity|].
  destruct (C09_send_request_wire _ _ _ _ _ H2) as (_ & Hc & _ & Hz). split; [exact Hc|apply (Hz z eq_refl)].
Qed.

(* ================================================================================================ *)
(* B. the wire of a whole API call                                                                  *)
(* ================================================================================================ *)

(* `wire_ok F ops`: the events `ops` (in execution order) consist of events that are not writes and of
   "sends": chains of writes whose FIRST offer is a complete frame f with F f.  In particular no write ever
   offers anything but a frame of F or a remainder of the one being sent (wire_ok_first, wire_ok_writes). *)
Inductive wire_ok (F : bytes -> Prop) : list ev_op -> Prop :=
| WO_nil : wire_ok F []
| WO_other e ops : not_write e -> wire_ok F ops -> wire_ok F (e :: ops)
| WO_send h f l ops : F f -> chain h f l -> wire_ok F ops -> wire_ok F (l ++ ops).

Lemma wire_ok_app F a b : wire_ok F a -> wire_ok F b -> wire_ok F (a ++ b).
Proof.
  induction 1 as [|e ops Hn Ha IH|h f l ops Hf Hc Ha IH]; intros Hb.
  - exact Hb.
  - cbn [app]. apply WO_other; [exact Hn|apply IH; exact Hb].
  - rewrite <- app_assoc. eapply WO_send; [exact Hf|exact Hc|apply IH; exact Hb].
Qed.
Lemma wire_ok_quiet F ops : Forall not_write ops -> wire_ok F ops.
Proof. induction 1 as [|e ops He Ho IH]; [constructor|apply WO_other; assumption]. Qed.
Lemma wire_ok_mono (F G : bytes -> Prop) ops : (forall f, F f -> G f) -> wire_ok F ops -> wire_ok G ops.
Proof.
  intros HFG. induction 1 as [|e ops Hn Ha IH|h f l ops Hf Hc Ha IH];
    [constructor|apply WO_other; assumption|eapply WO_send; [apply HFG; exact Hf|exact Hc|exact IH]].
Qed.

(* how to read wire_ok: the first write after any number of non-writes offers a complete frame of F *)
Theorem C09_wire_ok_first : forall F ops, wire_ok F ops ->
  forall pre h b post, ops = pre ++ EWrite h b :: post -> Forall not_write pre -> F b.
Proof.
  intros F ops H. induction H as [|e ops Hn Ha IH|h0 f l ops Hf Hc Ha IH]; intros pre h b post E Hp.
  - destruct pre; discriminate E.
  - destruct pre as [|p pre]; cbn [app] in E.
    + injection E as E1 E2. subst e. contradiction.
    + injection E as E1 E2. inversion Hp; subst. eapply IH; [reflexivity|assumption].
  - destruct (chain_head _ _ _ Hc) as [l' ->]. destruct pre as [|p pre]; cbn [app] in E.
    + injection E as E1 E2 E3. subst. exact Hf.
    + injection E as E1 E2. inversion Hp; subst. contradiction.
Qed.

(* ... and every write offers a non-empty suffix of a frame of F *)
Theorem C09_wire_ok_writes : forall F ops, wire_ok F ops -> (forall f, F f -> f <> []) ->
  Forall (fun e => forall h b, e = EWrite h b -> b <> [] /\ exists f pre, F f /\ f = pre ++ b) ops.
Proof.
  intros F ops H HF. induction H as [|e ops Hn Ha IH|h0 f l ops Hf Hc Ha IH].
  - constructor.
  - constructor; [|exact IH]. intros h b ->. contradiction.
  - apply Forall_app. split; [|exact IH].
    eapply Forall_impl; [|apply (chain_suffix _ _ _ Hc (HF f Hf))].
    intros e (b0 & pre & -> & E & N) h b Eb. injection Eb as -> ->. split; [exact N|]. exists f, pre. split; assumption.
Qed.

(* no frame allowed: no write at all *)
Lemma wire_ok_none ops : wire_ok (fun _ => False) ops -> Forall not_write ops.
Proof. induction 1 as [|e ops Hn Ha IH|h f l ops Hf Hc Ha IH]; [constructor|constructor; assumption|contradiction]. Qed.

(* the frames of a request as encoded *)
Definition FR (payload : res bytes) (f : bytes) : Prop := exists p, payload = Ok p /\ f = frame p.

(* between s and s': settings and codecs unchanged, and the events performed are wire_ok *)
Definition wire (F : bytes -> Prop) (s s' : st) : Prop :=
  ext s s' /\ cfg (cl s') = cfg (cl s) /\ env s' = env s /\ wire_ok F (performed s s').

Lemma preorder_wire (F : bytes -> Prop) : preorder (wire F).
Proof.
  split.
  - intros s. split; [apply ext_refl|]. split; [reflexivity|]. split; [reflexivity|]. rewrite performed_refl. constructor.
  - intros s s1 s2 (E1 & C1 & V1 & W1) (E2 & C2 & V2 & W2). split; [eapply ext_trans; eassumption|].
    split; [congruence|]. split; [congruence|]. rewrite (performed_app _ _ _ E1 E2). apply wire_ok_app; assumption.
Qed.
Lemma wire_mono (F G : bytes -> Prop) s s' : (forall f, F f -> G f) -> wire F s s' -> wire G s s'.
Proof. intros HFG (E & C & V & W). repeat split; try assumption. eapply wire_ok_mono; eassumption. Qed.

(* steps that do not write *)
Definition quiet (s s' : st) : Prop := (cfg (cl s') = cfg (cl s) /\ env s' = env s) /\ ops_in not_write s s'.
Lemma preorder_quiet : preorder quiet.
Proof.
  split.
  - intros s. split; [split; reflexivity|apply preorder_ops_in].
  - intros s s1 s2 [[C1 V1] O1] [[C2 V2] O2]. split; [split; congruence|eapply (proj2 (preorder_ops_in _)); eassumption].
Qed.
Lemma wire_of_quiet (F : bytes -> Prop) s s' : quiet s s' -> wire F s s'.
Proof. intros [[C V] [E O]]. split; [exact E|]. split; [exact C|]. split; [exact V|]. apply wire_ok_quiet, O. Qed.

Lemma quiet_of_cfg (P : ev_op -> Prop) s s' : (forall e, P e -> not_write e) -> same_cfg s s' -> ops_in P s s' -> quiet s s'.
Proof.
  intros HP (_ & _ & _ & V & C) O. split; [split; assumption|]. eapply ops_in_weaken; [exact HP|exact O].
Qed.
Lemma quiet_still s s' : script s' = script s -> trace s' = trace s -> cfg (cl s') = cfg (cl s) -> env s' = env s -> quiet s s'.
Proof.
  intros Hs Ht C V. assert (Hseg : seg s s' [] []) by (split; [rewrite Hs; reflexivity|rewrite Ht; reflexivity]).
  split; [split; assumption|]. split; [exists [], []; exact Hseg|]. rewrite (seg_performed _ _ _ _ Hseg). constructor.
Qed.

Lemma q_get_conn h : keeps quiet (get_conn h).
Proof.
  intros s r s' H. apply (quiet_of_cfg (conn_event h)).
  - intros e [-> | ->]; exact I.
  - apply same_but_conns_cfg. eapply frame_get_conn; exact H.
  - eapply ops_get_conn; exact H.
Qed.
Lemma q_get_response {A} (d : dec A) h : keeps quiet (get_response d h).
Proof.
  intros s r s' H. apply (quiet_of_cfg (read_event h)).
  - intros e [n ->]; exact I.
  - apply same_but_io_cfg. eapply frame_get_response; exact H.
  - eapply ops_get_response; exact H.
Qed.
Lemma q_get_response_bytes h : keeps quiet (get_response_bytes h).
Proof.
  intros s r s' H. apply (quiet_of_cfg (read_event h)).
  - intros e [n ->]; exact I.
  - apply same_but_io_cfg. eapply frame_get_response_bytes; exact H.
  - eapply ops_get_response_bytes; exact H.
Qed.
Lemma q_io op : not_write op -> keeps quiet (io op).
Proof.
  intros Hn s r s' H. split; [|eapply keeps_io_ops; [exact Hn|exact H]].
  destruct (keeps_io_frame _ _ _ _ H) as (_ & _ & _ & _ & C & V). rewrite C. split; [reflexivity|exact V].
Qed.
Lemma q_pop_any : keeps quiet pop_any.
Proof. intros s r s' H. unfold pop_any in H. destruct (anyq s); inversion H; subst; apply quiet_still; reflexivity. Qed.
Lemma q_get_conn_any : keeps quiet get_conn_any.
Proof. apply keepsR_get_conn_any; [apply preorder_quiet|intros h; apply q_io; exact I|intros h; apply q_io; exact I|apply q_pop_any]. Qed.
Lemma q_pop_hosts : keeps quiet pop_hosts.
Proof. intros s r s' H. unfold pop_hosts in H. destruct (hostq s); inversion H; subst; apply quiet_still; reflexivity. Qed.
Lemma q_ordered {V} (reqs : list (bytes * V)) : keeps quiet (ordered reqs).
Proof.
  unfold ordered. destruct reqs; [apply keeps_ret, preorder_quiet|].
  apply keeps_bind; [apply preorder_quiet|apply q_pop_hosts|intros; apply keeps_ret, preorder_quiet].
Qed.
Lemma q_set_cs x : keeps quiet (set_cs x).
Proof. intros s r s' H. inversion H; subst. apply quiet_still; reflexivity. Qed.
Lemma q_bump x : quiet x (bump x).
Proof. apply quiet_still; reflexivity. Qed.

(* send_request: what it writes is one send of the frame of the request *)
Lemma w_send_request (F : bytes -> Prop) h payload : (forall p, payload = Ok p -> F (frame p)) -> keeps (wire F) (send_request h payload).
Proof.
  intros HF s r s' H. destruct payload as [p|e|w].
  - destruct (C09_send_request_wire _ _ _ _ _ H) as ((_ & _ & _ & _ & C & V) & Hc & _).
    split; [eapply tracks_ext; [apply tracks_send_request|exact H]|]. rewrite C. split; [reflexivity|]. split; [exact V|].
    rewrite <- (app_nil_r (performed s s')). eapply WO_send; [apply HF; reflexivity|exact Hc|constructor].
  - destruct (C09_send_request_unencodable h s) as [Hu _]. rewrite Hu in H. inversion H; subst. apply preorder_wire.
  - destruct (C09_send_request_unencodable h s) as [_ Hu]. rewrite Hu in H. inversion H; subst. apply preorder_wire.
Qed.
Lemma w_quiet (F : bytes -> Prop) {A} (m : M A) : keeps quiet m -> keeps (wire F) m.
Proof. intros K s r s' H. apply wire_of_quiet. eapply K; exact H. Qed.
Lemma w_send_receive (F : bytes -> Prop) {A} (d : dec A) h payload :
  (forall p, payload = Ok p -> F (frame p)) -> keeps (wire F) (send_receive d h payload).
Proof.
  intros HF. apply keeps_bind; [apply preorder_wire|apply w_quiet, q_get_conn|]. intros _.
  apply keeps_bind; [apply preorder_wire|apply w_send_request, HF|]. intros _. apply w_quiet, q_get_response.
Qed.

(* ---- threading the settings: `inv c0 e0 F` is `wire F` for runs that start with settings c0, codecs e0 --- *)
Definition inv (c0 : config) (e0 : codecs) (F : bytes -> Prop) (s s' : st) : Prop :=
  cfg (cl s) = c0 -> env s = e0 -> wire F s s'.
Lemma preorder_inv c0 e0 (F : bytes -> Prop) : preorder (inv c0 e0 F).
Proof.
  split.
  - intros s _ _. apply preorder_wire.
  - intros s s1 s2 H1 H2 C V. pose proof (H1 C V) as W1. destruct W1 as (E1 & C1 & V1 & _).
    eapply (proj2 (preorder_wire F)); [apply H1; assumption|apply H2; congruence].
Qed.
Lemma inv_of_wire c0 e0 (F : bytes -> Prop) {A} (m : M A) : keeps (wire F) m -> keeps (inv c0 e0 F) m.
Proof. intros K s r s' H _ _. eapply K; exact H. Qed.
Lemma inv_get_client c0 e0 (F : bytes -> Prop) {A} (k : client -> M A) :
  (forall c, cfg c = c0 -> keeps (inv c0 e0 F) (k c)) -> keeps (inv c0 e0 F) (mbind get_client k).
Proof. intros Hk s r s' H C V. exact (Hk (cl s) C s r s' H C V). Qed.
Lemma inv_get_env c0 e0 (F : bytes -> Prop) {A} (k : codecs -> M A) :
  keeps (inv c0 e0 F) (k e0) -> keeps (inv c0 e0 F) (mbind get_env k).
Proof. intros Hk s r s' H C V. unfold mbind, get_env in H. rewrite V in H. exact (Hk s r s' H C V). Qed.
Lemma inv_mono c0 e0 (F G : bytes -> Prop) {A} (m : M A) :
  (forall f, F f -> G f) -> keeps (inv c0 e0 F) m -> keeps (inv c0 e0 G) m.
Proof. intros HFG K s r s' H C V. eapply wire_mono; [exact HFG|]. exact (K s r s' H C V). Qed.

Ltac iv_step :=
  first
  [ match goal with
    | |- keeps _ (send_request _ _) => fail 2
    | |- keeps _ (send_receive _ _ _) => fail 2
    end
  | apply inv_of_wire, w_quiet;
    first [apply q_get_conn|apply q_get_response|apply q_get_response_bytes|apply q_get_conn_any
          |apply q_pop_hosts|apply q_ordered|apply q_set_cs]
  | apply keeps_ret; apply preorder_inv
  | apply keeps_fail; apply preorder_inv
  | apply keeps_mpanic; apply preorder_inv
  | apply keeps_lift; apply preorder_inv
  | apply keeps_get_fetch_order; apply preorder_inv
  | apply inv_get_env
  | apply inv_get_client; intros ? ?
  | apply keeps_mtry
  | apply keeps_with_fuel; intros ?
  | apply keeps_bind; [apply preorder_inv| |intros ?]
  | match goal with |- keeps _ (match ?x with _ => _ end) => destruct x end
  | match goal with |- keeps _ (if ?x then _ else _) => destruct x end ].
Ltac iv := repeat iv_step.

(* ---- metadata --------------------------------------------------------------------------------------- *)
Lemma inv_fetch_metadata_hosts c0 e0 corr topics : forall hs,
  keeps (inv c0 e0 (FR (enc_metadata_req corr (Net.client_id c0) topics))) (fetch_metadata_hosts corr topics hs).
Proof.
  induction hs as [|h hs IH]; cbn [fetch_metadata_hosts]; iv; try exact IH.
  apply inv_of_wire, w_send_request. intros p Hp. exists p. split; [|reflexivity]. rewrite <- Hp.
  match goal with Hc : cfg _ = c0 |- _ => rewrite Hc end. reflexivity.
Qed.

Lemma wire_bump (F : bytes -> Prop) x : wire F x (bump x).
Proof. apply wire_of_quiet, q_bump. Qed.

(* load_metadata(topics), whatever the state and whatever comes back: the write events of the call are sends
   of the frame of ONE request - MetadataRequest encoded with the id taken at the start of the call and the
   configured client id (possibly to several bootstrap hosts in turn) *)
Theorem C09_load_metadata_wire : forall topics x r x',
  load_metadata topics x = (r, x') ->
  wire (FR (enc_metadata_req (stepc (corr_of x)) (Net.client_id (cfg (cl x))) topics)) x x'.
Proof.
  intros topics x r x' H. set (F := FR _).
  assert (K : keeps (inv (cfg (cl x)) (env x) F)
                (fun s => (let+ md := fetch_metadata_hosts (stepc (corr_of x)) topics (hosts (cfg (cl x))) in
                           let+ c := get_client in let+ s' := lift (update_metadata (cs c) md) in set_cs s') s)).
  { apply keeps_bind; [apply preorder_inv|apply inv_fetch_metadata_hosts|intros md]. iv. }
  eapply (proj2 (preorder_wire F)); [apply (wire_bump F x)|].
  apply (K (bump x) r x'); [|reflexivity|reflexivity].
  unfold load_metadata in H. unfold mbind at 1 in H. rewrite C09_call_fetch_metadata in H. exact H.
Qed.

Theorem C09_load_metadata_all_wire : forall x r x',
  load_metadata_all x = (r, x') ->
  wire (FR (enc_metadata_req (stepc (corr_of x)) (Net.client_id (cfg (cl x))) [])) x x'.
Proof.
  intros x r x' H. unfold load_metadata_all in H. bind_inv H u s1 H1 H2; try (inversion H1; fail).
  inversion H1; subst s1.
  eapply (proj2 (preorder_wire _)); [apply wire_of_quiet; apply quiet_still; reflexivity|].
  apply C09_load_metadata_wire in H2. exact H2.
Qed.

(* converse for a request that cannot be represented (a topic or the client id longer than 32767 bytes):
   the call fails with NoHostReachable (every bootstrap host is "tried", none gets a byte) and the whole call
   performs no write at all - "an error, never a truncated or malformed frame" *)
Lemma hosts_unencodable c0 corr topics e : enc_metadata_req corr (Net.client_id c0) topics = Err e ->
  forall hs s r s', cfg (cl s) = c0 -> fetch_metadata_hosts corr topics hs s = (r, s') -> r = Err ENoHostReachable.
Proof.
  intros Henc. induction hs as [|h hs IH]; intros s r s' C H.
  - inversion H; subst. reflexivity.
  - cbn [fetch_metadata_hosts] in H. unfold mbind at 1, get_client at 1 in H.
    assert (Hm : exists rc s1, mtry (get_conn h) s = (Ok rc, s1) /\ cfg (cl s1) = c0).
    { unfold mtry. destruct (get_conn h s) as [[u|e1|w] s1] eqn:E.
      - exists (Ok u), s1. split; [reflexivity|]. destruct (frame_get_conn _ _ _ _ E) as (_ & _ & _ & _ & _ & C1 & _). congruence.
      - exists (Err e1), s1. split; [reflexivity|]. destruct (frame_get_conn _ _ _ _ E) as (_ & _ & _ & _ & _ & C1 & _). congruence.
      - exfalso. exact (nopanic_get_conn _ _ _ _ _ E eq_refl). }
    destruct Hm as (rc & s1 & Hm & C1). rewrite (mbind_ok _ _ _ _ _ Hm) in H.
    destruct rc as [u|e1|w]; try (eapply IH; [exact C1|exact H]).
    rewrite C, Henc in H.
    assert (Hs : mtry (send_request h (@Err bytes e)) s1 = (Ok (Err e), s1)) by reflexivity.
    rewrite (mbind_ok _ _ _ _ _ Hs) in H. eapply IH; [exact C1|exact H].
Qed.

Theorem C09_load_metadata_unencodable : forall topics x r x' e,
  enc_metadata_req (stepc (corr_of x)) (Net.client_id (cfg (cl x))) topics = Err e ->
  load_metadata topics x = (r, x') ->
  r = Err ENoHostReachable /\ Forall not_write (performed x x') /\ cfg (cl x') = cfg (cl x) /\
  corr_of x' = stepc (corr_of x).
Proof.
  intros topics x r x' e Henc H.
  pose proof (C09_load_metadata_wire _ _ _ _ H) as (_ & C & _ & W).
  split; [|split; [|split; [exact C|eapply C09_load_metadata_counter; exact H]]].
  - unfold load_metadata in H. unfold mbind at 1 in H. rewrite C09_call_fetch_metadata in H.
    destruct (fetch_metadata_hosts (stepc (corr_of x)) topics (hosts (cfg (cl x))) (bump x)) as [[md|e1|w] s1] eqn:E;
      pose proof (hosts_unencodable (cfg (cl x)) _ _ _ Henc _ (bump x) _ _ eq_refl E) as Hr; try discriminate Hr.
    inversion H; subst. injection Hr as ->. reflexivity.
  - apply wire_ok_none. eapply wire_ok_mono; [|exact W]. intros f (p & Hp & _). rewrite Henc in Hp. discriminate Hp.
Qed.

(* the history of the seeded demonstration, for every state, every topic lists and every stream behaviour:
   a load_metadata that cannot be encoded, then an ordinary one.  Over BOTH calls the only writes are sends of
   the frame of the second request, which carries the next id *)
Theorem C09_metadata_after_failed_metadata : forall ts1 ts2 x r1 x1 r2 x2 e,
  enc_metadata_req (stepc (corr_of x)) (Net.client_id (cfg (cl x))) ts1 = Err e ->
  load_metadata ts1 x = (r1, x1) -> load_metadata ts2 x1 = (r2, x2) ->
  r1 = Err ENoHostReachable /\
  wire (FR (enc_metadata_req (stepc (stepc (corr_of x))) (Net.client_id (cfg (cl x))) ts2)) x x2.
Proof.
  intros ts1 ts2 x r1 x1 r2 x2 e Henc H1 H2.
  destruct (C09_load_metadata_unencodable _ _ _ _ _ Henc H1) as (Hr & Hn & C & K). split; [exact Hr|].
  pose proof (C09_load_metadata_wire _ _ _ _ H1) as (E1 & _ & V1 & _).
  pose proof (C09_load_metadata_wire _ _ _ _ H2) as W2. rewrite K, C in W2.
  eapply (proj2 (preorder_wire _)); [|exact W2].
  split; [exact E1|]. split; [exact C|]. split; [exact V1|]. apply wire_ok_quiet, Hn.
Qed.

(* ---- group coordinator lookup ----------------------------------------------------------------------- *)
Lemma inv_group_lookup_loop c0 e0 req : forall fuel group attempt,
  keeps (inv c0 e0 (FR req)) (group_lookup_loop fuel group req attempt).
Proof.
  induction fuel as [|f IH]; intros group attempt; cbn [group_lookup_loop]; [iv|].
  apply keeps_bind; [apply preorder_inv| |intros r].
  - unfold group_lookup_attempt. iv. apply inv_of_wire, w_send_request. intros p Hp. exists p. split; [exact Hp|reflexivity].
  - iv. apply IH.
Qed.

(* get_group_coordinator: nothing at all if the coordinator is cached; otherwise sends of the frame of ONE
   GroupCoordinatorRequest with the id taken by this call, the configured client id and the group asked for *)
Theorem C09_get_group_coordinator_wire : forall group x r x',
  get_group_coordinator group x = (r, x') ->
  wire (FR (enc_group_coordinator_req (stepc (corr_of x)) (Net.client_id (cfg (cl x))) group)) x x' /\
  (forall h, group_coordinator (cs (cl x)) group = Some h -> x' = x /\ r = Ok h).
Proof.
  intros group x r x' H. destruct (group_coordinator (cs (cl x)) group) as [h|] eqn:E.
  - unfold get_group_coordinator in H. unfold mbind at 1, get_client at 1 in H. rewrite E in H. inversion H; subst.
    split; [apply preorder_wire|]. intros h0 Eh. inversion Eh; subst. split; reflexivity.
  - split; [|intros h Eh; discriminate Eh]. rewrite (C09_call_get_group_coordinator _ _ E) in H. unfold with_fuel in H.
    eapply (proj2 (preorder_wire _)); [apply wire_bump|].
    eapply (inv_group_lookup_loop (cfg (cl (bump x))) (env (bump x))); [exact H|reflexivity|reflexivity].
Qed.

(* ---- composition with the independent reading of the protocol (Spec/ReqGrammar.v) -------------------- *)
From KV Require Import Spec.ReqGrammar.

Theorem C09_load_metadata_wire_parses : forall topics x r x',
  load_metadata topics x = (r, x') ->
  (forall bs, enc_metadata_req (stepc (corr_of x)) (Net.client_id (cfg (cl x))) topics = Ok bs -> ulen bs <= i32_max) ->
  wire (fun f => parse_frame f = Some ({| api_key := 3; api_version := 0; correlation_id := stepc (corr_of x);
                                          client_id := Some (Net.client_id (cfg (cl x))) |}, MetadataRequest topics)) x x'.
Proof.
  intros topics x r x' H Hlen. eapply wire_mono; [|apply (C09_load_metadata_wire _ _ _ _ H)].
  intros f (p & Hp & ->). apply C09_metadata_frame; [exact (C09_corr_in_i32 (cs (cl x)))|apply Hlen; exact Hp|exact Hp].
Qed.

Theorem C09_get_group_coordinator_wire_parses : forall group x r x',
  get_group_coordinator group x = (r, x') ->
  (forall bs, enc_group_coordinator_req (stepc (corr_of x)) (Net.client_id (cfg (cl x))) group = Ok bs -> ulen bs <= i32_max) ->
  wire (fun f => parse_frame f = Some ({| api_key := 10; api_version := 0; correlation_id := stepc (corr_of x);
                                          client_id := Some (Net.client_id (cfg (cl x))) |}, GroupCoordinatorRequest group)) x x'.
Proof.
  intros group x r x' H Hlen. eapply wire_mono; [|apply (C09_get_group_coordinator_wire _ _ _ _ H)].
  intros f (p & Hp & ->). apply C09_group_coordinator_frame; [exact (C09_corr_in_i32 (cs (cl x)))|apply Hlen; exact Hp|exact Hp].
Qed.

(* ================================================================================================ *)
(* Non-vacuity: concrete sessions                                                                   *)
(* ================================================================================================ *)
Definition exB_h : bytes := tag "h:9092".
(* client id "me", a pooled connection to h:9092, topic "a" known; the stream takes 5 bytes, is interrupted
   once, takes the rest and then falls silent *)
Definition exB_x : st :=
  {| script := [OWrote 5; OWriteIntr; OWrote 1000]; trace := []; anyq := []; hostq := []; fetchq := []; entryq := [];
     cl := {| cfg := ex_cfg1; cs := ex_cs1; conns := [exB_h] |}; env := ex_env0 |}.
Definition exB_long : bytes := repeat x78 (Z.to_nat 32768).      (* a name of 32768 bytes *)
Definition exB_p : bytes := [x00; x03; x00; x00;  x00; x00; x00; x07;  x00; x02; x6d; x65;  x00; x00; x00; x01;  x00; x01; x61].

(* C09_send_request_wire: three write events - the complete frame, then twice its remainder after 5 bytes -
   and the stream got exactly the frame *)
Example C09_send_request_wire_ex :
  let x' := snd (send_request exB_h (Ok exB_p) exB_x) in
  fst (send_request exB_h (Ok exB_p) exB_x) = Ok 23 /\
  performed exB_x x' = [EWrite exB_h (frame exB_p); EWrite exB_h (skipn 5 (frame exB_p)); EWrite exB_h (skipn 5 (frame exB_p))] /\
  accepted (performed exB_x x') (consumed exB_x x') = frame exB_p /\
  enc_metadata_req 7 (tag "me") [tag "a"] = Ok exB_p.
Proof. vm_compute. repeat split; reflexivity. Qed.

(* a stream that fails after 5 bytes: a proper prefix of the frame was accepted, the call is an error *)
Example C09_send_request_wire_prefix_ex :
  let x0 := st_with exB_x [OWrote 5; OWriteFail IoOther] [] in
  let x' := snd (send_request exB_h (Ok exB_p) x0) in
  fst (send_request exB_h (Ok exB_p) x0) = Err (EIo IoOther) /\
  accepted (performed x0 x') (consumed x0 x') = firstn 5 (frame exB_p).
Proof. vm_compute. split; reflexivity. Qed.

(* C09_send_request_unencodable / C09_send_after_failed_encode on the request of the seeded demonstration *)
Example C09_send_after_failed_encode_ex :
  enc_metadata_req 1 (tag "me") [tag "a"; exB_long] = Err ECodec /\
  send_request exB_h (enc_metadata_req 1 (tag "me") [tag "a"; exB_long]) exB_x = (Err ECodec, exB_x) /\
  fst (send_request exB_h (Ok exB_p) (snd (send_request exB_h (enc_metadata_req 1 (tag "me") [tag "a"; exB_long]) exB_x))) = Ok 23.
Proof. vm_compute. repeat split; reflexivity. Qed.

(* the seeded session at the level of the public operations: load_metadata(["a", <32768 x 'x'>]) fails and
   performs nothing; the following load_metadata(["a"]) puts exactly one request on the wire: id 2, "me", ["a"] *)
Example C09_metadata_after_failed_metadata_ex :
  let x1 := snd (load_metadata [tag "a"; exB_long] exB_x) in
  let x2 := snd (load_metadata [tag "a"] x1) in
  let f2 := frame [x00; x03; x00; x00;  x00; x00; x00; x02;  x00; x02; x6d; x65;  x00; x00; x00; x01;  x00; x01; x61] in
  enc_metadata_req (stepc (corr_of exB_x)) (Net.client_id (cfg (cl exB_x))) [tag "a"; exB_long] = Err ECodec /\
  fst (load_metadata [tag "a"; exB_long] exB_x) = Err ENoHostReachable /\
  performed exB_x x1 = [] /\
  performed exB_x x2 = [EWrite exB_h f2; EWrite exB_h (skipn 5 f2); EWrite exB_h (skipn 5 f2); ERead exB_h 4] /\
  accepted (performed exB_x x2) (consumed exB_x x2) = f2 /\
  enc_metadata_req (stepc (stepc (corr_of exB_x))) (Net.client_id (cfg (cl exB_x))) [tag "a"] = Ok (skipn 4 f2) /\
  parse_frame f2 = Some ({| api_key := 3; api_version := 0; correlation_id := 2; client_id := Some (tag "me") |},
                         MetadataRequest [tag "a"]).
Proof. vm_compute. repeat split; reflexivity. Qed.

(* a client id of 32768 bytes: every metadata call fails without a byte written (third seeded scenario) *)
Example C09_load_metadata_unencodable_ex :
  let x0 := snd (set_client {| cfg := {| Net.client_id := exB_long; hosts := [exB_h]; compression := 0; fetch_max_wait_time := 100;
                                        fetch_min_bytes := 1; fetch_max_bytes_per_partition := 1000; fetch_crc_validation := true;
                                        offset_storage := 1; retry_backoff_time := (0, 0); retry_max_attempts := 3;
                                        idle_timeout := (1, 0) |}; cs := ex_cs1; conns := [exB_h] |} exB_x) in
  enc_metadata_req (stepc (corr_of x0)) (Net.client_id (cfg (cl x0))) [] = Err ECodec /\
  fst (load_metadata [] x0) = Err ENoHostReachable /\ trace (snd (load_metadata [] x0)) = [].
Proof. vm_compute. repeat split; reflexivity. Qed.

(* get_group_coordinator: the lookup of the seeded demonstration (group "g", id 1) and a cached coordinator *)
Example C09_get_group_coordinator_wire_ex :
  let x' := snd (get_group_coordinator (tag "g") exB_x) in
  group_coordinator (cs (cl exB_x)) (tag "g") = None /\
  (exists rest, performed exB_x x' = EWrite exB_h (frame [x00; x0a; x00; x00;  x00; x00; x00; x01;  x00; x02; x6d; x65;  x00; x01; x67]) :: rest) /\
  enc_group_coordinator_req (stepc (corr_of exB_x)) (Net.client_id (cfg (cl exB_x))) (tag "g")
  = Ok [x00; x0a; x00; x00;  x00; x00; x00; x01;  x00; x02; x6d; x65;  x00; x01; x67] /\
  fst (get_group_coordinator exB_long exB_x) = Err ECodec /\ trace (snd (get_group_coordinator exB_long exB_x)) = [].
Proof. vm_compute. split; [reflexivity|]. split; [eexists; reflexivity|]. repeat split; reflexivity. Qed.

(* OBSERVATION (not the seed; unchanged model): a write that FAILS after part of a frame was accepted leaves the
   connection in the pool, and the next request to that host goes out on the same stream behind the truncated
   frame.  Here: bootstrap list [h; h], the first attempt dies after 5 bytes, the second attempt succeeds: the
   stream to h received 5 bytes of the frame followed by the whole frame. *)
Example C09_truncated_then_frame_ex :
  let x0 := snd (set_client {| cfg := {| Net.client_id := tag "me"; hosts := [exB_h; exB_h]; compression := 0; fetch_max_wait_time := 100;
                                        fetch_min_bytes := 1; fetch_max_bytes_per_partition := 1000; fetch_crc_validation := true;
                                        offset_storage := 1; retry_backoff_time := (0, 0); retry_max_attempts := 3;
                                        idle_timeout := (1, 0) |}; cs := ex_cs1; conns := [] |}
                            (st_with exB_x [OConn true; OWrote 5; OWriteFail IoOther; OWrote 1000] [])) in
  let x' := snd (load_metadata [tag "a"] x0) in
  let f := frame [x00; x03; x00; x00;  x00; x00; x00; x01;  x00; x02; x6d; x65;  x00; x00; x00; x01;  x00; x01; x61] in
  accepted (performed x0 x') (consumed x0 x') = firstn 5 f ++ f /\
  performed x0 x' = [EConnect exB_h; EWrite exB_h f; EWrite exB_h (skipn 5 f); EWrite exB_h f; ERead exB_h 4].
Proof. vm_compute. split; reflexivity. Qed.

(* Not done / not proved:
   - the same `wire` statement for fetch_offsets / list_offsets / fetch_messages / produce_messages / commit_offsets /
     fetch_group_offsets / fetch_group_topic_offset.  The machinery is here (w_send_request, w_send_receive, inv, iv);
     what is missing is one induction per exchange loop with F = "the frame of the entry of some host of the request
     map" (and, for the group calls, F = the call's own request or a GroupCoordinatorRequest with any later id).
   - "on success the stream of EVERY host received a whole number of complete frames" for a whole call (needs
     `accepted` split per host and the success case of every loop). *)

Check C09_send_request_unencodable.
Check C09_send_request_wire.
Check C09_send_request_first_write.
Check C09_send_after_failed_encode.
Check C09_wire_ok_first.
Check C09_wire_ok_writes.
Check C09_load_metadata_wire.
Check C09_load_metadata_all_wire.
Check C09_load_metadata_unencodable.
Check C09_metadata_after_failed_metadata.
Check C09_get_group_coordinator_wire.
Check C09_load_metadata_wire_parses.
Check C09_get_group_coordinator_wire_parses.

Print Assumptions C09_send_request_unencodable.
Print Assumptions C09_send_request_wire.
Print Assumptions C09_send_request_first_write.
Print Assumptions C09_send_after_failed_encode.
Print Assumptions C09_wire_ok_first.
Print Assumptions C09_wire_ok_writes.
Print Assumptions C09_load_metadata_wire.
Print Assumptions C09_load_metadata_all_wire.
Print Assumptions C09_load_metadata_unencodable.
Print Assumptions C09_metadata_after_failed_metadata.
Print Assumptions C09_get_group_coordinator_wire.
Print Assumptions C09_load_metadata_wire_parses.
Print Assumptions C09_get_group_coordinator_wire_parses.
