(* C01 (poll bookkeeping part): what Consumer::poll hands out and how it moves the fetch offsets
   (src/consumer/mod.rs: process_fetch_responses, MessageSetsIter, fetch_messages, poll).

   PROVED HERE (all Qed, no axioms; see the Print Assumptions at the end):
   - C01_empty_flag, C01_iterate_complete (membership), C01_iterate_order (iterate is the order preserving
     filter of the response/topic/partition entries), C01_iterate_nodup (under `sane`: a (topic, partition)
     is handed out at most once per poll), C01_failed_poll_keeps_offsets, C01_offsets_advance,
     C01_consumed_untouched, C01_fetch_failure (+ C01_poll_consumed_untouched for every outcome of a poll),
     C01_sane_no_panic (under `sane` the post-processing of a poll never panics, debug or release build).
   - shared helper lemmas on tk_get/tk_set, topic_ref and the flattened form `process_entries` of
     process_topics/process_parts (re-used by C17Facts.v).
   SURPRISING (concrete witness):
   - C01_too_large_midway_skips: the MessageSizeTooLarge early return of the second pass happens AFTER the
     fetch offsets of the partitions listed before it were advanced; their messages are not delivered (the
     poll is an Err) and never fetched again.  It needs a response to a one-partition fetch (n = 1) that
     lists a second assigned partition, i.e. a broker answering more than it was asked. *)
From Coq Require Import ZifyBool.
From KV Require Import Base.Prelude Gen.Consts Model.Codecs Model.Requests Model.Responses
                       Model.ClientState Model.Net Model.Client Model.Consumer.
From KV Require Import Proofs.BytesFacts.

(* ---- small maps keyed by (topic_ref, partition) --------------------------------------------------- *)
Lemma tpkey_eqb_eq a b : tpkey_eqb a b = true <-> a = b.
Proof.
  destruct a as [a1 a2], b as [b1 b2]. unfold tpkey_eqb. cbn [fst snd]. split.
  - intros H. apply andb_true_iff in H. destruct H as [H1 H2]. f_equal; lia.
  - intros H. inversion H; subst. rewrite !Z.eqb_refl. reflexivity.
Qed.

Lemma tpkey_eqb_refl a : tpkey_eqb a a = true.
Proof. apply tpkey_eqb_eq. reflexivity. Qed.

Lemma tpkey_eqb_neq a b : a <> b -> tpkey_eqb a b = false.
Proof.
  intros H. destruct (tpkey_eqb a b) eqn:E; [|reflexivity]. apply tpkey_eqb_eq in E. contradiction.
Qed.

Lemma tk_get_set_same {V} key (v : V) m : tk_get key (tk_set key v m) = Some v.
Proof.
  induction m as [|[k' v'] m IH]; cbn [tk_set tk_get].
  - rewrite tpkey_eqb_refl. reflexivity.
  - destruct (tpkey_eqb k' key) eqn:E; cbn [tk_get]; rewrite E; auto.
Qed.

Lemma tk_get_set_other {V} key q (v : V) m : q <> key -> tk_get q (tk_set key v m) = tk_get q m.
Proof.
  intros Hne. induction m as [|[k' v'] m IH]; cbn [tk_set tk_get].
  - rewrite tpkey_eqb_neq by congruence. reflexivity.
  - destruct (tpkey_eqb k' key) eqn:E; cbn [tk_get].
    + apply tpkey_eqb_eq in E. subst k'. rewrite tpkey_eqb_neq by congruence. reflexivity.
    + destruct (tpkey_eqb k' q); auto.
Qed.

(* ---- topic_ref is injective: equal references mean equal topic names --------------------------------- *)
Lemma Zb_inj x y : Zb x = Zb y -> x = y.
Proof.
  intros H. transitivity (bZ (Zb x)); [symmetry; apply bZ_Zb|]. rewrite H. apply bZ_Zb.
Qed.

Lemma bytes_cmp_eq a : forall b, bytes_cmp a b = Eq -> a = b.
Proof.
  induction a as [|x a IH]; destruct b as [|y b]; cbn [bytes_cmp]; intros H; try discriminate; auto.
  destruct (Z.compare (Zb x) (Zb y)) eqn:E; try discriminate.
  apply Z.compare_eq in E. apply Zb_inj in E. f_equal; auto.
Qed.

Lemma bsearch_some {V} fuel : forall (tbl : list (bytes * V)) key lo hi i,
  bsearch fuel tbl key lo hi = Some i -> exists v, nth_z tbl i = Some (key, v).
Proof.
  induction fuel as [|f IH]; intros tbl key lo hi i H; cbn [bsearch] in H; [discriminate|].
  cbv zeta in H.
  destruct (hi <=? lo) eqn:Ehl; [discriminate|].
  destruct (nth_z tbl (lo + (hi - lo) / 2)) as [[t v]|] eqn:En; [|discriminate].
  destruct (bytes_cmp t key) eqn:Ec.
  - inversion H; subst. apply bytes_cmp_eq in Ec. subst. eauto.
  - eauto.
  - eauto.
Qed.

Lemma topic_ref_name {V} (tbl : list (bytes * V)) t r :
  topic_ref tbl t = Some r -> exists v, nth_z tbl r = Some (t, v).
Proof. unfold topic_ref. apply bsearch_some. Qed.

Lemma topic_ref_inj {V} (tbl : list (bytes * V)) t1 t2 r :
  topic_ref tbl t1 = Some r -> topic_ref tbl t2 = Some r -> t1 = t2.
Proof.
  intros H1 H2. apply topic_ref_name in H1. apply topic_ref_name in H2.
  destruct H1 as [v1 H1], H2 as [v2 H2]. congruence.
Qed.

(* ---- list helpers ------------------------------------------------------------------------------------ *)
Lemma flat_map_flat_map {A B C} (f : B -> list C) (g : A -> list B) l :
  flat_map f (flat_map g l) = flat_map (fun x => flat_map f (g x)) l.
Proof.
  induction l as [|a l IH]; cbn [flat_map]; [reflexivity|]. rewrite flat_map_app, IH. reflexivity.
Qed.

Lemma flat_map_map {A B C} (f : B -> list C) (g : A -> B) l :
  flat_map f (map g l) = flat_map (fun x => f (g x)) l.
Proof. induction l as [|a l IH]; cbn [flat_map map]; [reflexivity|]. rewrite IH. reflexivity. Qed.

Lemma NoDup_map_transfer {A B C} (f : A -> B) (g : A -> C) l :
  (forall x y, In x l -> In y l -> g x = g y -> f x = f y) -> NoDup (map f l) -> NoDup (map g l).
Proof.
  induction l as [|a l IH]; intros Hinj Hnd; cbn [map] in *; [constructor|].
  inversion Hnd as [|? ? Hnot Hnd']; subst. constructor.
  - intros Hin. apply in_map_iff in Hin. destruct Hin as [y [Hy Hyl]]. apply Hnot.
    apply in_map_iff. exists y. split; [|exact Hyl].
    apply Hinj; [right; exact Hyl | left; reflexivity | exact Hy].
  - apply IH; [|exact Hnd']. intros x y Hx Hy. apply Hinj; right; assumption.
Qed.

Lemma last_msg_nil : last_msg [] = None.
Proof. reflexivity. Qed.

Lemma last_msg_cons m l : exists m', last_msg (m :: l) = Some m'.
Proof.
  unfold last_msg. cbn [rev]. destruct (rev l) as [|x r]; cbn [app]; eauto.
Qed.

Lemma last_msg_in ms m : last_msg ms = Some m -> In m ms.
Proof.
  unfold last_msg. intros H. destruct (rev ms) as [|x r] eqn:E; [discriminate|].
  inversion H; subst. apply in_rev. rewrite E. left. reflexivity.
Qed.

Lemma i64_op_in_range dbg z : i64_min <= z <= i64_max -> i64_op dbg z = Ok z.
Proof.
  intros H. unfold i64_op. destruct ((i64_min <=? z) && (z <=? i64_max)) eqn:E; [reflexivity|lia].
Qed.

Lemma i64_op_not_err dbg z e : i64_op dbg z <> Err e.
Proof.
  unfold i64_op. destruct ((i64_min <=? z) && (z <=? i64_max)); [discriminate|].
  destruct dbg; discriminate.
Qed.

(* ---- process_partition, case by case ------------------------------------------------------------------- *)
Lemma process_partition_data dbg single n cm limit r p s hw msgs off maxb :
  fp_data p = inl (hw, msgs) -> tk_get (r, fp_partition p) (ps_fetch s) = Some (off, maxb) ->
  process_partition dbg single n cm limit r p s =
    match last_msg msgs with
    | Some m =>
        match i64_op dbg (m_offset m + 1) with
        | Ok off' => POk {| ps_fetch := tk_set (r, fp_partition p) (off', cm) (ps_fetch s);
                            ps_retry := ps_retry s; ps_empty := false |}
        | Err e => PErr e s
        | Panic w => PPanic w
        end
    | None =>
        if off <? hw then
          if maxb <? limit then
            POk {| ps_fetch := tk_set (r, fp_partition p)
                                 (off, if limit <? Z.max i32_min (Z.min i32_max (maxb + maxb)) then limit
                                       else Z.max i32_min (Z.min i32_max (maxb + maxb))) (ps_fetch s);
                   ps_retry := if single then ps_retry s else ps_retry s ++ [(r, fp_partition p)];
                   ps_empty := ps_empty s |}
          else if n =? 1 then PErr (EKafka KC_MessageSizeTooLarge) s
          else POk {| ps_fetch := ps_fetch s;
                      ps_retry := if single then ps_retry s else ps_retry s ++ [(r, fp_partition p)];
                      ps_empty := ps_empty s |}
        else POk s
    end.
Proof.
  intros Hd Hg. unfold process_partition. cbv zeta. rewrite Hd, Hg. reflexivity.
Qed.

(* a delivered batch: the fetch state becomes (last offset + 1, normal size) *)
Lemma process_partition_msgs dbg single n cm limit r p s hw msgs m st :
  fp_data p = inl (hw, msgs) -> tk_get (r, fp_partition p) (ps_fetch s) = Some st ->
  last_msg msgs = Some m -> i64_min <= m_offset m + 1 <= i64_max ->
  process_partition dbg single n cm limit r p s =
    POk {| ps_fetch := tk_set (r, fp_partition p) (m_offset m + 1, cm) (ps_fetch s);
           ps_retry := ps_retry s; ps_empty := false |}.
Proof.
  intros Hd Hg Hl Hr. destruct st as [off maxb].
  rewrite (process_partition_data _ _ _ _ _ _ _ _ _ _ _ _ Hd Hg), Hl, i64_op_in_range by exact Hr.
  reflexivity.
Qed.

(* what a successful step can do to the fetch table *)
Lemma process_partition_frame dbg single n cm limit r p s s' q :
  process_partition dbg single n cm limit r p s = POk s' -> q <> (r, fp_partition p) ->
  tk_get q (ps_fetch s') = tk_get q (ps_fetch s).
Proof.
  intros H Hq. destruct (fp_data p) as [[hw msgs]|c] eqn:Hd.
  2:{ unfold process_partition in H. cbv zeta in H. rewrite Hd in H. discriminate. }
  destruct (tk_get (r, fp_partition p) (ps_fetch s)) as [[off maxb]|] eqn:Hg.
  2:{ unfold process_partition in H. cbv zeta in H. rewrite Hd, Hg in H. discriminate. }
  rewrite (process_partition_data _ _ _ _ _ _ _ _ _ _ _ _ Hd Hg) in H.
  destruct (last_msg msgs) as [m|].
  - destruct (i64_op dbg (m_offset m + 1)) as [o|e|w]; try discriminate.
    inversion H; subst s'. cbn [ps_fetch]. apply tk_get_set_other. exact Hq.
  - destruct (off <? hw) eqn:E1.
    + destruct (maxb <? limit) eqn:E2.
      * inversion H; subst s'. cbn [ps_fetch]. apply tk_get_set_other. exact Hq.
      * destruct (n =? 1) eqn:E3; [discriminate|]. inversion H; subst s'. reflexivity.
    + inversion H; subst s'. reflexivity.
Qed.

(* an empty partition never moves its offset *)
Lemma process_partition_empty_offset dbg single n cm limit r p s s' hw :
  fp_data p = inl (hw, []) -> process_partition dbg single n cm limit r p s = POk s' ->
  option_map fst (tk_get (r, fp_partition p) (ps_fetch s')) =
  option_map fst (tk_get (r, fp_partition p) (ps_fetch s)).
Proof.
  intros Hd H.
  destruct (tk_get (r, fp_partition p) (ps_fetch s)) as [[off maxb]|] eqn:Hg.
  2:{ unfold process_partition in H. cbv zeta in H. rewrite Hd, Hg in H. discriminate. }
  rewrite (process_partition_data _ _ _ _ _ _ _ _ _ _ _ _ Hd Hg) in H. rewrite last_msg_nil in H.
  destruct (off <? hw) eqn:E1.
  - destruct (maxb <? limit) eqn:E2.
    + inversion H; subst s'. cbn [ps_fetch]. rewrite tk_get_set_same. reflexivity.
    + destruct (n =? 1) eqn:E3; [discriminate|]. inversion H; subst s'. cbn [ps_fetch].
      rewrite Hg. reflexivity.
  - inversion H; subst s'. rewrite Hg. reflexivity.
Qed.

Definition part_nomsg (p : fetch_part) : bool :=
  match fp_data p with inl (_, _ :: _) => false | _ => true end.

Lemma process_partition_flag dbg single n cm limit r p s s' :
  process_partition dbg single n cm limit r p s = POk s' -> ps_empty s' = ps_empty s && part_nomsg p.
Proof.
  intros H. unfold part_nomsg. destruct (fp_data p) as [[hw msgs]|c] eqn:Hd.
  2:{ unfold process_partition in H. cbv zeta in H. rewrite Hd in H. discriminate. }
  destruct (tk_get (r, fp_partition p) (ps_fetch s)) as [[off maxb]|] eqn:Hg.
  2:{ unfold process_partition in H. cbv zeta in H. rewrite Hd, Hg in H. discriminate. }
  rewrite (process_partition_data _ _ _ _ _ _ _ _ _ _ _ _ Hd Hg) in H.
  destruct msgs as [|m0 l].
  - rewrite last_msg_nil in H. rewrite andb_true_r.
    destruct (off <? hw) eqn:E1.
    + destruct (maxb <? limit) eqn:E2.
      * inversion H; subst s'. reflexivity.
      * destruct (n =? 1) eqn:E3; [discriminate|]. inversion H; subst s'. reflexivity.
    + inversion H; subst s'. reflexivity.
  - destruct (last_msg_cons m0 l) as [m Hl]. rewrite Hl in H. rewrite andb_false_r.
    destruct (i64_op dbg (m_offset m + 1)) as [o|e|w]; try discriminate.
    inversion H; subst s'. reflexivity.
Qed.

(* ---- the nested loops, flattened ---------------------------------------------------------------------- *)
(* (topic name, topic_ref, partition entry) in response/topic/partition order *)
Definition entry := (bytes * Z * fetch_part)%type.
Definition e_key (e : entry) : tpkey := (snd (fst e), fp_partition (snd e)).
Definition e_label (e : entry) : bytes * Z := (fst (fst e), fp_partition (snd e)).

Fixpoint process_entries dbg single n cm limit (es : list entry) (s : pstate) : pres :=
  match es with
  | [] => POk s
  | e :: rest => match process_partition dbg single n cm limit (snd (fst e)) (snd e) s with
                 | POk s' => process_entries dbg single n cm limit rest s'
                 | x => x
                 end
  end.

Fixpoint resolve (asg : list (bytes * list Z)) (ts : list fetch_topic) : option (list entry) :=
  match ts with
  | [] => Some []
  | t :: rest =>
      match topic_ref asg (ft_topic t), resolve asg rest with
      | Some r, Some es => Some (map (fun p => (ft_topic t, r, p)) (ft_partitions t) ++ es)
      | _, _ => None
      end
  end.

Lemma process_parts_entries dbg single n cm limit t r ps : forall s,
  process_parts dbg single n cm limit r ps s =
  process_entries dbg single n cm limit (map (fun p => (t, r, p)) ps) s.
Proof.
  induction ps as [|p ps IH]; intros s; cbn [process_parts process_entries map fst snd]; [reflexivity|].
  destruct (process_partition dbg single n cm limit r p s); auto.
Qed.

Lemma process_entries_app dbg single n cm limit a b : forall s,
  process_entries dbg single n cm limit (a ++ b) s =
  match process_entries dbg single n cm limit a s with
  | POk s' => process_entries dbg single n cm limit b s'
  | x => x
  end.
Proof.
  induction a as [|e a IH]; intros s; cbn [process_entries app]; [reflexivity|].
  destruct (process_partition dbg single n cm limit (snd (fst e)) (snd e) s); auto.
Qed.

Lemma process_topics_ok dbg single n cm limit asg ts : forall s s',
  process_topics dbg single n cm limit asg ts s = POk s' ->
  exists es, resolve asg ts = Some es /\ process_entries dbg single n cm limit es s = POk s'.
Proof.
  induction ts as [|t ts IH]; intros s s' H; cbn [process_topics resolve] in *.
  - exists []. split; [reflexivity|exact H].
  - destruct (topic_ref asg (ft_topic t)) as [r|] eqn:Er; [|discriminate].
    destruct (process_parts dbg single n cm limit r (ft_partitions t) s) as [s1|e s1|w] eqn:Ep; try discriminate.
    destruct (IH _ _ H) as [es [Hres Hes]]. rewrite Hres.
    eexists. split; [reflexivity|].
    rewrite process_entries_app, <- process_parts_entries, Ep. exact Hes.
Qed.

(* resolve succeeds exactly when every topic is assigned *)
Lemma resolve_total asg ts :
  (forall ft, In ft ts -> exists r, topic_ref asg (ft_topic ft) = Some r) -> exists es, resolve asg ts = Some es.
Proof.
  induction ts as [|t ts IH]; intros H; cbn [resolve]; [eauto|].
  destruct (H t (or_introl eq_refl)) as [r Hr]. rewrite Hr.
  destruct IH as [es Hes]; [intros ft Hft; apply H; right; exact Hft|]. rewrite Hes. eauto.
Qed.

(* the same flattening on the side of the topics themselves *)
Lemma process_topics_resolved dbg single n cm limit asg ts : forall es s,
  resolve asg ts = Some es ->
  process_topics dbg single n cm limit asg ts s = process_entries dbg single n cm limit es s.
Proof.
  induction ts as [|t ts IH]; intros es s H; cbn [process_topics resolve] in *.
  - inversion H; subst. reflexivity.
  - destruct (topic_ref asg (ft_topic t)) as [r|] eqn:Er; [|discriminate].
    destruct (resolve asg ts) as [es'|] eqn:Eres; [|discriminate].
    inversion H; subst es. rewrite process_entries_app, <- process_parts_entries.
    destruct (process_parts dbg single n cm limit r (ft_partitions t) s); auto.
Qed.

Lemma resolve_in asg ts : forall es, resolve asg ts = Some es ->
  forall t r p, In (t, r, p) es <->
    exists ft, In ft ts /\ t = ft_topic ft /\ topic_ref asg (ft_topic ft) = Some r /\ In p (ft_partitions ft).
Proof.
  induction ts as [|ft0 ts IH]; intros es H t r p; cbn [resolve] in H.
  - inversion H; subst. split; [intros []|intros [ft [[] _]]].
  - destruct (topic_ref asg (ft_topic ft0)) as [r0|] eqn:Er; [|discriminate].
    destruct (resolve asg ts) as [es'|] eqn:Eres; [|discriminate].
    inversion H; subst es. rewrite in_app_iff, in_map_iff, (IH _ eq_refl). split.
    + intros [[p0 [Heq Hin]]|[ft [Hft Hrest]]].
      * inversion Heq; subst. exists ft0. repeat split; auto. left; reflexivity.
      * exists ft. split; [right; exact Hft|exact Hrest].
    + intros [ft [[Heq|Hft] [Ht [Hr Hp]]]].
      * subst ft. left. exists p. split; [|exact Hp]. rewrite Er in Hr. inversion Hr; subst. reflexivity.
      * right. exists ft. auto.
Qed.

(* the entries a poll's responses consist of, by topic name *)
Definition resp_entries (resps : list fetch_resp) : list (bytes * fetch_part) :=
  flat_map (fun ft => map (fun fp => (ft_topic ft, fp)) (ft_partitions ft)) (flat_map fr_topics resps).
Definition entry_label (e : bytes * fetch_part) : bytes * Z := (fst e, fp_partition (snd e)).

Lemma resolve_names asg ts : forall es, resolve asg ts = Some es ->
  map (fun e : entry => (fst (fst e), snd e)) es =
  flat_map (fun ft => map (fun fp => (ft_topic ft, fp)) (ft_partitions ft)) ts.
Proof.
  induction ts as [|ft0 ts IH]; intros es H; cbn [resolve] in H.
  - inversion H; subst. reflexivity.
  - destruct (topic_ref asg (ft_topic ft0)) as [r0|] eqn:Er; [|discriminate].
    destruct (resolve asg ts) as [es'|] eqn:Eres; [|discriminate].
    inversion H; subst es. cbn [flat_map]. rewrite map_app, map_map. f_equal. apply IH. reflexivity.
Qed.

Lemma resp_entries_in resps t fp :
  In (t, fp) (resp_entries resps) <->
  exists rs ft, In rs resps /\ In ft (fr_topics rs) /\ In fp (ft_partitions ft) /\ t = ft_topic ft.
Proof.
  unfold resp_entries. rewrite in_flat_map. split.
  - intros [ft [Hft Hin]]. apply in_flat_map in Hft. destruct Hft as [rs [Hrs Hft]].
    apply in_map_iff in Hin. destruct Hin as [fp' [Heq Hfp]]. inversion Heq; subst.
    exists rs, ft. auto.
  - intros [rs [ft [Hrs [Hft [Hfp Ht]]]]]. exists ft. split.
    + apply in_flat_map. exists rs. auto.
    + apply in_map_iff. exists fp. subst t. auto.
Qed.

(* ---- invariants of the flattened loop ------------------------------------------------------------------ *)
Lemma process_entries_frame dbg single n cm limit es : forall s s' q,
  process_entries dbg single n cm limit es s = POk s' -> ~ In q (map e_key es) ->
  tk_get q (ps_fetch s') = tk_get q (ps_fetch s).
Proof.
  induction es as [|e es IH]; intros s s' q H Hq; cbn [process_entries] in H.
  - inversion H; subst. reflexivity.
  - destruct (process_partition dbg single n cm limit (snd (fst e)) (snd e) s) as [s1|e1 s1|w] eqn:Ep;
      try discriminate.
    cbn [map] in Hq. rewrite (IH _ _ _ H) by (intros Hin; apply Hq; right; exact Hin).
    apply (process_partition_frame _ _ _ _ _ _ _ _ _ _ Ep).
    intros Heq. apply Hq. left. unfold e_key. symmetry. exact Heq.
Qed.

Lemma process_entries_flag dbg single n cm limit es : forall s s',
  process_entries dbg single n cm limit es s = POk s' ->
  ps_empty s' = ps_empty s && forallb (fun e : entry => part_nomsg (snd e)) es.
Proof.
  induction es as [|e es IH]; intros s s' H; cbn [process_entries forallb] in *.
  - inversion H; subst. rewrite andb_true_r. reflexivity.
  - destruct (process_partition dbg single n cm limit (snd (fst e)) (snd e) s) as [s1|e1 s1|w] eqn:Ep;
      try discriminate.
    rewrite (IH _ _ H), (process_partition_flag _ _ _ _ _ _ _ _ _ Ep), andb_assoc. reflexivity.
Qed.

(* partitions that delivered nothing keep their offset (they may change their max_bytes) *)
Lemma process_entries_quiet dbg single n cm limit q es : forall s s',
  (forall e, In e es -> e_key e = q -> exists hw, fp_data (snd e) = inl (hw, [])) ->
  process_entries dbg single n cm limit es s = POk s' ->
  option_map fst (tk_get q (ps_fetch s')) = option_map fst (tk_get q (ps_fetch s)).
Proof.
  induction es as [|e es IH]; intros s s' Hq H; cbn [process_entries] in H.
  - inversion H; subst. reflexivity.
  - destruct (process_partition dbg single n cm limit (snd (fst e)) (snd e) s) as [s1|e1 s1|w] eqn:Ep;
      try discriminate.
    rewrite (IH _ _ (fun e' Hin => Hq e' (or_intror Hin)) H).
    destruct (tpkey_eqb (e_key e) q) eqn:E.
    + apply tpkey_eqb_eq in E. destruct (Hq e (or_introl eq_refl) E) as [hw Hd].
      subst q. unfold e_key. apply (process_partition_empty_offset _ _ _ _ _ _ _ _ _ _ Hd Ep).
    + f_equal. apply (process_partition_frame _ _ _ _ _ _ _ _ _ _ Ep).
      intros Heq. subst q. unfold e_key in E. rewrite tpkey_eqb_refl in E. discriminate.
Qed.

(* a partition that delivered messages continues right after the last one, with the normal size *)
Lemma process_entries_delivered dbg single n cm limit es : forall s s' e hw msgs m,
  NoDup (map e_key es) -> process_entries dbg single n cm limit es s = POk s' ->
  In e es -> fp_data (snd e) = inl (hw, msgs) -> last_msg msgs = Some m ->
  i64_min <= m_offset m + 1 <= i64_max ->
  tk_get (e_key e) (ps_fetch s') = Some (m_offset m + 1, cm).
Proof.
  induction es as [|e0 es IH]; intros s s' e hw msgs m Hnd H Hin Hd Hl Hr; [destruct Hin|].
  cbn [process_entries] in H. cbn [map] in Hnd. inversion Hnd as [|? ? Hnot Hnd']; subst.
  destruct (process_partition dbg single n cm limit (snd (fst e0)) (snd e0) s) as [s1|e1 s1|w] eqn:Ep;
    try discriminate.
  destruct Hin as [Heq|Hin].
  - subst e0. rewrite (process_entries_frame _ _ _ _ _ _ _ _ _ H Hnot).
    destruct (tk_get (snd (fst e), fp_partition (snd e)) (ps_fetch s)) as [st|] eqn:Hg.
    + rewrite (process_partition_msgs _ _ _ _ _ _ _ _ _ _ _ _ Hd Hg Hl Hr) in Ep.
      inversion Ep; subst s1. cbn [ps_fetch]. unfold e_key. apply tk_get_set_same.
    + unfold process_partition in Ep. cbv zeta in Ep. rewrite Hd, Hg in Ep. discriminate.
  - apply (IH _ _ _ _ _ _ Hnd' H Hin Hd Hl Hr).
Qed.

(* ---- MessageSets::iter -------------------------------------------------------------------------------- *)
Definition it_entry (t : bytes) (p : fetch_part) : list (bytes * Z * list message) :=
  match fp_data p with
  | inl (_, (m :: _) as msgs) => [(t, fp_partition p, msgs)]
  | _ => []
  end.

Lemma iterate_entries ms :
  iterate ms = flat_map (fun e => it_entry (fst e) (snd e)) (resp_entries (ms_responses ms)).
Proof.
  unfold iterate, resp_entries. rewrite !flat_map_flat_map.
  apply flat_map_ext. intros rs. apply flat_map_ext. intros ft. rewrite flat_map_map. reflexivity.
Qed.

Lemma it_entry_in t0 fp t p msgs :
  In (t, p, msgs) (it_entry t0 fp) <->
  t = t0 /\ p = fp_partition fp /\ exists hw, fp_data fp = inl (hw, msgs) /\ msgs <> [].
Proof.
  unfold it_entry. destruct (fp_data fp) as [[hw [|m l]]|c]; cbn [In].
  - split; [intros []|]. intros [_ [_ [hw' [H1 H2]]]]. inversion H1; subst. apply H2. reflexivity.
  - split.
    + intros [H|[]]. inversion H; subst. repeat split. exists hw. split; [reflexivity|discriminate].
    + intros [Ht [Hp [hw' [H1 _]]]]. inversion H1; subst. left. reflexivity.
  - split; [intros []|]. intros [_ [_ [hw' [H1 _]]]]. discriminate.
Qed.

Lemma it_entry_nil t p : it_entry t p = [] <-> part_nomsg p = true.
Proof.
  unfold it_entry, part_nomsg. destruct (fp_data p) as [[hw [|m l]]|c]; split; intros H;
    try reflexivity; discriminate.
Qed.

Lemma flat_map_nil_forallb {A B} (f : A -> list B) (b : A -> bool) l :
  (forall x, f x = [] <-> b x = true) -> (flat_map f l = [] <-> forallb b l = true).
Proof.
  intros Hfb. induction l as [|a l IH]; cbn [flat_map forallb]; [tauto|].
  rewrite andb_true_iff, <- IH, <- Hfb. split.
  - intros H. apply app_eq_nil in H. exact H.
  - intros [H1 H2]. rewrite H1, H2. reflexivity.
Qed.

(* ---- the hypotheses about the decoded responses ------------------------------------------------------- *)
Record sane (k : consumer) (resps : list fetch_resp) : Prop := {
  (* every topic of every response is assigned and every partition listed is one the consumer fetches *)
  sane_assigned : forall rs ft, In rs resps -> In ft (fr_topics rs) ->
      exists r, topic_ref (k_assign k) (ft_topic ft) = Some r /\
                forall fp, In fp (ft_partitions ft) -> tk_get (r, fp_partition fp) (k_fetch k) <> None;
  (* no (topic, partition) occurs twice *)
  sane_nodup : NoDup (map entry_label (resp_entries resps));
  (* message offsets are i64 values below i64::MAX *)
  sane_offsets : forall t fp hw msgs m, In (t, fp) (resp_entries resps) -> fp_data fp = inl (hw, msgs) ->
      In m msgs -> i64_min <= m_offset m < i64_max
}.

(* a successful second pass, flattened *)
Lemma pfr_ok dbg k n resps ms k' :
  process_fetch_responses dbg k n resps = (Ok ms, k') ->
  first_error resps = None /\ ms_responses ms = resps /\
  exists es s', resolve (k_assign k) (flat_map fr_topics resps) = Some es /\
    process_entries dbg (ulen (k_fetch k) =? 1) n (fetch_max_bytes_per_partition (cfg (k_client k)))
                    (k_retry_limit k) es {| ps_fetch := k_fetch k; ps_retry := k_retry k; ps_empty := true |}
      = POk s' /\
    ms_empty ms = ps_empty s' /\ k' = consumer_with k (ps_fetch s') (ps_retry s') (k_consumed k).
Proof.
  unfold process_fetch_responses. intros H.
  destruct (first_error resps) as [c|] eqn:Ef; [discriminate|]. cbv zeta in H.
  destruct (process_topics dbg (ulen (k_fetch k) =? 1) n (fetch_max_bytes_per_partition (cfg (k_client k)))
              (k_retry_limit k) (k_assign k) (flat_map fr_topics resps)
              {| ps_fetch := k_fetch k; ps_retry := k_retry k; ps_empty := true |}) as [s'|e s'|w] eqn:Ep;
    try discriminate.
  inversion H; subst. cbn [ms_responses ms_empty]. split; [reflexivity|]. split; [reflexivity|].
  destruct (process_topics_ok _ _ _ _ _ _ _ _ _ Ep) as [es [Hres Hes]].
  exists es, s'. auto.
Qed.

(* ======================================================================================================= *)
(* concrete inputs for the examples: one topic "t" with partitions 0 and 1; the response lists the EMPTY
   partition 0 before the non-empty partition 1 of the same topic *)
Definition ex_client : client :=
  {| cfg := default_config [tag "h:9092"]; cs := cstate_new; conns := [] |}.
Definition ex_k : consumer :=
  {| k_client := ex_client; k_group := tag "g"; k_fallback := FbEarliest; k_retry_limit := 0;
     k_assign := [(tag "t", [0; 1])];
     k_fetch := [((0, 0), (5, 32768)); ((0, 1), (7, 32768))];
     k_retry := [];
     k_consumed := [((0, 1), (6, true))] |}.
Definition ex_msg (o : Z) : message := {| m_offset := o; m_key := []; m_value := tag "v" |}.
Definition ex_resps : list fetch_resp :=
  [ {| fr_corr := 1;
       fr_topics := [ {| ft_topic := tag "t";
                         ft_partitions := [ {| fp_partition := 0; fp_data := inl (5, []) |};
                                            {| fp_partition := 1; fp_data := inl (10, [ex_msg 7; ex_msg 8; ex_msg 9]) |} ] |} ] |} ].
(* the same with an error on a third listed entry *)
Definition ex_resps_err : list fetch_resp :=
  [ {| fr_corr := 1;
       fr_topics := [ {| ft_topic := tag "t";
                         ft_partitions := [ {| fp_partition := 1; fp_data := inl (10, [ex_msg 7; ex_msg 8; ex_msg 9]) |};
                                            {| fp_partition := 0; fp_data := inr 6 |} ] |} ] |} ].

Lemma ex_sane : sane ex_k ex_resps.
Proof.
  constructor.
  - intros rs ft [Hrs|[]] Hft. subst rs. destruct Hft as [Hft|[]]. subst ft. exists 0. split; [reflexivity|].
    intros fp [Hfp|[Hfp|[]]]; subst fp; vm_compute; discriminate.
  - vm_compute. repeat constructor; cbn [In]; intuition discriminate.
  - intros t fp hw msgs m Hin Hd Hm. vm_compute in Hin.
    destruct Hin as [Hin|[Hin|[]]]; inversion Hin; subst; cbn [fp_data] in Hd; inversion Hd; subst.
    + destruct Hm.
    + destruct Hm as [Hm|[Hm|[Hm|[]]]]; subst m; vm_compute; (split; [discriminate|reflexivity]).
Qed.

(* ---- C01_empty_flag ------------------------------------------------------------------------------------- *)
Theorem C01_empty_flag : forall dbg k n resps ms k',
  process_fetch_responses dbg k n resps = (Ok ms, k') -> (ms_empty ms = true <-> iterate ms = []).
Proof.
  intros dbg k n resps ms k' H.
  destruct (pfr_ok _ _ _ _ _ _ H) as [_ [Hms [es [s' [Hres [Hes [Hflag _]]]]]]].
  rewrite iterate_entries, Hms. unfold resp_entries. rewrite <- (resolve_names _ _ _ Hres), flat_map_map.
  rewrite Hflag, (process_entries_flag _ _ _ _ _ _ _ _ Hes). cbn [ps_empty andb fst snd].
  symmetry. apply flat_map_nil_forallb. intros e. apply it_entry_nil.
Qed.

Example C01_empty_flag_ex :
  (exists ms k', process_fetch_responses true ex_k 2 ex_resps = (Ok ms, k') /\ ms_empty ms = false /\
                 iterate ms = [(tag "t", 1, [ex_msg 7; ex_msg 8; ex_msg 9])])
  /\ (exists ms k', process_fetch_responses true ex_k 2 [] = (Ok ms, k') /\ ms_empty ms = true /\ iterate ms = []).
Proof. split; eexists; eexists; vm_compute; repeat split. Qed.

(* ---- C01_iterate_complete ------------------------------------------------------------------------------- *)
Theorem C01_iterate_complete : forall dbg k n resps ms k',
  process_fetch_responses dbg k n resps = (Ok ms, k') ->
  forall t p msgs,
    In (t, p, msgs) (iterate ms) <->
    exists r ft fp, In r resps /\ In ft (fr_topics r) /\ In fp (ft_partitions ft) /\
                    t = ft_topic ft /\ p = fp_partition fp /\
                    exists hw, fp_data fp = inl (hw, msgs) /\ msgs <> [].
Proof.
  intros dbg k n resps ms k' H t p msgs.
  destruct (pfr_ok _ _ _ _ _ _ H) as [_ [Hms _]].
  rewrite iterate_entries, Hms, in_flat_map. split.
  - intros [[t0 fp] [Hin Hit]]. cbn [fst snd] in Hit. apply it_entry_in in Hit.
    destruct Hit as [Ht [Hp Hd]]. apply resp_entries_in in Hin.
    destruct Hin as [rs [ft [Hrs [Hft [Hfp Ht0]]]]]. exists rs, ft, fp. subst. auto 10.
  - intros [rs [ft [fp [Hrs [Hft [Hfp [Ht [Hp Hd]]]]]]]]. exists (t, fp). split.
    + apply resp_entries_in. exists rs, ft. auto.
    + cbn [fst snd]. apply it_entry_in. auto.
Qed.

(* order: iterate is the order preserving filter of the entries in response/topic/partition order,
   each kept entry labelled with its own topic and partition id and carrying its own messages *)
Theorem C01_iterate_order : forall dbg k n resps ms k',
  process_fetch_responses dbg k n resps = (Ok ms, k') ->
  iterate ms = flat_map (fun e => match fp_data (snd e) with
                                  | inl (_, (m :: _) as msgs) => [(fst e, fp_partition (snd e), msgs)]
                                  | _ => []
                                  end) (resp_entries resps).
Proof.
  intros dbg k n resps ms k' H. destruct (pfr_ok _ _ _ _ _ _ H) as [_ [Hms _]].
  rewrite iterate_entries, Hms. reflexivity.
Qed.

Lemma it_nodup (l : list (bytes * fetch_part)) :
  NoDup (map entry_label l) ->
  NoDup (map (fun x : bytes * Z * list message => fst x) (flat_map (fun e => it_entry (fst e) (snd e)) l)).
Proof.
  induction l as [|e l IH]; intros Hnd; cbn [flat_map map] in *; [constructor|].
  inversion Hnd as [|? ? Hnot Hnd']; subst. rewrite map_app.
  assert (Hsub : forall x, In x (map (fun x : bytes * Z * list message => fst x)
                                     (flat_map (fun e => it_entry (fst e) (snd e)) l)) ->
                           In x (map entry_label l)).
  { intros x Hx. apply in_map_iff in Hx. destruct Hx as [[[t p] msgs] [Hx Hin]]. cbn [fst] in Hx. subst x.
    apply in_flat_map in Hin. destruct Hin as [e' [He' Hit]]. apply it_entry_in in Hit.
    destruct Hit as [Ht [Hp _]]. apply in_map_iff. exists e'. split; [|exact He'].
    unfold entry_label. subst. reflexivity. }
  unfold it_entry at 1. destruct (fp_data (snd e)) as [[hw [|m ms]]|c]; cbn [map app]; auto.
  constructor; [|auto]. intros Hin. apply Hnot. apply Hsub. exact Hin.
Qed.

(* exactly once per poll: no (topic, partition) label is handed out twice *)
Theorem C01_iterate_nodup : forall dbg k n resps ms k',
  sane k resps -> process_fetch_responses dbg k n resps = (Ok ms, k') ->
  NoDup (map (fun x : bytes * Z * list message => fst x) (iterate ms)).
Proof.
  intros dbg k n resps ms k' Hs H. destruct (pfr_ok _ _ _ _ _ _ H) as [_ [Hms _]].
  rewrite iterate_entries, Hms. apply it_nodup. apply (sane_nodup _ _ Hs).
Qed.

Example C01_iterate_complete_ex :
  exists ms k', process_fetch_responses false ex_k 2 ex_resps = (Ok ms, k') /\
    iterate ms = [(tag "t", 1, [ex_msg 7; ex_msg 8; ex_msg 9])] /\
    resp_entries ex_resps = [ (tag "t", {| fp_partition := 0; fp_data := inl (5, []) |});
                              (tag "t", {| fp_partition := 1; fp_data := inl (10, [ex_msg 7; ex_msg 8; ex_msg 9]) |}) ].
Proof. eexists; eexists; vm_compute; repeat split. Qed.

(* ---- C01_failed_poll_keeps_offsets ---------------------------------------------------------------------- *)
Theorem C01_failed_poll_keeps_offsets : forall dbg k n resps c,
  first_error resps = Some c -> process_fetch_responses dbg k n resps = (Err (EKafka c), k).
Proof. intros dbg k n resps c H. unfold process_fetch_responses. rewrite H. reflexivity. Qed.

(* the error is listed AFTER a partition with messages: nothing moves *)
Example C01_failed_poll_keeps_offsets_ex :
  first_error ex_resps_err = Some 6 /\
  process_fetch_responses true ex_k 2 ex_resps_err = (Err (EKafka 6), ex_k).
Proof. vm_compute. split; reflexivity. Qed.

(* ---- C01_offsets_advance -------------------------------------------------------------------------------- *)
Theorem C01_offsets_advance : forall dbg k n resps ms k',
  sane k resps -> first_error resps = None ->
  process_fetch_responses dbg k n resps = (Ok ms, k') ->
  forall r p,
    (* (r, p) was delivered the non-empty list msgs: continue right after its last message *)
    (forall rs ft fp hw msgs m,
        In rs resps -> In ft (fr_topics rs) -> In fp (ft_partitions ft) ->
        topic_ref (k_assign k) (ft_topic ft) = Some r -> fp_partition fp = p ->
        fp_data fp = inl (hw, msgs) -> last_msg msgs = Some m ->
        tk_get (r, p) (k_fetch k') = Some (m_offset m + 1, fetch_max_bytes_per_partition (cfg (k_client k))))
    /\
    (* (r, p) is not listed, or listed with an empty message list only: its offset does not move *)
    ((forall rs ft fp,
        In rs resps -> In ft (fr_topics rs) -> In fp (ft_partitions ft) ->
        topic_ref (k_assign k) (ft_topic ft) = Some r -> fp_partition fp = p ->
        exists hw, fp_data fp = inl (hw, [])) ->
     option_map fst (tk_get (r, p) (k_fetch k')) = option_map fst (tk_get (r, p) (k_fetch k))).
Proof.
  intros dbg k n resps ms k' Hs _ H r p.
  destruct (pfr_ok _ _ _ _ _ _ H) as [_ [Hms [es [s' [Hres [Hes [_ Hk']]]]]]].
  subst k'. cbn [consumer_with k_fetch].
  pose proof (resolve_in _ _ _ Hres) as Hin_es.
  split.
  - intros rs ft fp hw msgs m Hrs Hft Hfp Hr Hp Hd Hl.
    assert (Hin : In (ft_topic ft, r, fp) es).
    { apply Hin_es. exists ft. repeat split; auto. apply in_flat_map. exists rs. auto. }
    assert (Hnd : NoDup (map e_key es)).
    { apply (NoDup_map_transfer e_label e_key).
      - intros [[t1 r1] p1] [[t2 r2] p2] H1 H2 Heq. unfold e_key, e_label in *. cbn [fst snd] in *.
        inversion Heq; subst. apply Hin_es in H1. apply Hin_es in H2.
        destruct H1 as [f1 [_ [Ht1 [Hr1 _]]]]. destruct H2 as [f2 [_ [Ht2 [Hr2 _]]]].
        subst t1 t2. rewrite (topic_ref_inj _ _ _ _ Hr1 Hr2). congruence.
      - replace (map e_label es) with (map entry_label (map (fun e : entry => (fst (fst e), snd e)) es)).
        + rewrite (resolve_names _ _ _ Hres). apply (sane_nodup _ _ Hs).
        + rewrite map_map. reflexivity. }
    assert (Hrange : i64_min <= m_offset m + 1 <= i64_max).
    { assert (Hm : i64_min <= m_offset m < i64_max).
      { apply (sane_offsets _ _ Hs (ft_topic ft) fp hw msgs m).
        - apply resp_entries_in. exists rs, ft. auto.
        - exact Hd.
        - apply last_msg_in. exact Hl. }
      lia. }
    pose proof (process_entries_delivered _ _ _ _ _ _ _ _ (ft_topic ft, r, fp) hw msgs m Hnd Hes Hin Hd Hl Hrange)
      as Hget.
    unfold e_key in Hget. cbn [fst snd] in Hget. rewrite Hp in Hget. exact Hget.
  - intros Hquiet.
    apply (process_entries_quiet _ _ _ _ _ (r, p) _ _ _) with (2 := Hes).
    intros e Hin Hk.
    destruct e as [[t r0] fp]. unfold e_key in Hk. cbn [fst snd] in *. inversion Hk; subst r0 p.
    apply Hin_es in Hin. destruct Hin as [ft [Hft [Ht [Hr Hfp]]]].
    apply in_flat_map in Hft. destruct Hft as [rs [Hrs Hft]].
    apply (Hquiet rs ft fp Hrs Hft Hfp Hr eq_refl).
Qed.

(* partition 1 delivered offsets 7..9 and continues at 10; the empty partition 0 listed before it stays at 5 *)
Example C01_offsets_advance_ex :
  sane ex_k ex_resps /\
  exists ms k', process_fetch_responses true ex_k 2 ex_resps = (Ok ms, k') /\
    first_error ex_resps = None /\
    tk_get (0, 1) (k_fetch k') = Some (10, 32768) /\ tk_get (0, 0) (k_fetch k') = Some (5, 32768) /\
    tk_get (0, 1) (k_fetch ex_k) = Some (7, 32768) /\ k_retry k' = [].
Proof. split; [exact ex_sane|]. eexists; eexists; vm_compute; repeat split. Qed.

(* ---- C01_consumed_untouched ----------------------------------------------------------------------------- *)
Theorem C01_consumed_untouched : forall dbg k n resps r k',
  process_fetch_responses dbg k n resps = (r, k') ->
  k_consumed k' = k_consumed k /\ k_assign k' = k_assign k /\ k_group k' = k_group k /\
  k_client k' = k_client k /\ k_retry_limit k' = k_retry_limit k /\ k_fallback k' = k_fallback k.
Proof.
  intros dbg k n resps r k' H. unfold process_fetch_responses in H.
  destruct (first_error resps) as [c|].
  - inversion H; subst. auto 10.
  - cbv zeta in H.
    destruct (process_topics dbg (ulen (k_fetch k) =? 1) n (fetch_max_bytes_per_partition (cfg (k_client k)))
                (k_retry_limit k) (k_assign k) (flat_map fr_topics resps)
                {| ps_fetch := k_fetch k; ps_retry := k_retry k; ps_empty := true |}) as [s'|e s'|w];
      inversion H; subst; cbn [consumer_with k_consumed k_assign k_group k_client k_retry_limit k_fallback];
      auto 10.
Qed.

Example C01_consumed_untouched_ex :
  k_consumed (snd (process_fetch_responses true ex_k 2 ex_resps)) = [((0, 1), (6, true))] /\
  k_fetch (snd (process_fetch_responses true ex_k 2 ex_resps)) <> k_fetch ex_k.
Proof. vm_compute. split; [reflexivity|discriminate]. Qed.

(* ---- under `sane` a poll never panics -------------------------------------------------------------------- *)
Lemma tk_get_set_present {V} key q (v : V) m : tk_get q m <> None -> tk_get q (tk_set key v m) <> None.
Proof.
  intros H. destruct (tpkey_eqb key q) eqn:E.
  - apply tpkey_eqb_eq in E. subst q. rewrite tk_get_set_same. discriminate.
  - rewrite tk_get_set_other; [exact H|]. intros Heq. subst q. rewrite tpkey_eqb_refl in E. discriminate.
Qed.

Lemma process_partition_keys dbg single n cm limit r p s s' q :
  process_partition dbg single n cm limit r p s = POk s' ->
  tk_get q (ps_fetch s) <> None -> tk_get q (ps_fetch s') <> None.
Proof.
  intros H Hq. destruct (fp_data p) as [[hw msgs]|c] eqn:Hd.
  2:{ unfold process_partition in H. cbv zeta in H. rewrite Hd in H. discriminate. }
  destruct (tk_get (r, fp_partition p) (ps_fetch s)) as [[off maxb]|] eqn:Hg.
  2:{ unfold process_partition in H. cbv zeta in H. rewrite Hd, Hg in H. discriminate. }
  rewrite (process_partition_data _ _ _ _ _ _ _ _ _ _ _ _ Hd Hg) in H.
  destruct (last_msg msgs) as [m|].
  - destruct (i64_op dbg (m_offset m + 1)) as [o|e|w]; try discriminate.
    inversion H; subst s'. cbn [ps_fetch]. apply tk_get_set_present. exact Hq.
  - destruct (off <? hw) eqn:E1.
    + destruct (maxb <? limit) eqn:E2.
      * inversion H; subst s'. cbn [ps_fetch]. apply tk_get_set_present. exact Hq.
      * destruct (n =? 1) eqn:E3; [discriminate|]. inversion H; subst s'. exact Hq.
    + inversion H; subst s'. exact Hq.
Qed.

Lemma process_partition_no_panic dbg single n cm limit r p s w :
  tk_get (r, fp_partition p) (ps_fetch s) <> None ->
  (forall hw msgs m, fp_data p = inl (hw, msgs) -> In m msgs -> i64_min <= m_offset m < i64_max) ->
  process_partition dbg single n cm limit r p s <> PPanic w.
Proof.
  intros Hk Hoff. destruct (fp_data p) as [[hw msgs]|c] eqn:Hd.
  2:{ unfold process_partition. cbv zeta. rewrite Hd. discriminate. }
  destruct (tk_get (r, fp_partition p) (ps_fetch s)) as [[off maxb]|] eqn:Hg; [|contradiction].
  rewrite (process_partition_data _ _ _ _ _ _ _ _ _ _ _ _ Hd Hg).
  destruct (last_msg msgs) as [m|] eqn:Hl.
  - assert (Hm : i64_min <= m_offset m < i64_max) by (apply (Hoff hw msgs m eq_refl), last_msg_in, Hl).
    rewrite i64_op_in_range by lia. discriminate.
  - destruct (off <? hw); [|discriminate]. destruct (maxb <? limit); [discriminate|].
    destruct (n =? 1); discriminate.
Qed.

Lemma process_entries_no_panic dbg single n cm limit es w : forall s,
  (forall e, In e es -> tk_get (e_key e) (ps_fetch s) <> None /\
       forall hw msgs m, fp_data (snd e) = inl (hw, msgs) -> In m msgs -> i64_min <= m_offset m < i64_max) ->
  process_entries dbg single n cm limit es s <> PPanic w.
Proof.
  induction es as [|e es IH]; intros s Hes; cbn [process_entries]; [discriminate|].
  destruct (process_partition dbg single n cm limit (snd (fst e)) (snd e) s) as [s1|e1 s1|w1] eqn:Ep.
  - apply IH. intros e' Hin. destruct (Hes e' (or_intror Hin)) as [Hk Hoff]. split; [|exact Hoff].
    apply (process_partition_keys _ _ _ _ _ _ _ _ _ _ Ep). exact Hk.
  - discriminate.
  - destruct (Hes e (or_introl eq_refl)) as [Hk Hoff].
    intros Heq. inversion Heq; subst w1.
    apply (process_partition_no_panic dbg single n cm limit (snd (fst e)) (snd e) s w Hk Hoff). exact Ep.
Qed.

Theorem C01_sane_no_panic : forall dbg k n resps w k',
  sane k resps -> process_fetch_responses dbg k n resps <> (Panic w, k').
Proof.
  intros dbg k n resps w k' Hs. unfold process_fetch_responses.
  destruct (first_error resps) as [c|]; [discriminate|]. cbv zeta.
  destruct (resolve_total (k_assign k) (flat_map fr_topics resps)) as [es Hres].
  { intros ft Hft. apply in_flat_map in Hft. destruct Hft as [rs [Hrs Hft]].
    destruct (sane_assigned _ _ Hs rs ft Hrs Hft) as [r [Hr _]]. eauto. }
  rewrite (process_topics_resolved _ _ _ _ _ _ _ _ _ Hres).
  match goal with |- context [process_entries ?a ?b ?c ?d ?e ?f ?g] =>
    destruct (process_entries a b c d e f g) as [s'|e1 s'|w1] eqn:Ep end; try discriminate.
  exfalso. revert Ep. apply process_entries_no_panic. intros [[t r] fp] Hin.
  apply (resolve_in _ _ _ Hres) in Hin. destruct Hin as [ft [Hft [Ht [Hr Hfp]]]].
  apply in_flat_map in Hft. destruct Hft as [rs [Hrs Hft]].
  unfold e_key. cbn [fst snd ps_fetch]. split.
  - destruct (sane_assigned _ _ Hs rs ft Hrs Hft) as [r' [Hr' Hall]].
    rewrite Hr in Hr'. inversion Hr'; subst r'. apply Hall. exact Hfp.
  - intros hw msgs m Hd Hm. apply (sane_offsets _ _ Hs t fp hw msgs m); [|exact Hd|exact Hm].
    apply resp_entries_in. exists rs, ft. auto.
Qed.

(* without `sane`: an unassigned topic in the answer is a panic of poll *)
Example C01_sane_no_panic_ex :
  sane ex_k ex_resps /\
  exists w, process_fetch_responses true ex_k 2
              [{| fr_corr := 1; fr_topics := [{| ft_topic := tag "other"; ft_partitions := [] |}] |}]
            = (Panic w, ex_k).
Proof. split; [exact ex_sane|]. eexists. vm_compute. reflexivity. Qed.

(* ---- C01_fetch_failure ---------------------------------------------------------------------------------- *)
(* the request list Consumer::fetch_messages hands to the client (None: the queued retry partition is not
   in the fetch table, no request goes out) *)
Definition poll_requests (k : consumer) : option (list fetch_partition) :=
  match k_retry k with
  | tp :: _ =>
      match tk_get tp (k_fetch k) with
      | None => None
      | Some (off, maxb) => Some [{| fq_topic := topic_name k (fst tp); fq_partition := snd tp;
                                      fq_offset := off; fq_max_bytes := maxb |}]
      end
  | [] => Some (map (fun '((tr, p), (off, maxb)) =>
                       {| fq_topic := topic_name k tr; fq_partition := p; fq_offset := off;
                          fq_max_bytes := maxb |}) (k_fetch k))
  end.

Lemma consumer_with_retry_nil k : k_retry k = [] -> consumer_with k (k_fetch k) (tl (k_retry k)) (k_consumed k) = k.
Proof. intros H. rewrite H. destruct k. cbn in *. subst. reflexivity. Qed.

Theorem C01_fetch_failure : forall k reqs s e s',
  poll_requests k = Some reqs -> fetch_messages reqs s = (Err e, s') ->
  let k1 := consumer_with_client (consumer_with k (k_fetch k) (tl (k_retry k)) (k_consumed k)) (cl s') in
  consumer_poll k s = (Ok (Err e, k1), s') /\
  k_fetch k1 = k_fetch k /\ k_consumed k1 = k_consumed k /\ k_retry k1 = tl (k_retry k) /\
  k_assign k1 = k_assign k /\ k_group k1 = k_group k.
Proof.
  intros k reqs s e s' Hreq Hf k1. split; [|subst k1; cbn; auto 10].
  subst k1. unfold poll_requests in Hreq. unfold consumer_poll, consumer_fetch.
  destruct (k_retry k) as [|tp rest] eqn:Er.
  - inversion Hreq; subst reqs. clear Hreq.
    rewrite <- Er, consumer_with_retry_nil by exact Er.
    unfold mbind, mtry, ret, get_client, get_env. cbv beta. rewrite Hf. reflexivity.
  - destruct (tk_get tp (k_fetch k)) as [[off maxb]|] eqn:Hg; [|discriminate].
    inversion Hreq; subst reqs. clear Hreq. cbn [tl].
    unfold mbind, mtry, ret, get_client, get_env. cbv beta. rewrite Hf. reflexivity.
Qed.

(* whatever a poll does, the consumed offsets, the assignment and the group stay *)
Theorem C01_poll_consumed_untouched : forall k s r k1 s',
  consumer_poll k s = (Ok (r, k1), s') ->
  k_consumed k1 = k_consumed k /\ k_assign k1 = k_assign k /\ k_group k1 = k_group k.
Proof.
  intros k s r k1 s' H. unfold consumer_poll, consumer_fetch in H.
  destruct (k_retry k) as [|tp rest] eqn:Er.
  - unfold mbind, mtry, ret, get_client, get_env in H. cbv beta in H.
    destruct (fetch_messages _ s) as [[resps|e|w] s1]; cbv beta iota in H; try discriminate.
    + inversion H as [[Hp Hs]]. apply C01_consumed_untouched in Hp. cbn in Hp. tauto.
    + inversion H; subst. cbn. auto.
  - destruct (tk_get tp (k_fetch k)) as [[off maxb]|] eqn:Hg.
    + unfold mbind, mtry, ret, get_client, get_env in H. cbv beta in H.
      destruct (fetch_messages _ s) as [[resps|e|w] s1]; cbv beta iota in H; try discriminate.
      * inversion H as [[Hp Hs]]. apply C01_consumed_untouched in Hp. cbn in Hp. tauto.
      * inversion H; subst. cbn. auto.
    + unfold mbind, ret, get_client, get_env in H. cbv beta iota in H. inversion H; subst. cbn. auto.
Qed.

(* the broker refuses the connection: the client's fetch fails, the poll reports it, no offset moves; with
   a pending retry partition the only change is that it left the queue *)
Definition ex_cs : cstate :=
  {| correlation := 0; brokers := [ {| b_node := 1; b_host := tag "h:9092" |} ];
     topic_partitions := [ (tag "t", [0; 0]) ]; group_coordinators := [] |}.
Definition ex_client2 : client := {| cfg := default_config [tag "h:9092"]; cs := ex_cs; conns := [] |}.
Definition ex_k2 (retry : list tpkey) : consumer :=
  {| k_client := ex_client2; k_group := tag "g"; k_fallback := FbEarliest; k_retry_limit := 1000000;
     k_assign := [(tag "t", [0; 1])];
     k_fetch := [((0, 0), (5, 65536)); ((0, 1), (7, 32768))];
     k_retry := retry;
     k_consumed := [((0, 1), (6, true))] |}.
Definition ex_env : codecs :=
  {| gz_compress := fun b => b; sn_compress := fun b => b; gz_decompress := fun b => Some b; debug_build := true |}.
Definition ex_st (script : list ev_out) : st :=
  {| script := script; trace := []; anyq := []; hostq := []; fetchq := []; entryq := []; cl := ex_client2;
     env := ex_env |}.

Example C01_fetch_failure_ex :
  poll_requests (ex_k2 [(0, 0)]) = Some [{| fq_topic := tag "t"; fq_partition := 0; fq_offset := 5; fq_max_bytes := 65536 |}] /\
  (exists s', fetch_messages [{| fq_topic := tag "t"; fq_partition := 0; fq_offset := 5; fq_max_bytes := 65536 |}]
                             (ex_st [OConn false]) = (Err (EIo IoConnRefused), s') /\
     exists k1, consumer_poll (ex_k2 [(0, 0)]) (ex_st [OConn false]) = (Ok (Err (EIo IoConnRefused), k1), s') /\
       k_fetch k1 = k_fetch (ex_k2 [(0, 0)]) /\ k_consumed k1 = k_consumed (ex_k2 [(0, 0)]) /\ k_retry k1 = [])
  /\ (exists s' k1, consumer_poll (ex_k2 []) (ex_st [OConn false]) = (Ok (Err (EIo IoConnRefused), k1), s') /\
       k_fetch k1 = k_fetch (ex_k2 []) /\ k_consumed k1 = k_consumed (ex_k2 []) /\ k_retry k1 = []).
Proof.
  split; [reflexivity|]. split.
  - eexists. split; [vm_compute; reflexivity|]. eexists. vm_compute. repeat split.
  - eexists. eexists. vm_compute. repeat split.
Qed.

(* ---- surprising: the MessageSizeTooLarge early return comes after offsets were advanced ------------------- *)
(* A one-partition (retry) fetch of t:0, n = 1, max_bytes already at the limit; the answer lists t:1 with
   messages 7..9 first and then the still empty t:0.  The poll is an Err, nothing is handed out, but the
   fetch offset of t:1 has moved from 7 to 10: messages 7..9 are never delivered. *)
Definition ex_resps_extra : list fetch_resp :=
  [ {| fr_corr := 1;
       fr_topics := [ {| ft_topic := tag "t";
                         ft_partitions := [ {| fp_partition := 1; fp_data := inl (10, [ex_msg 7; ex_msg 8; ex_msg 9]) |};
                                            {| fp_partition := 0; fp_data := inl (6, []) |} ] |} ] |} ].

Example C01_too_large_midway_skips :
  exists k', process_fetch_responses true ex_k 1 ex_resps_extra = (Err (EKafka KC_MessageSizeTooLarge), k') /\
    first_error ex_resps_extra = None /\
    tk_get (0, 1) (k_fetch ex_k) = Some (7, 32768) /\ tk_get (0, 1) (k_fetch k') = Some (10, 32768).
Proof. eexists. vm_compute. repeat split. Qed.

Print Assumptions C01_empty_flag.
Print Assumptions C01_iterate_complete.
Print Assumptions C01_iterate_order.
Print Assumptions C01_iterate_nodup.
Print Assumptions C01_failed_poll_keeps_offsets.
Print Assumptions C01_offsets_advance.
Print Assumptions C01_consumed_untouched.
Print Assumptions C01_sane_no_panic.
Print Assumptions C01_fetch_failure.
Print Assumptions C01_poll_consumed_untouched.
Print Assumptions C01_too_large_midway_skips.
