(* C14, additional theorems, third pass (mutation adequacy, round-five and round-six seeds).

   Seed C14-5 (set_group_coordinator registers an unknown broker under the bare host name of the
   answer instead of "host:port") is refuted by C14_lookup_names_broker: on the model mutated the
   same way its negation is proved with the witness of C14_lookup_names_broker_ex (see the report).
   Seed C14-6 (the coordinator lookup counts on the attempt counter of the commit / group offset
   fetch it is done for) is refuted by C14_commit_step, C14_commit_loop_iff, C14_commit_offsets_iff,
   C14_commit_offsets_ok_iff and the group-fetch twins: on the mutated model the negations of
   C14_commit_step, C14_commit_offsets_ok_iff and C14_fetch_group_offsets_ok_iff are proved with the
   seed's own histories.  Both seeds were therefore covered; what the theorems of the earlier passes
   leave IMPLICIT is that the two kinds of request of one call have SEPARATE budgets: that fact is
   hidden in the definition of `exchange_attempt` (whose lookup is numbered from 1).  This file makes
   it explicit and numeric, and states "goes to the newly named broker" in terms of the answer:

   1. one attempt of a commit / group offset fetch with nothing cached, the lookup needing n retries:
      the lookup is numbered from 1 whatever the number of the commit attempt is, the request goes
      to (and only to) the broker the answer names - the host the client knows for that node id,
      else "host:port" of the answer -, that host is cached, and the commit loop goes on with ITS
      counter untouched by the n lookups (C14_attempt_lookup_own_budget, C14_commit_counter_own,
      C14_group_fetch_counter_own);
   2. the budgets in numbers, from the answers alone: a lookups answered 15 followed by one answered
      0 succeed iff 1 + a <= max 1 limit (C14_lookup_granted, C14_lookup_own_budget_iff), b commits
      (group offset fetches) answered 14 / 16 followed by a clean answer succeed as soon as
      1 + b <= max 1 limit (C14_commit_offsets_own_budget, C14_fetch_group_offsets_own_budget) - the
      mutated client needs 1 + a + b <= limit. *)
From KV Require Import Base.Prelude Gen.ErrorCodes Gen.Consts Model.Codecs Model.Requests Model.Responses
                       Model.ClientState Model.Net Model.Client.
From KV Require Import Proofs.BytesFacts Proofs.C11Facts Proofs.NetFacts Proofs.C14Facts Proofs.C14Extra
                       Proofs.C14ExtraB.
From Coq Require Import ZifyBool.

(* ================================================================================== *)
(* 1. one attempt whose lookup is retried: own numbering, destination, outer counter   *)
(* ================================================================================== *)

(* the broker a successful lookup answer names, as the client resolves it *)
Definition named_host (x : cstate) (resp : coordinator_resp) : bytes :=
  match find (fun b => b_node b =? gc_broker resp) (brokers x) with
  | Some b => b_host b
  | None => host_port (gc_host resp) (gc_port resp)
  end.
(* the state after that answer has been taken in *)
Definition after_lookup (group : bytes) (resp : coordinator_resp) (s1 : st) : st :=
  with_cs s1 (snd (set_group_coordinator (cs (cl s1)) group resp)).

Theorem C14_attempt_lookup_own_budget : forall A (d : dec A) group req s n sk resp s1,
  group_coordinator (cs (cl s)) group = None ->
  (* n lookups in a row answered 15 and retried - numbered from 1 - and one answered 0 *)
  lookup_retried (lookup_req group s) n 1 (after_corr s) sk ->
  group_lookup_attempt (lookup_req group s) sk = (Ok resp, s1) ->
  gc_error resp = 0 ->
  let h := named_host (cs (cl s1)) resp in
  let s4 := after_lookup group resp s1 in
  1 + Z.of_nat n <= Z.max 1 (retry_max_attempts (cfg (cl s))) /\
  get_group_coordinator group s = (Ok h, s4) /\
  group_coordinator (cs (cl s4)) group = Some h /\
  exchange_attempt d group req s = send_receive d h req s4 /\
  (forall r5 s5, send_receive d h req s4 = (r5, s5) -> Forall (on_host h) (performed s4 s5)).
Proof.
  intros A d group req s n sk resp s1 Hn Hr E H0 h s4.
  assert (Hg : get_group_coordinator group s = (Ok h, s4)).
  { apply (proj2 (C14_get_group_coordinator_iff group s (Ok h) s4 Hn)). exists n, sk. split; [exact Hr|].
    unfold lookup_final. rewrite E, H0. cbn [from_protocol Z.eqb]. split; [reflexivity|].
    split; [|reflexivity]. unfold h, named_host. rewrite C14_lookup_names_broker. reflexivity. }
  split.
  - pose proof (C14_retried_within_limit group (lookup_req group s) n 1 (after_corr s) sk
                  (or_intror (or_intror Hr))) as [_ Hb].
    rewrite after_corr_cfg in Hb. exact Hb.
  - split; [exact Hg|]. split.
    + unfold s4, after_lookup. rewrite with_cs_cs, set_group_coordinator_cached.
      unfold h, named_host. rewrite C14_lookup_names_broker. reflexivity.
    + split.
      * unfold exchange_attempt. exact (mbind_ok _ (fun h0 => send_receive d h0 req) _ _ _ Hg).
      * intros r5 s5 H5. apply (ops_send_receive _ _ _ _ _ _ _ H5).
Qed.

(* the commit loop: the n retried lookups of the attempt leave the commit's own counter alone -
   the answer to the commit is judged against `attempt`, the next attempt is `attempt + 1` *)
Theorem C14_commit_counter_own : forall f group req attempt s n sk resp s1 c tps s2,
  group_coordinator (cs (cl s)) group = None ->
  lookup_retried (lookup_req group s) n 1 (after_corr s) sk ->
  group_lookup_attempt (lookup_req group s) sk = (Ok resp, s1) ->
  gc_error resp = 0 ->
  send_receive dec_offset_commit_resp (named_host (cs (cl s1)) resp) req (after_lookup group resp s1)
    = (Ok (c, tps), s2) ->
  commit_loop (S f) group req attempt s =
  match first_code (commit_codes tps) with
  | Some code =>
      if code =? KC_GroupLoadInProgress then
        if attempt <? retry_max_attempts (cfg (cl s2)) then commit_loop f group req (attempt + 1) s2
        else (Err (EKafka code), s2)
      else if code =? KC_NotCoordinatorForGroup then
        let s3 := with_cs s2 (remove_group_coordinator (cs (cl s2)) group) in
        if attempt <? retry_max_attempts (cfg (cl s2)) then commit_loop f group req (attempt + 1) s3
        else (Err (EKafka code), s3)
      else (Err (EKafka code), s2)
  | None => (Ok tt, s2)
  end.
Proof.
  intros f group req attempt s n sk resp s1 c tps s2 Hn Hr E H0 H5.
  apply (C14_commit_step f group req attempt s c tps s2).
  destruct (C14_attempt_lookup_own_budget _ dec_offset_commit_resp group req s n sk resp s1 Hn Hr E H0)
    as (_ & _ & _ & Hx & _).
  rewrite Hx. exact H5.
Qed.

Theorem C14_group_fetch_counter_own : forall f group req attempt s n sk resp s1 c tps s2,
  group_coordinator (cs (cl s)) group = None ->
  lookup_retried (lookup_req group s) n 1 (after_corr s) sk ->
  group_lookup_attempt (lookup_req group s) sk = (Ok resp, s1) ->
  gc_error resp = 0 ->
  send_receive dec_offset_fetch_resp (named_host (cs (cl s1)) resp) req (after_lookup group resp s1)
    = (Ok (c, tps), s2) ->
  match first_gcode (fetch_codes tps) with
  | Some code =>
      group_fetch_loop (S f) group req attempt s =
      if code =? KC_GroupLoadInProgress then
        if attempt <? retry_max_attempts (cfg (cl s2)) then group_fetch_loop f group req (attempt + 1) s2
        else (Err (EKafka code), s2)
      else if code =? KC_NotCoordinatorForGroup then
        let s3 := with_cs s2 (remove_group_coordinator (cs (cl s2)) group) in
        if attempt <? retry_max_attempts (cfg (cl s2)) then group_fetch_loop f group req (attempt + 1) s3
        else (Err (EKafka code), s3)
      else (Err (EKafka code), s2)
  | None => exists m, group_fetch_loop (S f) group req attempt s = (Ok m, s2)
  end.
Proof.
  intros f group req attempt s n sk resp s1 c tps s2 Hn Hr E H0 H5.
  apply (C14_group_fetch_step f group req attempt s c tps s2).
  destruct (C14_attempt_lookup_own_budget _ dec_offset_fetch_resp group req s n sk resp s1 Hn Hr E H0)
    as (_ & _ & _ & Hx & _).
  rewrite Hx. exact H5.
Qed.

(* ================================================================================== *)
(* 2. the budgets in numbers, from the answers alone                                  *)
(* ================================================================================== *)

(* n lookups in a row answered "coordinator not available" - no word about limits *)
Inductive lookup_answered15 (req : res bytes) : nat -> st -> st -> Prop :=
| LA_O s : lookup_answered15 req O s s
| LA_S n s resp s1 sk :
    group_lookup_attempt req s = (Ok resp, s1) ->
    from_protocol (gc_error resp) = Some KC_GroupCoordinatorNotAvailable ->
    lookup_answered15 req n s1 sk ->
    lookup_answered15 req (S n) s sk.

(* n attempts in a row given a retryable verdict (14: reset = false, 16: reset = true) *)
Inductive loop_answered {A B} (d : dec A) (judge : A -> verdict B) (group : bytes) (req : res bytes)
  : nat -> st -> st -> Prop :=
| GA_O s : loop_answered d judge group req O s s
| GA_S n s a s2 code reset sk :
    exchange_attempt d group req s = (Ok a, s2) -> judge a = VRetry code reset ->
    loop_answered d judge group req n (after_retry group reset s2) sk ->
    loop_answered d judge group req (S n) s sk.

(* they are all retried iff the last of them still has a successor within the limit *)
Theorem C14_lookup_granted : forall req n attempt s sk,
  lookup_answered15 req n s sk ->
  (lookup_retried req n attempt s sk <-> (n = O \/ attempt + Z.of_nat n <= retry_max_attempts (cfg (cl s)))).
Proof.
  intros req n attempt s sk H. revert attempt.
  induction H as [s|n s resp s1 sk E Ep Ha IH]; intros attempt.
  - split; [intros _; left; reflexivity|intros _; constructor].
  - pose proof (lookup_attempt_cl _ _ _ _ E) as Hc. split.
    + intros Hr. right. inversion Hr as [|n0 a0 s0 resp' s1' sk' E' Ep' Ea' Hr']; subst.
      rewrite E in E'. inversion E'; subst. rewrite Hc in Ea'.
      destruct (proj1 (IH (attempt + 1)) Hr') as [->|Hb]; [lia|]. rewrite Hc in Hb. lia.
    + intros [Hx|Hb]; [discriminate|].
      eapply LR_S; [exact E|exact Ep|rewrite Hc; lia|]. apply (proj2 (IH (attempt + 1))).
      destruct n; [left; reflexivity|right; rewrite Hc; lia].
Qed.

Theorem C14_loop_granted : forall A B (d : dec A) (judge : A -> verdict B) group req n attempt s sk,
  loop_answered d judge group req n s sk ->
  (loop_retried d judge group req n attempt s sk <->
   (n = O \/ attempt + Z.of_nat n <= retry_max_attempts (cfg (cl s)))).
Proof.
  intros A B d judge group req n attempt s sk H. revert attempt.
  induction H as [s|n s a s2 code reset sk E Ej Ha IH]; intros attempt.
  - split; [intros _; left; reflexivity|intros _; constructor].
  - destruct (exchange_attempt_cfg _ _ _ _ _ _ E) as [_ Hc]. unfold same_cfgc in Hc.
    pose proof (after_retry_cfg group reset s2) as Hc2. split.
    + intros Hr. right. inversion Hr as [|n0 a0 s0 a' s2' code' reset' sk' E' Ej' Ea' Hr']; subst.
      rewrite E in E'. inversion E'; subst. rewrite Ej in Ej'. inversion Ej'; subst.
      rewrite Hc in Ea'.
      destruct (proj1 (IH (attempt + 1)) Hr') as [->|Hb]; [lia|]. rewrite Hc2, Hc in Hb. lia.
    + intros [Hx|Hb]; [discriminate|].
      eapply RR_S; [exact E|exact Ej|rewrite Hc; lia|]. apply (proj2 (IH (attempt + 1))).
      destruct n; [left; reflexivity|right; rewrite Hc2, Hc; lia].
Qed.

(* the lookup of a group call: a answers 15 then an answer 0.  It succeeds iff 1 + a <= max 1 limit -
   nothing else enters, in particular not the number of the commit / fetch attempt it is done for *)
Theorem C14_lookup_own_budget_iff : forall group s a sk resp s1,
  group_coordinator (cs (cl s)) group = None ->
  lookup_answered15 (lookup_req group s) a (after_corr s) sk ->
  group_lookup_attempt (lookup_req group s) sk = (Ok resp, s1) ->
  gc_error resp = 0 ->
  (1 + Z.of_nat a <= Z.max 1 (retry_max_attempts (cfg (cl s))) <->
   get_group_coordinator group s = (Ok (named_host (cs (cl s1)) resp), after_lookup group resp s1)) /\
  (1 + Z.of_nat a <= Z.max 1 (retry_max_attempts (cfg (cl s))) <->
   exists h s4, get_group_coordinator group s = (Ok h, s4)).
Proof.
  intros group s a sk resp s1 Hn Ha E H0.
  pose proof (C14_lookup_granted _ _ 1 _ _ Ha) as Hg. rewrite after_corr_cfg in Hg.
  assert (Hfw : 1 + Z.of_nat a <= Z.max 1 (retry_max_attempts (cfg (cl s))) ->
                get_group_coordinator group s = (Ok (named_host (cs (cl s1)) resp), after_lookup group resp s1)).
  { intros Hb. assert (Hr : lookup_retried (lookup_req group s) a 1 (after_corr s) sk) by (apply Hg; lia).
    destruct (C14_attempt_lookup_own_budget _ dec_offset_commit_resp group (Ok []) s a sk resp s1 Hn Hr E H0)
      as (_ & Hx & _). exact Hx. }
  assert (Hbw : (exists h s4, get_group_coordinator group s = (Ok h, s4)) ->
                1 + Z.of_nat a <= Z.max 1 (retry_max_attempts (cfg (cl s)))).
  { intros (h & s4 & Hx).
    destruct (proj1 (C14_get_group_coordinator_iff group s (Ok h) s4 Hn) Hx) as (n & sk' & Hr & Hf).
    (* the run is deterministic: the retried prefix of length n lies along the a answers *)
    assert (Hdet : forall req m x k, lookup_answered15 req m x k ->
              forall n' att k', lookup_retried req n' att x k' -> (n' <= m)%nat ->
              lookup_answered15 req (m - n') k' k).
    { clear. induction 1 as [x|m x resp s1 k E Ep Ha IH]; intros n' att k' Hr Hle.
      - assert (n' = O) as -> by lia. inversion Hr; subst. constructor.
      - destruct n' as [|n'].
        + inversion Hr; subst. cbn [Nat.sub]. eapply LA_S; eassumption.
        + inversion Hr as [|n0 a0 s0 resp' s1' sk' E' Ep' Ea' Hr']; subst.
          rewrite E in E'. inversion E'; subst. cbn [Nat.sub]. eapply IH; [exact Hr'|lia]. }
    assert (Hlong : forall req m x k, lookup_answered15 req m x k ->
              forall n' att k', lookup_retried req n' att x k' -> (m < n')%nat ->
              exists resp2 s2, group_lookup_attempt req k = (Ok resp2, s2) /\
                               from_protocol (gc_error resp2) = Some KC_GroupCoordinatorNotAvailable).
    { clear. induction 1 as [x|m x resp s1 k E Ep Ha IH]; intros n' att k' Hr Hlt.
      - inversion Hr as [|n0 a0 s0 resp' s1' sk' E' Ep' Ea' Hr']; subst; [lia|]. eexists _, _. split; eassumption.
      - inversion Hr as [|n0 a0 s0 resp' s1' sk' E' Ep' Ea' Hr']; subst; [lia|].
        rewrite E in E'. inversion E'; subst. eapply IH; [exact Hr'|lia]. }
    destruct (Nat.lt_ge_cases a n) as [Hlt|Hle].
    - destruct (Hlong _ _ _ _ Ha _ _ _ Hr Hlt) as (resp2 & s2 & E2 & Ep2).
      rewrite E in E2. inversion E2; subst. rewrite H0 in Ep2. discriminate.
    - pose proof (Hdet _ _ _ _ Ha _ _ _ Hr Hle) as Hrest.
      destruct (Nat.eq_dec n a) as [->|Hne].
      + pose proof (C14_retried_within_limit group (lookup_req group s) a 1 (after_corr s) sk'
                      (or_intror (or_intror Hr))) as [_ Hb]. rewrite after_corr_cfg in Hb. exact Hb.
      + exfalso. inversion Hrest as [x Hx1 Hx2|m x resp2 s2 k E2 Ep2 Ha2 Hm]; subst; [lia|].
        unfold lookup_final in Hf. rewrite E2, Ep2 in Hf. destruct Hf as [Hf _]. discriminate. }
  split; split.
  - exact Hfw.
  - intros Hx. apply Hbw. eexists _, _. exact Hx.
  - intros Hb. eexists _, _. exact (Hfw Hb).
  - exact Hbw.
Qed.

(* commit_offsets: b attempts answered 14 / 16 and then a clean answer - each attempt with whatever
   coordinator lookups (and their retries) exchange_attempt contains - succeed as soon as
   1 + b <= max 1 limit.  The lookups' retries do not enter the count. *)
Theorem C14_commit_offsets_own_budget : forall group os s x xs b sk c tps s2,
  (offset_storage (cfg (cl s)) <? 0) = false -> commit_tps (cs (cl s)) os [] = Some (x :: xs) ->
  loop_answered dec_offset_commit_resp commit_judge group (commit_req group s (x :: xs)) b (after_corr s) sk ->
  exchange_attempt dec_offset_commit_resp group (commit_req group s (x :: xs)) sk = (Ok (c, tps), s2) ->
  first_code (commit_codes tps) = None ->
  (1 + Z.of_nat b <= Z.max 1 (retry_max_attempts (cfg (cl s))) <-> commit_offsets group os s = (Ok tt, s2)).
Proof.
  intros group os s x xs b sk c tps s2 Hst Ht Ha E Hc.
  pose proof (C14_loop_granted _ _ _ _ _ _ _ 1 _ _ Ha) as Hg. rewrite after_corr_cfg in Hg.
  assert (Hj : commit_judge (c, tps) = VDone tt).
  { unfold commit_judge. cbn [snd]. rewrite commit_scan_wire, Hc. reflexivity. }
  split.
  - intros Hb. apply (proj2 (C14_commit_offsets_iff _ _ _ _ _ _ _ Hst Ht)). exists b, sk.
    split; [apply Hg; lia|]. unfold loop_final. rewrite E, Hj. split; reflexivity.
  - intros Hx. destruct (proj1 (C14_commit_offsets_iff _ _ _ _ _ _ _ Hst Ht) Hx) as (n & sk' & Hr & Hf).
    assert (Hdet : forall m x0 k, loop_answered dec_offset_commit_resp commit_judge group (commit_req group s (x :: xs)) m x0 k ->
              forall n' att k', loop_retried dec_offset_commit_resp commit_judge group (commit_req group s (x :: xs)) n' att x0 k' ->
              ((n' <= m)%nat /\ loop_answered dec_offset_commit_resp commit_judge group (commit_req group s (x :: xs)) (m - n') k' k) \/
              ((m < n')%nat /\ exists a2 s3 code reset,
                  exchange_attempt dec_offset_commit_resp group (commit_req group s (x :: xs)) k = (Ok a2, s3) /\
                  commit_judge a2 = VRetry code reset)).
    { clear. induction 1 as [x0|m x0 a s2 code reset k E Ej Ha IH]; intros n' att k' Hr.
      - inversion Hr as [|n0 a0 s0 a' s2' code' reset' sk' E' Ej' Ea' Hr']; subst.
        + left. split; [lia|constructor].
        + right. split; [lia|]. eexists _, _, _, _. split; eassumption.
      - inversion Hr as [|n0 a0 s0 a' s2' code' reset' sk' E' Ej' Ea' Hr']; subst.
        + left. split; [lia|]. cbn [Nat.sub]. eapply GA_S; eassumption.
        + rewrite E in E'. inversion E'; subst. rewrite Ej in Ej'. inversion Ej'; subst.
          destruct (IH _ _ _ Hr') as [[Hle Hrest]|[Hlt Hex]].
          * left. split; [lia|]. cbn [Nat.sub]. exact Hrest.
          * right. split; [lia|]. exact Hex. }
    destruct (Hdet _ _ _ Ha _ _ _ Hr) as [[Hle Hrest]|[Hlt (a2 & s3 & code & reset & E2 & Ej2)]].
    + destruct (Nat.eq_dec n b) as [->|Hne].
      * pose proof (C14_retried_within_limit group (commit_req group s (x :: xs)) b 1 (after_corr s) sk'
                      (or_introl Hr)) as [_ Hb]. rewrite after_corr_cfg in Hb. exact Hb.
      * exfalso. inversion Hrest as [x0 Hx1 Hx2|m x0 a2 s3 code reset k E2 Ej2 Ha2 Hm]; subst; [lia|].
        unfold loop_final in Hf. rewrite E2, Ej2 in Hf. destruct Hf as [Hf _]. discriminate.
    + exfalso. rewrite E in E2. inversion E2; subst. rewrite Hj in Ej2. discriminate.
Qed.

(* fetch_group_offsets: the forward direction in the same numbers *)
Theorem C14_fetch_group_offsets_own_budget : forall group ps s tps0 b sk c tps s2,
  (offset_storage (cfg (cl s)) <? 0) = false -> group_fetch_tps (cs (cl s)) ps [] = Some tps0 ->
  loop_answered dec_offset_fetch_resp fetch_judge group (fetch_req group s tps0) b (after_corr s) sk ->
  exchange_attempt dec_offset_fetch_resp group (fetch_req group s tps0) sk = (Ok (c, tps), s2) ->
  first_gcode (fetch_codes tps) = None ->
  1 + Z.of_nat b <= Z.max 1 (retry_max_attempts (cfg (cl s))) ->
  exists m, fetch_group_offsets group ps s = (Ok m, s2).
Proof.
  intros group ps s tps0 b sk c tps s2 Hst Ht Ha E Hc Hb.
  pose proof (C14_loop_granted _ _ _ _ _ _ _ 1 _ _ Ha) as Hg. rewrite after_corr_cfg in Hg.
  pose proof (group_scan_wire tps []) as Hw. rewrite Hc in Hw. destruct Hw as [m Hm]. exists m.
  apply (proj2 (C14_fetch_group_offsets_iff _ _ _ _ _ _ Hst Ht)). exists b, sk.
  split; [apply Hg; lia|]. unfold loop_final. rewrite E. unfold fetch_judge. cbn [snd]. rewrite Hm.
  split; reflexivity.
Qed.

(* ================================================================================== *)
(* 3. non-vacuity: the histories of seed C14-6 (and an unknown broker, seed C14-5)     *)
(* ================================================================================== *)

(* limit 2, nothing cached: the lookup is answered 15 then 0 (broker 1), the commit 14 then 0.
   One retry of each kind: 1 + 1 <= 2 twice, the call succeeds (a shared budget would need 3). *)
Definition s_two_kinds : st :=
  mkst 2 false (answer (coord_resp 2 15 0 [] 0) ++ answer (coord_resp 2 0 1 (tag "b1") 9092)
                ++ answer (commit_resp 1 14) ++ answer (commit_resp 1 0)).

Example C14_commit_offsets_own_budget_ex :
  (offset_storage (cfg (cl s_two_kinds)) <? 0) = false /\
  commit_tps (cs (cl s_two_kinds)) the_commit [] = Some [(tag "t", [(0, 5)])] /\
  commit_req (tag "g") s_two_kinds [(tag "t", [(0, 5)])] = Ok commit_p /\
  (exists sk c tps s2,
     loop_answered dec_offset_commit_resp commit_judge (tag "g") (Ok commit_p) 1 (after_corr s_two_kinds) sk /\
     exchange_attempt dec_offset_commit_resp (tag "g") (Ok commit_p) sk = (Ok (c, tps), s2) /\
     first_code (commit_codes tps) = None /\
     1 + Z.of_nat 1 <= Z.max 1 (retry_max_attempts (cfg (cl s_two_kinds))) /\
     commit_offsets (tag "g") the_commit s_two_kinds = (Ok tt, s2) /\ script s2 = []) /\
  (* the first attempt of that call: its lookup is retried once (C14_attempt_lookup_own_budget) *)
  (let s := after_corr s_two_kinds in
   group_coordinator (cs (cl s)) (tag "g") = None /\
   exists sk resp s1,
     lookup_retried (lookup_req (tag "g") s) 1 1 (after_corr s) sk /\
     lookup_answered15 (lookup_req (tag "g") s) 1 (after_corr s) sk /\
     group_lookup_attempt (lookup_req (tag "g") s) sk = (Ok resp, s1) /\ gc_error resp = 0 /\
     named_host (cs (cl s1)) resp = h1).
Proof.
  split; [reflexivity|]. split; [reflexivity|]. split; [reflexivity|]. split.
  - eexists _, _, _, _. split; [|split; [|split; [|split; [|split]]]].
    + eapply GA_S; [vm_compute; reflexivity|vm_compute; reflexivity|apply GA_O].
    + vm_compute. reflexivity.
    + vm_compute. reflexivity.
    + vm_compute. discriminate.
    + vm_compute. reflexivity.
    + vm_compute. reflexivity.
  - cbv zeta. split; [vm_compute; reflexivity|]. eexists _, _, _. split; [|split; [|split; [|split]]].
    + eapply LR_S; [vm_compute; reflexivity|vm_compute; reflexivity|vm_compute; reflexivity|apply LR_O].
    + eapply LA_S; [vm_compute; reflexivity|vm_compute; reflexivity|apply LA_O].
    + vm_compute. reflexivity.
    + vm_compute. reflexivity.
    + vm_compute. reflexivity.
Qed.

(* limit 2, b1 cached: the commit is answered 16 by b1 (attempt 1 of 2), the re-lookup is answered 15
   and then names the so far unknown broker 2 at b2:9092 (lookup attempts 1 and 2 of 2), the second
   commit goes to "b2:9092" - not "b2" - and succeeds; "b2:9092" is cached *)
Definition s_move : st :=
  mkst 2 true (answer (commit_resp 1 16) ++ answer (coord_resp 2 15 0 [] 0)
               ++ answer (coord_resp 2 0 2 (tag "b2") 9092) ++ [OConn true] ++ answer (commit_resp 1 0)).

Example C14_commit_counter_own_ex :
  let '(r, s') := commit_offsets (tag "g") the_commit s_move in
  r = Ok tt /\
  filter (fun e => match e with ERead _ _ => false | _ => true end) (performed s_move s')
    = [EWrite h1 (frame commit_p); EWrite h1 (frame (lookup_p 2)); EWrite h1 (frame (lookup_p 2));
       EConnect h2; EWrite h2 (frame commit_p)] /\
  group_coordinator (cs (cl s')) (tag "g") = Some h2.
Proof. vm_compute. repeat split. Qed.

(* the hypotheses of C14_attempt_lookup_own_budget / C14_commit_counter_own on that run: the state
   after the answer 16 (coordinator forgotten, commit attempt number 2 is about to start) *)
Example C14_attempt_lookup_own_budget_ex :
  let s := mkst 2 false (answer (coord_resp 1 15 0 [] 0) ++ answer (coord_resp 1 0 2 (tag "b2") 9092)
                         ++ [OConn true] ++ answer (commit_resp 1 0)) in
  group_coordinator (cs (cl s)) (tag "g") = None /\
  exists sk resp s1 c tps s2,
    lookup_retried (lookup_req (tag "g") s) 1 1 (after_corr s) sk /\
    group_lookup_attempt (lookup_req (tag "g") s) sk = (Ok resp, s1) /\ gc_error resp = 0 /\
    named_host (cs (cl s1)) resp = h2 /\
    send_receive dec_offset_commit_resp (named_host (cs (cl s1)) resp) (Ok commit_p) (after_lookup (tag "g") resp s1)
      = (Ok (c, tps), s2) /\
    first_code (commit_codes tps) = None /\
    (* the commit attempt may be the last one permitted (2 of 2): the lookup still had two attempts *)
    commit_loop 1 (tag "g") (Ok commit_p) 2 s = (Ok tt, s2).
Proof.
  cbv zeta. split; [vm_compute; reflexivity|]. eexists _, _, _, _, _, _. split; [|split; [|split; [|split; [|split; [|split]]]]].
  - eapply LR_S; [vm_compute; reflexivity|vm_compute; reflexivity|vm_compute; reflexivity|apply LR_O].
  - vm_compute. reflexivity.
  - vm_compute. reflexivity.
  - vm_compute. reflexivity.
  - vm_compute. reflexivity.
  - vm_compute. reflexivity.
  - vm_compute. reflexivity.
Qed.

(* C14_lookup_own_budget_iff, both sides false: limit 2, the lookup answered 15, 15, then 0: 1 + 2 > 2 *)
Example C14_lookup_own_budget_iff_ex :
  let s := mkst 2 false (answer (coord_resp 1 15 0 [] 0) ++ answer (coord_resp 1 15 0 [] 0)
                         ++ answer (coord_resp 1 0 1 (tag "b1") 9092)) in
  group_coordinator (cs (cl s)) (tag "g") = None /\
  (exists sk resp s1,
     lookup_answered15 (lookup_req (tag "g") s) 2 (after_corr s) sk /\
     group_lookup_attempt (lookup_req (tag "g") s) sk = (Ok resp, s1) /\ gc_error resp = 0) /\
  ~ (1 + Z.of_nat 2 <= Z.max 1 (retry_max_attempts (cfg (cl s)))) /\
  fst (get_group_coordinator (tag "g") s) = Err (EKafka KC_GroupCoordinatorNotAvailable).
Proof.
  cbv zeta. split; [vm_compute; reflexivity|]. split; [|split].
  - eexists _, _, _. split; [|split].
    + eapply LA_S; [vm_compute; reflexivity|vm_compute; reflexivity|].
      eapply LA_S; [vm_compute; reflexivity|vm_compute; reflexivity|apply LA_O].
    + vm_compute. reflexivity.
    + vm_compute. reflexivity.
  - vm_compute. intros H. apply H. reflexivity.
  - vm_compute. reflexivity.
Qed.

(* C14_fetch_group_offsets_own_budget: limit 3, lookup 15, 15, 0; fetch 14, 14, then an offset *)
Example C14_fetch_group_offsets_own_budget_ex :
  let s := mkst 3 false (answer (coord_resp 2 15 0 [] 0) ++ answer (coord_resp 2 15 0 [] 0)
                         ++ answer (coord_resp 2 0 1 (tag "b1") 9092)
                         ++ answer (ofetch_resp 1 0 14) ++ answer (ofetch_resp 1 0 14) ++ answer (ofetch_resp 1 77 0)) in
  (offset_storage (cfg (cl s)) <? 0) = false /\
  group_fetch_tps (cs (cl s)) [(tag "t", 0)] [] = Some [(tag "t", [0])] /\
  fetch_req (tag "g") s [(tag "t", [0])] = Ok fetch_p /\
  (exists sk c tps s2,
     loop_answered dec_offset_fetch_resp fetch_judge (tag "g") (Ok fetch_p) 2 (after_corr s) sk /\
     exchange_attempt dec_offset_fetch_resp (tag "g") (Ok fetch_p) sk = (Ok (c, tps), s2) /\
     first_gcode (fetch_codes tps) = None /\
     1 + Z.of_nat 2 <= Z.max 1 (retry_max_attempts (cfg (cl s)))) /\
  fst (fetch_group_offsets (tag "g") [(tag "t", 0)] s) = Ok [(tag "t", [(0, 77)])] /\
  attempts (frame fetch_p) s (snd (fetch_group_offsets (tag "g") [(tag "t", 0)] s)) = 3.
Proof.
  cbv zeta. split; [reflexivity|]. split; [reflexivity|]. split; [reflexivity|]. split; [|split].
  - eexists _, _, _, _. split; [|split; [|split]].
    + eapply GA_S; [vm_compute; reflexivity|vm_compute; reflexivity|].
      eapply GA_S; [vm_compute; reflexivity|vm_compute; reflexivity|apply GA_O].
    + vm_compute. reflexivity.
    + vm_compute. reflexivity.
    + vm_compute. discriminate.
  - vm_compute. reflexivity.
  - vm_compute. reflexivity.
Qed.

Print Assumptions C14_attempt_lookup_own_budget.
Print Assumptions C14_commit_counter_own.
Print Assumptions C14_group_fetch_counter_own.
Print Assumptions C14_lookup_granted.
Print Assumptions C14_loop_granted.
Print Assumptions C14_lookup_own_budget_iff.
Print Assumptions C14_commit_offsets_own_budget.
Print Assumptions C14_fetch_group_offsets_own_budget.
