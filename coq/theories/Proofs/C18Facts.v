(* C18  "Fetched message bytes stay valid and unchanged for the life of the response"

   Rust side (protocol/fetch.rs:347-441, zreader.rs): a `Message<'a>` holds `key: &'a [u8]` and
   `value: &'a [u8]`, slices INTO a buffer; nothing is copied.  The buffer is
     level 0   the response bytes, owned by `Response::raw_data`;
     level n>0 the vector the n-th compressed batch followed by the decoder decompressed to.
   The set returned by `MessageSet::from_slice` owns nothing (Borrowed) or, through
   `MessageSet::from_vec`, one decompressed vector.  REPAIRED code: from_vec keeps the buffer the
   messages point into (`match ms.raw_data { Owned(inner) => Owned(inner), Borrowed(_) => Owned(data) }`).
   BEFORE the repair it always kept `data` and dropped `ms.raw_data`, so for a batch inside a batch
   the views pointed into a freed vector (F13; `kept_alive_before_fix`).
   Model side: Model/Ownership.v (`view_level`: where the views point; `owner_level`: what the
   returned set owns), Model/Responses.v (`from_slice`).

   What is proved (both values of `debug_build cz` and of `validate`):
   - C18_views_owned_always               ALL inputs, no hypothesis: the buffer the views point
                                          into is exactly the one the result owns (level 0 = the
                                          response buffer); errors and panics coincide         FULL
   - C18_owner_is_view_level              the converse reading (owner as a function of level)   FULL
   - C18_level_defined / _err / _panic, C18_owner_defined / _err / _panic
                                          `view_level`, `owner_level` have the outcome of
                                          `from_slice`                                         FULL
   - C18_plain_views_in_response          uncompressed set: level 0                            FULL
   - C18_wrapper_views_owned              one head batch of plain messages: level 1            FULL
   - C18_views_owned, C18_views_owned_depth1, C18_level_le_depth
                                          serialised well-formed sets (also class `Known`), every
                                          truncation k: level defined, owned, <= nesting depth  FULL
   - C18_level_is_chain_depth             head-chain sets: level = number of head wrappers     FULL
   - C18_zread_exact, C18_zread_i8_in_bounds, C18_views_layout, C18_views_are_subslices
                                          every view is a sub-slice, in bounds, byte-identical FULL
   Documentation of the old defect (true statement about the old ownership rule):
   - C18_nested_dangling_before_fix       a batch inside a batch: messages are returned whose
                                          views point into level 2, which the old from_vec did
                                          not keep (`kept_alive_before_fix 2 = false`). *)
From KV Require Import Base.Prelude Base.Crc32 Base.Snappy Gen.Consts
                       Model.Codecs Model.Requests Model.Responses Model.Ownership
                       Spec.MsgSetSpec Proofs.BytesFacts Proofs.C02Lemmas Proofs.C02Facts.
From Coq Require Import ZifyBool.

(* ====================================================================== *)
(* 1. bounds of every view                                                 *)
(* ====================================================================== *)

(* ZReader::read(n): exactly n bytes, a prefix of what was there; the reader keeps the rest *)
Theorem C18_zread_exact : forall n bs x r,
  zread n bs = Ok (x, r) -> length x = n /\ bs = x ++ r.
Proof.
  intros n bs x r H. rewrite zread_unfold in H.
  destruct (Nat.ltb (length bs) n) eqn:E; [discriminate H|].
  apply Nat.ltb_ge in E. inversion H; subst. split.
  - rewrite firstn_length. lia.
  - symmetry. apply firstn_skipn.
Qed.

Lemma zread_int_inv n bs (v : Z) r :
  (let* '(x, r') := zread n bs in Ok (be_dec_s x, r')) = Ok (v, r) ->
  exists x, length x = n /\ bs = x ++ r.
Proof.
  intros H. destruct (zread n bs) as [[x r']|e|w] eqn:E; cbn [bind] in H; try discriminate H.
  inversion H; subst. apply C18_zread_exact in E. eauto.
Qed.

(* `get_unchecked(0)` after `read(1)` (zreader.rs:50-52) is in bounds *)
Theorem C18_zread_i8_in_bounds : forall bs v r,
  zread_i8 bs = Ok (v, r) -> exists b, bs = b :: r.
Proof.
  intros bs v r H. unfold zread_i8 in H. apply zread_int_inv in H.
  destruct H as [x [Hx ->]]. destruct x as [|b [|b' x]]; try discriminate Hx.
  exists b. reflexivity.
Qed.

(* ZReader::read_bytes: a 4 byte length, then the slice, then the rest *)
Lemma zread_bytes_inv bs x r :
  zread_bytes bs = Ok (x, r) -> exists h, length h = 4%nat /\ bs = h ++ x ++ r.
Proof.
  intros H. rewrite zread_bytes_unfold in H.
  destruct (zread_i32 bs) as [[len r1]|e|w] eqn:E; cbn [bind] in H; try discriminate H.
  unfold zread_i32 in E. apply zread_int_inv in E. destruct E as [h [Hh ->]].
  exists h. split; [exact Hh|].
  destruct (len <=? 0).
  - inversion H; subst. reflexivity.
  - destruct (Z.of_nat (length r1) <? len); [discriminate H|].
    apply C18_zread_exact in H. destruct H as [_ ->]. reflexivity.
Qed.

(* ProtocolMessage::from_slice: crc 4, magic 1, attr 1, key length 4 | key | value length 4 | value *)
Lemma protocol_message_inv dbg validate raw attr k v :
  protocol_message dbg validate raw = Ok (attr, k, v) ->
  exists p1 p2 p3, raw = p1 ++ k ++ p2 ++ v ++ p3 /\ length p1 = 10%nat /\ length p2 = 4%nat.
Proof.
  intros H. unfold protocol_message in H.
  destruct (zread_i32 raw) as [[crc r1]|e|w] eqn:E1; cbn [bind] in H; try discriminate H.
  destruct (validate && negb (wrap_s 32 (crc32 r1) =? crc)); [discriminate H|].
  destruct (zread_i8 r1) as [[magic r2]|e|w] eqn:E2; cbn [bind] in H; try discriminate H.
  destruct (negb (magic =? 0)); [discriminate H|].
  destruct (zread_i8 r2) as [[a r3]|e|w] eqn:E3; cbn [bind] in H; try discriminate H.
  destruct (zread_bytes r3) as [[k' r4]|e|w] eqn:E4; cbn [bind] in H; try discriminate H.
  destruct (zread_bytes r4) as [[v' r5]|e|w] eqn:E5; cbn [bind] in H; try discriminate H.
  assert (Hr : (attr, k, v) = (a, k', v')).
  { destruct r5 as [|b5 r5]; [|destruct dbg; [discriminate H|]]; inversion H; reflexivity. }
  inversion Hr; subst a k' v'. clear Hr H.
  unfold zread_i32 in E1. apply zread_int_inv in E1. destruct E1 as [h1 [L1 ->]].
  unfold zread_i8 in E2, E3.
  apply zread_int_inv in E2. destruct E2 as [x2 [L2 ->]].
  apply zread_int_inv in E3. destruct E3 as [x3 [L3 ->]].
  apply zread_bytes_inv in E4. destruct E4 as [h4 [L4 ->]].
  apply zread_bytes_inv in E5. destruct E5 as [h5 [L5 ->]].
  exists (h1 ++ x2 ++ x3 ++ h4), h5, r5. split; [|split].
  - rewrite <- !app_assoc. reflexivity.
  - rewrite !app_length. lia.
  - exact L5.
Qed.

(* MessageSet::next_message: where key and value lie inside the buffer they were parsed from.
   22 = offset 8 + size 4 + crc 4 + magic 1 + attr 1 + key length 4; the two views do not overlap,
   the key comes first; `r` (what the reader goes on with) is a suffix of the buffer.
   (p3 is non-empty only when the size field covers more than the fields; release builds only.) *)
Theorem C18_views_layout : forall dbg validate bs off attr k v r,
  next_message dbg validate bs = Ok (off, (attr, k, v), r) ->
  exists p1 p2 p3, bs = p1 ++ k ++ p2 ++ v ++ p3 ++ r /\ length p1 = 22%nat /\ length p2 = 4%nat.
Proof.
  intros dbg validate bs off attr k v r H. unfold next_message in H.
  destruct (zread_i64 bs) as [[o r1]|e|w] eqn:E1; cbn [bind] in H; try discriminate H.
  destruct (zread_bytes r1) as [[msg r2]|e|w] eqn:E2; cbn [bind] in H; try discriminate H.
  destruct (protocol_message dbg validate msg) as [[[a k'] v']|e|w] eqn:E3;
    cbn [bind] in H; try discriminate H.
  inversion H; subst o a k' v' r2. clear H.
  unfold zread_i64 in E1. apply zread_int_inv in E1. destruct E1 as [h1 [L1 ->]].
  apply zread_bytes_inv in E2. destruct E2 as [h2 [L2 ->]].
  apply protocol_message_inv in E3. destruct E3 as [p1 [p2 [p3 [-> [Lp1 Lp2]]]]].
  exists (h1 ++ h2 ++ p1), p2, p3. split; [|split].
  - rewrite <- !app_assoc. reflexivity.
  - rewrite !app_length. lia.
  - exact Lp2.
Qed.

(* key and value are sub-slices of the buffer they were parsed from: within bounds, byte-identical *)
Theorem C18_views_are_subslices : forall dbg validate bs off attr k v r,
  next_message dbg validate bs = Ok (off, (attr, k, v), r) ->
  exists pre post, bs = pre ++ k ++ post /\ exists pre' post', bs = pre' ++ v ++ post'.
Proof.
  intros dbg validate bs off attr k v r H.
  apply C18_views_layout in H. destruct H as [p1 [p2 [p3 [E _]]]].
  exists p1, (p2 ++ v ++ p3 ++ r). split; [exact E|].
  exists (p1 ++ k ++ p2), (p3 ++ r). rewrite E, <- !app_assoc. reflexivity.
Qed.

(* the remaining input of every read is a suffix of the buffer: the loop never leaves it *)
Corollary C18_rest_is_suffix : forall dbg validate bs off pm r,
  next_message dbg validate bs = Ok (off, pm, r) -> exists used, bs = used ++ r /\ (12 <= length used)%nat.
Proof.
  intros dbg validate bs off [[attr k] v] r H.
  apply C18_views_layout in H. destruct H as [p1 [p2 [p3 [E [L1 L2]]]]].
  exists (p1 ++ k ++ p2 ++ v ++ p3). split.
  - rewrite E, <- !app_assoc. reflexivity.
  - rewrite !app_length. lia.
Qed.

(* C18_immutable (remark, no theorem).  A fetch result is a Gallina value: no model operation takes
   one and returns a changed one, and stating "iterate only reads" would be an equation proved by
   reflexivity on a projection, which says nothing.  What carries the content on the Rust side is
   that (1) `Message::key/value` are shared `&[u8]`, the crate exposes no `&mut` path to
   `Response::raw_data` or `MessageSet::raw_data` (both private, `#[allow(dead_code)]` on the
   latter), and (2) the buffers are never written after parsing (`from_vec` moves `data` into
   `Cow::Owned(data)`; moving a `Vec` does not move its heap block).  So "unchanged" reduces to
   "alive", which is what C18_views_owned_always states below (the result owns the buffer of level
   `view_level ...`), and "byte-identical at parse time", which is C18_views_layout. *)

(* ====================================================================== *)
(* 2. view_level follows the decoder                                       *)
(* ====================================================================== *)

Definition same_outcome {A B} (r1 : res A) (r2 : res B) : Prop :=
  match r1, r2 with
  | Ok _, Ok _ => True
  | Err e1, Err e2 => e1 = e2
  | Panic w1, Panic w2 => w1 = w2
  | _, _ => False
  end.

Lemma same_outcome_bind_S {A} (r1 : res A) (r2 : res nat) :
  same_outcome r1 r2 -> same_outcome r1 (let* l := r2 in Ok (S l)).
Proof. destruct r1, r2; cbn [bind same_outcome]; auto. Qed.

Lemma loops_agree inner1 inner2 dbg validate req :
  (forall c v, same_outcome (inner1 c v) (inner2 c v)) ->
  forall fuel bs acc,
    same_outcome (ms_loop inner1 dbg validate req fuel bs acc)
                 (level_loop inner2 dbg validate fuel bs).
Proof.
  intros Hin. induction fuel as [|f IH]; intros bs acc.
  - destruct bs; cbn [ms_loop level_loop same_outcome]; auto.
  - destruct bs as [|b bs]; [exact I|].
    cbn [ms_loop level_loop].
    destruct (next_message dbg validate (b :: bs)) as [[[off [[attr k] v]] r]|e|w].
    + destruct (Z.land attr 7 =? COMPRESSION_NONE); [apply IH|].
      destruct ((Z.land attr 7 =? COMPRESSION_GZIP) || (Z.land attr 7 =? COMPRESSION_SNAPPY));
        [apply Hin|exact eq_refl].
    + destruct e; cbn [same_outcome]; auto.
    + exact eq_refl.
Qed.

(* the closure handed to the loop by view_level *)
Definition level_inner_of (cz : codecs) (d : nat) (validate : bool) : Z -> bytes -> res nat :=
  fun c v =>
    if c =? COMPRESSION_GZIP then
      match gz_decompress cz v with
      | Some data => let* l := view_level cz d validate data in Ok (S l)
      | None => Err (EIo IoOther)
      end
    else if alloc_limit <=? xerial_max_alloc v then alloc_panic
    else
      let* data := xerial_read_to_end v in
      let* l := view_level cz d validate data in Ok (S l).

Lemma view_level_S cz d validate bs :
  view_level cz (S d) validate bs
  = level_loop (level_inner_of cz d validate) (debug_build cz) validate (S (length bs)) bs.
Proof. reflexivity. Qed.

Lemma decoders_agree cz validate req : forall depth bs,
  same_outcome (from_slice cz depth validate req bs) (view_level cz depth validate bs).
Proof.
  induction depth as [|d IH]; intros bs; [exact eq_refl|].
  rewrite from_slice_S, view_level_S. apply loops_agree. intros c v.
  unfold inner_of, level_inner_of.
  destruct (c =? COMPRESSION_GZIP).
  - destruct (gz_decompress cz v) as [data|]; [|exact eq_refl].
    apply same_outcome_bind_S, IH.
  - destruct (alloc_limit <=? xerial_max_alloc v); [exact eq_refl|].
    destruct (xerial_read_to_end v) as [data|e|w]; cbn [bind]; [|exact eq_refl|exact eq_refl].
    apply same_outcome_bind_S, IH.
Qed.

(* the two decoders agree on success: view_level is defined exactly when from_slice is *)
Theorem C18_level_defined : forall cz depth validate req bs,
  (exists ms, from_slice cz depth validate req bs = Ok ms)
  <-> (exists l, view_level cz depth validate bs = Ok l).
Proof.
  intros cz depth validate req bs.
  pose proof (decoders_agree cz validate req depth bs) as A.
  split; intros [x H]; rewrite H in A.
  - destruct (view_level cz depth validate bs) as [l|e|w]; cbn [same_outcome] in A;
      [eauto|contradiction|contradiction].
  - destruct (from_slice cz depth validate req bs) as [ms|e|w]; cbn [same_outcome] in A;
      [eauto|contradiction|contradiction].
Qed.

(* ... and they fail alike: same error, same panic *)
Theorem C18_level_err : forall cz depth validate req bs e,
  from_slice cz depth validate req bs = Err e <-> view_level cz depth validate bs = Err e.
Proof.
  intros cz depth validate req bs e.
  pose proof (decoders_agree cz validate req depth bs) as A.
  split; intros H; rewrite H in A.
  - destruct (view_level cz depth validate bs) as [l|e'|w]; cbn [same_outcome] in A;
      [contradiction|subst; reflexivity|contradiction].
  - destruct (from_slice cz depth validate req bs) as [ms|e'|w]; cbn [same_outcome] in A;
      [contradiction|subst; reflexivity|contradiction].
Qed.

Theorem C18_level_panic : forall cz depth validate req bs w,
  from_slice cz depth validate req bs = Panic w <-> view_level cz depth validate bs = Panic w.
Proof.
  intros cz depth validate req bs w.
  pose proof (decoders_agree cz validate req depth bs) as A.
  split; intros H; rewrite H in A.
  - destruct (view_level cz depth validate bs) as [l|e|w']; cbn [same_outcome] in A;
      [contradiction|contradiction|subst; reflexivity].
  - destruct (from_slice cz depth validate req bs) as [ms|e|w']; cbn [same_outcome] in A;
      [contradiction|contradiction|subst; reflexivity].
Qed.

(* ====================================================================== *)
(* 2b. the result owns the buffer its views point into (repaired from_vec)  *)
(* ====================================================================== *)

(* the closure handed to the loop by owner_level (`from_vec` inlined) *)
Definition owner_inner_of (cz : codecs) (d : nat) (validate : bool) : Z -> bytes -> res (option nat) :=
  fun c v =>
    if c =? COMPRESSION_GZIP then
      match gz_decompress cz v with
      | Some data => let* o := owner_level cz d validate data in
                     Ok (Some (match o with None => 1%nat | Some l => S l end))
      | None => Err (EIo IoOther)
      end
    else if alloc_limit <=? xerial_max_alloc v then alloc_panic
    else
      let* data := xerial_read_to_end v in
      let* o := owner_level cz d validate data in
      Ok (Some (match o with None => 1%nat | Some l => S l end)).

Lemma owner_level_S cz d validate bs :
  owner_level cz (S d) validate bs
  = owner_loop (owner_inner_of cz d validate) (debug_build cz) validate (S (length bs)) bs.
Proof. reflexivity. Qed.

Lemma level_of_owner_loop (g : option nat -> nat) inner1 inner2 dbg validate :
  g None = O ->
  (forall c v, inner2 c v = let* o := inner1 c v in Ok (g o)) ->
  forall fuel bs,
    level_loop inner2 dbg validate fuel bs
    = let* o := owner_loop inner1 dbg validate fuel bs in Ok (g o).
Proof.
  intros Hg Hin. induction fuel as [|f IH]; intros bs.
  - destruct bs; cbn [level_loop owner_loop bind]; [rewrite Hg|]; reflexivity.
  - destruct bs as [|b bs]; [cbn [level_loop owner_loop bind]; rewrite Hg; reflexivity|].
    cbn [level_loop owner_loop].
    destruct (next_message dbg validate (b :: bs)) as [[[off [[attr k] v]] r]|e|w].
    + destruct (Z.land attr 7 =? COMPRESSION_NONE); [apply IH|].
      destruct ((Z.land attr 7 =? COMPRESSION_GZIP) || (Z.land attr 7 =? COMPRESSION_SNAPPY));
        [apply Hin|reflexivity].
    + destruct e; cbn [bind]; rewrite ?Hg; reflexivity.
    + reflexivity.
Qed.

Lemma owner_of_level_loop (h : nat -> option nat) inner1 inner2 dbg validate :
  h O = None ->
  (forall c v, inner1 c v = let* l := inner2 c v in Ok (h l)) ->
  forall fuel bs,
    owner_loop inner1 dbg validate fuel bs
    = let* l := level_loop inner2 dbg validate fuel bs in Ok (h l).
Proof.
  intros Hh Hin. induction fuel as [|f IH]; intros bs.
  - destruct bs; cbn [level_loop owner_loop bind]; [rewrite Hh|]; reflexivity.
  - destruct bs as [|b bs]; [cbn [level_loop owner_loop bind]; rewrite Hh; reflexivity|].
    cbn [level_loop owner_loop].
    destruct (next_message dbg validate (b :: bs)) as [[[off [[attr k] v]] r]|e|w].
    + destruct (Z.land attr 7 =? COMPRESSION_NONE); [apply IH|].
      destruct ((Z.land attr 7 =? COMPRESSION_GZIP) || (Z.land attr 7 =? COMPRESSION_SNAPPY));
        [apply Hin|reflexivity].
    + destruct e; cbn [bind]; rewrite ?Hh; reflexivity.
    + reflexivity.
Qed.

(* MAIN: for ALL inputs (any bytes, any depth bound, both build modes, CRC validation on or off):
   whenever decoding succeeds, the buffer the exposed views point into (level l) is exactly the
   one the returned set owns - `None` = nothing owned = the views point into the input itself,
   i.e. level 0, the response buffer owned by Response::raw_data - and errors / panics coincide. *)
Theorem C18_views_owned_always : forall cz depth validate bs,
  view_level cz depth validate bs
  = (let* o := owner_level cz depth validate bs in
     Ok (match o with None => 0%nat | Some l => l end)).
Proof.
  intros cz depth validate. induction depth as [|d IH]; intros bs; [reflexivity|].
  rewrite view_level_S, owner_level_S. apply level_of_owner_loop; [reflexivity|].
  intros c v. unfold level_inner_of, owner_inner_of.
  destruct (c =? COMPRESSION_GZIP).
  - destruct (gz_decompress cz v) as [data|]; [|reflexivity].
    rewrite IH. destruct (owner_level cz d validate data) as [[l|]|e|w]; reflexivity.
  - destruct (alloc_limit <=? xerial_max_alloc v); [reflexivity|].
    destruct (xerial_read_to_end v) as [data|e|w]; cbn [bind]; [|reflexivity|reflexivity].
    rewrite IH. destruct (owner_level cz d validate data) as [[l|]|e|w]; reflexivity.
Qed.

(* the converse reading: what is owned is determined by the level; in particular the owned level
   is never `Some 0` (the response buffer is owned by the Response, not by a MessageSet) *)
Theorem C18_owner_is_view_level : forall cz depth validate bs,
  owner_level cz depth validate bs
  = (let* l := view_level cz depth validate bs in
     Ok (if Nat.eqb l 0 then None else Some l)).
Proof.
  intros cz depth validate. induction depth as [|d IH]; intros bs; [reflexivity|].
  rewrite view_level_S, owner_level_S.
  apply (owner_of_level_loop (fun l => if Nat.eqb l 0 then None else Some l)); [reflexivity|].
  intros c v. unfold level_inner_of, owner_inner_of.
  destruct (c =? COMPRESSION_GZIP).
  - destruct (gz_decompress cz v) as [data|]; [|reflexivity].
    rewrite IH. destruct (view_level cz d validate data) as [[|n]|e|w]; reflexivity.
  - destruct (alloc_limit <=? xerial_max_alloc v); [reflexivity|].
    destruct (xerial_read_to_end v) as [data|e|w]; cbn [bind]; [|reflexivity|reflexivity].
    rewrite IH. destruct (view_level cz d validate data) as [[|n]|e|w]; reflexivity.
Qed.

Lemma owner_of_view_level cz depth validate bs l :
  view_level cz depth validate bs = Ok l ->
  owner_level cz depth validate bs = Ok (if Nat.eqb l 0 then None else Some l).
Proof. intros H. rewrite C18_owner_is_view_level, H. reflexivity. Qed.

(* owner_level is defined exactly when from_slice is, and fails alike *)
Theorem C18_owner_defined : forall cz depth validate req bs,
  (exists ms, from_slice cz depth validate req bs = Ok ms)
  <-> (exists o, owner_level cz depth validate bs = Ok o).
Proof.
  intros cz depth validate req bs. rewrite C18_level_defined. split.
  - intros [l H]. apply owner_of_view_level in H. eauto.
  - intros [o H]. rewrite C18_views_owned_always, H. cbn [bind]. eauto.
Qed.

Theorem C18_owner_err : forall cz depth validate req bs e,
  from_slice cz depth validate req bs = Err e <-> owner_level cz depth validate bs = Err e.
Proof.
  intros cz depth validate req bs e. rewrite C18_level_err. split; intros H.
  - rewrite C18_owner_is_view_level, H. reflexivity.
  - rewrite C18_views_owned_always, H. reflexivity.
Qed.

Theorem C18_owner_panic : forall cz depth validate req bs w,
  from_slice cz depth validate req bs = Panic w <-> owner_level cz depth validate bs = Panic w.
Proof.
  intros cz depth validate req bs w. rewrite C18_level_panic. split; intros H.
  - rewrite C18_owner_is_view_level, H. reflexivity.
  - rewrite C18_views_owned_always, H. reflexivity.
Qed.

(* ====================================================================== *)
(* 3. the level of serialised sets                                         *)
(* ====================================================================== *)

(* number of head wrappers below (and including) e, followed down to an uncompressed set *)
Fixpoint chain_entry_level (e : entry) : nat :=
  match e with
  | Plain _ _ _ => O
  | Wrapper _ _ inner =>
      S (match inner with
         | (Wrapper _ _ _ as x) :: _ => chain_entry_level x
         | _ => O
         end)
  end.

Section C18.
  Variable comp : Z -> bytes -> bytes.

  (* ---- the level loop, one step at a time -------------------------------- *)

  Lemma level_loop_nil inner dbg validate fuel : level_loop inner dbg validate fuel [] = Ok O.
  Proof. destruct fuel; reflexivity. Qed.

  Lemma level_loop_eof inner dbg validate f bs :
    next_message dbg validate bs = Err EUnexpectedEOF ->
    level_loop inner dbg validate (S f) bs = Ok O.
  Proof.
    intros H. destruct bs as [|b bs]; [reflexivity|].
    cbn [level_loop]. rewrite H. reflexivity.
  Qed.

  Lemma level_loop_plain_step inner dbg validate f bs off k v r :
    bs <> [] ->
    next_message dbg validate bs = Ok (off, (0, k, v), r) ->
    level_loop inner dbg validate (S f) bs = level_loop inner dbg validate f r.
  Proof.
    intros Hne H. destruct bs as [|b bs]; [congruence|].
    cbn [level_loop]. rewrite H. reflexivity.
  Qed.

  Lemma level_loop_wrapper_step inner dbg validate f bs off c k v r :
    bs <> [] -> c = 1 \/ c = 2 ->
    next_message dbg validate bs = Ok (off, (c, k, v), r) ->
    level_loop inner dbg validate (S f) bs = inner c v.
  Proof.
    intros Hne Hc H. destruct bs as [|b bs]; [congruence|].
    cbn [level_loop]. rewrite H. destruct Hc as [-> | ->]; reflexivity.
  Qed.

  Lemma level_loop_cut inner dbg validate f e r k :
    wf_entry comp e -> (k < length (ser_entry comp e))%nat ->
    level_loop inner dbg validate (S f) (firstn k (ser comp (e :: r))) = Ok O.
  Proof.
    intros Hwf Hk. rewrite ser_cons, firstn_app_lt by lia.
    apply level_loop_eof. apply next_message_strict_prefix; assumption.
  Qed.

  Lemma level_loop_plain inner dbg validate : forall es k fuel,
    all_plain es -> wf_entries comp es ->
    (length (firstn k (ser comp es)) < fuel)%nat ->
    level_loop inner dbg validate fuel (firstn k (ser comp es)) = Ok O.
  Proof.
    induction es as [|e r IH]; intros k fuel Hp Hwf Hfuel.
    - unfold ser. cbn [flat_map]. rewrite firstn_nil. apply level_loop_nil.
    - apply all_plain_cons in Hp. destruct Hp as [[o [key [v ->]]] Hpr].
      inversion Hwf as [|x l Hwe Hwr]; subst.
      destruct fuel as [|f]; [lia|].
      destruct (Nat.leb (length (ser_entry comp (Plain o key v))) k) eqn:E.
      + apply Nat.leb_le in E. destruct Hwe as [Ho Hf].
        rewrite ser_cons in *. rewrite firstn_app_ge in * by exact E.
        rewrite app_length in Hfuel.
        rewrite (level_loop_plain_step inner dbg validate f _ o (view_opt key) (view_opt v)
                   (firstn (k - length (ser_entry comp (Plain o key v))) (ser comp r))).
        2:{ apply ser_entry_nonempty. }
        2:{ rewrite ser_entry_plain. apply next_message_complete; try assumption.
            unfold in_i8. lia. }
        apply IH; try assumption.
        pose proof (ser_entry_length_pos comp (Plain o key v)). lia.
      + apply Nat.leb_gt in E. apply level_loop_cut; assumption.
  Qed.

  (* ---- the decompressing step ---------------------------------------------- *)

  Lemma level_inner_of_comp cz d validate c x :
    codec_ok cz comp -> c = 1 \/ c = 2 -> (c = 2 -> blen x < alloc_limit) ->
    level_inner_of cz d validate c (comp c x) = let* l := view_level cz d validate x in Ok (S l).
  Proof.
    intros [Hgz Hsn] [-> | ->] Hx; unfold level_inner_of.
    - change (1 =? COMPRESSION_GZIP) with true. cbv iota. rewrite Hgz. reflexivity.
    - change (2 =? COMPRESSION_GZIP) with false. cbv iota.
      destruct (Hsn x (Hx eq_refl)) as [H1 H2].
      destruct (alloc_limit <=? xerial_max_alloc (comp 2 x)) eqn:E; [lia|].
      rewrite H1. reflexivity.
  Qed.

  (* a complete wrapper at the head: one level deeper than the level of the inner set *)
  Lemma view_level_wrapper_head cz d validate c off inner rest k :
    codec_ok cz comp -> wf_entry comp (Wrapper c off inner) ->
    (length (ser_entry comp (Wrapper c off inner)) <= k)%nat ->
    view_level cz (S d) validate (firstn k (ser comp (Wrapper c off inner :: rest)))
    = let* l := view_level cz d validate (ser comp inner) in Ok (S l).
  Proof.
    intros Hc Hwf Hk. pose proof Hwf as Hwf'. apply wf_entry_wrapper in Hwf'.
    destruct Hwf' as [Hcc [Ho [Hf [Hal Hin]]]].
    rewrite view_level_S, ser_cons, firstn_app_ge by exact Hk.
    rewrite (level_loop_wrapper_step _ _ _ _ _ off c [] (comp c (ser comp inner))
               (firstn (k - length (ser_entry comp (Wrapper c off inner))) (ser comp rest))).
    - apply level_inner_of_comp; assumption.
    - apply ser_entry_nonempty.
    - assumption.
    - rewrite ser_entry_wrapper.
      rewrite next_message_complete; try assumption; [reflexivity|].
      unfold in_i8. destruct Hcc; lia.
  Qed.

  (* the head wrapper is cut: no message is exposed, nothing was decompressed *)
  Lemma view_level_wrapper_cut cz d validate c off inner rest k :
    wf_entry comp (Wrapper c off inner) ->
    (k < length (ser_entry comp (Wrapper c off inner)))%nat ->
    view_level cz (S d) validate (firstn k (ser comp (Wrapper c off inner :: rest))) = Ok O.
  Proof. intros Hwf Hk. rewrite view_level_S. apply level_loop_cut; assumption. Qed.

  (* ---- uncompressed sets --------------------------------------------------------- *)

  (* the views point into the response buffer, owned by the Response *)
  Theorem C18_plain_views_in_response : forall cz d validate es k,
    all_plain es -> wf_entries comp es ->
    view_level cz (S d) validate (firstn k (ser comp es)) = Ok 0%nat.
  Proof.
    intros cz d validate es k Hp Hwf. rewrite view_level_S.
    apply level_loop_plain; try assumption. lia.
  Qed.

  (* ---- one compressed batch at the head --------------------------------------------- *)

  (* the views point into the decompressed vector owned by the partition's MessageSet;
     `rest` is arbitrary (it is never read) *)
  Theorem C18_wrapper_views_owned : forall cz d validate c off inner rest k,
    codec_ok cz comp -> all_plain inner -> wf_entry comp (Wrapper c off inner) ->
    (length (ser_entry comp (Wrapper c off inner)) <= k)%nat ->
    view_level cz (S (S d)) validate (firstn k (ser comp (Wrapper c off inner :: rest))) = Ok 1%nat.
  Proof.
    intros cz d validate c off inner rest k Hc Hp Hwf Hk.
    rewrite view_level_wrapper_head by assumption.
    rewrite <- (firstn_all (ser comp inner)).
    rewrite C18_plain_views_in_response; [reflexivity|assumption|].
    apply wf_entry_wrapper in Hwf. tauto.
  Qed.

  (* sets whose decoding follows at most one wrapper: all plain, or a head wrapper (complete or
     cut) around an all-plain set, whatever comes behind it *)
  Inductive one_wrapper : list entry -> Prop :=
  | OW_plain es : all_plain es -> wf_entries comp es -> one_wrapper es
  | OW_head c off inner rest :
      all_plain inner -> wf_entry comp (Wrapper c off inner) ->
      one_wrapper (Wrapper c off inner :: rest).

  Theorem C18_views_owned : forall cz d validate es k,
    codec_ok cz comp -> one_wrapper es ->
    exists l, view_level cz (S (S d)) validate (firstn k (ser comp es)) = Ok l
              /\ owner_level cz (S (S d)) validate (firstn k (ser comp es))
                 = Ok (if Nat.eqb l 0 then None else Some l)
              /\ (l <= 1)%nat.
  Proof.
    intros cz d validate es k Hc Hone.
    assert (H : exists l, view_level cz (S (S d)) validate (firstn k (ser comp es)) = Ok l
                          /\ (l <= 1)%nat).
    { destruct Hone as [es' Hp Hwf|c off inner rest Hp Hwf].
      - exists 0%nat. split; [apply C18_plain_views_in_response; assumption|lia].
      - destruct (Nat.leb (length (ser_entry comp (Wrapper c off inner))) k) eqn:E.
        + apply Nat.leb_le in E. exists 1%nat.
          split; [apply C18_wrapper_views_owned; assumption|lia].
        + apply Nat.leb_gt in E. exists 0%nat.
          split; [apply view_level_wrapper_cut; assumption|lia]. }
    destruct H as [l [H1 H2]]. exists l.
    split; [exact H1|]. split; [apply owner_of_view_level; exact H1|exact H2].
  Qed.

  (* ---- every well-formed set: the level never exceeds the nesting depth ----------------- *)

  Lemma level_loop_bound cz validate d :
    codec_ok cz comp ->
    (forall es k, wf_entries comp es -> (depth es < d)%nat ->
       exists l, view_level cz d validate (firstn k (ser comp es)) = Ok l /\ (l <= depth es)%nat) ->
    forall es k fuel,
      wf_entries comp es -> (depth es <= d)%nat ->
      (length (firstn k (ser comp es)) < fuel)%nat ->
      exists l,
        level_loop (level_inner_of cz d validate) (debug_build cz) validate fuel
                   (firstn k (ser comp es)) = Ok l
        /\ (l <= depth es)%nat.
  Proof.
    intros Hc Hrec. induction es as [|e r IH]; intros k fuel Hwf Hd Hfuel.
    - exists 0%nat. unfold ser. cbn [flat_map]. rewrite firstn_nil, level_loop_nil.
      split; [reflexivity|lia].
    - inversion Hwf as [|x l Hwe Hwr]; subst.
      destruct fuel as [|f]; [lia|].
      rewrite depth_cons in *.
      destruct (Nat.leb (length (ser_entry comp e)) k) eqn:E.
      + apply Nat.leb_le in E.
        destruct e as [o key v|c o inner].
        * destruct Hwe as [Ho Hf].
          rewrite ser_cons in *. rewrite firstn_app_ge in * by exact E.
          rewrite app_length in Hfuel.
          rewrite (level_loop_plain_step _ _ _ f _ o (view_opt key) (view_opt v)
                     (firstn (k - length (ser_entry comp (Plain o key v))) (ser comp r))).
          2:{ apply ser_entry_nonempty. }
          2:{ rewrite ser_entry_plain. apply next_message_complete; try assumption.
              unfold in_i8. lia. }
          pose proof (ser_entry_length_pos comp (Plain o key v)) as Hpos.
          destruct (IH (k - length (ser_entry comp (Plain o key v)))%nat f) as [l [H1 H2]];
            [assumption|lia|lia|].
          exists l. split; [exact H1|lia].
        * rewrite depth_entry_wrapper in *.
          pose proof Hwe as Hwe'. apply wf_entry_wrapper in Hwe'.
          destruct Hwe' as [Hcc [Ho [Hf [Hal Hin]]]].
          rewrite ser_cons, firstn_app_ge by exact E.
          rewrite (level_loop_wrapper_step _ _ _ _ _ o c [] (comp c (ser comp inner))
                     (firstn (k - length (ser_entry comp (Wrapper c o inner))) (ser comp r))).
          2:{ apply ser_entry_nonempty. }
          2:{ assumption. }
          2:{ rewrite ser_entry_wrapper.
              rewrite next_message_complete; try assumption; [reflexivity|].
              unfold in_i8. destruct Hcc; lia. }
          rewrite level_inner_of_comp by assumption.
          destruct (Hrec inner (length (ser comp inner)) Hin) as [l [H1 H2]]; [lia|].
          rewrite firstn_all in H1. rewrite H1. cbn [bind].
          exists (S l). split; [reflexivity|lia].
      + apply Nat.leb_gt in E. rewrite level_loop_cut by assumption.
        exists 0%nat. split; [reflexivity|lia].
  Qed.

  Lemma level_le_depth : forall cz validate,
    codec_ok cz comp ->
    forall fuel es k, wf_entries comp es -> (depth es < fuel)%nat ->
    exists l, view_level cz fuel validate (firstn k (ser comp es)) = Ok l /\ (l <= depth es)%nat.
  Proof.
    intros cz validate Hc. induction fuel as [|d IH]; intros es k Hwf Hd; [lia|].
    rewrite view_level_S.
    apply (level_loop_bound cz validate d Hc IH); [assumption|lia|lia].
  Qed.

  (* Every well-formed set (also of class `Known`), any truncation point: the level is defined,
     the returned set owns that buffer, and the level is bounded by the nesting depth of the set. *)
  Theorem C18_level_le_depth : forall cz validate,
    codec_ok cz comp ->
    forall fuel es k, wf_entries comp es -> (depth es < fuel)%nat ->
    exists l, view_level cz fuel validate (firstn k (ser comp es)) = Ok l
              /\ owner_level cz fuel validate (firstn k (ser comp es))
                 = Ok (if Nat.eqb l 0 then None else Some l)
              /\ (l <= depth es)%nat.
  Proof.
    intros cz validate Hc fuel es k Hwf Hd.
    destruct (level_le_depth cz validate Hc fuel es k Hwf Hd) as [l [H1 H2]].
    exists l. split; [exact H1|]. split; [apply owner_of_view_level; exact H1|exact H2].
  Qed.

  (* no batch inside a batch: what is exposed points into the response buffer or into the one
     decompressed vector the partition's MessageSet owns (this was the safe class before the fix) *)
  Theorem C18_views_owned_depth1 : forall cz d validate es k,
    codec_ok cz comp -> wf_entries comp es -> (depth es <= 1)%nat ->
    exists l, view_level cz (S (S d)) validate (firstn k (ser comp es)) = Ok l
              /\ owner_level cz (S (S d)) validate (firstn k (ser comp es))
                 = Ok (if Nat.eqb l 0 then None else Some l)
              /\ (l <= 1)%nat.
  Proof.
    intros cz d validate es k Hc Hwf Hd.
    destruct (C18_level_le_depth cz validate Hc (S (S d)) es k Hwf) as [l [H1 [H2 H3]]]; [lia|].
    exists l. split; [exact H1|]. split; [exact H2|lia].
  Qed.

  (* ---- head chains: the level is the number of wrappers followed -------------------------- *)

  Definition chain_level (es : list entry) (k : nat) : nat :=
    match es with
    | (Wrapper _ _ _ as x) :: _ =>
        if Nat.leb (length (ser_entry comp x)) k then chain_entry_level x else O
    | _ => O
    end.

  Lemma chain_level_plain es k : all_plain es -> chain_level es k = O.
  Proof.
    intros H. destruct es as [|e r]; [reflexivity|].
    apply all_plain_cons in H. destruct H as [[o [key [v ->]]] _]. reflexivity.
  Qed.

  Lemma chain_entry_level_wrapper c o inner :
    chain_entry_level (Wrapper c o inner) = S (chain_level inner (length (ser comp inner))).
  Proof.
    destruct inner as [|[o' k' v'|c' o' inner'] r]; [reflexivity|reflexivity|].
    unfold chain_level.
    destruct (Nat.leb (length (ser_entry comp (Wrapper c' o' inner')))
                      (length (ser comp (Wrapper c' o' inner' :: r)))) eqn:E; [reflexivity|].
    apply Nat.leb_gt in E. rewrite ser_cons, app_length in E. lia.
  Qed.

  Theorem C18_level_is_chain_depth : forall cz validate,
    codec_ok cz comp ->
    forall fuel es k, first_chain es -> wf_entries comp es -> (depth es < fuel)%nat ->
    view_level cz fuel validate (firstn k (ser comp es)) = Ok (chain_level es k).
  Proof.
    intros cz validate Hc. induction fuel as [|d IH]; intros es k Hfc Hwf Hd; [lia|].
    destruct Hfc as [es Hp|c o inner rest Hin].
    - rewrite chain_level_plain by assumption. apply C18_plain_views_in_response; assumption.
    - inversion Hwf as [|x l Hwe Hwr]; subst.
      rewrite depth_cons, depth_entry_wrapper in Hd.
      unfold chain_level.
      destruct (Nat.leb (length (ser_entry comp (Wrapper c o inner))) k) eqn:E.
      + apply Nat.leb_le in E. rewrite view_level_wrapper_head by assumption.
        rewrite chain_entry_level_wrapper.
        rewrite <- (firstn_all (ser comp inner)) at 1.
        rewrite IH; [reflexivity|assumption| |lia].
        apply wf_entry_wrapper in Hwe. tauto.
      + apply Nat.leb_gt in E. apply view_level_wrapper_cut; assumption.
  Qed.

  (* together with C02_chain: the messages `chain_msgs comp es k` the decoder exposes for a head
     chain live in the buffer of level `chain_level es k` *)
  Corollary C18_chain_messages_and_level : forall cz validate req,
    codec_ok cz comp ->
    forall fuel es k, first_chain es -> wf_entries comp es -> (depth es < fuel)%nat ->
    from_slice cz fuel validate req (firstn k (ser comp es))
      = Ok (map msg_of (filter (fun x => req <=? fst (fst x)) (chain_msgs comp es k)))
    /\ view_level cz fuel validate (firstn k (ser comp es)) = Ok (chain_level es k).
  Proof.
    intros cz validate req Hc fuel es k Hfc Hwf Hd. split.
    - apply C02_chain; assumption.
    - apply C18_level_is_chain_depth; assumption.
  Qed.

End C18.

(* ====================================================================== *)
(* 4. the old defect: a batch inside a batch (F13), before the repair       *)
(* ====================================================================== *)

(* A wrapper inside a wrapper (well-formed, outside class `Known`: C02 says the decoder returns
   exactly the innermost messages).  Those messages point into the vector of level 2.  BEFORE the
   repair, `from_vec` (fetch.rs:374) always built `raw_data: Cow::Owned(data)` and dropped
   `ms.raw_data = Cow::Owned(v2)`: only levels <= 1 were kept alive and the views dangled.  The
   repaired from_vec hands `Owned(v2)` on (see C18_nested_owned_after_fix_ex below).
   Witness: es_nest = gzip(snappy(es3)) followed by a plain message (157 + 27 bytes on the wire). *)
Theorem C18_nested_dangling_before_fix :
  exists cz comp es,
    codec_ok cz comp /\ wf_entries comp es /\
    view_level cz 3 true (ser comp es) = Ok 2%nat /\ kept_alive_before_fix 2 = false /\
    exists m ms, from_slice cz 3 true 0 (ser comp es) = Ok (m :: ms).
Proof.
  exists (wcz true), wcomp, es_nest.
  split; [apply wcomp_codec_ok|]. split; [exact es_nest_wf|].
  split; [vm_compute; reflexivity|]. split; [reflexivity|].
  eexists. eexists. vm_compute. reflexivity.
Qed.

(* after the repair the same input is fine: the set owns the vector of level 2 *)
Example C18_nested_owned_after_fix_ex :
  owner_level (wcz true) 3 true (ser wcomp es_nest) = Ok (Some 2%nat) /\
  view_level (wcz true) 3 true (ser wcomp es_nest) = Ok 2%nat.
Proof. vm_compute. split; reflexivity. Qed.

(* the same in a release build without CRC validation, snappy inside snappy, and what is exposed *)
Example C18_nested_dangling_before_fix_release :
  let es := [Wrapper 2 5 [Wrapper 2 5 es3]] in
  wf_entries wcomp es /\ ~ Known es /\
  view_level (wcz false) 3 false (ser wcomp es) = Ok 2%nat /\
  owner_level (wcz false) 3 false (ser wcomp es) = Ok (Some 2%nat) /\
  from_slice (wcz false) 3 false 1 (ser wcomp es) = Ok [m1; m2].
Proof.
  split; [wf_tac|]. split.
  { intros HK. inversion HK as [e r c o inner Hin|c o inner es Hin HK']; subst.
    - destruct Hin.
    - destruct Hin as [E|[]]. inversion E; subst. clear E.
      inversion HK' as [e r c o inner Hin|c o inner es Hin HK'']; subst.
      + destruct Hin.
      + destruct Hin as [E|[]]. inversion E; subst.
        exact (all_plain_not_Known es3 es3_plain HK''). }
  vm_compute. repeat split; reflexivity.
Qed.

(* ====================================================================== *)
(* 5. examples (non-vacuity)                                               *)
(* ====================================================================== *)

(* plain set -> level 0; gzip (identity) wrapper -> 1; snappy wrapper -> 1; snappy inside gzip -> 2 *)
Example C18_level_ex :
  view_level (wcz true) 3 true (ser wcomp es3) = Ok 0%nat /\
  view_level (wcz true) 3 true (ser wcomp es_gz) = Ok 1%nat /\
  view_level (wcz true) 3 true (ser wcomp es_sn) = Ok 1%nat /\
  view_level (wcz true) 3 true (ser wcomp es_nest) = Ok 2%nat.
Proof. vm_compute. repeat split; reflexivity. Qed.

(* C18_views_owned_always / C18_owner_is_view_level on the same inputs: nothing owned for the
   plain set (the Response owns the bytes), the level-1 vector for one batch, level 2 for two;
   on arbitrary bytes (not a serialised set) both sides fail alike *)
Example C18_views_owned_always_ex :
  owner_level (wcz true) 3 true (ser wcomp es3) = Ok None /\
  owner_level (wcz true) 3 true (ser wcomp es_gz) = Ok (Some 1%nat) /\
  owner_level (wcz true) 3 true (ser wcomp es_sn) = Ok (Some 1%nat) /\
  owner_level (wcz true) 3 true (ser wcomp es_nest) = Ok (Some 2%nat) /\
  owner_level (wcz true) 3 true (ser wcomp es_bad) = Ok (Some 1%nat) /\
  owner_level (wcz true) 2 true (ser wcomp es_nest) = Err EUnsupportedCompression /\
  map (fun k => owner_level (wcz true) 3 true (firstn k (ser wcomp es_nest))) [0; 156; 157; 300]%nat
  = [Ok None; Ok None; Ok (Some 2%nat); Ok (Some 2%nat)].
Proof. vm_compute. repeat split; reflexivity. Qed.

(* C18_plain_views_in_response: every kind of cut *)
Example C18_plain_views_in_response_ex :
  map (fun k => view_level (wcz true) 1 true (firstn k (ser wcomp es3)))
      [0; 11; 27; 40; 56; 81; 82; 100]%nat
  = [Ok 0; Ok 0; Ok 0; Ok 0; Ok 0; Ok 0; Ok 0; Ok 0]%nat.
Proof. vm_compute. reflexivity. Qed.

(* C18_wrapper_views_owned (complete batch, lengths 108 / 131) and the cut case of C18_views_owned *)
Example C18_wrapper_views_owned_ex :
  map (fun k => view_level (wcz true) 2 true (firstn k (ser wcomp es_gz))) [0; 60; 107; 108; 135; 200]%nat
  = [Ok 0; Ok 0; Ok 0; Ok 1; Ok 1; Ok 1]%nat
  /\ map (fun k => view_level (wcz false) 2 false (firstn k (ser wcomp es_sn))) [130; 131; 200]%nat
     = [Ok 0; Ok 1; Ok 1]%nat.
Proof. vm_compute. split; reflexivity. Qed.

Example C18_views_owned_ex :
  one_wrapper wcomp es3 /\ one_wrapper wcomp es_gz /\ one_wrapper wcomp es_sn.
Proof.
  split; [apply OW_plain; [exact es3_plain|exact es3_wf]|].
  split; (apply OW_head; [exact es3_plain|]).
  - pose proof es_gz_wf as H. inversion H; assumption.
  - pose proof es_sn_wf as H. inversion H; assumption.
Qed.

(* C18_level_le_depth on a set of class `Known` (a wrapper behind a plain message) and on the
   nested set, where the bound is attained; C18_views_owned_depth1 applies to the first *)
Example C18_level_le_depth_ex :
  depth es_bad = 1%nat /\ view_level (wcz true) 2 true (ser wcomp es_bad) = Ok 1%nat /\
  depth es_nest = 2%nat /\ view_level (wcz true) 3 true (ser wcomp es_nest) = Ok 2%nat /\
  depth es_stall = 1%nat /\ view_level (wcz true) 2 true (ser wcomp es_stall) = Ok 1%nat.
Proof. vm_compute. repeat split; reflexivity. Qed.

(* C18_level_is_chain_depth: es_nest is a head chain; complete (157 bytes) -> 2, cut -> 0 *)
Example C18_level_is_chain_depth_ex :
  first_chain es_nest /\
  map (chain_level wcomp es_nest) [0; 156; 157; 300]%nat = [0; 0; 2; 2]%nat /\
  map (fun k => view_level (wcz true) 3 true (firstn k (ser wcomp es_nest))) [0; 156; 157; 300]%nat
  = [Ok 0; Ok 0; Ok 2; Ok 2]%nat.
Proof. split; [exact es_nest_chain|]. vm_compute. split; reflexivity. Qed.

(* C18_level_defined / _err / _panic: the failing outcomes coincide as well.
   - nesting beyond the depth bound: UnsupportedCompression on both sides;
   - a flipped payload byte under CRC validation: CorruptMessage on both sides;
   - attributes 3 (unknown codec): UnsupportedCompression;
   - a size field covering one byte more than the fields, debug build: the debug_assert panic. *)
Definition bad_crc : bytes := firstn 26 (ser wcomp es3) ++ [x00] ++ skipn 27 (ser wcomp es3).
Definition bad_codec : bytes := ser_message 0 3 None (Some [x61]).
Definition slack_msg : bytes :=
  let body := ser_body 0 None (Some [x61]) ++ [x00] in
  enc_i64 0 ++ enc_i32 (4 + blen body) ++ enc_i32 (crc32 body) ++ body.

Example C18_level_failures_ex :
  (from_slice (wcz true) 2 true 0 (ser wcomp es_nest) = Err EUnsupportedCompression /\
   view_level (wcz true) 2 true (ser wcomp es_nest) = Err EUnsupportedCompression) /\
  (from_slice (wcz true) 2 true 0 bad_crc = Err (EKafka KC_CorruptMessage) /\
   view_level (wcz true) 2 true bad_crc = Err (EKafka KC_CorruptMessage) /\
   owner_level (wcz true) 2 true bad_crc = Err (EKafka KC_CorruptMessage)) /\
  (from_slice (wcz true) 2 true 0 bad_codec = Err EUnsupportedCompression /\
   view_level (wcz true) 2 true bad_codec = Err EUnsupportedCompression) /\
  (from_slice (wcz true) 2 true 0 slack_msg = Panic (tag "debug_assert r.is_empty") /\
   view_level (wcz true) 2 true slack_msg = Panic (tag "debug_assert r.is_empty") /\
   owner_level (wcz true) 2 true slack_msg = Panic (tag "debug_assert r.is_empty")) /\
  (from_slice (wcz false) 2 true 0 slack_msg = Ok [{| m_offset := 0; m_key := []; m_value := [x61] |}] /\
   view_level (wcz false) 2 true slack_msg = Ok 0%nat).
Proof. vm_compute. repeat split; reflexivity. Qed.

(* C18_zread_exact / C18_zread_i8_in_bounds *)
Example C18_zread_ex :
  zread 2 [x01; x02; x03] = Ok ([x01; x02], [x03]) /\
  zread 4 [x01; x02; x03] = Err EUnexpectedEOF /\
  zread_i8 [xff; x03] = Ok (-1, [x03]) /\
  zread_i8 [] = Err EUnexpectedEOF.
Proof. vm_compute. repeat split; reflexivity. Qed.

(* C18_views_layout / C18_views_are_subslices: key at [22, 23), value at [27, 29) of a 30 byte buffer *)
Example C18_views_layout_ex :
  let bs := ser_message 1 0 (Some [x6b]) (Some [x62; x62]) ++ [xff] in
  next_message true true bs = Ok (1, (0, [x6b], [x62; x62]), [xff]) /\
  bs = firstn 22 bs ++ [x6b] ++ firstn 4 (skipn 23 bs) ++ [x62; x62] ++ [] ++ [xff] /\
  length bs = 30%nat.
Proof. vm_compute. repeat split; reflexivity. Qed.

Print Assumptions C18_zread_exact.
Print Assumptions C18_zread_i8_in_bounds.
Print Assumptions C18_views_layout.
Print Assumptions C18_views_are_subslices.
Print Assumptions C18_rest_is_suffix.
Print Assumptions C18_level_defined.
Print Assumptions C18_level_err.
Print Assumptions C18_level_panic.
Print Assumptions C18_views_owned_always.
Print Assumptions C18_owner_is_view_level.
Print Assumptions C18_owner_defined.
Print Assumptions C18_owner_err.
Print Assumptions C18_owner_panic.
Print Assumptions C18_plain_views_in_response.
Print Assumptions C18_wrapper_views_owned.
Print Assumptions C18_views_owned.
Print Assumptions C18_level_le_depth.
Print Assumptions C18_views_owned_depth1.
Print Assumptions C18_level_is_chain_depth.
Print Assumptions C18_chain_messages_and_level.
Print Assumptions C18_nested_dangling_before_fix.
