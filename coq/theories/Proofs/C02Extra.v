(* C02, additional theorems (mutation adequacy).

   The theorems of Props/C02.v are all about `from_slice` on ONE message set with the requested
   offset `req` given from outside, and about an abstract compressor `comp` (codec_ok).  Not covered:
     (A) where `req` comes from: the request-side bookkeeping fetch_add / fp_insert that
         read_partition later consults (assoc_bytes / assoc_z), for ANY order of the adds
         (seeded change C02-2);
     (B) the response frame: any number of topics / partitions, the partition id and the
         high-watermark "are those sent", each partition decoded with ITS requested offset
         (fetch_from_vec / read_topic / read_partition);
     (C) the xerial framing for any chunking (block size) of the snappy stream, chunks of any
         length (seeded change C02-3; Props/C02.v only has the single-chunk witness compressor).
   Everything here is about the unchanged model. *)
From KV Require Import Base.Prelude Base.Crc32 Base.Snappy Gen.ErrorCodes Gen.Consts
                       Model.Codecs Model.Requests Model.Responses
                       Model.ClientState Model.Net Model.Client
                       Spec.MsgSetSpec Spec.RespGrammar
                       Proofs.BytesFacts Proofs.C10Facts Proofs.C02Lemmas Proofs.C02Facts.
From KV Require Proofs.SnappyFacts.
From Coq Require Import ZifyBool.

(* ====================================================================== *)
(* (A) the requested offset: request-side bookkeeping                      *)
(* ====================================================================== *)

(* the offset Partition::read filters with: exactly the lookup expression of read_partition *)
Definition req_lookup (reqs : fetch_tps) (topic : bytes) (p : Z) : Z :=
  match assoc_bytes topic reqs with
  | Some ps => match assoc_z p ps with Some (off, _) => off | None => 0 end
  | None => 0
  end.

Definition tp_lookup (reqs : fetch_tps) (topic : bytes) (p : Z) : option (Z * Z) :=
  match assoc_bytes topic reqs with Some ps => assoc_z p ps | None => None end.

Lemma req_lookup_tp reqs t p :
  req_lookup reqs t p = match tp_lookup reqs t p with Some (off, _) => off | None => 0 end.
Proof. unfold req_lookup, tp_lookup. destruct (assoc_bytes t reqs); reflexivity. Qed.

Lemma assoc_z_fp_insert ps q v p :
  assoc_z p (fp_insert ps q v) = if q =? p then Some v else assoc_z p ps.
Proof.
  induction ps as [|[q' w] r IH]; cbn [fp_insert assoc_z].
  - destruct (q =? p); reflexivity.
  - destruct (q' =? q) eqn:E1; cbn [assoc_z].
    + destruct (q' =? p) eqn:E2; destruct (q =? p) eqn:E3; try reflexivity; lia.
    + rewrite IH. destruct (q' =? p) eqn:E2; destruct (q =? p) eqn:E3; try reflexivity; lia.
Qed.

Lemma tp_lookup_fetch_add tps t' p' off mb t p :
  tp_lookup (fetch_add tps t' p' off mb) t p
  = if bytes_eqb t' t && (p' =? p) then Some (off, mb) else tp_lookup tps t p.
Proof.
  induction tps as [|[t0 ps] r IH]; cbn [fetch_add].
  - unfold tp_lookup. cbn [assoc_bytes].
    destruct (bytes_eqb t' t); cbn [andb assoc_z]; [|reflexivity].
    destruct (p' =? p); reflexivity.
  - destruct (bytes_eqb t0 t') eqn:E.
    + apply bytes_eqb_eq in E. subst t0. unfold tp_lookup. cbn [assoc_bytes].
      destruct (bytes_eqb t' t); cbn [andb]; [|reflexivity].
      apply assoc_z_fp_insert.
    + unfold tp_lookup in *. cbn [assoc_bytes].
      destruct (bytes_eqb t0 t) eqn:E2; [|exact IH].
      apply bytes_eqb_eq in E2. subst t0.
      assert (E3 : bytes_eqb t' t = false).
      { apply bytes_eqb_neq. intros ->. apply bytes_eqb_neq in E. apply E. reflexivity. }
      rewrite E3. reflexivity.
Qed.

(* specification side: what the caller asked for.  A list of adds
   (topic, partition, offset, max_bytes) in call order; the LAST add for (t, p) counts;
   nothing asked: 0 (Partition::read: map_or(0, ..)). *)
Definition fetch_ask := (bytes * Z * Z * Z)%type.

Fixpoint asked (adds : list fetch_ask) (t : bytes) (p : Z) (dflt : Z) : Z :=
  match adds with
  | [] => dflt
  | (t', p', off, _) :: r => asked r t p (if bytes_eqb t' t && (p' =? p) then off else dflt)
  end.

(* FetchRequest::add called once per element, in order *)
Definition build_reqs (adds : list fetch_ask) : fetch_tps :=
  fold_left (fun tps (a : fetch_ask) =>
               let '(t, p, off, mb) := a in fetch_add tps t p off mb) adds [].

Lemma req_lookup_fold adds : forall tps t p,
  req_lookup (fold_left (fun tps (a : fetch_ask) =>
                           let '(t, p, off, mb) := a in fetch_add tps t p off mb) adds tps) t p
  = asked adds t p (req_lookup tps t p).
Proof.
  induction adds as [|[[[t' p'] off] mb] r IH]; intros tps t p; cbn [fold_left asked]; [reflexivity|].
  rewrite IH. f_equal. rewrite !req_lookup_tp, tp_lookup_fetch_add.
  destruct (bytes_eqb t' t && (p' =? p)); reflexivity.
Qed.

(* For ANY sequence of adds - any number of topics, any number of partitions per topic, in any
   order, repeated or not - the decoder's lookup yields the offset of the last add for that
   topic/partition.  (Seeded change C02-2 mirrored in fp_insert/assoc_z - "sorted" vector with
   push + binary search - makes this false for adds [t/1; t/0].) *)
Theorem C02_requested_offset : forall adds t p,
  req_lookup (build_reqs adds) t p = asked adds t p 0.
Proof. intros. unfold build_reqs. rewrite req_lookup_fold. reflexivity. Qed.

(* the readable special case: distinct partitions, any order: each gets its own offset *)
Lemma asked_notin adds t p dflt :
  ~ In (t, p) (map (fun a : fetch_ask => (fst (fst (fst a)), snd (fst (fst a)))) adds) ->
  asked adds t p dflt = dflt.
Proof.
  revert dflt. induction adds as [|[[[t' p'] off] mb] r IH]; intros dflt Hn; cbn [asked]; [reflexivity|].
  cbn [map fst snd In] in Hn.
  destruct (bytes_eqb t' t && (p' =? p)) eqn:E.
  - exfalso. apply Hn. left. apply andb_prop in E. destruct E as [E1 E2].
    apply bytes_eqb_eq in E1. subst. f_equal. lia.
  - apply IH. intros H. apply Hn. right. exact H.
Qed.

Theorem C02_requested_offset_distinct : forall adds t p off mb,
  NoDup (map (fun a : fetch_ask => (fst (fst (fst a)), snd (fst (fst a)))) adds) ->
  In (t, p, off, mb) adds ->
  req_lookup (build_reqs adds) t p = off.
Proof.
  intros adds t p off mb Hnd Hin. rewrite C02_requested_offset. generalize 0 as dflt.
  induction adds as [|[[[t' p'] off'] mb'] r IH]; intros dflt; [destruct Hin|].
  cbn [map fst snd] in Hnd. inversion Hnd as [|x l Hx Hl]; subst. cbn [asked].
  destruct Hin as [E|Hin].
  - inversion E; subst. rewrite bytes_eqb_refl, Z.eqb_refl. cbn [andb].
    apply asked_notin. exact Hx.
  - apply IH; assumption.
Qed.

Example C02_requested_offset_ex :
  let t := [x74] in
  (* [t/0 @ 5; t/2 @ 30; t/1 @ 12]: the order of the seeded demonstration; then t/2 asked again *)
  let adds := [(t, 0, 5, 100); (t, 2, 30, 100); (t, 1, 12, 100); ([x75], 1, 77, 100); (t, 2, 31, 100)] in
  map (fun p => req_lookup (build_reqs adds) t p) [0; 1; 2; 3] = [5; 12; 31; 0]
  /\ map (fun p => asked adds t p 0) [0; 1; 2; 3] = [5; 12; 31; 0]
  /\ req_lookup (build_reqs adds) [x75] 1 = 77.
Proof. vm_compute. repeat split; reflexivity. Qed.

(* ---- the same through KafkaClient::fetch_messages' request building (client/mod.rs) --------- *)

Definition host_lookup (reqs : list (bytes * fetch_tps)) (host t : bytes) (p : Z) : option (Z * Z) :=
  match assoc_bytes host reqs with Some tps => tp_lookup tps t p | None => None end.

Lemma host_lookup_fhost_add reqs h t' p' off mb host t p :
  host_lookup (fhost_add reqs h t' p' off mb) host t p
  = if bytes_eqb h host && (bytes_eqb t' t && (p' =? p)) then Some (off, mb)
    else host_lookup reqs host t p.
Proof.
  induction reqs as [|[h0 tps] r IH]; cbn [fhost_add].
  - unfold host_lookup. cbn [assoc_bytes]. destruct (bytes_eqb h host); cbn [andb]; [|reflexivity].
    rewrite tp_lookup_fetch_add. unfold tp_lookup. cbn [assoc_bytes]. reflexivity.
  - destruct (bytes_eqb h0 h) eqn:E.
    + apply bytes_eqb_eq in E. subst h0. unfold host_lookup. cbn [assoc_bytes].
      destruct (bytes_eqb h host); cbn [andb]; [|reflexivity].
      apply tp_lookup_fetch_add.
    + unfold host_lookup in *. cbn [assoc_bytes].
      destruct (bytes_eqb h0 host) eqn:E2; [|exact IH].
      apply bytes_eqb_eq in E2. subst h0.
      assert (E3 : bytes_eqb h host = false).
      { apply bytes_eqb_neq. intros ->. apply bytes_eqb_neq in E. apply E. reflexivity. }
      rewrite E3. reflexivity.
Qed.

Definition ask_of (q : fetch_partition) : fetch_ask :=
  (fq_topic q, fq_partition q, fq_offset q, fq_max_bytes q).

(* fetch_messages(input): whatever the order of `input`, however the partitions are spread over
   brokers: the request kept for the broker that leads t/p answers the lookup for t/p with the
   offset of the last input element for t/p *)
Theorem C02_requested_offset_client : forall c input host t p,
  find_broker (cs c) t p = Some host ->
  match host_lookup (fetch_reqs c input) host t p with Some (off, _) => off | None => 0 end
  = asked (map ask_of input) t p 0.
Proof.
  intros c input host t p Hb. unfold fetch_reqs.
  set (step := fun (reqs : list (bytes * fetch_tps)) (q : fetch_partition) => _).
  assert (G : forall reqs,
             match host_lookup (fold_left step input reqs) host t p with Some (off, _) => off | None => 0 end
             = asked (map ask_of input) t p
                     (match host_lookup reqs host t p with Some (off, _) => off | None => 0 end)).
  { induction input as [|q r IH]; intros reqs; cbn [fold_left map asked]; [reflexivity|].
    rewrite IH. unfold ask_of at 2. f_equal. unfold step.
    destruct (bytes_eqb (fq_topic q) t && (fq_partition q =? p)) eqn:E.
    - apply andb_prop in E. destruct E as [E1 E2]. apply bytes_eqb_eq in E1.
      assert (E3 : fq_partition q = p) by lia. rewrite E1, E3, Hb.
      rewrite host_lookup_fhost_add, !bytes_eqb_refl, Z.eqb_refl. reflexivity.
    - destruct (find_broker (cs c) (fq_topic q) (fq_partition q)) as [h|]; [|reflexivity].
      rewrite host_lookup_fhost_add, E, andb_false_r. reflexivity. }
  rewrite G. reflexivity.
Qed.

(* ====================================================================== *)
(* (C) xerial framing: any chunking, chunks of any length                  *)
(* ====================================================================== *)

(* a chunk c that the raw snappy decoder turns into block b (appending to whatever is there),
   announcing exactly |b| *)
Definition chunk_ok (cb : bytes * bytes) : Prop :=
  let '(c, b) := cb in
  (0 < length c)%nat /\ Z.of_nat (length c) <= i32_max /\
  forall dst, uncompress_to c dst = Some (dst ++ b)
              /\ uncompress_alloc c dst <= Z.of_nat (length dst) + Z.of_nat (length b).

Definition frame_chunks (cs : list bytes) : bytes :=
  flat_map (fun c => enc_i32 (Z.of_nat (length c)) ++ c) cs.

Lemma xerial_loop_chunks : forall cbs fuel out mx,
  Forall chunk_ok cbs ->
  (length (frame_chunks (map fst cbs)) <= fuel)%nat ->
  exists mx',
    xerial_loop fuel (frame_chunks (map fst cbs)) out mx = (Ok (out ++ concat (map snd cbs)), mx')
    /\ mx <= mx' <= Z.max mx (Z.of_nat (length out) + Z.of_nat (length (concat (map snd cbs)))).
Proof.
  induction cbs as [|[c b] r IH]; intros fuel out mx HF Hfuel.
  - cbn [map frame_chunks flat_map concat]. rewrite xerial_loop_nil, app_nil_r.
    exists mx. split; [reflexivity|lia].
  - inversion HF as [|x l Hc Hr]; subst. destruct Hc as [Hpos [Hmax Hun]].
    destruct (Hun out) as [Hu Ha].
    cbn [map fst snd concat] in *. unfold frame_chunks in *. cbn [flat_map] in *.
    rewrite <- app_assoc in *. rewrite !app_length, enc_i32_length in Hfuel.
    destruct fuel as [|f]; [lia|].
    assert (EC : firstn (Z.to_nat (Z.of_nat (length c))) (c ++ flat_map (fun c0 => enc_i32 (Z.of_nat (length c0)) ++ c0) (map fst r)) = c)
      by (rewrite Nat2Z.id; apply firstn_app_exact; reflexivity).
    assert (ES : skipn (Z.to_nat (Z.of_nat (length c))) (c ++ flat_map (fun c0 => enc_i32 (Z.of_nat (length c0)) ++ c0) (map fst r))
                 = flat_map (fun c0 => enc_i32 (Z.of_nat (length c0)) ++ c0) (map fst r))
      by (rewrite Nat2Z.id; apply skipn_app_exact; reflexivity).
    rewrite (xerial_loop_chunk f _ out mx (Z.of_nat (length c))
               (c ++ flat_map (fun c0 => enc_i32 (Z.of_nat (length c0)) ++ c0) (map fst r)) (out ++ b)).
    + rewrite ES, EC.
      destruct (IH f (out ++ b) (Z.max mx (uncompress_alloc c out)) Hr) as [mx' [H1 H2]]; [lia|].
      exists mx'. rewrite H1, <- app_assoc. split; [reflexivity|].
      rewrite !app_length in *. lia.
    + intros H. apply (f_equal (@length byte)) in H. rewrite app_length, enc_i32_length in H.
      cbn [length] in H. lia.
    + apply zread_i32_app. unfold in_i32, i32_max in *. lia.
    + lia.
    + rewrite app_length. lia.
    + rewrite EC. exact Hu.
Qed.

(* SnappyReader::new(stream)?.read_to_end(): a stream of ANY number of chunks of ANY length (up to
   the i32 the format stores) yields the concatenation of the blocks, and its largest allocation
   request is at most the total decompressed length.  No bound like "a chunk is at most
   max_compress_len(32 KiB)" (seeded change C02-3). *)
Theorem C02_xerial_chunks : forall cbs,
  Forall chunk_ok cbs ->
  xerial_read_to_end (xerial_frame (map fst cbs)) = Ok (concat (map snd cbs))
  /\ 0 <= xerial_max_alloc (xerial_frame (map fst cbs)) <= Z.of_nat (length (concat (map snd cbs))).
Proof.
  intros cbs HF. unfold xerial_read_to_end, xerial_max_alloc, xerial_run, xerial_frame.
  rewrite validate_stream_header.
  destruct (xerial_loop_chunks cbs (length (frame_chunks (map fst cbs))) [] 0 HF (le_n _))
    as [mx' [H1 H2]].
  unfold frame_chunks in H1. rewrite H1. cbn [fst snd app length] in *. split; [reflexivity|lia].
Qed.

(* the literal-only raw compressor produces such chunks, for blocks of any size below 2^30 *)
Lemma lit_chunk_ok b : Z.of_nat (length b) < 2 ^ 30 -> chunk_ok (snappy_lit_compress b, b).
Proof.
  intros Hb. change (2 ^ 30) with 1073741824 in Hb.
  assert (Hu : Z.of_nat (length b) <= u32_max) by (unfold u32_max; lia).
  unfold chunk_ok. split; [|split].
  - unfold snappy_lit_compress. rewrite app_length.
    pose proof (SnappyFacts.varint_enc_nonempty 4 (Z.of_nat (length b))) as Hne.
    destruct (varint_enc 5 (Z.of_nat (length b))); [congruence|cbn [length]; lia].
  - unfold snappy_lit_compress. rewrite app_length.
    pose proof (varint_enc_length 5 (Z.of_nat (length b))) as H5.
    pose proof (lit_chunks_length (length b) b) as HL.
    unfold i32_max. lia.
  - intros dst. split; [apply SnappyFacts.uncompress_to_lit; exact Hu|].
    unfold uncompress_alloc. rewrite lit_decompress_len by exact Hu.
    destruct (Z.of_nat (length b) >? 0) eqn:E0; lia.
Qed.

Lemma concat_length_le (bl : list bytes) b : In b bl -> (length b <= length (concat bl))%nat.
Proof.
  induction bl as [|x r IH]; intros H; [destruct H|]. cbn [concat]. rewrite app_length.
  destruct H as [->|H]; [lia|]. specialize (IH H). lia.
Qed.

Theorem C02_xerial_any_chunking : forall bl : list bytes,
  Z.of_nat (length (concat bl)) < 2 ^ 30 ->
  xerial_read_to_end (xerial_frame (map snappy_lit_compress bl)) = Ok (concat bl)
  /\ xerial_max_alloc (xerial_frame (map snappy_lit_compress bl)) < 2 ^ 30.
Proof.
  intros bl Hlen.
  pose (cbs := map (fun b => (snappy_lit_compress b, b)) bl).
  assert (E1 : map fst cbs = map snappy_lit_compress bl).
  { unfold cbs. rewrite map_map. reflexivity. }
  assert (E2 : map snd cbs = bl).
  { unfold cbs. rewrite map_map. cbn [snd]. apply map_id. }
  assert (HF : Forall chunk_ok cbs).
  { unfold cbs. apply Forall_forall. intros cb Hin. apply in_map_iff in Hin.
    destruct Hin as [b [<- Hb]]. apply lit_chunk_ok.
    pose proof (concat_length_le bl b Hb). lia. }
  destruct (C02_xerial_chunks cbs HF) as [H1 H2]. rewrite E1, E2 in *.
  split; [exact H1|lia].
Qed.

(* a broker-side compressor that cuts its input into blocks of n bytes (SnappyOutputStream with
   block size n) and emits each block as one chunk *)
Fixpoint blocks (fuel n : nat) (x : bytes) : list bytes :=
  match fuel with
  | O => []
  | S f => match x with [] => [] | _ :: _ => firstn n x :: blocks f n (skipn n x) end
  end.

Lemma blocks_concat n : (0 < n)%nat -> forall fuel x, (length x <= fuel)%nat -> concat (blocks fuel n x) = x.
Proof.
  intros Hn. induction fuel as [|f IH]; intros x Hx.
  - destruct x; [reflexivity|cbn [length] in Hx; lia].
  - destruct x as [|b x]; [reflexivity|]. cbn [blocks concat].
    rewrite IH; [apply firstn_skipn|].
    rewrite skipn_length. cbn [length] in *. lia.
Qed.

Definition bcomp (n : nat) (c : Z) (x : bytes) : bytes :=
  if c =? 2 then xerial_frame (map snappy_lit_compress (blocks (length x) n x)) else x.

(* codec_ok is satisfiable for EVERY block size: 1 byte per chunk ... the whole batch in one chunk *)
Theorem C02_codec_ok_any_block_size : forall (n : nat) (dbg : bool),
  (0 < n)%nat -> codec_ok (wcz dbg) (bcomp n).
Proof.
  intros n dbg Hn. split; [intros x; reflexivity|].
  intros x Hx. unfold bcomp. change (2 =? 2) with true. cbv iota.
  unfold alloc_limit, blen in *.
  pose proof (blocks_concat n Hn (length x) x (le_n _)) as Ec.
  destruct (C02_xerial_any_chunking (blocks (length x) n x)) as [H1 H2];
    rewrite Ec in *; [exact Hx|]. split; assumption.
Qed.

(* hence, end to end: a snappy batch at the head of the set, framed with any block size, any
   size of the batch: exactly its messages at or above the requested offset *)
Theorem C02_snappy_any_block_size : forall (n : nat) dbg d validate req off inner rest k,
  (0 < n)%nat -> all_plain inner ->
  wf_entry (bcomp n) (Wrapper 2 off inner) ->
  (length (ser_entry (bcomp n) (Wrapper 2 off inner)) <= k)%nat ->
  from_slice (wcz dbg) (S (S d)) validate req (firstn k (ser (bcomp n) (Wrapper 2 off inner :: rest)))
  = Ok (map msg_of (filter (fun x => req <=? fst (fst x)) (flatten inner))).
Proof.
  intros n dbg d validate req off inner rest k Hn Hp Hwf Hk.
  apply C02_wrapper_first; try assumption.
  - apply C02_codec_ok_any_block_size. exact Hn.
  - right. reflexivity.
Qed.

(* non-vacuity: es3 (82 bytes) as a snappy batch in chunks of 1, 7, 32 and 82+ bytes *)
Example C02_snappy_any_block_size_ex :
  map (fun n => (length (blocks 82 n (ser (bcomp n) es3)),
                 from_slice (wcz true) 2 true 1 (ser (bcomp n) [Wrapper 2 2 es3; Plain 3 None (Some [x63])])))
      [1; 7; 32; 100]%nat
  = [(82, Ok [m1; m2]); (12, Ok [m1; m2]); (3, Ok [m1; m2]); (1, Ok [m1; m2])]%nat.
Proof. vm_compute. reflexivity. Qed.

Example C02_snappy_any_block_size_wf : wf_entries (bcomp 7) [Wrapper 2 2 es3] /\ all_plain es3.
Proof. split; [wf_tac|apply es3_plain]. Qed.

(* (the 40,000-byte single-chunk example lives in Proofs/C02ExtraBig.v: it is outside the files coqchk re-checks for Props/C02) *)

(* ====================================================================== *)
(* (B) the response frame: topics, partitions, partition id, high-watermark *)
(* ====================================================================== *)

(* what the decoder exposes for partition p of topic `tname` of a response to request `reqs` *)
Definition exposed (cz : codecs) (d : nat) (validate : bool) (reqs : fetch_tps) (tname : bytes)
           (p : w_fetch_part) : res (list message) :=
  from_slice cz d validate (req_lookup reqs tname (wfe_partition p)) (wfe_message_set p).

Definition msgs_of (r : res (list message)) : list message := match r with Ok l => l | _ => [] end.

Definition view_part cz d validate reqs (tname : bytes) (p : w_fetch_part) : fetch_part :=
  {| fp_partition := wfe_partition p;
     fp_data := match from_protocol (wfe_error p) with
                | Some c => inr c
                | None => inl (wfe_highwater p, msgs_of (exposed cz d validate reqs tname p))
                end |}.
Definition view_ftopic cz d validate reqs (t : w_topic w_fetch_part) : fetch_topic :=
  {| ft_topic := view_str (wt_name t);
     ft_partitions := view_arr (view_part cz d validate reqs (view_str (wt_name t))) (wt_partitions t) |}.
Definition view_fresp cz d validate reqs (r : w_topics_resp w_fetch_part) : fetch_resp :=
  {| fr_corr := wr_corr r; fr_topics := view_arr (view_ftopic cz d validate reqs) (wr_topics r) |}.

Definition part_decodes cz d validate reqs (tname : bytes) (p : w_fetch_part) : Prop :=
  wf_fetch_part p /\ exists ms, exposed cz d validate reqs tname p = Ok ms.
Definition topic_decodes cz d validate reqs (t : w_topic w_fetch_part) : Prop :=
  wf_string (wt_name t) /\
  wf_array (part_decodes cz d validate reqs (view_str (wt_name t))) (wt_partitions t).

Lemma read_partition_print cz d validate reqs tname p rest :
  part_decodes cz d validate reqs tname p ->
  read_partition cz d validate (assoc_bytes tname reqs) (print_fetch_part p ++ rest)
  = Ok (view_part cz d validate reqs tname p, rest).
Proof.
  intros [(H1 & H2 & H3 & H4) [ms Hms]]. change (2 ^ 31) with 2147483648 in H4.
  unfold read_partition, print_fetch_part. rewrite <- !app_assoc.
  rewrite zread_i32_print by exact H1. cbn [bind]. cbv zeta.
  rewrite zread_i16_print by exact H2. cbn [bind].
  rewrite zread_i64_print by exact H3. cbn [bind].
  rewrite (app_assoc (p_i32 _) (wfe_message_set p) rest).
  change (p_i32 (Z.of_nat (length (wfe_message_set p))) ++ wfe_message_set p)
    with (ser_opt (Some (wfe_message_set p))).
  rewrite zread_bytes_ser_opt by (cbn [view_opt]; unfold blen, i32_max; lia).
  cbn [bind view_opt].
  unfold view_part. unfold exposed, req_lookup in *. rewrite Hms. cbn [bind msgs_of]. reflexivity.
Qed.

Lemma read_topic_print cz d validate reqs t rest :
  topic_decodes cz d validate reqs t ->
  read_topic cz d validate reqs (print_topic print_fetch_part t ++ rest)
  = Ok (view_ftopic cz d validate reqs t, rest).
Proof.
  intros (Hn & Hps). unfold read_topic, print_topic.
  rewrite <- app_assoc. rewrite zread_str_print by exact Hn. cbn [bind].
  rewrite (zread_array_print _ print_fetch_part
             (view_part cz d validate reqs (view_str (wt_name t)))
             (part_decodes cz d validate reqs (view_str (wt_name t))));
    [reflexivity| |intros; apply print_fetch_part_pos|exact Hps].
  intros a r Ha. apply read_partition_print. exact Ha.
Qed.

Lemma wf_array_In {A} (P Q : A -> Prop) xs :
  wf_array P xs -> (forall a, In a (view_list xs) -> P a -> Q a) -> wf_array Q xs.
Proof.
  destruct xs as [l|]; cbn [wf_array view_list]; [|trivial]. intros [Ha Hl] H. split; [|exact Hl].
  apply Forall_forall. intros a Hin. apply H; [exact Hin|]. rewrite Forall_forall in Ha. apply Ha. exact Hin.
Qed.

(* ANY number of topics and partitions (also null names, null arrays), anything behind the
   response: if each message set decodes with the offset requested for ITS topic/partition, the
   whole response decodes to: topic names, partition ids, error codes and high-watermarks as
   sent, in the order sent, and for each partition exactly `from_slice` of its own message set
   filtered by its own requested offset. *)
Theorem C02_response : forall cz d validate reqs r rest,
  wf_fetch r ->
  (forall t p, In t (view_list (wr_topics r)) -> In p (view_list (wt_partitions t)) ->
     exists ms, exposed cz d validate reqs (view_str (wt_name t)) p = Ok ms) ->
  fetch_from_vec cz d validate reqs (print_fetch r ++ rest) = Ok (view_fresp cz d validate reqs r).
Proof.
  intros cz d validate reqs r rest (Hc & Hts) Hdec.
  assert (Hts' : wf_array (topic_decodes cz d validate reqs) (wr_topics r)).
  { eapply wf_array_In; [exact Hts|]. intros t Ht (Hn & Hps). split; [exact Hn|].
    eapply wf_array_In; [exact Hps|]. intros p Hp Hwp. split; [exact Hwp|]. apply Hdec; assumption. }
  unfold fetch_from_vec, print_fetch, print_topics_resp.
  rewrite <- app_assoc. rewrite zread_i32_print by exact Hc. cbn [bind].
  rewrite (zread_array_print _ (print_topic print_fetch_part) (view_ftopic cz d validate reqs)
             (topic_decodes cz d validate reqs));
    [reflexivity| | |exact Hts'].
  - intros a r0 Ha. apply read_topic_print. exact Ha.
  - intros t _. unfold print_topic. rewrite app_length. pose proof (p_string_length (wt_name t)). lia.
Qed.

(* reading the decoded response at a position *)
Lemma view_fresp_nth cz d validate reqs r i j t p :
  nth_error (view_list (wr_topics r)) i = Some t ->
  nth_error (view_list (wt_partitions t)) j = Some p ->
  exists ft fp,
    nth_error (fr_topics (view_fresp cz d validate reqs r)) i = Some ft /\
    ft_topic ft = view_str (wt_name t) /\
    nth_error (ft_partitions ft) j = Some fp /\
    fp_partition fp = wfe_partition p /\
    fp_data fp = match from_protocol (wfe_error p) with
                 | Some c => inr c
                 | None => inl (wfe_highwater p,
                                msgs_of (exposed cz d validate reqs (view_str (wt_name t)) p))
                 end.
Proof.
  intros Ht Hp.
  exists (view_ftopic cz d validate reqs t), (view_part cz d validate reqs (view_str (wt_name t)) p).
  unfold view_fresp. cbn [fr_topics].
  destruct (wr_topics r) as [ts|]; cbn [view_list view_arr] in *; [|destruct i; discriminate Ht].
  split; [apply map_nth_error; exact Ht|]. split; [reflexivity|].
  unfold view_ftopic at 1. cbn [ft_partitions].
  destruct (wt_partitions t) as [ps|]; cbn [view_list view_arr] in *; [|destruct j; discriminate Hp].
  split; [apply map_nth_error; exact Hp|]. split; reflexivity.
Qed.

Lemma msg_of_inj x y : msg_of x = msg_of y -> x = y.
Proof. destruct x as [[a b] c], y as [[a' b'] c']. unfold msg_of. cbn [fst snd]. intros H. inversion H. reflexivity. Qed.

Lemma map_msg_of_inj l : forall l', map msg_of l = map msg_of l' -> l = l'.
Proof.
  induction l as [|x l IH]; intros [|y l'] H; try discriminate H; [reflexivity|].
  cbn [map] in H.
  assert (H1 : msg_of x = msg_of y) by congruence.
  assert (H2 : map msg_of l = map msg_of l') by congruence.
  apply msg_of_inj in H1. subst. f_equal. apply IH. exact H2.
Qed.

(* End to end for one fetch exchange: the request is built by FetchRequest::add in ANY order
   (`adds`), the broker answers with any number of topics/partitions, each partition carrying any
   well-formed message set (plain / gzip / snappy / nested, up to depth d-1) cut at any byte.
   Then the response decodes, and the partition at position (i, j) carries the partition id and
   high-watermark sent and an in-order sublist `ms` of the complete messages at or above the offset
   asked for THAT topic/partition - all of the first chain when the set is outside `Known`. *)
Theorem C02_fetch_end_to_end : forall comp cz d validate adds r rest,
  codec_ok cz comp -> wf_fetch r ->
  (forall t p, In t (view_list (wr_topics r)) -> In p (view_list (wt_partitions t)) ->
     exists es k, wfe_message_set p = firstn k (ser comp es) /\ wf_entries comp es /\ (depth es < d)%nat) ->
  fetch_from_vec cz d validate (build_reqs adds) (print_fetch r ++ rest)
  = Ok (view_fresp cz d validate (build_reqs adds) r)
  /\ forall i j t p es k,
       nth_error (view_list (wr_topics r)) i = Some t ->
       nth_error (view_list (wt_partitions t)) j = Some p ->
       wfe_error p = 0 ->
       wfe_message_set p = firstn k (ser comp es) -> wf_entries comp es -> (depth es < d)%nat ->
       exists ft fp ms,
         nth_error (fr_topics (view_fresp cz d validate (build_reqs adds) r)) i = Some ft /\
         ft_topic ft = view_str (wt_name t) /\
         nth_error (ft_partitions ft) j = Some fp /\
         fp_partition fp = wfe_partition p /\
         fp_data fp = inl (wfe_highwater p, map msg_of ms) /\
         subseq ms (filter (fun x => asked adds (view_str (wt_name t)) (wfe_partition p) 0 <=? fst (fst x))
                           (flatten (complete_prefix comp es k))) /\
         (~ Known es ->
          ms = filter (fun x => asked adds (view_str (wt_name t)) (wfe_partition p) 0 <=? fst (fst x))
                      (chain_msgs comp es k)).
Proof.
  intros comp cz d validate adds r rest Hc Hwf Hsets. split.
  - apply C02_response; [exact Hwf|]. intros t p Ht Hp.
    destruct (Hsets t p Ht Hp) as [es [k [E [Hwe Hd]]]]. unfold exposed. rewrite E.
    destruct (C02_safe_always comp cz validate (req_lookup (build_reqs adds) (view_str (wt_name t)) (wfe_partition p))
                Hc d es k Hwe Hd) as [ms [H1 _]].
    eauto.
  - intros i j t p es k Ht Hp He E Hwe Hd.
    destruct (view_fresp_nth cz d validate (build_reqs adds) r i j t p Ht Hp)
      as [ft [fp [F1 [F2 [F3 [F4 F5]]]]]].
    rewrite He in F5. change (from_protocol 0) with (@None Z) in F5. cbv iota in F5.
    unfold exposed in F5. rewrite E, C02_requested_offset in F5.
    destruct (C02_safe_always comp cz validate (asked adds (view_str (wt_name t)) (wfe_partition p) 0)
                Hc d es k Hwe Hd) as [ms [H1 H2]].
    rewrite H1 in F5. cbn [msgs_of] in F5.
    exists ft, fp, ms. repeat (split; [assumption|]).
    intros HK.
    destruct (C02_outside_known comp cz d validate (asked adds (view_str (wt_name t)) (wfe_partition p) 0)
                es k Hc HK Hwe Hd) as [H3 _].
    rewrite H1 in H3. inversion H3 as [H4]. apply map_msg_of_inj in H4. exact H4.
Qed.

(* non-vacuity: the layout of the seeded demonstration C02-2.  Topic "t": partition 0 plain
   (es3, asked @1), partition 2 a gzip batch followed by a plain message (asked @2), partition 1
   a snappy batch cut one byte short (asked @1); the request was built in the order 0, 2, 1. *)
Definition ex_adds : list fetch_ask := [([x74], 0, 1, 100); ([x74], 2, 2, 100); ([x74], 1, 1, 100)].
Definition ex_resp : w_topics_resp w_fetch_part :=
  {| wr_corr := 7;
     wr_topics := Some [ {| wt_name := Some [x74];
                            wt_partitions := Some [ {| wfe_partition := 0; wfe_error := 0; wfe_highwater := 3;
                                                       wfe_message_set := firstn 82 (ser wcomp es3) |};
                                                    {| wfe_partition := 2; wfe_error := 0; wfe_highwater := 4;
                                                       wfe_message_set := firstn 200 (ser wcomp es_gz) |};
                                                    {| wfe_partition := 1; wfe_error := 0; wfe_highwater := 9;
                                                       wfe_message_set := firstn 130 (ser wcomp es_sn) |} ] |};
                         {| wt_name := None; wt_partitions := None |} ] |}.

Example ex_resp_wf : wf_fetch ex_resp.
Proof. unfold wf_fetch, wf_topics_resp, ex_resp, wf_array, wf_topic, wf_fetch_part,
         wf_string, wf_array, in_i16, in_i32, in_i64; cbn [wr_corr wr_topics]. wf_compute. Qed.

Example ex_resp_sets : forall t p, In t (view_list (wr_topics ex_resp)) -> In p (view_list (wt_partitions t)) ->
  exists es k, wfe_message_set p = firstn k (ser wcomp es) /\ wf_entries wcomp es /\ (depth es < 3)%nat.
Proof.
  intros t p Ht Hp. cbn [ex_resp wr_topics view_list In] in Ht.
  destruct Ht as [<-|[<-|[]]]; cbn [wt_partitions view_list In] in Hp; [|destruct Hp].
  destruct Hp as [<-|[<-|[<-|[]]]]; cbn [wfe_message_set].
  - exists es3, 82%nat. split; [reflexivity|]. split; [apply es3_wf|vm_compute; lia].
  - exists es_gz, 200%nat. split; [reflexivity|]. split; [apply es_gz_wf|vm_compute; lia].
  - exists es_sn, 130%nat. split; [reflexivity|]. split; [apply es_sn_wf|vm_compute; lia].
Qed.

Example C02_fetch_end_to_end_ex :
  fetch_from_vec (wcz true) 3 true (build_reqs ex_adds) (print_fetch ex_resp ++ [x09])
  = Ok {| fr_corr := 7;
          fr_topics := [ {| ft_topic := [x74];
                            ft_partitions := [ {| fp_partition := 0; fp_data := inl (3, [m1; m2]) |};
                                               {| fp_partition := 2; fp_data := inl (4, [m2]) |};
                                               {| fp_partition := 1; fp_data := inl (9, []) |} ] |};
                         {| ft_topic := []; ft_partitions := [] |} ] |}.
Proof. vm_compute. reflexivity. Qed.

Print Assumptions C02_requested_offset.
Print Assumptions C02_requested_offset_distinct.
Print Assumptions C02_requested_offset_client.
Print Assumptions C02_xerial_chunks.
Print Assumptions C02_xerial_any_chunking.
Print Assumptions C02_codec_ok_any_block_size.
Print Assumptions C02_snappy_any_block_size.
Print Assumptions C02_response.
Print Assumptions C02_fetch_end_to_end.
