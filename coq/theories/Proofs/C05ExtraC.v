(* C05, additional theorems, fourth file (third adequacy pass; seeded changes C05-5 and C05-6).

   C05-5 (internal_produce_messages sorts the batch by (topic, partition) with an unstable sort before grouping):
     COVERED by C05_call_unfold, which says that the call groups `msgs` as given.  Mirrored into a scratch copy
     of Model/Client.v (insertion sort, stable up to 20 elements, reversing equal keys above), the proof script
     of C05_call_unfold is the first of Proofs/C05Facts.v to fail and the NEGATION of its statement was proved
     there with a 21-record batch for t/1, t/0, t/1, ... on one broker (the frame written differs).  Nothing
     added for it.

   C05-6 (KafkaClient::load_metadata drops the topic entries carrying a topic-level error code before
     ClientState::update_metadata): NOT covered.  The change is in Client.load_metadata; no theorem of
     Props/C05.v mentions load_metadata (C05_route_by_partition_id, C05_produce_after_load and
     C05_leaderless_after_load_fails are about ClientState.update_metadata, which the seed does not touch), and
     all of Props/C05.v recompiles unchanged on the mutated model.  (Props/C06.v has C06_load_metadata_view,
     which the change does break; that is another property.)

   Part G  what a metadata load leaves behind for produce.
     C05_listed_topic_partition_count   after update_metadata a topic the response lists has exactly as many
           partitions as its LAST listing says - whatever was known before, no side condition;
     C05_unlisted_partition_unroutable  hence every partition id outside 0..n-1 of that listing (all ids, if
           the listing is empty: the shape of an "unknown topic" / "leader not available" answer) has no address;
     C05_load_metadata_applies_response load_metadata merges exactly the response fetch_metadata decoded - the
           whole of it - into the state fetch_metadata left, and does no I/O of its own  (THE statement the seed
           breaks);
     C05_route_after_load_metadata      C05_route_by_partition_id at the level of the public call;
     C05_produce_after_topic_reported_unknown   the clause of the property over a HISTORY: whatever the client
           knew about t before, once a successful load_metadata(topics) received a response whose last entry for
           t lists n partitions, a produce call naming t with a partition outside 0..n-1 - on that state or any
           later one with the same topic table - fails with UnknownTopicOrPartition and connects, writes and
           reads nothing (n = 0: the topic was reported unknown, any partition);
     C05_producer_after_topic_reported_unknown  the same through Producer::send_all, for ANY producer (whatever
           its table of available partitions was built from), explicit or unspecified partitions, when the
           listing is empty;
     C05_produce_after_full_reload_unlisted  the control: after load_metadata_all a topic the response does not
           list is unknown, a produce call naming it is refused without I/O.

   Not done / not proved:
   - the forward direction of the exchange (script answers => call succeeds with these responses), as before;
   - nothing says that the broker's answer to a by-name request lists the topic at all: a response that simply
     omits a deleted topic leaves the old partitions in place in the ORIGINAL code too (the Occupied branch of
     update_metadata is only reached for listed topics); the theorems are conditional on `last_topic .. = Some`. *)
From Coq Require Import ZifyBool Sorting.Permutation.
From KV Require Import Base.Prelude Gen.Consts Model.Codecs Model.Requests Model.Responses
                       Model.ClientState Model.Net Model.Client Model.Producer.
From KV Require Import Proofs.BytesFacts Proofs.C20Facts Proofs.C05Facts Proofs.C06Facts Proofs.C05Extra.
From KV Require Proofs.C06Extra.

(* ================================================================================================== *)
(* Part G: what a metadata load leaves behind for produce                                              *)
(* ================================================================================================== *)

Lemma sync_fun_length idx : forall pms ps, length (sync_fun idx pms ps) = length ps.
Proof.
  induction pms as [|pm pms IH]; intros ps; cbn [sync_fun]; [reflexivity|].
  destruct ((pm_id pm <? 0) || (ulen ps <=? pm_id pm)); [apply IH|]. rewrite IH. apply set_nth_length.
Qed.

Lemma topic_vec_length idx old pms : length (topic_vec idx old pms) = length pms.
Proof. unfold topic_vec. rewrite sync_fun_length. apply resize_length. Qed.

Lemma topics_fun_unlisted idx t : forall tms tps,
  last_topic tms t = None -> assoc_bytes t (topics_fun idx tms tps) = assoc_bytes t tps.
Proof.
  induction tms as [|tm tms IH]; intros tps H; cbn [topics_fun]; [reflexivity|].
  cbn [last_topic] in H. destruct (last_topic tms t) as [x|] eqn:E; [discriminate|].
  destruct (bytes_eqb (tm_topic tm) t) eqn:Et; [discriminate|].
  rewrite (IH _ eq_refl), assoc_bytes_bset, Et. reflexivity.
Qed.

Lemma topics_fun_listed idx t tm : forall tms tps,
  last_topic tms t = Some tm ->
  exists ps, assoc_bytes t (topics_fun idx tms tps) = Some ps /\ length ps = length (tm_partitions tm).
Proof.
  induction tms as [|tm0 tms IH]; intros tps H; cbn [topics_fun]; [discriminate|].
  cbn [last_topic] in H. destruct (last_topic tms t) as [x|] eqn:E.
  - injection H as ->. apply IH. reflexivity.
  - destruct (bytes_eqb (tm_topic tm0) t) eqn:Et; [|discriminate]. injection H as ->.
    rewrite (topics_fun_unlisted idx t tms _ E), assoc_bytes_bset, Et.
    eexists. split; [reflexivity|]. apply topic_vec_length.
Qed.

(* after the merge, a topic the response lists has as many partitions as its last listing - no more, no
   fewer, whatever the client knew before (no invariant, no well-formedness of the response needed) *)
Theorem C05_listed_topic_partition_count : forall s md s' t tm,
  update_metadata s md = Ok s' ->
  last_topic (md_topics md) t = Some tm ->
  exists ps, partitions_for s' t = Some ps /\ length ps = length (tm_partitions tm).
Proof.
  intros s md s' t tm Hup Ht. rewrite update_metadata_eq in Hup. injection Hup as <-.
  unfold partitions_for, upd_fun. cbn [topic_partitions]. apply topics_fun_listed. exact Ht.
Qed.

(* ... so a partition id the listing has no room for has no address; with an empty listing (the answer for a
   topic that does not exist (any more)): no partition of the topic has *)
Theorem C05_unlisted_partition_unroutable : forall s md s' t tm p,
  update_metadata s md = Ok s' ->
  last_topic (md_topics md) t = Some tm ->
  ~ (0 <= p < Z.of_nat (length (tm_partitions tm))) ->
  find_broker s' t p = None /\ contains_topic_partition s' t p = false.
Proof.
  intros s md s' t tm p Hup Ht Hp.
  destruct (C05_listed_topic_partition_count s md s' t tm Hup Ht) as (ps & Hps & Hlen).
  unfold find_broker, contains_topic_partition. rewrite Hps. unfold partition_ref.
  rewrite nth_z_out by (unfold ulen; rewrite Hlen; exact Hp). split; reflexivity.
Qed.

(* find_broker answers None from the topic table alone when the partition vector has no such index *)
Lemma unroutable_by_table s1 s2 t p :
  topic_partitions s2 = topic_partitions s1 ->
  contains_topic_partition s1 t p = false -> find_broker s2 t p = None.
Proof.
  intros Htp H. unfold find_broker, contains_topic_partition, partitions_for in *. rewrite Htp.
  destruct (assoc_bytes t (topic_partitions s1)) as [ps|]; [|reflexivity].
  destruct (partition_ref ps p); [discriminate|reflexivity].
Qed.

(* KafkaClient::load_metadata: the response fetch_metadata decoded is merged, all of it, into the state
   fetch_metadata left (the correlation id advanced by one); no event, no script item, pool and configuration
   untouched by the merge *)
Theorem C05_load_metadata_applies_response : forall topics x r x',
  load_metadata topics x = (r, x') ->
  match fetch_metadata topics x with
  | (Ok md, x1) =>
      r = Ok tt /\ update_metadata (snd (next_correlation_id (cs (cl x)))) md = Ok (cs (cl x'))
      /\ cs (cl x1) = snd (next_correlation_id (cs (cl x)))
      /\ script x' = script x1 /\ trace x' = trace x1 /\ conns (cl x') = conns (cl x1) /\ cfg (cl x') = cfg (cl x1)
  | (Err e, x1) => r = Err e /\ x' = x1
  | (Panic w, x1) => r = Panic w /\ x' = x1
  end.
Proof.
  intros topics x r x' H. rewrite C06Extra.load_metadata_split in H. unfold mbind at 1 in H.
  destruct (fetch_metadata topics x) as [[md|e|w] x1] eqn:Hf.
  - destruct (C06Extra.fetch_metadata_cs _ _ _ _ Hf) as [Hcs _].
    destruct (C06Extra.apply_md_run _ _ _ _ H) as (Hs & Ht & Hc & Hg & Hu).
    assert (Hr : r = Ok tt).
    { unfold C06Extra.apply_md in H. unfold mbind at 1 in H. unfold get_client at 1 in H. unfold mbind at 1 in H.
      unfold lift at 1 in H. rewrite update_metadata_eq in H. unfold set_cs, mbind, get_client, set_client in H.
      injection H as <- _. reflexivity. }
    split; [exact Hr|]. specialize (Hu Hr). rewrite Hcs in Hu. repeat split; assumption.
  - injection H as <- <-. split; reflexivity.
  - injection H as <- <-. split; reflexivity.
Qed.

(* C05_route_by_partition_id at the level of the public call *)
Theorem C05_route_after_load_metadata : forall topics x md x1 x' t tm p,
  inv (cs (cl x)) -> wf_md md -> small (cs (cl x')) ->
  fetch_metadata topics x = (Ok md, x1) -> load_metadata topics x = (Ok tt, x') ->
  last_topic (md_topics md) t = Some tm ->
  find_broker (cs (cl x')) t p
  = match listed_leader (tm_partitions tm) p with
    | Some l => match last_broker (md_brokers md) l with
                | Some bm => Some (host_port (bm_host bm) (bm_port bm))
                | None => assoc_z l (map bpair (brokers (cs (cl x))))
                end
    | None => None
    end.
Proof.
  intros topics x md x1 x' t tm p Hinv Hwf Hsmall Hf Hl Ht.
  pose proof (C05_load_metadata_applies_response topics x (Ok tt) x' Hl) as H. rewrite Hf in H.
  destruct H as (_ & Hu & _).
  exact (C05_route_by_partition_id _ md _ t tm p (C06Extra.inv_bump _ Hinv) Hwf Hsmall Hu Ht).
Qed.

(* THE CLAUSE OVER A HISTORY.  Whatever x knew about t: after a load_metadata(topics) whose response lists t
   (last) with n partitions, a produce call with a record for t and a partition outside 0..n-1 - in the state
   the load left, or in any later state y with the same topic table - fails as a whole with
   UnknownTopicOrPartition; no connect, no write, no read, no script item consumed.
   n = 0 is the answer of a conforming broker for a topic that was deleted: every partition. *)
Theorem C05_produce_after_topic_reported_unknown : forall topics x md x1 r x' t tm y acks timeout msgs m,
  fetch_metadata topics x = (Ok md, x1) -> load_metadata topics x = (r, x') ->
  last_topic (md_topics md) t = Some tm ->
  topic_partitions (cs (cl y)) = topic_partitions (cs (cl x')) ->
  In m msgs -> pq_topic m = t -> ~ (0 <= pq_partition m < Z.of_nat (length (tm_partitions tm))) ->
  r = Ok tt
  /\ internal_produce_messages acks timeout msgs y = (Err (EKafka KC_UnknownTopicOrPartition), bump_corr y)
  /\ trace (bump_corr y) = trace y /\ script (bump_corr y) = script y
  /\ trace x' = trace x1 /\ script x' = script x1.
Proof.
  intros topics x md x1 r x' t tm y acks timeout msgs m Hf Hl Ht Hy Hm Hmt Hmp.
  pose proof (C05_load_metadata_applies_response topics x r x' Hl) as H. rewrite Hf in H.
  destruct H as (Hr & Hu & _ & Hs & Htr & _).
  split; [exact Hr|].
  destruct (C05_unlisted_partition_unroutable _ md _ t tm (pq_partition m) Hu Ht Hmp) as [_ Hc].
  pose proof (unroutable_by_table _ _ t (pq_partition m) Hy Hc) as Hfb.
  split; [|repeat split; assumption].
  apply C20_produce_call_local_fail. exists m. split; [exact Hm|]. rewrite Hmt. exact Hfb.
Qed.

(* the same through Producer::send_all, when the listing is empty: ANY producer - its table of available
   partitions may stem from an older state - and any partition field, unspecified (-1) included *)
Lemma partitioned_topics parts : forall recs cntr r,
  In r recs -> exists m, In m (fst (partitioned parts cntr recs)) /\ pq_topic m = r_topic r.
Proof.
  induction recs as [|r0 rest IH]; intros cntr r Hin; [destruct Hin|]. cbn [partitioned]. cbv zeta.
  destruct (partition parts cntr (r_topic r0) (r_partition r0) (to_option (r_key r0))) as [p c'].
  destruct (partitioned parts c' rest) as [ms c] eqn:E. cbn [fst].
  destruct Hin as [->|Hin].
  - eexists. split; [left; reflexivity|reflexivity].
  - destruct (IH c' r Hin) as (m & Hm & Hmt). rewrite E in Hm. cbn [fst] in Hm.
    exists m. split; [right; exact Hm|exact Hmt].
Qed.

Theorem C05_producer_after_topic_reported_unknown : forall topics x md x1 r x' t tm y p recs rc,
  fetch_metadata topics x = (Ok md, x1) -> load_metadata topics x = (r, x') ->
  last_topic (md_topics md) t = Some tm -> tm_partitions tm = [] ->
  topic_partitions (cs (cl y)) = topic_partitions (cs (cl x')) ->
  In rc recs -> r_topic rc = t ->
  producer_send_all p recs y = (Err (EKafka KC_UnknownTopicOrPartition), bump_corr y)
  /\ trace (bump_corr y) = trace y /\ script (bump_corr y) = script y.
Proof.
  intros topics x md x1 r x' t tm y p recs rc Hf Hl Ht Hnil Hy Hrc Hrt.
  pose proof (C05_load_metadata_applies_response topics x r x' Hl) as H. rewrite Hf in H.
  destruct H as (_ & Hu & _).
  split; [|split; reflexivity].
  apply C05_producer_local_fail.
  destruct (partitioned_topics (p_parts p) recs (p_cntr p) rc Hrc) as (m & Hm & Hmt).
  apply (C06_produce_unavailable _ _ [] m Hm).
  assert (Hp : ~ (0 <= pq_partition m < Z.of_nat (length (tm_partitions tm)))) by (rewrite Hnil; cbn [length]; lia).
  destruct (C05_unlisted_partition_unroutable _ md _ t tm (pq_partition m) Hu Ht Hp) as [_ Hc].
  rewrite Hmt, Hrt. exact (unroutable_by_table _ _ t (pq_partition m) Hy Hc).
Qed.

(* the control of the seeded demonstration: a FULL reload (load_metadata_all resets first) forgets every topic the
   response does not list; a produce call naming such a topic is refused without I/O *)
Theorem C05_produce_after_full_reload_unlisted : forall x md x1 r x' t y acks timeout msgs m,
  fetch_metadata [] (C06Extra.reset_st x) = (Ok md, x1) -> load_metadata_all x = (r, x') ->
  last_topic (md_topics md) t = None ->
  topic_partitions (cs (cl y)) = topic_partitions (cs (cl x')) ->
  In m msgs -> pq_topic m = t ->
  r = Ok tt
  /\ internal_produce_messages acks timeout msgs y = (Err (EKafka KC_UnknownTopicOrPartition), bump_corr y)
  /\ trace (bump_corr y) = trace y /\ script (bump_corr y) = script y.
Proof.
  intros x md x1 r x' t y acks timeout msgs m Hf Hl Ht Hy Hm Hmt.
  change (load_metadata_all x) with (load_metadata [] (C06Extra.reset_st x)) in Hl.
  pose proof (C05_load_metadata_applies_response [] (C06Extra.reset_st x) r x' Hl) as H. rewrite Hf in H.
  destruct H as (Hr & Hu & _).
  split; [exact Hr|]. split; [|split; reflexivity].
  apply C20_produce_call_local_fail. exists m. split; [exact Hm|]. rewrite Hmt.
  rewrite update_metadata_eq in Hu. injection Hu as Hu.
  unfold find_broker, partitions_for. rewrite Hy, <- Hu. unfold upd_fun. cbn [topic_partitions].
  rewrite (topics_fun_unlisted _ t _ _ Ht). reflexivity.
Qed.

(* ---- non-vacuity: the history of the seeded demonstration ------------------------------------------- *)
(* the client knows t: 0 -> b1, 1 -> b2 and u: 0 -> b2, 1 -> b1 (c05x_md of Proofs/C05Extra.v lists t out of
   order).  load_metadata(["t"]) is answered by the bootstrap host with: brokers 1, 2; topic t, error 3
   (UnknownTopicOrPartition), no partitions. *)
Definition c05c_md_bytes : bytes :=
  enc_i32 8
  ++ enc_i32 2 ++ (enc_i32 1 ++ enc_i16 2 ++ tag "b1" ++ enc_i32 9092) ++ (enc_i32 2 ++ enc_i16 2 ++ tag "b2" ++ enc_i32 9092)
  ++ enc_i32 1 ++ (enc_i16 3 ++ enc_i16 1 ++ tag "t" ++ enc_i32 0).
Definition c05c_md : metadata_resp :=
  {| md_corr := 8; md_brokers := [ex_bm 1 (tag "b1") 9092; ex_bm 2 (tag "b2") 9092];
     md_topics := [ {| tm_error := 3; tm_topic := tag "t"; tm_partitions := [] |} ] |}.
Definition c05c_known : cstate :=
  {| correlation := 7; brokers := brokers c05x_s; topic_partitions := topic_partitions c05x_s;
     group_coordinators := [] |}.
Definition c05c_st : st :=
  {| script := [OConn true; OWrote 1000; OData (enc_i32 (ulen c05c_md_bytes)); OData c05c_md_bytes;
                (* what a produce call would get if it did connect and write *)
                OConn true; OWrote 1000];
     trace := []; anyq := []; hostq := []; fetchq := []; entryq := [];
     cl := {| cfg := default_config [tag "boot:9092"]; cs := c05c_known; conns := [] |}; env := c20_env |}.
Definition c05c_after : st := snd (load_metadata [tag "t"] c05c_st).
Definition c05c_batch : list produce_message :=
  [c05x_msg (tag "u") 1 (tag "d0"); c05x_msg (tag "t") 0 (tag "a1"); c05x_msg (tag "u") 1 (tag "d1")].

Example C05_produce_after_topic_reported_unknown_ex :
  (* before the reload the batch is routable: t/0 at b1, u/1 at b2 *)
  find_broker c05c_known (tag "t") 0 = Some (tag "b1:9092")
  /\ option_map (map fst) (produce_reqs c05c_known c05c_batch []) = Some [tag "b2:9092"; tag "b1:9092"]
  (* the reload by name succeeds and decodes the errored entry *)
  /\ (exists x1, fetch_metadata [tag "t"] c05c_st = (Ok c05c_md, x1))
  /\ fst (load_metadata [tag "t"] c05c_st) = Ok tt
  /\ last_topic (md_topics c05c_md) (tag "t") = Some {| tm_error := 3; tm_topic := tag "t"; tm_partitions := [] |}
  (* afterwards: t is known with no partition, u is as before; the produce call is refused and does no I/O *)
  /\ partitions_for (cs (cl c05c_after)) (tag "t") = Some []
  /\ find_broker (cs (cl c05c_after)) (tag "u") 1 = Some (tag "b2:9092")
  /\ internal_produce_messages 1 1500 c05c_batch c05c_after
     = (Err (EKafka KC_UnknownTopicOrPartition), bump_corr c05c_after)
  /\ length (trace (bump_corr c05c_after)) = 4%nat /\ script (bump_corr c05c_after) = [OConn true; OWrote 1000].
Proof. vm_compute. repeat split; try reflexivity. eexists. reflexivity. Qed.

(* a producer whose table still says "t has partitions 0 and 1, both available" (built before the reload),
   one record for u/0 and one for t with an unspecified partition *)
Definition c05c_producer : producer :=
  {| p_client := cl c05c_st; p_parts := producer_state c05c_known; p_cntr := 0; p_ack_timeout := 700; p_acks := -1 |}.
Definition c05c_recs : list record :=
  [ {| r_topic := tag "u"; r_partition := 0; r_key := []; r_value := tag "d0" |};
    {| r_topic := tag "t"; r_partition := -1; r_key := []; r_value := tag "a1" |} ].
Example C05_producer_after_topic_reported_unknown_ex :
  map (fun m => (pq_topic m, pq_partition m)) (fst (partitioned (p_parts c05c_producer) 0 c05c_recs))
  = [(tag "u", 0); (tag "t", 0)]
  /\ option_map (map fst) (fst (send_all_reqs c05c_known (p_parts c05c_producer) 0 c05c_recs []))
     = Some [tag "b1:9092"]
  /\ producer_send_all c05c_producer c05c_recs c05c_after
     = (Err (EKafka KC_UnknownTopicOrPartition), bump_corr c05c_after).
Proof. vm_compute. repeat split; reflexivity. Qed.

(* t deleted, then load_metadata_all answered with brokers 1, 2 and topic u only *)
Definition c05c_all_bytes : bytes :=
  enc_i32 8
  ++ enc_i32 2 ++ (enc_i32 1 ++ enc_i16 2 ++ tag "b1" ++ enc_i32 9092) ++ (enc_i32 2 ++ enc_i16 2 ++ tag "b2" ++ enc_i32 9092)
  ++ enc_i32 1 ++ (enc_i16 0 ++ enc_i16 1 ++ tag "u" ++ enc_i32 1
                   ++ (enc_i16 0 ++ enc_i32 0 ++ enc_i32 2 ++ enc_i32 0 ++ enc_i32 0)).
Definition c05c_st_all : st :=
  {| script := [OConn true; OWrote 1000; OData (enc_i32 (ulen c05c_all_bytes)); OData c05c_all_bytes;
                OConn true; OWrote 1000];
     trace := []; anyq := []; hostq := []; fetchq := []; entryq := [];
     cl := {| cfg := default_config [tag "boot:9092"]; cs := c05c_known; conns := [] |}; env := c20_env |}.
Example C05_produce_after_full_reload_unlisted_ex :
  let x' := snd (load_metadata_all c05c_st_all) in
  fst (load_metadata_all c05c_st_all) = Ok tt
  /\ (exists md x1, fetch_metadata [] (C06Extra.reset_st c05c_st_all) = (Ok md, x1)
                    /\ last_topic (md_topics md) (tag "t") = None /\ map tm_topic (md_topics md) = [tag "u"])
  /\ partitions_for (cs (cl x')) (tag "t") = None
  /\ find_broker (cs (cl x')) (tag "u") 0 = Some (tag "b2:9092")
  /\ internal_produce_messages 1 1500 [c05x_msg (tag "u") 0 (tag "d0"); c05x_msg (tag "t") 0 (tag "a1")] x'
     = (Err (EKafka KC_UnknownTopicOrPartition), bump_corr x')
  /\ script (bump_corr x') = [OConn true; OWrote 1000].
Proof. vm_compute. repeat split; try reflexivity. eexists. eexists. repeat split; reflexivity. Qed.

(* the general count: a topic re-listed with FEWER partitions loses the ones beyond the new count *)
Example C05_listed_topic_partition_count_ex :
  let md := {| md_corr := 1; md_brokers := []; md_topics := [ex_tm (tag "t") [ex_pm 0 2]] |} in
  let s' := ex_load c05x_s md in
  update_metadata c05x_s md = Ok s'
  /\ find_broker c05x_s (tag "t") 1 = Some (tag "b2:9092")
  /\ partitions_for s' (tag "t") = Some [1] /\ find_broker s' (tag "t") 1 = None
  /\ find_broker s' (tag "t") 0 = Some (tag "b2:9092").
Proof. vm_compute. repeat split; reflexivity. Qed.

Check C05_listed_topic_partition_count.
Check C05_unlisted_partition_unroutable.
Check C05_load_metadata_applies_response.
Check C05_route_after_load_metadata.
Check C05_produce_after_topic_reported_unknown.
Check C05_producer_after_topic_reported_unknown.
Check C05_produce_after_full_reload_unlisted.

Print Assumptions C05_listed_topic_partition_count.
Print Assumptions C05_unlisted_partition_unroutable.
Print Assumptions C05_load_metadata_applies_response.
Print Assumptions C05_route_after_load_metadata.
Print Assumptions C05_produce_after_topic_reported_unknown.
Print Assumptions C05_producer_after_topic_reported_unknown.
Print Assumptions C05_produce_after_full_reload_unlisted.
